(* Positions, part 2: from the state arms to process_char and the whole run. *)
From Coq Require Import NArith List Bool Lia.
From GV Require Import Base.Result Gen.TokenTypes Gen.Tokens Model.Lexer Spec.LexSpec
  Proofs.C13.LexBase Proofs.C13.LexInv Proofs.C13.LexRun Proofs.C13.LexPos.
Import ListNotations.
Local Open Scope N_scope.

Section PosRun.
  Variables uni_numeric uni_alnum : N -> bool.
  Notation start_token := (start_token uni_numeric uni_alnum).
  Notation run_arm := (run_arm uni_numeric uni_alnum).
  Notation process_char := (process_char uni_numeric uni_alnum).
  Notation start_new_tail := (start_new_tail uni_numeric uni_alnum).
  Notation run_arm_pos := (run_arm_pos uni_numeric uni_alnum).
  Notation start_token_pos := (start_token_pos uni_numeric uni_alnum).

  (* -------------------------------------------------------------- the tail *)
  Lemma tail_pos : forall l1 c, c <> 12 -> result l1 = None -> st l1 <> SNoToken ->
    match start_new_tail l1 None c with
    | TailEarly _ => True
    | Tail l2 nt2 =>
      result l2 = None ->
      (forall t, nt2 = Some t -> (tok_row t, tok_col t) = sp l1) /\
      (if should_create l1
       then sp l2 = tp l1 /\ tp (advance l2 c) = step_pos (tp l1) c
       else st l2 = SNoToken /\ tp l2 = tp l1)
    end.
  Proof.
    intros l1 c Hff Hres Hst.
    unfold start_new_tail. cbn [st set_can_float].
    rewrite (lstate_eqb_notoken _ Hst). cbn [negb].
    set (l1' := set_can_float l1 (negb (blocks_float (cur_ty l1)))).
    destruct (can_create_valid_token l1') as [e|] eqn:Ecc.
    - cbn [result set_result].
      fold (reset_state (set_result l1' (Some e))).
      destruct (should_create (reset_state (set_result l1' (Some e)))).
      + intros Hr. destruct (start_token_frame uni_numeric uni_alnum (reset_state (set_result l1' (Some e))) c) as (_ & _ & _ & E2).
        apply E2 in Hr. discriminate.
      + cbn. discriminate.
    - cbn [result set_result cur_ty].
      destruct (cur_ty l1') as [ty|] eqn:Ety; [|exact I].
      fold (reset_state (set_result l1' None)).
      set (l3 := reset_state (set_result l1' None)).
      assert (Hsc3 : should_create l3 = should_create l1) by reflexivity.
      rewrite Hsc3. destruct (should_create l1) eqn:Hsc.
      + intros Hr. split; [intros t Ht; inversion Ht; reflexivity|].
        destruct (start_token_pos l3 c Hff Hr) as [A B]. split; [exact A | exact B].
      + intros _. split; [intros t Ht; inversion Ht; reflexivity|]. split; reflexivity.
  Qed.

  Lemma advance_notoken : forall l c, st l = SNoToken ->
    tp (advance l c) = if c =? 10 then tp l else (text_row l, text_col l + 1).
  Proof.
    intros l c H. unfold advance. change ch_lf with 10. destruct (c =? 10); cbn; [rewrite H|]; reflexivity.
  Qed.

  (* ------------------------------------------------------------ the invariant *)
  Definition Pos (l : lexer) (pre : list N) : Prop :=
    tp l = position_of (pre ++ cur l) /\ (st l <> SNoToken -> sp l = position_of pre).

  Lemma advance_sp : forall l c, sp (advance l c) = sp l.
  Proof.
    intros l c. destruct (advance_frame l c) as (_ & _ & _ & _ & _ & _ & A & B). unfold sp. rewrite A, B. reflexivity.
  Qed.

  Lemma lstate_eqb_true : forall s, lstate_eqb s SNoToken = true -> s = SNoToken.
  Proof. intros [] H; try discriminate; reflexivity. Qed.

  Lemma process_char_pos : forall l c pre l' ot, WF l -> result l = None -> ~ sentinel l c ->
    c <> 12 -> c <> 13 -> Pos l pre ->
    process_char l c = Ok (l', ot) -> result l' = None ->
    Pos l' (pre ++ otext ot) /\ (forall t, ot = Some t -> (tok_row t, tok_col t) = position_of pre).
  Proof.
    intros l c pre l' ot Hwf Hres Hs Hff Hcr [Htp Hsp] Hpc Hr'.
    pose proof (run_arm_real uni_numeric uni_alnum l c Hwf Hres Hs) as Hok.
    pose proof (run_arm_pos l c Hwf Hff Hcr) as Hpos.
    assert (Hnt0 : st l = SNoToken -> exists l1, run_arm l c = Arm l1 None false).
    { intros E. unfold run_arm. rewrite E. eexists; reflexivity. }
    assert (Hstep : step_pos (tp l) c = position_of ((pre ++ cur l) ++ [c])).
    { rewrite position_of_snoc, Htp. reflexivity. }
    unfold process_char in Hpc.
    destruct (run_arm l c) as [l1 nt sn | l1 | site]; cbn [arm_ok arm_pos] in Hok, Hpos.
    - destruct sn.
      + (* a token ends *)
        destruct Hok as (Hae & Hr1 & Hnt & Hst1 & Hne1 & Hcase). subst nt.
        destruct Hpos as [Hsp1 Htp1].
        assert (Hstl : st l <> SNoToken).
        { intros E. destruct (Hnt0 E) as [x Hx]. discriminate. }
        pose proof (tail_pos l1 c Hff Hr1 Hst1) as Ht.
        pose proof (tail_real uni_numeric uni_alnum l l1 c Hs Hae Hr1 Hst1 Hne1 Hcase) as Ht2.
        destruct (start_new_tail l1 None c) as [l2 nt2 | l2]; [|inversion Hpc; subst; destruct Ht2; congruence].
        inversion Hpc; subst l' ot. clear Hpc.
        destruct (advance_frame l2 c) as (Ec & Es & Er & _).
        rewrite Er in Hr'. destruct Ht2 as [_ Ht2]. destruct (Ht2 Hr') as (_ & _ & t & Hnt2 & Htxt & Hcat).
        destruct (Ht Hr') as [Htok Hrest]. subst nt2. cbn [otext].
        assert (Hall : (pre ++ tok_text t) ++ cur l2 = (pre ++ cur l) ++ [c]).
        { rewrite Htxt, <- !app_assoc, Hcat. reflexivity. }
        split.
        * unfold Pos. rewrite Ec, Es, advance_sp, Hall, <- Hstep.
          destruct Hcase as [[Hsc Hcur]|[Hsc Hcur]]; rewrite Hsc in Hrest, Htp1.
          -- destruct Hrest as [A B]. split.
             ++ rewrite B, Htp1. reflexivity.
             ++ intros _. rewrite A, Htp1, Htp, Htxt, Hcur. reflexivity.
          -- destruct Hrest as [A B]. split; [|intros; congruence].
             rewrite (advance_notoken l2 c A). unfold step_pos.
             destruct (c =? 10) eqn:E10.
             ++ rewrite B, Htp1. reflexivity.
             ++ assert (Hb : tp l2 = tp l) by (rewrite B, Htp1; reflexivity).
                unfold tp in Hb. inversion Hb. unfold tp. cbn [fst snd]. congruence.
        * intros t' Ht'. inversion Ht'; subst t'. rewrite (Htok t eq_refl), Hsp1. apply Hsp. exact Hstl.
      + (* the token continues, a token starts, or the float/range split *)
        inversion Hpc; subst l' ot. clear Hpc.
        destruct (advance_frame l1 c) as (Ec & Es & Er & _). rewrite Er in Hr'.
        destruct Hok as [Hae Hok]. destruct (Hok Hr') as (Hcat & Hne & Hwf1 & _).
        destruct (Hpos Hr') as [Htp1 Hcase].
        assert (Hall : (pre ++ otext nt) ++ cur l1 = (pre ++ cur l) ++ [c]).
        { rewrite <- !app_assoc, Hcat. reflexivity. }
        split.
        * unfold Pos. rewrite Ec, Es, advance_sp, Hall, <- Hstep. split; [exact Htp1|].
          intros Hst1. destruct nt as [t|]; cbn [otext].
          -- destruct Hcase as (_ & Hsp1 & Hc & Hstl & Hcur).
             rewrite Hsp1. rewrite Hcur in Htp. rewrite app_assoc, position_of_snoc in Htp.
             destruct (position_of (pre ++ tok_text t)) as [r k]. unfold step_pos, tp in Htp. cbn in Htp.
             inversion Htp. f_equal. lia.
          -- rewrite app_nil_r. destruct (lstate_eqb (st l) SNoToken) eqn:El.
             ++ apply lstate_eqb_true in El. destruct Hwf as [[W1 _ _ _ _] _].
                rewrite Hcase, Htp, (W1 El), app_nil_r. reflexivity.
             ++ rewrite Hcase. apply Hsp. intros E. rewrite E in El. discriminate.
        * intros t Ht. subst nt. destruct Hcase as (Htok & _ & _ & Hstl & _). rewrite Htok. apply Hsp. exact Hstl.
    - inversion Hpc; subst. destruct Hok. congruence.
    - destruct Hok.
  Qed.

  (* the token emitted by the end-of-input flush *)
  Lemma process_char_flush_pos : forall l pre l' t, WF l -> result l = None -> at_end l = true ->
    Pos l pre -> process_char l 0 = Ok (l', Some t) -> result l' = None ->
    (tok_row t, tok_col t) = position_of pre.
  Proof.
    intros l pre l' t Hwf Hres Hae [Htp Hsp] Hpc Hr'.
    pose proof (run_arm_flush uni_numeric uni_alnum l Hwf Hres Hae) as Hok.
    pose proof (run_arm_pos l 0 Hwf ltac:(discriminate) ltac:(discriminate)) as Hpos.
    unfold process_char in Hpc.
    destruct (run_arm l 0) as [l1 nt sn | l1 | site]; cbn [arm_ok_flush arm_pos] in Hok, Hpos.
    - destruct sn.
      + destruct Hok as (Hae1 & Hr1 & Hnt & Hst1 & Hcur & Hne & Hsc1). subst nt.
        destruct Hpos as [Hsp1 _].
        pose proof (tail_pos l1 0 ltac:(discriminate) Hr1 Hst1) as Ht.
        destruct (start_new_tail l1 None 0) as [l2 nt2 | l2]; [|discriminate].
        inversion Hpc; subst l' nt2. clear Hpc.
        destruct (advance_frame l2 0) as (_ & _ & Er & _). rewrite Er in Hr'.
        destruct (Ht Hr') as [Htok _]. rewrite (Htok t eq_refl), Hsp1. apply Hsp.
        intros E. destruct Hwf as [[W1 _ _ _ _] _]. apply Hne. apply W1. exact E.
      + inversion Hpc; subst l' nt. clear Hpc.
        destruct (advance_frame l1 0) as (_ & _ & Er & _). rewrite Er in Hr'.
        destruct Hok as [_ Hok]. destruct (Hok Hr') as [Hnt _]. discriminate.
    - discriminate.
    - discriminate.
  Qed.

  Definition no_cr_ff (s : list N) : Prop := ~ In 13 s /\ ~ In 12 s.

  Lemma no_cr_ff_cons : forall c s, no_cr_ff (c :: s) -> c <> 12 /\ c <> 13 /\ no_cr_ff s.
  Proof.
    intros c s [H1 H2]. repeat split.
    - intros E. apply H2. left. auto.
    - intros E. apply H1. left. auto.
    - intros H. apply H1. right. exact H.
    - intros H. apply H2. right. exact H.
  Qed.

  Notation internal_next_loop := (internal_next_loop uni_numeric uni_alnum).
  Notation lex_loop := (lex_loop uni_numeric uni_alnum).

  Lemma internal_next_loop_pos : forall s l pre l' s' ot, WF l -> result l = None -> at_end l = false ->
    Pos l pre -> no_cr_ff s ->
    internal_next_loop l s = Ok (l', s', ot) -> result l' = None ->
    no_cr_ff s' /\
    match ot with
    | Some t => (tok_row t, tok_col t) = position_of pre /\ (at_end l' = false -> Pos l' (pre ++ tok_text t))
    | None => True
    end.
  Proof.
    induction s as [|c rest IH]; intros l pre l' s' ot Hwf Hres Hae Hpos Hno Hrun Hr'.
    - cbn [internal_next_loop] in Hrun.
      assert (Hwf0 : WF (set_at_end l true)) by (apply WF_set_at_end; exact Hwf).
      assert (Hpos0 : Pos (set_at_end l true) pre) by exact Hpos.
      destruct (process_char (set_at_end l true) ch_nul) as [[l1 [t|]]| | |] eqn:Hpc; try discriminate.
      + inversion Hrun; subst l' s' ot. split; [exact Hno|]. split.
        * eapply process_char_flush_pos; eauto.
        * intros Hf. exfalso.
          destruct (process_char_flush uni_numeric uni_alnum (set_at_end l true) Hwf0 Hres eq_refl)
            as (l2 & ot2 & Hpc2 & Hae2 & _).
          change ch_nul with 0 in Hpc. rewrite Hpc in Hpc2. inversion Hpc2; subst. congruence.
      + inversion Hrun; subst s' ot. split; [exact Hno | exact I].
    - cbn [internal_next_loop] in Hrun.
      destruct (no_cr_ff_cons c rest Hno) as (Hff & Hcr & Hno').
      assert (Hs : ~ sentinel l c) by (intros [_ H]; congruence).
      destruct (process_char_real uni_numeric uni_alnum l c Hwf Hres Hs) as (l1 & ot1 & Hpc & Hae1 & Hspec).
      rewrite Hpc in Hrun. destruct ot1 as [t|].
      + inversion Hrun; subst l' s' ot. split; [exact Hno'|].
        destruct (process_char_pos l c pre l1 (Some t) Hwf Hres Hs Hff Hcr Hpos Hpc Hr') as [P1 P2].
        split; [apply P2; reflexivity|]. intros _. exact P1.
      + destruct (result l1) eqn:Hr1; cbn [is_err] in Hrun.
        * inversion Hrun; subst. congruence.
        * destruct (Hspec eq_refl) as (Hwf1 & _ & _).
          destruct (process_char_pos l c pre l1 None Hwf Hres Hs Hff Hcr Hpos Hpc Hr1) as [P1 _].
          cbn [otext] in P1. rewrite app_nil_r in P1.
          eapply (IH l1 pre); eauto; congruence.
  Qed.

  (* positions of a token list whose first token starts after the prefix [p] *)
  Fixpoint positions_from (p : list N) (ts : list token) : Prop :=
    match ts with
    | [] => True
    | t :: r => (tok_row t, tok_col t) = position_of p /\ positions_from (p ++ tok_text t) r
    end.

  Lemma positions_from_snoc : forall a p t,
    positions_from p a -> (tok_row t, tok_col t) = position_of (p ++ texts a) ->
    positions_from p (a ++ [t]).
  Proof.
    induction a as [|x a IH]; intros p t Ha Ht; cbn [app positions_from].
    - unfold texts in Ht. cbn in Ht. rewrite app_nil_r in Ht. split; [exact Ht | exact I].
    - destruct Ha as [H1 H2]. split; [exact H1|]. apply IH; [exact H2|].
      rewrite <- app_assoc. exact Ht.
  Qed.

  Lemma positions_from_exact : forall ts, positions_from [] ts -> positions_exact ts.
  Proof.
    intros ts H pre t post E. subst ts.
    assert (G : forall pre p, positions_from p (pre ++ t :: post) ->
                (tok_row t, tok_col t) = position_of (p ++ texts pre)).
    { clear. induction pre as [|x pre IH]; intros p Hp; cbn [app positions_from] in Hp.
      - destruct Hp as [Hp _]. unfold texts. cbn. rewrite app_nil_r. exact Hp.
      - destruct Hp as [_ Hp]. apply IH in Hp. rewrite <- app_assoc in Hp. exact Hp. }
    apply (G pre [] H).
  Qed.

  Lemma lex_loop_pos : forall fuel s l acc ts, WF l -> result l = None -> at_end l = false ->
    Pos l (texts acc) -> no_cr_ff s -> positions_from [] acc ->
    lex_loop fuel l s acc = LOk ts -> positions_from [] ts.
  Proof.
    induction fuel as [|f IH]; intros s l acc ts Hwf Hres Hae Hpos Hno Hacc Hrun; [discriminate|].
    cbn [lex_loop] in Hrun. unfold internal_next in Hrun. rewrite Hres in Hrun. cbn [is_err] in Hrun.
    destruct (internal_next_loop_spec uni_numeric uni_alnum s l Hwf Hres Hae) as (l1 & s1 & ot & Hnext & Hlen & Hok).
    rewrite Hnext in Hrun. destruct ot as [t|].
    - destruct (result l1) eqn:Hr1; [discriminate|].
      destruct (Hok eq_refl) as (Hne & Hcat & Hwf1 & Hcase).
      destruct (internal_next_loop_pos s l (texts acc) l1 s1 (Some t) Hwf Hres Hae Hpos Hno Hnext Hr1) as (Hno1 & Htok & Hpos1).
      assert (Hacc1 : positions_from [] (acc ++ [t])) by (apply positions_from_snoc; assumption).
      destruct Hcase as [[Hae1 _]|(Hae1 & Hs1 & Hst1 & Hc1)].
      + eapply (IH s1 l1 (acc ++ [t])); eauto. rewrite texts_app, texts_single. apply Hpos1. exact Hae1.
      + subst s1. destruct f as [|f']; [discriminate|].
        rewrite (lex_loop_after_flush uni_numeric uni_alnum f' l1 (acc ++ [t]) Hwf1 Hr1 Hae1 Hst1) in Hrun.
        inversion Hrun; subst. exact Hacc1.
    - destruct (result l1); [discriminate|]. inversion Hrun; subst. exact Hacc.
  Qed.

  Theorem lex_positions_exact : forall s ts,
    lex uni_numeric uni_alnum s = Ok ts -> no_cr s -> no_ff s -> positions_exact ts.
  Proof.
    intros s ts H Hcr Hff. unfold lex in H.
    destruct (lex_run uni_numeric uni_alnum s) as [ts'| | |] eqn:Hrun; try discriminate.
    inversion H; subst ts'. apply positions_from_exact.
    unfold lex_run in Hrun.
    eapply (lex_loop_pos _ s init_lexer []); eauto using WF_init.
    - split; [reflexivity | intros E; exfalso; apply E; reflexivity].
    - split; assumption.
    - exact I.
  Qed.
End PosRun.
