"""Reports (by raising) the per-function problems tools/sync/dispatch.py met while it still wrote
Gen/Dispatch.v: a dispatch function or op function it does not understand has an empty arm list /
ShUnknown there, which breaks the tie for C08 (but not for C10, which does not use those tables).
Generates nothing."""
from . import dispatch


def generate():
    dispatch.analyse_all()
    if dispatch.ERRORS:
        raise ValueError("; ".join("%s: %s" % kv for kv in sorted(dispatch.ERRORS.items())))
    return {}
