(* Combination: the gap may follow ANY prefix of at most six tokens over the block
   alphabet (side-effect blocks included), whatever comes after the gap. *)
From Coq Require Import List Arith Bool NArith Lia.
From GV Require Import Base.Result Gen.TokenTypes Gen.Defs Model.Parser Spec.Layout Spec.LayoutSim
  Proofs.C03.Bounded4 Proofs.C18.Main Proofs.C18.SettledBounded Proofs.C18.Insert.
Import ListNotations.

Lemma drop_while_trim_suffix l : exists a, l = a ++ drop_while_trim l.
Proof.
  induction l as [|t r [a IH]]; [exists []; reflexivity|].
  cbn [drop_while_trim]. destruct (is_trim t).
  - exists (t :: a). cbn [app]. f_equal. exact IH.
  - exists []. reflexivity.
Qed.

Theorem trivia_runs_equivalent_prefix_6_block pre post :
  length pre <= 6 -> (forall t, In t pre -> In t block_alphabet) ->
  has_sig pre = true -> has_sig post = true -> trivia_runs_equivalent_at pre post.
Proof.
  intros Hl Hin Hp Hq. apply trivia_runs_equivalent; [exact Hp|exact Hq|].
  destruct (drop_while_trim_suffix pre) as [a Ha].
  apply settled_after_bounded_6_block.
  - rewrite Ha, app_length in Hl. lia.
  - intros t Ht. apply Hin. rewrite Ha. apply in_or_app. right. exact Ht.
Qed.

Theorem trivia_runs_equivalent_prefix_4_rep pre post :
  length pre <= 4 -> (forall t, In t pre -> In t rep_alphabet) ->
  has_sig pre = true -> has_sig post = true -> trivia_runs_equivalent_at pre post.
Proof.
  intros Hl Hin Hp Hq. apply trivia_runs_equivalent; [exact Hp|exact Hq|].
  destruct (drop_while_trim_suffix pre) as [a Ha].
  apply settled_after_bounded_4_rep.
  - rewrite Ha, app_length in Hl. lia.
  - intros t Ht. apply Hin. rewrite Ha. apply in_or_app. right. exact Ht.
Qed.

Theorem annotation_insert_prefix_6_block pre post a t :
  length pre <= 6 -> (forall x, In x pre -> In x block_alphabet) ->
  has_sig pre = true -> has_sig post = true -> is_annotation_tok a = true ->
  parse_tree (pre ++ post) = Some t -> parse_tree (pre ++ [a] ++ post) = Some t.
Proof.
  intros Hl Hin Hp Hq. apply annotation_insert; [exact Hp|exact Hq|].
  destruct (drop_while_trim_suffix pre) as [b Hb].
  apply settled_after_bounded_6_block.
  - rewrite Hb, app_length in Hl. lia.
  - intros x Hx. apply Hin. rewrite Hb. apply in_or_app. right. exact Hx.
Qed.
