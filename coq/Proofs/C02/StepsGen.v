(* (b) continued: the loop state of parse() as a spine-machine state, and every kind of
   loop iteration that occurs in an operator expression as a transition of the machine. *)
From Coq Require Import List Arith Bool NArith Lia.
From GV Require Import Base.Result Gen.TokenTypes Gen.Defs Model.Parser Spec.RefTable Spec.Pratt Spec.Chains
  Proofs.C02.Denote Proofs.C02.Invariant Proofs.C02.Steps Proofs.C02.Struct Proofs.C02.Unfold.
Import ListNotations.

(* ---- open brackets: the parser's group stack ---- *)
Fixpoint group_ids (fs : list frame) : list nat :=
  match fs with
  | [] => []
  | FGroup _ i _ :: r => i :: group_ids r
  | _ :: r => group_ids r
  end.

(* the kinds of the open brackets, innermost first *)
Fixpoint group_kinds (fs : list frame) : list bkind :=
  match fs with
  | [] => []
  | FGroup b _ _ :: r => b :: group_kinds r
  | _ :: r => group_kinds r
  end.

Definition cg_of (n : nat) : option nat := match n with O => None | S k => Some k end.

Definition gstack (ids : list nat) : list (nat * bool) := rev (map (fun g => (g, false)) ids).

Definition groups_ok (st : pstate) (fs : list frame) : Prop :=
  group_stack st = gstack (group_ids fs) /\ current_group st = cg_of (length (group_ids fs)).

Lemma gstack_length ids : length (gstack ids) = length ids.
Proof. unfold gstack. rewrite rev_length, map_length. reflexivity. Qed.

Lemma first_group_ids fs : first_group fs = hd_error (group_ids fs).
Proof. induction fs as [|f r IH]; [reflexivity|]. destruct f; simpl; auto. Qed.

Lemma groups_under st fs : groups_ok st fs -> under_group_of st = Ok (first_group fs).
Proof.
  intros [Hgs Hcg]. unfold under_group_of. rewrite Hgs, Hcg, first_group_ids.
  destruct (group_ids fs) as [|g l]; [reflexivity|]. cbn [length cg_of hd_error].
  unfold gstack. cbn [map rev]. rewrite nth_error_app2 by (rewrite rev_length, map_length; lia).
  rewrite rev_length, map_length, Nat.sub_diag. reflexivity.
Qed.

Lemma pop_group_ids d fs t fs' t' : pop d fs t = (fs', t') -> group_ids fs' = group_ids fs.
Proof.
  revert t. induction fs as [|f r IH]; intros t H; cbn [pop] in H.
  - injection H as <- <-. reflexivity.
  - destruct (stays_below d f) eqn:E.
    + injection H as <- <-. reflexivity.
    + rewrite (IH _ H). destruct f; try reflexivity. discriminate E.
Qed.

Lemma close_group_ids b : forall fs t fs' t', close_group b fs t = Some (fs', t') ->
  group_ids fs = nid t' :: group_ids fs'.
Proof.
  induction fs as [|f r IH]; intros t fs' t' H; [discriminate|].
  destruct f as [i d k l|i d k|b0 i k]; cbn [close_group group_ids] in *.
  - eapply IH; eauto.
  - eapply IH; eauto.
  - destruct (bkind_eqb b0 b); [|discriminate H]. injection H as <- <-. reflexivity.
Qed.

Lemma pop_group_kinds d fs t fs' t' : pop d fs t = (fs', t') -> group_kinds fs' = group_kinds fs.
Proof.
  revert t. induction fs as [|f r IH]; intros t H; cbn [pop] in H.
  - injection H as <- <-. reflexivity.
  - destruct (stays_below d f) eqn:E.
    + injection H as <- <-. reflexivity.
    + rewrite (IH _ H). destruct f; try reflexivity. discriminate E.
Qed.

Lemma close_group_kinds b : forall fs t bs, group_kinds fs = b :: bs ->
  exists fs' t', close_group b fs t = Some (fs', t') /\ group_kinds fs' = bs.
Proof.
  induction fs as [|f r IH]; intros t bs H; [discriminate H|].
  destruct f as [i d k l|i d k|b0 i k]; cbn [close_group group_kinds] in *.
  - apply IH. exact H.
  - apply IH. exact H.
  - injection H as -> <-. destruct b; cbn [bkind_eqb]; eexists _, _; split; reflexivity.
Qed.

Lemma group_kinds_nil fs : group_kinds fs = [] -> group_ids fs = [].
Proof. induction fs as [|f r IH]; [reflexivity|]. destruct f; simpl; auto. discriminate. Qed.

Lemma removelast_pair_snoc {A} (l : list A) x : removelast_pair (l ++ [x]) = Some (l, x).
Proof.
  induction l as [|a r IH]; [reflexivity|]. cbn [app removelast_pair]. rewrite IH.
  destruct r; reflexivity.
Qed.

Lemma groups_ok_same st st' fs fs' :
  group_stack st' = group_stack st -> current_group st' = current_group st ->
  group_ids fs' = group_ids fs -> groups_ok st fs -> groups_ok st' fs'.
Proof. intros H1 H2 H3 [G1 G2]. split; [rewrite H1, H3; exact G1|rewrite H2, H3; exact G2]. Qed.

(* ---- the loop state, with the whitespace mode ---- *)
Definition compl_mode (sp : bool) (st : pstate) : Prop :=
  ends_value (prev_sig st) = true /\
  if sp then check_for_list st = true /\ separated st = true /\ prev_sec st = S_Whitespace
  else check_for_list st = false /\ separated st = false /\ ends_value (prev_sec st) = true.

Definition pend_mode (sp : bool) (st : pstate) : Prop :=
  check_for_list st = false /\ pending_prev (prev_sig st) /\
  if sp then separated st = true /\ prev_sec st = S_Whitespace
  else separated st = false /\ pending_prev (prev_sec st).

Record gpend (st : pstate) (fs : list frame) (sp : bool) : Prop := mkGP {
  gp_struct : pstruct (nodes st) fs;
  gp_ll : last_left st = top_id fs;
  gp_np : next_parent st = top_id fs;
  gp_groups : groups_ok st fs;
  gp_nll : next_last_left st = None;
  gp_mode : pend_mode sp st
}.

Record gcompl (st : pstate) (fs : list frame) (t : ntree) (sp : bool) : Prop := mkGC {
  gc_struct : cstruct (nodes st) fs t;
  gc_ll : last_left st = Some (nid t);
  gc_groups : groups_ok st fs;
  gc_nll : next_last_left st = None;
  gc_mode : compl_mode sp st
}.

Lemma init_gpend : gpend init_state [] false.
Proof.
  constructor; simpl; auto; [exact pstruct_init|split; reflexivity|].
  split; [reflexivity|]. split; [left; reflexivity|]. split; [reflexivity|left; reflexivity].
Qed.

(* the node last_left points at after a completed operand *)
Lemma gcompl_root st fs t sp : gcompl st fs t sp ->
  exists ln, nth_error (nodes st) (nid t) = Some ln /\ calm_def (n_def ln) = true /\
             opt_nat_eqb (n_right ln) (Some (length (nodes st))) = false /\
             secondary_eqb (n_sec ln) S_Subexpression = false.
Proof.
  intros G. destruct (gc_struct _ _ _ _ G) as [[_ D _ O] Cl _ _ _].
  destruct (closed_operand_root _ _ _ D Cl) as (ln & Hln & Hc). exists ln. split; [exact Hln|]. split; [exact Hc|].
  destruct t as [i d k|i d k a|i d k a|i d k l r|b i k a]; simpl in Cl; try contradiction;
    simpl in D; destruct D as (n & Hn & A); cbn [nid] in Hln; rewrite Hn in Hln; injection Hln as <-.
  - destruct A as (A1 & _ & _ & _ & _ & -> & _). split; [reflexivity|]. destruct (n_sec n); try discriminate A1; reflexivity.
  - destruct A as (A1 & _ & _ & _ & -> & _). split; [reflexivity|]. rewrite A1. reflexivity.
  - destruct A as (A1 & _ & _ & _ & -> & _ & A7). split; [|rewrite A1; reflexivity].
    apply opt_nat_eqb_some_neq. pose proof (denotes_lt _ _ _ _ A7 (has_id_root a)). lia.
Qed.

Lemma gcompl_adj st fs t sp : gcompl st fs t sp -> adj_ok (nodes st) (last_left st).
Proof.
  intros G. right. rewrite (gc_ll _ _ _ _ G). destruct (gcompl_root _ _ _ _ G) as (ln & Hln & Hc & _ & _).
  exists (nid t), ln. split; [reflexivity|]. split; [exact Hln|]. apply (calm_facts _ Hc).
Qed.

Lemma gpend_adj st fs sp : gpend st fs sp -> adj_ok (nodes st) (last_left st).
Proof.
  intros G. rewrite (gp_ll _ _ _ G). destruct (gp_struct _ _ _ G) as [Sp _ _ _ FO].
  destruct fs as [|f r]; [left; reflexivity|right].
  simpl in Sp. destruct Sp as [S1 _]. destruct (frame_node_walk _ _ _ _ S1) as (nf & Hnf & Hdf & _).
  exists (frame_id f), nf. split; [reflexivity|]. split; [exact Hnf|]. rewrite Hdf.
  destruct f as [i d k l|i d k|b i k]; [| |destruct b; reflexivity];
    destruct (frame_def_facts _ (FO _ (or_introl eq_refl) eq_refl)) as (their & q & _ & _ & _ & Hse & _); exact Hse.
Qed.

(* forbidden-composition facts for the modes *)
Definition closes_operand (sec : secondary) : Prop :=
  is_bin_sec sec = true \/ sec = S_UnarySuffix \/ sec = S_EndGrouping.
Definition starts_operand (sec : secondary) : Prop :=
  is_atom_sec sec = true \/ sec = S_UnaryPrefix \/ sec = S_StartGrouping.

Lemma forb_compl_op sp st sec :
  compl_mode sp st -> closes_operand sec ->
  forbidden (prev_sec st) sec (check_for_list st) = false /\
  separated st && forbidden_separated (prev_sig st) sec (check_for_list st) = false.
Proof.
  intros [Hsig M] Hsec. destruct sp.
  - destruct M as (-> & -> & ->).
    split; [destruct Hsec as [Hs|[->| ->]]; [destruct sec; try discriminate; reflexivity|reflexivity|reflexivity]|].
    cbn [andb]. destruct (prev_sig st); try discriminate;
      (destruct Hsec as [Hs|[->| ->]]; [destruct sec; try discriminate; reflexivity|reflexivity|reflexivity]).
  - destruct M as (-> & -> & Hp). split; [|reflexivity].
    destruct (prev_sec st); try discriminate;
      (destruct Hsec as [Hs|[->| ->]]; [destruct sec; try discriminate; reflexivity|reflexivity|reflexivity]).
Qed.

Lemma forb_pending_prev ps sec : pending_prev ps -> starts_operand sec -> forbidden ps sec false = false.
Proof.
  intros Hp Hsec. destruct Hp as [->|[Hb|[->|[->| ->]]]].
  - destruct Hsec as [Hs|[->| ->]]; [destruct sec; try discriminate; reflexivity|reflexivity|reflexivity].
  - destruct ps; try discriminate;
      (destruct Hsec as [Hs|[->| ->]]; [destruct sec; try discriminate; reflexivity|reflexivity|reflexivity]).
  - destruct Hsec as [Hs|[->| ->]]; [destruct sec; try discriminate; reflexivity|reflexivity|reflexivity].
  - destruct Hsec as [Hs|[->| ->]]; [destruct sec; try discriminate; reflexivity|reflexivity|reflexivity].
  - destruct Hsec as [Hs|[->| ->]]; [destruct sec; try discriminate; reflexivity|reflexivity|reflexivity].
Qed.

Lemma forb_compl_sep sp st :
  compl_mode sp st ->
  forbidden (prev_sec st) S_Subexpression (check_for_list st) = false /\
  separated st && forbidden_separated (prev_sig st) S_Subexpression (check_for_list st) = false.
Proof.
  intros [Hsig M]. destruct sp.
  - destruct M as (-> & -> & ->). split; [reflexivity|]. cbn [andb]. destruct (prev_sig st); try discriminate; reflexivity.
  - destruct M as (-> & -> & Hp). split; [|reflexivity]. destruct (prev_sec st); try discriminate; reflexivity.
Qed.

Lemma forb_pend_start sp st sec :
  pend_mode sp st -> starts_operand sec ->
  forbidden (prev_sec st) sec false = false /\
  separated st && forbidden_separated (prev_sig st) sec false = false.
Proof.
  intros (Hcfl & Hsig & M) Hsec. destruct sp.
  - destruct M as (-> & ->).
    split; [destruct Hsec as [Hs|[->| ->]]; [destruct sec; try discriminate; reflexivity|reflexivity|reflexivity]|].
    cbn [andb]. unfold forbidden_separated. rewrite andb_false_r. apply forb_pending_prev; assumption.
  - destruct M as (-> & Hp). split; [|reflexivity]. apply forb_pending_prev; assumption.
Qed.

Lemma forb_compl_list st sec :
  compl_mode true st -> starts_operand sec ->
  forbidden (prev_sec st) sec true = false /\
  separated st && forbidden_separated (prev_sig st) sec true = false.
Proof.
  intros [Hsig (Hc & -> & ->)] Hsec.
  split; [destruct Hsec as [Hs|[->| ->]]; [destruct sec; try discriminate; reflexivity|reflexivity|reflexivity]|].
  cbn [andb]. destruct (prev_sig st); try discriminate;
    (destruct Hsec as [Hs|[->| ->]]; [destruct sec; try discriminate; reflexivity|reflexivity|reflexivity]).
Qed.

(* ---- the transitions ---- *)
Lemma atom_def_store d ns fs c :
  spine ns fs c -> (definition_eqb d D_Identifier = false \/ d = D_Identifier) ->
  atom_def d (top_id fs) ns = atom_store d fs.
Proof.
  intros Sp Hident. unfold atom_def, atom_store. destruct Hident as [E|E]; [rewrite E; reflexivity|].
  rewrite E. cbn [definition_eqb definition_index N.eqb Pos.eqb].
  destruct fs as [|f r]; [reflexivity|]. simpl in Sp. destruct Sp as [S1 _].
  destruct (frame_node_walk _ _ _ _ S1) as (nf & Hnf & Hdf & _). cbn [top_id]. rewrite Hnf, Hdf. reflexivity.
Qed.

Lemma atom_store_prio d fs : priority d = Some 10%N -> priority (atom_store d fs) = Some 10%N.
Proof.
  intros H. unfold atom_store. destruct (definition_eqb d D_Identifier); [|exact H].
  destruct fs as [|f r]; [exact H|]. destruct (definition_eqb (frame_def f) D_Access); [reflexivity|exact H].
Qed.

Lemma atom_node_of_value tok sec ns fs c i :
  is_atom_sec sec = true -> priority (ref_def tok) = Some 10%N -> spine ns fs c ->
  (definition_eqb (ref_def tok) D_Identifier = false \/ ref_def tok = D_Identifier) ->
  atom_node (mkNode (atom_def (ref_def tok) (top_id fs) ns) sec (top_id fs) None None (Some i))
            (atom_store (ref_def tok) fs) i (top_id fs).
Proof.
  intros Hs Hprio Sp Hident. rewrite (atom_def_store _ _ _ _ Sp Hident).
  unfold atom_node. cbn [n_sec n_def n_parent n_left n_right n_tok].
  repeat split; auto. apply atom_store_prio. exact Hprio.
Qed.

(* whitespace after a completed operand: the implicit list becomes possible *)
Theorem gstep_ws_compl ntoks i st fs t sp :
  gcompl st fs t sp ->
  exists st', step ntoks i TT_Whitespace st = Ok st' /\ gcompl st' fs t true /\ nodes st' = nodes st.
Proof.
  intros G. pose proof (gcompl_adj _ _ _ _ G) as Hadj.
  destruct G as [CS Hll Hgr Hnll [Hsig M]].
  rewrite (step_ws_unfold ntoks i st _ (groups_under _ _ Hgr) Hadj).
  assert (Hslc : space_list_check st (first_group fs) = Ok true).
  { destruct (closed_operand_root _ _ _ (lk_den _ _ _ (cs_linked _ _ _ CS)) (cs_closed _ _ _ CS)) as (ln & Hln & Hcalm).
    destruct (calm_facts _ Hcalm) as (Hse & _).
    destruct CS as [[Sp D F O] Cl _ _ _].
    apply (slc_operand st _ (nid t) ln Hll Hln Hse).
    destruct t as [j d k|j d k a|j d k a|j d k l r|b j k a]; simpl in Cl; try contradiction;
      simpl in D; destruct D as (n & Hn & A); cbn [nid] in Hln; rewrite Hn in Hln; injection Hln as <-.
    - left. destruct A as (_ & _ & A3 & _). apply prio10_value_like. exact A3.
    - right. left. apply A.
    - right. right. destruct A as (_ & A2 & _). exists b. split; [exact A2|]. cbn [nid].
      destruct (first_group fs) as [g|] eqn:Eg; [|reflexivity]. apply opt_nat_eqb_some_neq.
      pose proof (frames_have_lt _ _ _ F (first_group_has _ _ Eg)) as R. simpl in R. lia. }
  rewrite Hslc. cbn [bind]. rewrite Hll. eexists. split; [reflexivity|]. split; [|reflexivity].
  constructor; cbn [nodes last_left next_last_left];
    [exact CS|reflexivity|eapply groups_ok_same; [| | |exact Hgr]; reflexivity|reflexivity|].
  unfold compl_mode. cbn [prev_sig check_for_list separated prev_sec]. auto.
Qed.

(* whitespace while an operand is expected: nothing changes *)
Theorem gstep_ws_pend ntoks i st fs sp :
  gpend st fs sp ->
  exists st', step ntoks i TT_Whitespace st = Ok st' /\ gpend st' fs true /\ nodes st' = nodes st.
Proof.
  intros G. pose proof (gpend_adj _ _ _ G) as Hadj.
  destruct G as [PS Hll Hnp Hgr Hnll (Hcfl & Hsig & M)].
  rewrite (step_ws_unfold ntoks i st _ (groups_under _ _ Hgr) Hadj).
  assert (Hslc : space_list_check st (first_group fs) = Ok false).
  { destruct PS as [Sp _ _ _ FO].
    destruct fs as [|f r]; [rewrite (slc_none st _ Hll), Hcfl; reflexivity|]. cbn [top_id] in Hll.
    simpl in Sp. destruct Sp as [S1 _].
    destruct (frame_node_walk _ _ _ _ S1) as (nf & Hnf & Hdf & _ & _ & Hsf).
    apply (slc_frame st _ (frame_id f) nf Hll Hnf Hcfl); rewrite ?Hdf; try exact Hsf.
    - destruct f as [j d k l|j d k|b j k]; [| |destruct b; reflexivity];
        apply (frame_def_facts2 _ (FO _ (or_introl eq_refl) eq_refl)).
    - destruct f as [j d k l|j d k|b j k]; [| |destruct b; reflexivity];
        apply (frame_def_facts2 _ (FO _ (or_introl eq_refl) eq_refl)).
    - destruct f as [j d k l|j d k|b j k].
      + destruct (frame_def_facts2 _ (FO _ (or_introl eq_refl) eq_refl)) as (_ & V2 & V3 & _).
        cbn [frame_def] in V2, V3 |- *. rewrite V2, V3. reflexivity.
      + destruct (frame_def_facts2 _ (FO _ (or_introl eq_refl) eq_refl)) as (_ & V2 & V3 & _).
        cbn [frame_def] in V2, V3 |- *. rewrite V2, V3. reflexivity.
      + cbn [frame_def frame_id first_group opt_nat_eqb]. rewrite Nat.eqb_refl. rewrite andb_false_r. reflexivity. }
  rewrite Hslc. cbn [bind].
  assert (Hl : match last_left st with
               | Some k => Some k
               | None => match nodes st with [] => None | _ :: _ => Some (length (nodes st)) end
               end = top_id fs).
  { rewrite Hll. destruct fs as [|f r]; [|reflexivity]. cbn [top_id].
    destruct (nodes st) as [|n0 r0] eqn:En; [reflexivity|].
    exfalso. apply (ps_cover _ _ PS 0). simpl. lia. }
  rewrite Hl. eexists. split; [reflexivity|]. split; [|reflexivity].
  constructor; cbn [nodes last_left next_parent next_last_left];
    [exact PS|reflexivity|exact Hnp|eapply groups_ok_same; [| | |exact Hgr]; reflexivity|reflexivity|].
  unfold pend_mode. cbn [prev_sig check_for_list separated prev_sec]. auto.
Qed.

(* a value where an operand is expected *)
Theorem gstep_value ntoks i tok st fs sp :
  gpend st fs sp -> is_value_tok tok = true ->
  exists st', step ntoks i tok st = Ok st' /\
              gcompl st' fs (NAtom (length (nodes st)) (atom_store (ref_def tok) fs) i) false /\
              length (nodes st') = S (length (nodes st)).
Proof.
  intros G Hv. pose proof (gpend_adj _ _ _ G) as Hadj.
  destruct G as [PS Hll Hnp Hgr Hnll PM].
  destruct (value_tok_facts tok Hv) as (sec & Hg & Hs & Hdrop & Hse0 & Hprio & Hnorm & Hident).
  destruct (forb_pend_start sp st sec PM (or_introl Hs)) as [Hforb Hsep].
  destruct PM as (Hcfl & _).
  rewrite (step_value_unfold ntoks i tok st _ (ref_def tok) sec Hg Hs Hdrop (groups_under _ _ Hgr) Hnll Hcfl Hadj Hforb Hsep).
  rewrite Hll, (parse_token_pending _ _ _ _ (ps_spine _ _ PS) (ps_fok _ _ PS) Hprio Hse0). cbn [bind].
  eexists. split; [reflexivity|]. split; [|cbn [nodes]; rewrite app_length; simpl; lia].
  constructor; cbn [nodes last_left next_last_left];
    [|reflexivity|eapply groups_ok_same; [| | |exact Hgr]; reflexivity|reflexivity|].
  - apply value_on_pending; [exact PS|]. eapply atom_node_of_value; try assumption. exact (ps_spine _ _ PS).
  - unfold compl_mode. cbn [prev_sig check_for_list separated prev_sec].
    repeat split; destruct sec; try discriminate; reflexivity.
Qed.

(* a prefix operator where an operand is expected *)
Theorem gstep_prefix ntoks i tok st fs sp :
  gpend st fs sp -> is_prefix_tok tok = true -> i + 1 < ntoks ->
  exists st', step ntoks i tok st = Ok st' /\
              gpend st' (FPre (length (nodes st)) (ref_def tok) i :: fs) false /\
              length (nodes st') = S (length (nodes st)).
Proof.
  intros G Hp Hi. pose proof (gpend_adj _ _ _ G) as Hadj.
  destruct G as [PS Hll Hnp Hgr Hnll PM].
  destruct (prefix_tok_facts tok Hp) as (Hg & Hdrop & Hid & Hfr & _).
  destruct (forb_pend_start sp st S_UnaryPrefix PM (or_intror (or_introl eq_refl))) as [Hforb Hsep].
  destruct PM as (Hcfl & _).
  rewrite (step_prefix_unfold ntoks i tok st _ (ref_def tok) Hg Hdrop Hid (groups_under _ _ Hgr) Hnll Hcfl Hadj Hforb Hsep).
  destruct (Nat.leb_spec ntoks (i + 1)) as [Hle|_]; [lia|].
  replace (length (nodes st) + 1) with (S (length (nodes st))) by lia.
  eexists. split; [reflexivity|]. split; [|cbn [nodes]; rewrite app_length; simpl; lia].
  constructor; cbn [nodes last_left next_parent next_last_left];
    [|reflexivity|reflexivity|eapply groups_ok_same; [| | |exact Hgr]; reflexivity|reflexivity|].
  - apply prefix_on_pending; cbn [n_sec n_def n_parent n_left n_right n_tok]; auto.
  - unfold pend_mode. cbn [prev_sig check_for_list separated prev_sec].
    split; [reflexivity|]. split; [right; right; left; reflexivity|]. split; [reflexivity|right; right; left; reflexivity].
Qed.

(* an opening bracket where an operand is expected *)
Theorem gstep_open ntoks i st fs sp b :
  gpend st fs sp -> i + 1 < ntoks ->
  exists st', step ntoks i (open_tok b) st = Ok st' /\
              gpend st' (FGroup b (length (nodes st)) i :: fs) false /\
              length (nodes st') = S (length (nodes st)).
Proof.
  intros G Hi. pose proof (gpend_adj _ _ _ G) as Hadj.
  destruct G as [PS Hll Hnp Hgr Hnll PM].
  destruct (forb_pend_start sp st S_StartGrouping PM (or_intror (or_intror eq_refl))) as [Hforb Hsep].
  destruct PM as (Hcfl & _).
  rewrite (step_open_unfold ntoks i st _ b (groups_under _ _ Hgr) Hnll Hcfl Hadj Hforb Hsep).
  destruct (Nat.leb_spec ntoks (i + 1)) as [Hle|_]; [lia|].
  replace (length (nodes st) + 1) with (S (length (nodes st))) by lia.
  eexists. split; [reflexivity|]. split; [|cbn [nodes]; rewrite app_length; simpl; lia].
  destruct Hgr as [Hgs Hcg].
  constructor; cbn [nodes last_left next_parent next_last_left]; [|reflexivity|reflexivity| |reflexivity|].
  - apply open_on_pending; cbn [n_sec n_def n_parent n_left n_right n_tok]; auto.
  - split; cbn [group_stack current_group group_ids length cg_of].
    + rewrite Hgs. unfold gstack. reflexivity.
    + rewrite Hgs, gstack_length. reflexivity.
  - unfold pend_mode. cbn [prev_sig check_for_list separated prev_sec].
    split; [reflexivity|]. split; [right; right; right; left; reflexivity|]. split; [reflexivity|right; right; right; left; reflexivity].
Qed.

(* a binary operator after a completed operand *)
Theorem gstep_binary ntoks i tok st fs t sp :
  gcompl st fs t sp -> is_binary_tok tok = true -> sep_tok tok = false -> i + 1 < ntoks ->
  exists st' fs' t',
    pop (ref_def tok) fs t = (fs', t') /\ step ntoks i tok st = Ok st' /\
    gpend st' (FBin (length (nodes st)) (ref_def tok) (Some i) t' :: fs') false /\
    length (nodes st') = S (length (nodes st)).
Proof.
  intros G Hb Hns Hi. pose proof (gcompl_adj _ _ _ _ G) as Hadj.
  destruct G as [CS Hll Hgr Hnll CM].
  destruct (binary_tok_facts tok Hb Hns) as (sec & my & p & BF).
  destruct (pop (ref_def tok) fs t) as [fs' t'] eqn:Hpop.
  destruct (forb_compl_op sp st sec CM (or_introl (bf_sec _ _ _ _ BF))) as [Hforb Hsep].
  rewrite (step_binary_unfold ntoks i tok st _ (ref_def tok) sec
             (bf_def _ _ _ _ BF) (bf_sec _ _ _ _ BF) (bf_drop _ _ _ _ BF) (bf_ident _ _ _ _ BF)
             (groups_under _ _ Hgr) Hnll Hadj Hforb Hsep).
  destruct (operator_on_complete _ _ _ _ _ _ _ _ _ CS (binary_op_facts _ _ _ _ BF) Hpop)
    as (ns' & Hpt & Hlen & Hbin & _).
  rewrite Hll, Hpt. cbn [bind].
  destruct (Nat.leb_spec ntoks (i + 1)) as [Hle|_]; [lia|].
  replace (length (nodes st) + 1) with (S (length (nodes st))) by lia.
  eexists. exists fs', t'. split; [reflexivity|]. split; [reflexivity|].
  split; [|cbn [nodes]; rewrite app_length, Hlen; simpl; lia].
  constructor; cbn [nodes last_left next_parent next_last_left];
    [|reflexivity|reflexivity|eapply groups_ok_same; [| | |exact Hgr]; [reflexivity|reflexivity|]|reflexivity|].
  - apply Hbin; cbn [n_parent n_left n_right]; auto; [exact (bf_frame _ _ _ _ BF)|].
    split; [reflexivity|]. left. split; [exact (bf_sec _ _ _ _ BF)|]. exists i. split; reflexivity.
  - cbn [group_ids]. apply (pop_group_ids _ _ _ _ _ Hpop).
  - unfold pend_mode. cbn [prev_sig check_for_list separated prev_sec]. split; [reflexivity|].
    split; [right; left; exact (bf_sec _ _ _ _ BF)|]. split; [reflexivity|right; left; exact (bf_sec _ _ _ _ BF)].
Qed.

(* a suffix operator after a completed operand *)
Theorem gstep_suffix ntoks i tok st fs t sp :
  gcompl st fs t sp -> is_suffix_tok tok = true ->
  exists st' fs' t',
    pop (ref_def tok) fs t = (fs', t') /\ step ntoks i tok st = Ok st' /\
    gcompl st' fs' (NSuf (length (nodes st)) (ref_def tok) i t') false /\
    length (nodes st') = S (length (nodes st)).
Proof.
  intros G Hs. pose proof (gcompl_adj _ _ _ _ G) as Hadj.
  destruct G as [CS Hll Hgr Hnll CM].
  destruct (suffix_tok_facts tok Hs) as (Hg & Hdrop & Hid & Hplain & my & p & OF & _).
  destruct (pop (ref_def tok) fs t) as [fs' t'] eqn:Hpop.
  destruct (forb_compl_op sp st S_UnarySuffix CM (or_intror (or_introl eq_refl))) as [Hforb Hsep].
  rewrite (step_suffix_unfold ntoks i tok st _ (ref_def tok) Hg Hdrop Hid (groups_under _ _ Hgr) Hnll Hadj Hforb Hsep).
  destruct (operator_on_complete _ _ _ _ _ _ _ _ _ CS OF Hpop) as (ns' & Hpt & Hlen & _ & Hsuf).
  rewrite Hll, Hpt. cbn [bind].
  eexists. exists fs', t'. split; [reflexivity|]. split; [reflexivity|].
  split; [|cbn [nodes]; rewrite app_length, Hlen; simpl; lia].
  constructor; cbn [nodes last_left next_last_left];
    [|reflexivity|eapply groups_ok_same; [| | |exact Hgr]; [reflexivity|reflexivity|]|reflexivity|].
  - apply Hsuf; auto.
  - apply (pop_group_ids _ _ _ _ _ Hpop).
  - unfold compl_mode. cbn [prev_sig check_for_list separated prev_sec]. repeat split.
Qed.

(* a closing bracket after a completed operand *)
Theorem gstep_close ntoks i st fs t sp b fs' t' :
  gcompl st fs t sp -> close_group b fs t = Some (fs', t') ->
  exists st', step ntoks i (close_tok b) st = Ok st' /\ gcompl st' fs' t' false /\ nodes st' = nodes st.
Proof.
  intros G Hcl. pose proof (gcompl_adj _ _ _ _ G) as Hadj.
  destruct (gcompl_root _ _ _ _ G) as (ln & Hln & Hcalm & Hright & _).
  destruct G as [CS Hll Hgr Hnll CM].
  destruct (forb_compl_op sp st S_EndGrouping CM (or_intror (or_intror eq_refl))) as [Hforb Hsep].
  pose proof (close_on_complete _ _ _ _ _ _ CS Hcl) as CS'.
  pose proof (close_group_ids _ _ _ _ _ Hcl) as Hids.
  destruct (close_group_shape _ _ _ _ _ Hcl) as (g & k & a & -> & Hfg). cbn [nid] in Hids.
  destruct Hgr as [Hgs Hcg].
  assert (Hrl : removelast_pair (group_stack st) = Some (gstack (group_ids fs'), (g, false))).
  { rewrite Hgs, Hids. unfold gstack. cbn [map rev]. apply removelast_pair_snoc. }
  destruct (lk_den _ _ _ (cs_linked _ _ _ CS')) as (sgn & Hsgn & _ & Hsd & _).
  rewrite (step_close_unfold ntoks i st _ b _ g false sgn (nid t) ln (groups_under _ _ (conj Hgs Hcg)) Hadj Hforb Hsep
             Hrl Hsgn Hsd Hll Hln Hcalm Hright).
  eexists. split; [reflexivity|]. split; [|reflexivity].
  constructor; cbn [nodes last_left next_last_left]; [exact CS'|reflexivity| |reflexivity|].
  - split; cbn [group_stack current_group]; [reflexivity|].
    pose proof (gstack_length (group_ids fs')) as Hl.
    destruct (gstack (group_ids fs')) as [|x r] eqn:E.
    + simpl in Hl. rewrite <- Hl. reflexivity.
    + rewrite <- Hl. cbn [length cg_of]. f_equal. lia.
  - unfold compl_mode. cbn [prev_sig check_for_list separated prev_sec]. repeat split.
Qed.

(* the synthesised list node *)
Lemma make_list_node_complete st fs t fs' t' :
  cstruct (nodes st) fs t -> last_left st = Some (nid t) -> pop D_List fs t = (fs', t') ->
  exists nsl, make_list_node (length (nodes st)) (length (nodes st) + 1) st (first_group fs) = Ok nsl /\
              length nsl = S (length (nodes st)) /\
              pstruct nsl (FBin (length (nodes st)) D_List None t' :: fs').
Proof.
  intros CS Hll Hpop. destruct list_def_ok as [Hok Hfr].
  destruct (op_def_facts _ _ Hok) as (my & p & OF).
  destruct (operator_on_complete _ _ _ _ _ _ _ _ _ CS OF Hpop) as (ns' & Hpt & Hlen & Hbin & _).
  unfold make_list_node. rewrite Hll, Hpt. cbn [bind].
  eexists. split; [reflexivity|]. split; [rewrite app_length, Hlen; simpl; lia|].
  apply Hbin; cbn [n_parent n_left n_right]; auto; [|f_equal; lia].
  split; [reflexivity|]. right. left. repeat split.
Qed.

(* a value after whitespace after a completed operand: list node, then the value *)
Theorem gstep_value_list ntoks i tok st fs t :
  gcompl st fs t true -> is_value_tok tok = true ->
  exists st' fs' t',
    pop D_List fs t = (fs', t') /\ step ntoks i tok st = Ok st' /\
    gcompl st' (FBin (length (nodes st)) D_List None t' :: fs')
               (NAtom (S (length (nodes st))) (atom_store (ref_def tok) (FBin (length (nodes st)) D_List None t' :: fs')) i) false /\
    length (nodes st') = S (S (length (nodes st))).
Proof.
  intros G Hv. pose proof (gcompl_adj _ _ _ _ G) as Hadj.
  destruct G as [CS Hll Hgr Hnll CM].
  destruct (value_tok_facts tok Hv) as (sec & Hg & Hs & Hdrop & Hse0 & Hprio & Hnorm & Hident).
  destruct (pop D_List fs t) as [fs' t'] eqn:Hpop.
  destruct (forb_compl_list st sec CM (or_introl Hs)) as [Hforb Hsep].
  destruct CM as [_ (Hcfl & _)].
  rewrite (step_value_list_unfold ntoks i tok st _ (ref_def tok) sec Hg Hs Hdrop (groups_under _ _ Hgr) Hcfl Hadj Hforb Hsep).
  destruct (make_list_node_complete st fs t fs' t' CS Hll Hpop) as (nsl & Hml & Hlen & PS).
  rewrite Hml. cbn [bind].
  replace (length (nodes st) + 1) with (length nsl) by lia.
  change (Some (length (nodes st))) with (top_id (FBin (length (nodes st)) D_List None t' :: fs')).
  rewrite (parse_token_pending _ _ _ _ (ps_spine _ _ PS) (ps_fok _ _ PS) Hprio Hse0). cbn [bind].
  eexists. exists fs', t'. split; [reflexivity|]. split; [reflexivity|].
  split; [|cbn [nodes]; rewrite app_length, Hlen; simpl; lia].
  rewrite <- Hlen.
  constructor; cbn [nodes last_left next_last_left];
    [|reflexivity|eapply groups_ok_same; [| | |exact Hgr]; [reflexivity|reflexivity|]|reflexivity|].
  - apply value_on_pending; [exact PS|]. eapply atom_node_of_value; try assumption. exact (ps_spine _ _ PS).
  - cbn [group_ids]. apply (pop_group_ids _ _ _ _ _ Hpop).
  - unfold compl_mode. cbn [prev_sig check_for_list separated prev_sec].
    repeat split; destruct sec; try discriminate; reflexivity.
Qed.

(* a prefix operator after whitespace after a completed operand: list node, then the prefix *)
Theorem gstep_prefix_list ntoks i tok st fs t :
  gcompl st fs t true -> is_prefix_tok tok = true ->
  exists st' fs' t',
    pop D_List fs t = (fs', t') /\ step ntoks i tok st = Ok st' /\
    gpend st' (FPre (S (length (nodes st))) (ref_def tok) i :: FBin (length (nodes st)) D_List None t' :: fs') false /\
    length (nodes st') = S (S (length (nodes st))).
Proof.
  intros G Hp. pose proof (gcompl_adj _ _ _ _ G) as Hadj.
  destruct G as [CS Hll Hgr Hnll CM].
  destruct (prefix_tok_facts tok Hp) as (Hg & Hdrop & Hid & Hfr & _).
  destruct (pop D_List fs t) as [fs' t'] eqn:Hpop.
  destruct (forb_compl_list st S_UnaryPrefix CM (or_intror (or_introl eq_refl))) as [Hforb Hsep].
  destruct CM as [_ (Hcfl & _)].
  rewrite (step_prefix_list_unfold ntoks i tok st _ (ref_def tok) Hg Hdrop Hid (groups_under _ _ Hgr) Hcfl Hadj Hforb Hsep).
  destruct (make_list_node_complete st fs t fs' t' CS Hll Hpop) as (nsl & Hml & Hlen & PS).
  rewrite Hml. cbn [bind].
  eexists. exists fs', t'. split; [reflexivity|]. split; [reflexivity|].
  split; [|cbn [nodes]; rewrite app_length, Hlen; simpl; lia].
  rewrite <- Hlen.
  constructor; cbn [nodes last_left next_parent next_last_left];
    [| |cbn [top_id frame_id]; f_equal; lia|eapply groups_ok_same; [| | |exact Hgr]; [reflexivity|reflexivity|]|reflexivity|].
  - apply prefix_on_pending; cbn [n_sec n_def n_parent n_left n_right n_tok top_id frame_id]; auto.
    f_equal. lia.
  - reflexivity.
  - cbn [group_ids]. apply (pop_group_ids _ _ _ _ _ Hpop).
  - unfold pend_mode. cbn [prev_sig check_for_list separated prev_sec].
    split; [reflexivity|]. split; [right; right; left; reflexivity|]. split; [reflexivity|right; right; left; reflexivity].
Qed.

(* an opening bracket after whitespace after a completed operand: list node, then the bracket *)
Theorem gstep_open_list ntoks i st fs t b :
  gcompl st fs t true ->
  exists st' fs' t',
    pop D_List fs t = (fs', t') /\ step ntoks i (open_tok b) st = Ok st' /\
    gpend st' (FGroup b (S (length (nodes st))) i :: FBin (length (nodes st)) D_List None t' :: fs') false /\
    length (nodes st') = S (S (length (nodes st))).
Proof.
  intros G. pose proof (gcompl_adj _ _ _ _ G) as Hadj.
  destruct G as [CS Hll Hgr Hnll CM].
  destruct (pop D_List fs t) as [fs' t'] eqn:Hpop.
  destruct (forb_compl_list st S_StartGrouping CM (or_intror (or_intror eq_refl))) as [Hforb Hsep].
  destruct CM as [_ (Hcfl & _)].
  rewrite (step_open_list_unfold ntoks i st _ b (groups_under _ _ Hgr) Hcfl Hadj Hforb Hsep).
  destruct (make_list_node_complete st fs t fs' t' CS Hll Hpop) as (nsl & Hml & Hlen & PS).
  rewrite Hml. cbn [bind].
  eexists. exists fs', t'. split; [reflexivity|]. split; [reflexivity|].
  split; [|cbn [nodes]; rewrite app_length, Hlen; simpl; lia].
  replace (length (nodes st) + 1) with (length nsl) by lia.
  destruct Hgr as [Hgs Hcg].
  constructor; cbn [nodes last_left next_parent next_last_left];
    [|cbn [top_id frame_id]; f_equal; lia|cbn [top_id frame_id]; f_equal; lia| |reflexivity|].
  - rewrite <- Hlen. apply open_on_pending; cbn [n_sec n_def n_parent n_left n_right n_tok top_id frame_id]; auto;
      f_equal; lia.
  - split; cbn [group_stack current_group group_ids length cg_of]; rewrite (pop_group_ids _ _ _ _ _ Hpop).
    + rewrite Hgs, Hlen. unfold gstack. reflexivity.
    + rewrite Hgs, gstack_length. reflexivity.
  - unfold pend_mode. cbn [prev_sig check_for_list separated prev_sec].
    split; [reflexivity|]. split; [right; right; right; left; reflexivity|]. split; [reflexivity|right; right; right; left; reflexivity].
Qed.

(* ---- the separator `;` ---- *)
(* the innermost open bracket: its kind, and the node the parser's group stack names *)
Fixpoint first_group_kind (fs : list frame) : option bkind :=
  match fs with
  | [] => None
  | FGroup b _ _ :: _ => Some b
  | _ :: r => first_group_kind r
  end.

Lemma spine_group_node ns : forall fs c g, spine ns fs c -> first_group fs = Some g ->
  exists b gn, first_group_kind fs = Some b /\ nth_error ns g = Some gn /\ n_def gn = bdef b.
Proof.
  induction fs as [|f r IH]; intros c g Sp H; [discriminate H|]. simpl in Sp. destruct Sp as [S1 S2].
  destruct f as [i d k l|i d k|b i k]; cbn [first_group first_group_kind] in *.
  - eapply IH; eauto.
  - eapply IH; eauto.
  - injection H as <-. simpl in S1. destruct S1 as (n & Hn & _ & Hd & _). exists b, n. auto.
Qed.

Lemma group_lookup_spec st fs c : groups_ok st fs -> spine (nodes st) fs c ->
  match first_group fs with
  | None => group_lookup st = Ok (D_Drop, 0)
  | Some g => exists b, first_group_kind fs = Some b /\ group_lookup st = Ok (bdef b, g)
  end.
Proof.
  intros [Hgs Hcg] Sp. unfold group_lookup. rewrite Hgs, Hcg.
  pose proof (first_group_ids fs) as Hf.
  destruct (first_group fs) as [g|] eqn:Eg.
  - destruct (spine_group_node _ _ _ _ Sp Eg) as (b & gn & Hk & Hn & Hd). exists b. split; [exact Hk|].
    destruct (group_ids fs) as [|g0 l]; [discriminate Hf|]. cbn [hd_error] in Hf. injection Hf as <-.
    cbn [length cg_of]. unfold gstack. cbn [map rev].
    rewrite nth_error_app2 by (rewrite rev_length, map_length; lia).
    rewrite rev_length, map_length, Nat.sub_diag. cbn [nth_error]. rewrite Hn, Hd. reflexivity.
  - destruct (group_ids fs) as [|g0 l]; [reflexivity|discriminate Hf].
Qed.

Lemma pop_first_group_kind d fs t fs' t' : pop d fs t = (fs', t') -> first_group_kind fs' = first_group_kind fs.
Proof.
  revert t. induction fs as [|f r IH]; intros t H; cbn [pop] in H.
  - injection H as <- <-. reflexivity.
  - destruct (stays_below d f) eqn:E.
    + injection H as <- <-. reflexivity.
    + rewrite (IH _ H). destruct f; try reflexivity. discriminate E.
Qed.

Theorem gstep_sep ntoks i st fs t sp :
  gcompl st fs t sp -> first_group_kind fs <> Some BRound -> i + 1 < ntoks ->
  exists st' fs' t',
    pop D_ExpressionSeparator fs t = (fs', t') /\ step ntoks i TT_ExpressionSeparator st = Ok st' /\
    gpend st' (FBin (length (nodes st)) D_ExpressionSeparator (Some i) t' :: fs') false /\
    length (nodes st') = S (length (nodes st)).
Proof.
  intros G Hk Hi. pose proof (gcompl_adj _ _ _ _ G) as Hadj.
  destruct (gcompl_root _ _ _ _ G) as (ln & Hln & Hcalm & _ & Hsec).
  destruct G as [CS Hll Hgr Hnll CM].
  destruct sep_def_ok as [Hok Hfr]. destruct (op_def_facts _ _ Hok) as (my & p & OF).
  destruct (pop D_ExpressionSeparator fs t) as [fs' t'] eqn:Hpop.
  destruct (forb_compl_sep sp st CM) as [Hforb Hsep].
  pose proof (group_lookup_spec st fs (nid t) Hgr (lk_spine _ _ _ (cs_linked _ _ _ CS))) as Hgl.
  assert (Hlook : exists ing gix, group_lookup st = Ok (ing, gix) /\ definition_eqb ing D_Group = false /\
                                 definition_eqb ing D_NestedExpression && Nat.eqb gix (nid t) = false).
  { destruct (first_group fs) as [g|] eqn:Eg.
    - destruct Hgl as (b & Hb & Hl). exists (bdef b), g. split; [exact Hl|].
      destruct b; [exfalso; apply Hk; exact Hb|]. split; [reflexivity|].
      cbn [bdef definition_eqb definition_index N.eqb Pos.eqb andb]. apply Nat.eqb_neq.
      pose proof (frames_have_lt _ _ _ (lk_ford _ _ _ (cs_linked _ _ _ CS)) (first_group_has _ _ Eg)) as R.
      pose proof (ordered_lo_hi t (lk_ord _ _ _ (cs_linked _ _ _ CS))) as R2. lia.
    - exists D_Drop, 0. split; [exact Hgl|]. split; reflexivity. }
  destruct Hlook as (ing & gix & Hl & Hng & Hst).
  rewrite (step_sep_unfold ntoks i st _ ing gix (nid t) ln (groups_under _ _ Hgr) Hnll Hadj Hforb Hsep
             Hl Hng Hst Hll Hln Hcalm Hsec).
  destruct (operator_on_complete _ _ _ _ _ _ _ _ _ CS OF Hpop) as (ns' & Hpt & Hlen & Hbin & _).
  rewrite Hpt. cbn [bind].
  destruct (Nat.leb_spec ntoks (i + 1)) as [Hle|_]; [lia|].
  replace (length (nodes st) + 1) with (S (length (nodes st))) by lia.
  eexists. exists fs', t'. split; [reflexivity|]. split; [reflexivity|].
  split; [|cbn [nodes]; rewrite app_length, Hlen; simpl; lia].
  constructor; cbn [nodes last_left next_parent next_last_left];
    [|reflexivity|reflexivity|eapply groups_ok_same; [| | |exact Hgr]; [reflexivity|reflexivity|]|reflexivity|].
  - apply Hbin; cbn [n_parent n_left n_right]; auto.
    split; [reflexivity|]. right. right. split; [reflexivity|]. exists i. split; reflexivity.
  - cbn [group_ids]. apply (pop_group_ids _ _ _ _ _ Hpop).
  - unfold pend_mode. cbn [prev_sig check_for_list separated prev_sec]. split; [reflexivity|].
    split; [right; right; right; right; reflexivity|]. split; [reflexivity|right; right; right; right; reflexivity].
Qed.
