//! multi (C20): several programs built into ONE data object, executions interleaved with the
//! builds, on both data implementations; every program is also built and run alone.
//!   M <script>;<prog>;<prog>;...
//!     script  comma separated: b<i> (build program i into the shared object), x<i> (run program i
//!             from the entry its build reported; input value unit)
//!     prog    "T <tt> <tt> ..." or "S <cp>,<cp>,.." as in the other harnesses
//! Output: <case>\t<result>\t<oracle>
//!   result   S=<report> B=<same|report>      (SimpleGarnishData / BasicGarnishData)
//!   report   alone[<i>:<build>:<run>|...] shared[<step>|<step>...]
//!     build  ERRn|PANIC|UNPARSED|OK:entry:I[..]:J[..]:M[..]@<il>,<jl>,<last>!K[..]!V[<value of every data operand>]
//!            (il, jl: table lengths before this build, last: the last instruction before it or `none`;
//!            expression values inside V are printed relative to jl)
//!     run    <END|ERROR|PANIC|LIMIT|NOENTRY>.<steps>.<result value>.<executed pc - il, joined by _>
//!     step   b<i>:<build>:keep=<ok|changed(p<j>..)>   or   x<i>:<run>:keep=<ok|changed(..)>
//!            keep: instructions, jump entries and constants of every program built so far re-read
//!            and compared with what was read right after its own build
//!   oracle   toks=<toks of prog 0>/<toks of prog 1>/...   ("!" for a program that does not lex)
#[path = "../codekit.rs"]
mod codekit;
use codekit::*;
use garnish_lang_traits::Instruction;
use garnish_verif_harness::*;

const STEP_LIMIT: usize = 400;

struct Snapshot {
    built: Built,
    raw_instrs: Vec<Option<(Instruction, Option<usize>)>>,
    jumps: Vec<Option<usize>>,
    values: Vec<String>,
}

fn operand_values<D: Kit>(data: &D, b: &Built) -> Vec<String> {
    let mut vs = vec![];
    for i in b.instr_from..b.instr_to {
        match data.get_instruction(i) {
            Some((Instruction::Put, Some(a))) | Some((Instruction::Resolve, Some(a))) => vs.push(tree(data, a, 8, b.jump_from)),
            _ => {}
        }
    }
    vs
}

fn snapshot<D: Kit>(data: &D, b: Built) -> Snapshot {
    let raw_instrs = (b.instr_from..b.instr_to).map(|i| data.get_instruction(i)).collect();
    let jumps = (b.jump_from..b.jump_to).map(|j| data.get_from_jump_table(j)).collect();
    let values = operand_values(data, &b);
    Snapshot { built: b, raw_instrs, jumps, values }
}

fn keep<D: Kit>(data: &D, snaps: &Vec<(usize, Snapshot)>) -> String {
    let mut changed = vec![];
    for (i, s) in snaps {
        let now = snapshot(
            data,
            Built {
                entry: s.built.entry,
                meta: vec![],
                instr_from: s.built.instr_from,
                instr_to: s.built.instr_to,
                jump_from: s.built.jump_from,
                jump_to: s.built.jump_to,
                data_from: s.built.data_from,
                data_to: s.built.data_to,
            },
        );
        if now.raw_instrs != s.raw_instrs {
            changed.push(format!("p{}.instructions", i));
        }
        if now.jumps != s.jumps {
            changed.push(format!("p{}.jumps", i));
        }
        if now.values != s.values {
            changed.push(format!("p{}.constants", i));
        }
    }
    if changed.is_empty() { "ok".to_string() } else { format!("changed({})", changed.join("+")) }
}

fn last_before<D: Kit>(data: &D, il: usize) -> String {
    if il == 0 {
        return "none".to_string();
    }
    match data.get_instruction(il - 1) {
        Some((i, d)) => format!("{}{}", i as usize, show_operand(data, i, d)),
        None => "none".to_string(),
    }
}

fn build_text<D: Kit>(data: &mut D, p: &Option<Parsed>) -> (String, Option<Built>) {
    match p {
        None => ("UNPARSED".to_string(), None),
        Some(p) => {
            let il = data.get_instruction_len();
            let jl = data.get_jump_table_len();
            let last = last_before(data, il);
            match build_into(data, p) {
                Err(c) => (c, None),
                Ok(b) => {
                    let t = format!(
                        "{}@{},{},{}!{}!V[{}]",
                        show_built(data, &b),
                        il,
                        jl,
                        last,
                        show_kinds(data, b.instr_from, b.instr_to),
                        operand_values(data, &b).join(",")
                    );
                    (t, Some(b))
                }
            }
        }
    }
}

fn run_text<D: Kit>(data: &mut D, b: &Built) -> String {
    let run = run_from(data, b.entry, None, STEP_LIMIT, STEP_LIMIT, b.jump_from);
    // executed pcs: trace[k] is the state before step k+1
    let pcs: Vec<String> = run
        .trace
        .iter()
        .take(run.executed.len())
        .map(|o| {
            let pc: i64 = o.split('.').next().unwrap_or("0").parse().unwrap_or(0);
            (pc - b.instr_from as i64).to_string()
        })
        .collect();
    format!("{}.{}.{}.{}", run.end_name(), run.steps, run.result, pcs.join("_"))
}

fn clone_built(b: &Built) -> Built {
    Built { entry: b.entry, meta: b.meta.clone(), instr_from: b.instr_from, instr_to: b.instr_to, jump_from: b.jump_from, jump_to: b.jump_to, data_from: b.data_from, data_to: b.data_to }
}

fn report<D: Kit>(script: &Vec<(char, usize)>, progs: &Vec<Option<Parsed>>) -> String {
    let mut alone = vec![];
    for (i, p) in progs.iter().enumerate() {
        let mut data = D::fresh();
        let (bt, b) = build_text(&mut data, p);
        let rt = match &b {
            Some(b) => run_text(&mut data, b),
            None => "-".to_string(),
        };
        alone.push(format!("{}:{}:{}", i, bt, rt));
    }
    let mut data = D::fresh();
    let mut snaps: Vec<(usize, Snapshot)> = vec![];
    let mut builts: Vec<Option<Built>> = progs.iter().map(|_| None).collect();
    let mut steps = vec![];
    for (op, i) in script {
        if *i >= progs.len() {
            steps.push(format!("{}{}:BADINDEX", op, i));
            continue;
        }
        match op {
            'b' => {
                let (bt, b) = build_text(&mut data, &progs[*i]);
                if let Some(b) = b {
                    builts[*i] = Some(clone_built(&b));
                    let s = snapshot(&data, b);
                    let k = keep(&data, &snaps);
                    snaps.push((*i, s));
                    steps.push(format!("b{}:{}:keep={}", i, bt, k));
                } else {
                    let k = keep(&data, &snaps);
                    steps.push(format!("b{}:{}:keep={}", i, bt, k));
                }
            }
            'x' => match &builts[*i] {
                None => steps.push(format!("x{}:NOTBUILT:keep=ok", i)),
                Some(b) => {
                    let b = clone_built(b);
                    let rt = run_text(&mut data, &b);
                    // leave no operands / frames behind for the next action, as a host would between runs
                    let k = keep(&data, &snaps);
                    steps.push(format!("x{}:{}:keep={}", i, rt, k));
                }
            },
            _ => steps.push(format!("{}{}:BADOP", op, i)),
        }
    }
    format!("alone[{}]#shared[{}]", alone.join("|"), steps.join("|"))
}

fn main() {
    supervised(8000, |line| {
        let (kind, rest) = line.split_at(1);
        if kind != "M" {
            return format!("{}\tBADCASE\t-", line);
        }
        let parts: Vec<&str> = rest.trim_start().split(';').collect();
        let script: Vec<(char, usize)> = parts[0]
            .split(',')
            .filter(|x| !x.is_empty())
            .map(|x| (x.chars().next().unwrap(), x[1..].parse().unwrap_or(999)))
            .collect();
        let mut progs = vec![];
        let mut toks = vec![];
        for spec in &parts[1..] {
            let (k, r) = spec.split_at(1);
            match tokens_of(k, r.trim_start()) {
                Lexed::Fail(_) => {
                    progs.push(None);
                    toks.push("!".to_string());
                }
                Lexed::Tokens(t, idx) => {
                    toks.push(idx.iter().map(|x| x.to_string()).collect::<Vec<_>>().join(","));
                    progs.push(parse_tokens(&t).ok());
                }
            }
        }
        let s = report::<Simple>(&script, &progs);
        let b = report::<Basic>(&script, &progs);
        format!("{}\tS={} B={}\ttoks={}", line, s.replace(' ', "_"), if b == s { "same".to_string() } else { b.replace(' ', "_") }, toks.join("/"))
    });
}
