(* C01 for the fragment of stages 1-3: the induction on the evaluator's fuel,
   and the statement about whole programs (compile_prog, initial state,
   run to End). *)
From Coq Require Import ZArith NArith List Bool Arith Lia.
From GV Require Import Base.Result Base.Host Gen.Instr Gen.Exec Model.Num Model.Value Model.Machine
  Model.CompileExpr Spec.Ast Spec.Eval
  Proofs.C01.MachineFacts Proofs.C01.Sizes Proofs.C01.Placement Proofs.C01.OpRefine Proofs.C01.Fragment
  Proofs.C01.Steps Proofs.C01.Sim Proofs.C01.SimStep.
Import ListNotations.

Section Main.
Variable sym_hash : list N -> N.
Variable hstate : Type.
Variable host : hstate -> host_call -> hstate * option val.
Hypothesis Hdef : declines_defer hstate host.
Variable pbodies : list (N * expr).

Notation St := (mkSt hstate).
Notation est := (st hstate).

Lemma sim_all : forall (P : program) n m, m <= n -> SimAll sym_hash hstate host pbodies P m.
Proof.
  intros P. induction n; intros m Hm.
  - assert (m = 0) by lia. subst m. repeat split.
    + intros e vin s v s' H. discriminate.
    + intros k e vin s items s' H. discriminate.
    + intros e vin s o s' H. discriminate.
  - destruct (Nat.eq_dec m (S n)) as [-> | Hne].
    + repeat split.
      * apply sim_eval_step; auto.
      * apply sim_items_step; auto.
      * apply sim_chain_step; auto.
    + apply IHn. lia.
Qed.

Lemma sim_eval : forall P n, SimEval sym_hash hstate host pbodies P n.
Proof. intros P n. apply (sim_all P n n (le_n n)). Qed.

(* ------------------------------------------------ no `^~` in the fragment *)
Notation eval := (eval sym_hash hstate host pbodies).
Notation eval_items := (eval_items sym_hash hstate host pbodies).
Notation eval_chain := (eval_chain sym_hash hstate host pbodies).

Lemma obind_restart : forall (A B : Type) (o : out est A) (k : A -> est -> out est B) v s',
  obind o k = ORestart v s' ->
  o = ORestart v s' \/ exists a s1, o = ODone a s1 /\ k a s1 = ORestart v s'.
Proof. intros A B o k v s' H. destruct o; cbn in H; try discriminate; [right; eauto | left; injection H as -> ->; reflexivity]. Qed.

Definition NoRestart (n : nat) : Prop :=
  (forall e vin (s : est) v s', frag e = true -> eval n e vin s <> ORestart v s') /\
  (forall k e vin (s : est) v s', frag e = true -> eval_items n k e vin s <> ORestart v s') /\
  (forall e vin (s : est) v s', frag e = true -> eval_chain n e vin s <> ORestart v s').

Ltac nr IH1 IH2 IH3 :=
  repeat match goal with
  | H : obind ?o ?k = ORestart _ _ |- _ =>
      apply obind_restart in H; destruct H as [H | (? & ? & ? & H)];
      [ solve [ eapply IH1; [|exact H]; assumption | eapply IH2; [|exact H]; assumption | eapply IH3; [|exact H]; assumption ] | ]
  | H : (if ?c then _ else _) = ORestart _ _ |- _ => destruct c
  | H : ODone _ _ = ORestart _ _ |- _ => discriminate
  | H : OUnspec _ = ORestart _ _ |- _ => discriminate
  | H : lift _ _ _ = ORestart _ _ |- _ => unfold lift in H
  | H : match ?x with _ => _ end = ORestart _ _ |- _ => destruct x eqn:?
  end.

Lemma frag_and : forall a b, a && b = true -> a = true /\ b = true.
Proof. intros. apply andb_prop; auto. Qed.

Lemma no_restart : forall n, NoRestart n.
Proof.
  induction n.
  - repeat split; unfold not; intros; match goal with H : _ = ORestart _ _ |- _ => cbn in H; discriminate end.
  - destruct IHn as (IH1 & IH2 & IH3). repeat split.
    + intros e vin s v s' Hf H. destruct e; cbn [frag] in Hf; try discriminate;
        try (apply frag_and in Hf; destruct Hf as [Hf1 Hf2]); try (apply frag_and in Hf1; destruct Hf1 as [Hf0 Hf1]).
      * cbn [Eval.eval] in H. unfold resolve_ident in H.
        destruct (by_symbol vin (sym_hash name)); try discriminate.
        destruct (call_host hstate host (HResolve (sym_hash name)) s). discriminate.
      * destruct o; try discriminate; cbn [Eval.eval] in H; nr IH1 IH2 IH3.
      * destruct o; try discriminate; cbn [Eval.eval] in H; nr IH1 IH2 IH3.
      * cbn [Eval.eval] in H; nr IH1 IH2 IH3.
      * cbn [Eval.eval] in H; nr IH1 IH2 IH3.
      * cbn [Eval.eval] in H. apply obind_restart in H. destruct H as [H | (? & ? & ? & H)]; [|discriminate].
        eapply IH2; [|exact H]. cbn [frag]. rewrite Hf1, Hf2. reflexivity.
      * cbn [Eval.eval] in H. eapply IH1; eauto.
      * cbn [Eval.eval] in H; nr IH1 IH2 IH3; eapply IH1; eauto.
      * cbn [Eval.eval] in H. apply obind_restart in H. destruct H as [H | (? & ? & ? & H)].
        -- eapply IH3; [|exact H]. cbn [frag]. rewrite Hf1, Hf2. reflexivity.
        -- destruct x; discriminate.
      * cbn [Eval.eval] in H; nr IH1 IH2 IH3; eapply IH1; eauto.
      * cbn [Eval.eval] in H; nr IH1 IH2 IH3.
    + intros k e vin s v s' Hf H.
      assert (Hgen : forall (o : out est val), o = eval n e vin s ->
                obind o (fun v0 s1 => ODone [v0] s1) = ORestart v s' -> False).
      { intros o -> H2. apply obind_restart in H2. destruct H2 as [H2 | (? & ? & ? & H2)]; [|discriminate].
        eapply IH1; eauto. }
      destruct e; cbn [Eval.eval_items] in H; try (eapply Hgen; [reflexivity | exact H]).
      cbn [frag] in Hf. apply frag_and in Hf. destruct Hf as [Hf1 Hf2].
      destruct (match k with Space => match k0 with Space => true | Comma => false end
                | Comma => match k0 with Space => false | Comma => true end end).
      * apply obind_restart in H. destruct H as [H | (? & ? & ? & H)].
        -- destruct (is_list_of k e1).
           ++ eapply IH2; [|exact H]; assumption.
           ++ nr IH1 IH2 IH3.
        -- nr IH1 IH2 IH3.
      * eapply Hgen; [reflexivity | exact H].
    + intros e vin s v s' Hf H.
      assert (Hgen : forall (o : out est val), o = eval n e vin s ->
                obind o (fun v0 s1 => ODone (Some v0) s1) = ORestart v s' -> False).
      { intros o -> H2. apply obind_restart in H2. destruct H2 as [H2 | (? & ? & ? & H2)]; [|discriminate].
        eapply IH1; eauto. }
      destruct e; cbn [Eval.eval_chain] in H; try (eapply Hgen; [reflexivity | exact H]);
        cbn [frag] in Hf; apply frag_and in Hf; destruct Hf as [Hf1 Hf2].
      * nr IH1 IH2 IH3.
      * nr IH1 IH2 IH3. eapply IH3; eauto.
Qed.

End Main.

Section Programs.
Variable sym_hash : list N -> N.
Variable hstate : Type.
Variable host : hstate -> host_call -> hstate * option val.
Hypothesis Hdef : declines_defer hstate host.
Notation St := (mkSt hstate).

Lemma run_body_S : forall pb n b vin (s : st hstate),
  run_body sym_hash hstate host pb (S n) b vin s =
  match Eval.eval sym_hash hstate host pb n b vin s with
  | ORestart v s' => run_body sym_hash hstate host pb n b v s'
  | o => o
  end.
Proof. reflexivity. Qed.

Definition sim_eval_gen := sim_eval sym_hash hstate host Hdef.
Definition no_restart_gen := no_restart sym_hash hstate host.

(* ---------------------------------------------------------- whole programs *)
Lemma compile_placed : forall e,
  let P := compile_prog sym_hash e in
  Placement.placed sym_hash (code P) (jt P) 0 None e 0 1 (si (sizes None e) + 1) (1 + sji (sizes None e)) /\
  nth_error (code P) (si (sizes None e)) = Some (ins I_EndExpression) /\
  nth_error (jt P) 0 = Some 0.
Proof.
  intros e P. subst P. unfold compile_prog.
  set (f := comp sym_hash 0 None e 0 1 (si (sizes None e) + 1) (1 + sji (sizes None e))).
  destruct (comp_sizes sym_hash e 0 None 0 1 (si (sizes None e) + 1) (1 + sji (sizes None e))) as (L1 & L2 & L3 & L4).
  fold f in L1, L2, L3, L4.
  cbn [code jt]. split; [|split].
  - unfold Placement.placed. fold f. cbv zeta. repeat split.
    + apply (code_at_self _ [] (f_inl f) ([ins I_EndExpression] ++ f_ool f)).
    + apply (code_at_self _ [0] (f_ji f) (f_jo f)).
    + replace (f_inl f ++ [ins I_EndExpression] ++ f_ool f) with ((f_inl f ++ [ins I_EndExpression]) ++ f_ool f ++ [])
        by (rewrite app_nil_r, <- app_assoc; reflexivity).
      replace (si (sizes None e) + 1) with (length (f_inl f ++ [ins I_EndExpression])) by (rewrite app_length, L1; reflexivity).
      apply code_at_self.
    + replace (0 :: f_ji f ++ f_jo f) with (([0] ++ f_ji f) ++ f_jo f ++ [])
        by (rewrite app_nil_r, <- app_assoc; reflexivity).
      replace (1 + sji (sizes None e)) with (length ([0] ++ f_ji f)) by (rewrite app_length, L3; reflexivity).
      apply code_at_self.
  - rewrite nth_error_app2 by lia. rewrite L1, Nat.sub_diag. reflexivity.
  - reflexivity.
Qed.

Theorem stage3_program : forall e vin h n v h' t,
  frag e = true -> shape_ok e = true -> seq_ok true e = true ->
  eval_prog sym_hash hstate host n e vin h = ODone v (h', t) ->
  exists s0 fuel steps sfin,
    initial hstate (compile_prog sym_hash e) 0 vin h = Some s0 /\
    run hstate host fuel (compile_prog sym_hash e) s0 = REnd hstate sfin steps /\
    current_value hstate sfin = Some v /\ hs sfin = h' /\ observable (tr sfin) = t.
Proof.
  intros e vin h n v h' t Hf Hsh Hsq H.
  unfold eval_prog in H. destruct n as [|n]; [discriminate|]. rewrite run_body_S in H.
  destruct (Eval.eval sym_hash hstate host (bodies e) n e vin (h, [])) as [a s1 | rv rs | w | ] eqn:He; try discriminate.
  2: { exfalso. destruct (no_restart_gen (bodies e) n) as (NR & _). eapply NR; eauto. }
  injection H as -> ->.
  destruct (compile_placed e) as (Hp & Hend & Hj0).
  set (P := compile_prog sym_hash e) in *.
  assert (Hl : 0 + si (sizes None e) < length (code P)) by (apply nth_error_Some; cbn [plus]; congruence).
  destruct (sim_eval_gen (bodies e) P n e vin (h, []) v (h', t) He Hf Hsh true Hsq 0 0 1 _ _ [] [] [] [] Hp Hl eq_refl)
    as (vin' & mt' & Hstar & Ho & _).
  cbn [fst snd plus] in *.
  exists (St 0 [] [vin] [] h []).
  assert (Hfin : Machine.step hstate host P (St (si (sizes None e)) [v] [vin'] [] h' mt') =
                 SEnd hstate (St (si (sizes None e)) [] [v] [] h' mt')).
  { unfold Machine.step. cbn [pc]. rewrite Hend. cbn [exec_op ins andb run_op].
    unfold end_expression, next_ref. cbn [regs bind set_regs frames vals set_vals pc hs tr].
    rewrite Nat.leb_refl. reflexivity. }
  destruct (run_from_star hstate host P _ _ Hstar _ Hfin) as (fuel & Hrun).
  destruct (Hrun 0 0) as (steps & Hr).
  exists (fuel + 0), steps, (St (si (sizes None e)) [] [v] [] h' mt').
  repeat split; auto.
Qed.

End Programs.
