#!/usr/bin/env python3
"""Entry point of the verification machinery.
  vp.py check <ID> [--tier quick|thorough]   (honours VERIF_SEED, VERIF_TIER)
  vp.py replay <path>
  vp.py setup
"""
import argparse, importlib, json, os, sys
sys.path.insert(0, os.path.dirname(os.path.abspath(__file__)))
import vplib


def main():
    # case generation iterates over sets and dicts of strings in places: pin the string hash so that
    # a given VERIF_SEED replays the same cases in every process
    if os.environ.get("PYTHONHASHSEED") != "0":
        os.environ["PYTHONHASHSEED"] = "0"
        os.execv(sys.executable, [sys.executable] + sys.argv)
    ap = argparse.ArgumentParser()
    sub = ap.add_subparsers(dest="cmd", required=True)
    c = sub.add_parser("check")
    c.add_argument("pid")
    c.add_argument("--tier", default=None)
    r = sub.add_parser("replay")
    r.add_argument("path")
    sub.add_parser("setup")
    a = ap.parse_args()
    os.chdir(vplib.VERIF)
    if a.cmd == "setup":
        import setup_all
        sys.exit(setup_all.main())
    if a.cmd == "check":
        tier = a.tier or os.environ.get("VERIF_TIER") or "quick"
        if tier not in ("quick", "thorough"):
            tier = "quick"
        try:
            seed = int(os.environ.get("VERIF_SEED", "20260923"))
        except ValueError:
            seed = 20260923
        mod = importlib.import_module("props." + a.pid.lower())
        sys.exit(mod.run(tier, seed))
    if a.cmd == "replay":
        obj = json.load(open(a.path))
        mod = importlib.import_module("props." + obj["property"].lower())
        sys.exit(mod.replay(obj))


if __name__ == "__main__":
    main()
