"""C15 Stored values read back unchanged, however the store grows."""
import itertools, os, re, time
import vplib
from vplib import Verdict, log

PID = "C15"
MANIFEST_ENTRY = {
 "level_claimed": {
  "category": "proof",
  "text": "Theorems in coq/Properties/C15.v about an executable model of BasicGarnishData (one heap list cut into six blocks; push_to_block, reallocate_heap, next_size, every push_to_*, the data-block adders, linked register/value/frame cells) and of SimpleGarnishData (hash-keyed intern table): with the invariant Inv (blocks contiguous in declaration order, cursor <= size, heap length = sum of sizes) and the abstraction abs (per block: firstn cursor (skipn start heap)), every operation under every growth setting that can make progress (FixedSize k>=1; Multiplicative m>=2 from a non-zero size) preserves Inv and changes abs by exactly one append (or the one named mutable cell); lifted over all histories: what was stored at the address returned at step i reads back the same at every later step j (C15_readback). C15_no_progress_refuted shows the side condition is needed. C15_simple_intern: under an injective hash, equal constants get the same address and different constants different addresses. The models are tied to data/src/basic/*.rs, data/src/simple.rs, data/src/runtime.rs on every run by executing all interleavings of pushes over the tables (initial sizes 0,1,2 x every progressing policy), random long and mixed-profile histories on the real code and on the extracted model and diffing canonical dumps (heap, block triples, everything read through the public getters); an independent Python oracle of six growable tables checks the implementation directly.",
  "design_ref": "DESIGN.md section 8 C15, Appendix A.4"
 },
 "level_note": "Partial: read-back is proved cell by cell (every frozen data cell, every instruction, membership in the two sorted symbol tables); the read-back of whole value trees through chains of getters is covered by the correspondence/oracle runs only. Symbol names (BasicGarnishData) ARE proved for all histories (round 6, Proofs/C15/SymbolNames*.v): every operation except parse_add_symbol leaves the symbol-table block unchanged (C15_other_ops_keep_symbols); the binary search of search.rs on a table in nondecreasing key order (duplicate keys allowed) returns an entry carrying the searched key if one exists and None otherwise, never an error, panic or fuel exhaustion (C15_symbol_search); hence get_symbol_string(hash name) returns Ok(Some name) after the registering history and after every continuation, and a value no registered name hashes to yields Ok None (C15_symbol_lookup, C15_symbol_name_readback), under the hypotheses that the symbol hash (an oracle) is injective on the registered names and each name's header is its character count; expression symbols likewise, with no side condition on the operations (C15_other_ops_keep_expression_symbols, C15_expression_symbol_push, C15_expression_symbol_search, C15_expression_symbol_readback: after any history get_symbol_expression sym is exactly Ok of the most recent value pushed for sym and Ok None for a symbol never pushed; a symbol pushed twice keeps both entries and reads back the later value). Trusted: Coq kernel; extraction (ExtrOcamlBasic only); harness/src/bin/store.rs + ocaml/store_driver.ml + this file; the cfg(garnish_core_verif) accessors of data/src/basic/verif.rs. Assumptions: usize arithmetic does not overflow (sizes are nat); slice::sort_by is a stable sort; the intern-table hash and symbol_value are functions, injective where C15_simple_intern says so (a collision cannot be exhibited; stated hypothesis, not a finding); max_items is unbounded in the read-back theorems (finite limits are covered by correspondence only). Clone/optimize (C19) are out of scope.",
 "technique": "Coq proof (refinement by invariant, fold over histories) over an executable model + differential correspondence with the Rust implementation"
}

TRUSTED = vplib.BASE_TRUSTED + [
    "hook: data/src/basic/verif.rs (cfg garnish_core_verif): read-only accessors for block (start,cursor,size) triples, the heap and the chain heads",
    "oracle hypotheses: DefaultHasher-based intern key and symbol_value are functions; slice::sort_by is stable",
    "tools/props/c15.py: independent abstract-table oracle",
]

STORE = "store"
DEPTH = 4

# ------------------------------------------------------------------ rendering
def render(t, depth=DEPTH):
    k = t[0]
    if k in ("U", "T", "F", "Cu", "Inv"):
        return k
    if k in ("Ty", "N", "Ch", "By", "Sy", "Ex", "Xt"):
        return "%s(%s)" % (k, t[1])
    if k in ("Cl", "Bl"):
        return "%s(%s)" % (k, ".".join(t[1]) if t[1] else "-")
    if k in ("P", "Cc", "Rg", "Sl", "Pt"):
        if depth == 0:
            return "%s(~)" % k
        return "%s(%s,%s)" % (k, render(t[1], depth - 1), render(t[2], depth - 1))
    if k == "L":
        if depth == 0:
            return "L(~)"
        return "L(%s)" % ",".join(render(x, depth - 1) for x in t[1])
    if k == "*":
        return "*"
    raise ValueError(t)


def has_wild(t):
    if t[0] == "*":
        return True
    if t[0] in ("P", "Cc", "Rg", "Sl", "Pt"):
        return has_wild(t[1]) or has_wild(t[2])
    if t[0] == "L":
        return any(has_wild(x) for x in t[1])
    return False


WILD = ("*",)


# --------------------------------------------------- the abstract-table oracle
class Oracle:
    """Six independent growable tables + stacks; no addresses of its own: it is
    driven by the addresses the implementation reports and checks that what
    is read back through the getters is what was stored."""

    def __init__(self, impl):
        self.impl = impl
        self.instr, self.jump, self.regs, self.values, self.frames = [], [], [], [], []
        self.syms, self.esyms = [], []     # (sym, name) in registration order
        self.custom = 0
        self.cursor = 0
        self.tree_at = {}                  # address -> tree
        self.step_tree = {}                # step -> (address, tree)
        self.intern = {}                   # Simple: value key -> address
        self.cur_list = None               # items of the list under construction
        self.problems = []
        self.nums = []                     # numeric result per step (for @k)

    def arg(self, s):
        if s.startswith("@"):
            k = int(s[1:])
            v = self.nums[k] if k < len(self.nums) else None
            return 0 if v is None else v
        return int(s)

    def tree_of_addr(self, a):
        return self.tree_at.get(a, WILD)

    def bad(self, msg):
        self.problems.append(msg)

    def stored(self, k, res, tree, interned_key=None):
        """an operation that must return a value address"""
        if not res.startswith("a"):
            self.bad("step %d: expected an address, got %s" % (k, res))
            return
        a = int(res[1:])
        if interned_key is not None and self.impl == "S":
            if interned_key in self.intern:
                if self.intern[interned_key] != a:
                    self.bad("step %d: equal constant %s got address %d, first was %d" % (k, interned_key, a, self.intern[interned_key]))
            else:
                if a in self.tree_at:
                    self.bad("step %d: new constant %s got the address %d of %s" % (k, interned_key, a, render(self.tree_at[a])))
                self.intern[interned_key] = a
        elif a in self.tree_at and not (self.impl == "S" and tree[0] in ("U", "T", "F")):
            self.bad("step %d: address %d returned again (held %s)" % (k, a, render(self.tree_at[a])))
        self.tree_at[a] = tree
        self.step_tree[k] = (a, tree)

    def step(self, k, t, res, symvals):
        o = t[0]
        num = None
        m = re.match(r"^(?:a|h|x|some)(\d+)$", res)
        if m:
            num = int(m.group(1))
        A = self.arg
        if o == "I":
            d = None if t[2] == "-" else A(t[2])
            if res != "x%d" % len(self.instr):
                self.bad("step %d: push_instruction returned %s, expected index %d" % (k, res, len(self.instr)))
            self.instr.append((int(t[1]), d))
        elif o == "J":
            self.expect(k, res, "ok")
            self.jump.append(A(t[1]))
        elif o == "JM":
            i = A(t[1])
            if i < len(self.jump):
                self.expect(k, res, "ok")
                self.jump[i] = A(t[2])
            else:
                self.expect(k, res, "none")
        elif o == "Y":
            sym = symvals.get(k)
            self.stored(k, res, ("Sy", sym), ("Sy", sym))
            if not any(s == sym for s, _ in self.syms):
                self.syms.append((sym, t[1]))
        elif o == "E":
            if self.impl == "B":
                self.expect(k, res, "ok")
                sym = "%x" % int(t[1], 16)
                if not any(s == sym for s, _ in self.esyms):
                    self.esyms.append((sym, A(t[2])))
            else:
                self.expect(k, res, "NA")
        elif o == "C":
            if self.impl == "B":
                self.expect(k, res, "x%d" % self.custom)
            else:
                self.stored(k, res, ("Cu",))
            self.custom += 1
        elif o in ("U", "T", "F"):
            self.stored(k, res, (o,))
        elif o == "N":
            self.stored(k, res, ("N", t[1]), ("N", t[1]))
        elif o == "TY":
            self.stored(k, res, ("Ty", t[1]), ("Ty", t[1]))
        elif o in ("CH", "BY", "SY"):
            kind = {"CH": "Ch", "BY": "By", "SY": "Sy"}[o]
            v = "%x" % int(t[1], 16)
            self.stored(k, res, (kind, v), (kind, v))
        elif o in ("EX", "XT"):
            kind = {"EX": "Ex", "XT": "Xt"}[o]
            v = str(A(t[1]))
            self.stored(k, res, (kind, v), (kind, v))
        elif o in ("P", "CC", "RG", "SL", "PT"):
            kind = {"P": "P", "CC": "Cc", "RG": "Rg", "SL": "Sl", "PT": "Pt"}[o]
            self.stored(k, res, (kind, self.tree_of_addr(A(t[1])), self.tree_of_addr(A(t[2]))))
        elif o == "W":
            cps = [] if t[1] == "-" else ["%x" % int(x, 16) for x in t[1].split(".")]
            self.stored(k, res, ("Cl", cps), ("Cl", tuple(cps)))
        elif o == "BL":
            bs = [] if t[1] == "-" else ["%x" % int(x, 16) for x in t[1].split(".")]
            self.stored(k, res, ("Bl", bs), ("Bl", tuple(bs)))
        elif o == "LS":
            if not res.startswith("h"):
                self.bad("step %d: start_list returned %s" % (k, res))
            self.cur_list = []
        elif o == "LA":
            if not res.startswith("h"):
                self.bad("step %d: add_to_list returned %s" % (k, res))
            if self.cur_list is not None:
                self.cur_list.append(self.tree_of_addr(A(t[2])))
        elif o == "LE":
            self.stored(k, res, ("L", list(self.cur_list or [])))
            self.cur_list = None
        elif o == "RP":
            self.expect(k, res, "ok")
            self.regs.append(A(t[1]))
        elif o == "RQ":
            if not self.regs:
                self.expect(k, res, "none")
            else:
                top = self.regs.pop()
                if isinstance(top, tuple):
                    self.expect(k, res, "err")      # Simple: a frame marker was popped
                else:
                    self.expect(k, res, "some%d" % top)
        elif o == "VP":
            self.expect(k, res, "ok")
            self.values.append(A(t[1]))
        elif o == "VQ":
            if self.values:
                self.expect(k, res, "some%d" % self.values.pop())
            else:
                self.expect(k, res, "none")
        elif o == "VS":
            if self.values:
                self.expect(k, res, "ok")
                self.values[-1] = A(t[1])
            else:
                self.expect(k, res, "none")
        elif o == "FP":
            self.expect(k, res, "ok")
            if self.impl == "B":
                self.frames.append((A(t[1]), list(self.regs)))
            else:
                self.regs.append(("F", A(t[1])))
        elif o == "FQ":
            if self.impl == "B":
                if self.frames:
                    ret, saved = self.frames.pop()
                    self.regs = saved
                    self.expect(k, res, "some%d" % ret)
                else:
                    self.expect(k, res, "none")
            else:
                found = None
                while self.regs:
                    top = self.regs.pop()
                    if isinstance(top, tuple):
                        found = top[1]
                        break
                self.expect(k, res, "none" if found is None else "some%d" % found)
        elif o == "IC":
            self.expect(k, res, "ok")
            self.cursor = A(t[1])
        else:
            raise ValueError("op " + o)
        self.nums.append(num)

    def expect(self, k, res, want):
        if res != want:
            self.bad("step %d: result %s, expected %s" % (k, res, want))

    def frames_view(self):
        if self.impl == "B":
            return ["%d/%d" % (ret, len(saved)) for ret, saved in reversed(self.frames)]
        out, regs = [], list(self.regs)
        while regs:
            top = regs.pop()
            if isinstance(top, tuple):
                out.append("%d/%d" % (top[1], len(regs)))
        return out

    def check_dump(self, k, d):
        """d: parsed dump {name: text}"""
        exp = {
            "I": ",".join("%d/%s" % (i, "-" if x is None else x) for i, x in self.instr),
            "J": ",".join(str(x) for x in self.jump),
            "V": str(self.values[-1]) if self.values else "-",
            "IC": str(self.cursor),
            "R": ",".join(("F%d" % r[1]) if isinstance(r, tuple) else str(r) for r in self.regs),
            "VS": ",".join(str(x) for x in reversed(self.values)),
            "FS": ",".join(self.frames_view()),
            "Y": ",".join("%s:%s" % (s, n) for s, n in self.syms),
            "E": ",".join("%s:%d" % (s, v) for s, v in self.esyms),
            "C": "%d/%d" % (self.custom, self.custom),
        }
        for key, want in exp.items():
            got = d.get(key)
            if got is not None and got.strip("[]") != want:
                self.bad("after step %s: %s reads back [%s], stored [%s]" % (k, key, got.strip("[]"), want))
        got_t = {}
        body = d.get("T", "[]")[1:-1]
        if body:
            for e in body.split(";"):
                kk, tr = e.split(":", 1)
                got_t[int(kk)] = tr
        for kk, (a, tree) in self.step_tree.items():
            cur = self.tree_at.get(a, tree)
            if has_wild(cur):
                continue
            want = render(cur)
            if got_t.get(kk) != want:
                self.bad("after step %s: value stored at step %d (address %d) reads back %s, stored %s" % (k, kk, a, got_t.get(kk), want))


def parse_dump(text):
    d = {}
    for part in text.split(" "):
        if "=" in part:
            k, v = part.split("=", 1)
            d[k] = v
    return d


def check_inv(d):
    """Inv on the (start,cursor,size) triples and the heap printed by the hook."""
    if "BL" not in d:
        return None
    tr = [tuple(int(x) for x in b.split(".")) for b in d["BL"].split(",")]
    pos = 0
    for (s, c, z) in tr:
        if s != pos:
            return "block start %d, expected %d (blocks not contiguous)" % (s, pos)
        if c > z:
            return "cursor %d > size %d" % (c, z)
        pos += z
    cells = []
    if d.get("H"):
        for tok in d["H"].split(","):
            if tok.startswith("_*"):
                cells += ["_"] * int(tok[2:])
            else:
                cells.append(tok)
    if len(cells) != pos:
        return "heap length %d, sum of sizes %d" % (len(cells), pos)
    for (s, c, z) in tr:
        for i in range(s + c, s + z):
            if cells[i] != "_":
                return "cell %d beyond a cursor is %s" % (i, cells[i])
    return None


# ---------------------------------------------------------------- generators
UNIFORM = [(i, p) for i in (0, 1, 2) for p in ("F1", "F2", "M2") if not (i == 0 and p == "M2")]


def profile(init, pol, mx="-"):
    return ",".join("%d/%s/%s" % (init, mx, pol) for _ in range(6))


def table_op(kind, k):
    """the k-th operation of a history, pushing to one table; payloads depend on k"""
    return {
        "I": "I %d -" % (7 + k), "J": "J %d" % (10 + k), "Y": "Y s%d" % k, "E": "E %x %d" % (0xa0 + k, k),
        "N": "N i%x" % (100 + k), "C": "C", "RP": "RP %d" % (k % 3), "VP": "VP %d" % (k % 3), "FP": "FP %d" % (20 + k),
    }[kind]


def gen_exhaustive(alphabet, max_len):
    out = []
    for n in range(1, max_len + 1):
        for combo in itertools.product(alphabet, repeat=n):
            out.append(" ; ".join(table_op(kind, k) for k, kind in enumerate(combo)))
    return out


def gen_random_history(rng, n, soup=False):
    """a mostly well-formed history over every kind of operation"""
    ops, addrs, lists_open = [], [], None
    names = ["foo", "bar", "baz", "n1", "x_y", "q"]
    k = 0

    def ref():
        if soup and rng.random() < 0.15:
            return str(rng.randint(0, 40))
        return "@%d" % rng.choice(addrs) if addrs else None

    while k < n:
        r = rng.random()
        op = None
        if lists_open is not None:
            handle, want, have = lists_open
            if have < want and rng.random() < 0.7 and addrs:
                op = "LA @%d %s" % (handle, ref())
                lists_open = (handle, want, have + 1)
            elif have >= want:
                op = "LE @%d" % handle
                lists_open = None
                addrs.append(k)
        if op is None:
            if r < 0.10:
                op = "I %d %s" % (rng.randint(0, 55), rng.choice(["-", str(rng.randint(0, 9))]))
            elif r < 0.16:
                op = "J %d" % rng.randint(0, 99)
            elif r < 0.19:
                op = "JM %d %d" % (rng.randint(0, 6), rng.randint(0, 99))
            elif r < 0.25:
                op = "Y %s" % rng.choice(names)
                addrs.append(k)
            elif r < 0.29:
                op = "E %x %d" % (rng.choice([k + 1, 2 ** 64 - 1 - k, (rng.getrandbits(50) << 13) | (k + 1)]), rng.randint(0, 9))
            elif r < 0.33:
                op = "C"
            elif r < 0.45:
                op = "N " + rng.choice(["i%x" % rng.randint(0, 6), "i-%x" % rng.randint(1, 2 ** 31), "f%016x" % rng.getrandbits(64), "f0000000000000000", "f8000000000000000"])
                addrs.append(k)
            elif r < 0.50:
                op = rng.choice(["U", "T", "F"])
                addrs.append(k)
            elif r < 0.56:
                op = rng.choice(["TY %d" % rng.randint(0, 20), "CH %x" % rng.choice([0x61, 0x7a, 0xe9, 0x1f600]), "BY %x" % rng.randint(0, 255),
                                 "SY %x" % rng.choice([0, 1, 2 ** 64 - 1, rng.getrandbits(64)]), "EX %d" % rng.randint(0, 5), "XT %d" % rng.randint(0, 5)])
                addrs.append(k)
            elif r < 0.66 and addrs:
                op = "%s %s %s" % (rng.choice(["P", "P", "CC", "RG", "SL", "PT"]), ref(), ref())
                addrs.append(k)
            elif r < 0.72:
                cps = [rng.choice([0x61, 0x62, 0x7a, 0x30, 0x20]) for _ in range(rng.randint(0, 5))]
                op = "W " + (".".join("%x" % c for c in cps) if cps else "-")
                addrs.append(k)
            elif r < 0.76:
                bs = [rng.randint(0, 255) for _ in range(rng.randint(0, 4))]
                op = "BL " + (".".join("%x" % c for c in bs) if bs else "-")
                addrs.append(k)
            elif r < 0.80 and lists_open is None and addrs:
                want = rng.randint(0, 4)
                op = "LS %d" % want
                lists_open = (k, want, 0)
            elif r < 0.85 and addrs:
                op = "RP %s" % ref()
            elif r < 0.88:
                op = "RQ"
            elif r < 0.92 and addrs:
                op = "VP %s" % ref()
            elif r < 0.94:
                op = "VQ"
            elif r < 0.96 and addrs:
                op = "VS %s" % ref()
            elif r < 0.98:
                op = "FP %d" % rng.randint(0, 50)
            elif r < 0.99:
                op = "FQ"
            else:
                op = "IC %d" % rng.randint(0, 9)
        if op is None or "None" in op:
            continue
        if soup and rng.random() < 0.05:
            op = rng.choice(["LE %d" % rng.randint(0, 9), "LA %d %d" % (rng.randint(0, 9), rng.randint(0, 30)), "LS %d" % rng.randint(0, 3),
                             "P %d %d" % (rng.randint(0, 60), rng.randint(0, 60)), "VS %d" % rng.randint(0, 60)])
            lists_open = None
        ops.append(op)
        k += 1
    return " ; ".join(ops)


def random_profile(rng, finite=False, no_progress=False):
    bl = []
    for _ in range(6):
        init = rng.choice([0, 0, 1, 2, 3, 5])
        if no_progress and rng.random() < 0.5:
            pol = rng.choice(["F0", "M0", "M1"] + (["M2"] if init == 0 else []))
        else:
            pol = rng.choice(["F1", "F2", "F3", "F7"] + (["M2", "M3"] if init > 0 else []))
        mx = "-"
        if finite and rng.random() < 0.6:
            mx = str(rng.randint(init, init + 12))
        bl.append("%d/%s/%s" % (init, mx, pol))
    return ",".join(bl)


def f64_bits(x):
    import struct
    return "%016x" % struct.unpack("<Q", struct.pack("<d", x))[0]


def collision_corpus():
    """constants whose DefaultHasher byte streams coincided before the fix of
    `impl Hash for SimpleNumber`: a Float whose Display text is three bytes and
    the Integer made of those bytes followed by 0xff"""
    out = []
    for x, text in ((0.5, "0.5"), (1.5, "1.5"), (2.5, "2.5"), (100.0, "100"), (255.0, "255"), (-10.0, "-10")):
        b = text.encode() + b"\xff"
        v = int.from_bytes(b, "little", signed=True)
        iv = ("i-%x" % -v) if v < 0 else ("i%x" % v)
        out.append("S - a | N f%s ; N %s ; N f%s ; N %s ; P @0 @1" % (f64_bits(x), iv, f64_bits(x), iv))
        out.append("S - a | N %s ; N f%s ; P @0 @1" % (iv, f64_bits(x)))
    return out


def gen_cases(tier, seed):
    """returns list of (stream, line); streams: exh, long, mixed (oracle on);
    finite, soup (stability + Inv + correspondence); noprog (correspondence only)"""
    rng = vplib.rng_for(seed, "C15")
    cases = [("mixed", c) for c in collision_corpus()]
    L6 = 7 if tier == "thorough" else 5
    L9 = 5 if tier == "thorough" else 4
    six = gen_exhaustive(["I", "J", "Y", "E", "N", "C"], L6)
    nine = [h for h in gen_exhaustive(["I", "J", "Y", "E", "N", "C", "RP", "VP", "FP"], L9)
            if any(x in h for x in ("RP", "VP", "FP"))]
    for init, pol in UNIFORM:
        p = profile(init, pol)
        for h in six:
            cases.append(("exh", "B %s e | %s" % (p, h)))
    for init, pol in (UNIFORM if tier == "thorough" else [(0, "F1"), (1, "M2"), (2, "F2")]):
        p = profile(init, pol)
        for h in nine:
            cases.append(("exh", "B %s e | %s" % (p, h)))
    for h in six + nine:
        cases.append(("exh", "S - e | %s" % h))
    # the extracted model indexes lists with unary nat: a 10^4-operation history costs hours, 3000 a minute
    n_long = (12, 400, 2, 3000) if tier == "thorough" else (8, 250, 1, 1500)
    for imp, prof in (("B", "default"), ("S", "-")):
        for _ in range(n_long[0]):
            cases.append(("long", "%s %s 50 | %s" % (imp, prof, gen_random_history(rng, n_long[1]))))
        for _ in range(n_long[2]):
            cases.append(("long", "%s %s 500 | %s" % (imp, prof, gen_random_history(rng, n_long[3]))))
    n_mixed = 3000 if tier == "thorough" else 400
    for _ in range(n_mixed):
        cases.append(("mixed", "B %s a | %s" % (random_profile(rng), gen_random_history(rng, rng.randint(5, 40)))))
    for _ in range(n_mixed // 4):
        cases.append(("mixed", "S - a | %s" % gen_random_history(rng, rng.randint(5, 40))))
    for _ in range(n_mixed // 2):
        cases.append(("finite", "B %s a | %s" % (random_profile(rng, finite=True), gen_random_history(rng, rng.randint(5, 40)))))
    for _ in range(n_mixed // 2):
        cases.append(("soup", "B %s a | %s" % (random_profile(rng), gen_random_history(rng, rng.randint(5, 40), soup=True))))
        cases.append(("soup", "S - a | %s" % gen_random_history(rng, rng.randint(5, 40), soup=True)))
    for _ in range(n_mixed // 2):
        cases.append(("noprog", "B %s a | %s" % (random_profile(rng, no_progress=True), gen_random_history(rng, rng.randint(3, 25)))))
    for pol in ("F0", "M2", "M1", "M0"):
        for h in gen_exhaustive(["I", "J", "Y", "E", "N", "C"], 3):
            cases.append(("noprog", "B %s e | %s" % (profile(0 if pol != "M1" else 1, pol), h)))
    return cases


# ------------------------------------------------------------------ evaluation
def split_out(line):
    """harness/driver line -> (case, results list, {step: dump text}, oracle column)"""
    case, body, oracle = line.split("\t")
    if " # " in body:
        res, dumps = body.split(" # ", 1)
    elif body.endswith(" #"):
        res, dumps = body[:-2], ""
    else:
        res, dumps = body, ""
    dd = {}
    for e in dumps.split(" ; "):
        if e:
            k, txt = e.split(":", 1)
            dd[k] = txt
    return case, res.split(" ") if res else [], dd, oracle


def oracle_check(stream, case, results, dumps, oracle_col):
    """property-level evaluation of one history on the implementation output.
    Returns list of problems (strings)."""
    head, _, opstr = case.partition(" | ")
    imp = head.split(" ")[0]
    ops = [o.split(" ") for o in opstr.split(" ; ")] if opstr else []
    problems = []
    if results and results[0] in ("NEWERR", "NEWPANIC"):
        return ["constructor failed: " + results[0]]
    symvals = {}
    if oracle_col != "-":
        for e in oracle_col.split(" "):
            if e[0] == "s":
                k, v = e[1:].split(":")
                symvals[int(k)] = v
    full = stream in ("exh", "long", "mixed")
    orc = Oracle(imp)
    first_tree = {}
    for k, t in enumerate(ops):
        res = results[k] if k < len(results) else "-"
        if res == "PANIC":
            problems.append("step %d (%s): panic" % (k, " ".join(t)))
            break
        if res == "-":
            break
        if full:
            orc.step(k, t, res, symvals)
        d = dumps.get(str(k))
        if d is None:
            continue
        if d in ("DUMPPANIC",):
            problems.append("after step %d: reading the store back panics" % k)
            continue
        pd = parse_dump(d)
        inv = check_inv(pd)
        if inv:
            problems.append("after step %d: heap invariant broken: %s" % (k, inv))
        if full:
            orc.check_dump(k, pd)
        elif stream == "finite":
            body = pd.get("T", "[]")[1:-1]
            for e in (body.split(";") if body else []):
                kk, tr = e.split(":", 1)
                if kk in first_tree and first_tree[kk] != tr:
                    problems.append("after step %d: value stored at step %s read back %s before and %s now" % (k, kk, first_tree[kk], tr))
                first_tree.setdefault(kk, tr)
    problems += orc.problems
    return problems


_EXE = {}


def store_exe(profile="debug"):
    """private copy of the harness binary (a concurrent rebuild cannot replace it mid-run)"""
    if profile not in _EXE:
        _EXE[profile] = vplib.private_copy(vplib.harness_bin(STORE, profile))
    return _EXE[profile]


def run_pair(lines, profile="debug"):
    text = "\n".join(lines) + "\n"
    rc, impl = vplib.run_lines([store_exe(profile)], text, timeout=1800)
    if rc != 0 or len(impl) != len(lines):
        return None, None, "store harness rc=%s lines=%d/%d %s" % (rc, len(impl), len(lines), impl[-1:] if impl else "")
    rc, model = vplib.run_lines([vplib.OCAML_BUILD + "/store_driver"], "\n".join(impl) + "\n", timeout=3000)
    if rc != 0 or len(model) != len(lines):
        return impl, None, "store_driver rc=%s lines=%d/%d %s" % (rc, len(model), len(lines), model[-1:] if model else "")
    return impl, model, None


def history_len(case):
    return case.count(" ; ") + 1


def run(tier, seed):
    v = Verdict(PID, tier, seed)
    v.assumptions = ["growth settings can make progress: FixedSize k >= 1, or Multiplicative m >= 2 on a non-zero size",
                     "max_items unbounded in the theorems (finite limits: correspondence + read-back stability only)",
                     "usize arithmetic does not overflow; slice::sort_by is stable",
                     "the intern-table hash is injective on the constants added (C15_simple_intern)"]
    sy = vplib.sync(["storecells"])
    for name, e in sy.get("errors", {}).items():
        v.tie_failure("translator %s: %s" % (name, e))
    v.coverage["tables_regenerated"] = sy.get("changed", [])
    pr = vplib.prove(PID, ["Proofs/C15"], extra_targets=["Extract/StoreExtract.vo", "Proofs/C15/Variants.vo"])
    for f in pr["failures"]:
        v.tie_failure("prove: " + f)
    v.coverage.update(vplib.proof_coverage(
        pr, "make -C coq Properties/C15.vo && coqc Properties/C15.v (Print Assumptions) && tools/props/c15.py correspondence", TRUSTED))
    ok, out = vplib.cargo_build("debug", bins=[STORE])
    if not ok:
        v.tie_failure("harness build failed: " + out[-400:])
    okm, outm = vplib.ocaml_build("store") if os.path.exists(vplib.OCAML_BUILD + "/store_model.ml") else (False, "no extracted model")
    if not okm:
        v.tie_failure("model driver build failed: " + outm[-300:])
    cases = gen_cases(tier, seed)
    stats = {"cases": len(cases), "steps": 0, "model_disagreements": 0, "property_failures": 0, "panics_noprog": 0,
             "by_stream": {}, "grew": 0, "intern_hits": 0, "max_heap": 0, "ops": {}}
    samples, distinct = [], set()
    viol = []
    if ok:
        CH = 40000
        for off in range(0, len(cases), CH):
            chunk = cases[off:off + CH]
            impl, model, err = run_pair([c for _, c in chunk])
            if err:
                v.tie_failure("correspondence run: " + err)
            if impl is None:
                continue
            for i, line in enumerate(impl):
                stream = chunk[i][0]
                case, results, dumps, oracle_col = split_out(line)
                stats["by_stream"][stream] = stats["by_stream"].get(stream, 0) + 1
                stats["steps"] += len(results)
                body = line.split("\t")[1]
                if stream != "noprog":
                    probs = oracle_check(stream, case, results, dumps, oracle_col)
                    if probs:
                        stats["property_failures"] += 1
                        viol.append((history_len(case), case, probs, body))
                else:
                    if "PANIC" in results:
                        stats["panics_noprog"] += 1
                # coverage measurements
                last = dumps.get(str(len(results) - 1))
                if last:
                    pd = parse_dump(last)
                    if "BL" in pd:
                        sizes = [int(b.split(".")[2]) for b in pd["BL"].split(",")]
                        inits = [int(b.split("/")[0]) for b in case.split(" ")[1].split(",")] if case.split(" ")[1] != "default" else [10] * 6
                        if any(s > i0 for s, i0 in zip(sizes, inits)):
                            stats["grew"] += 1
                            distinct.add(hash(last))
                        stats["max_heap"] = max(stats["max_heap"], sum(sizes))
                    else:
                        distinct.add(hash(last))
                if model is not None:
                    mbody = model[i].split("\t")[1]
                    if mbody != body:
                        stats["model_disagreements"] += 1
                        if stats["model_disagreements"] <= 5:
                            j = 0
                            while j < min(len(body), len(mbody)) and body[j] == mbody[j]:
                                j += 1
                            v.tie_failure("correspondence store (%s): %s | impl ...%s | model ...%s" % (
                                stream, case[:300], body[max(0, j - 60):j + 60], mbody[max(0, j - 60):j + 60]))
                if len(samples) < 6 and i % max(1, len(impl) // 3) == 0:
                    samples.append({"case": case[:200], "impl": body[:300]})
    # directed search for confused constants: long runs of distinct constants, read back at the end
    # (a 32-bit-wide intern key shows up by the birthday bound at about 80k constants)
    okI, outI = vplib.cargo_build("debug", bins=["intern"])
    if not okI:
        v.tie_failure("harness build failed (intern): " + outI[-400:])
    else:
        n = 1500000 if tier == "thorough" else 250000
        rng = vplib.rng_for(PID, seed)
        lines = ["S int %d %d 1" % (n, rng.randrange(1 << 31)), "S float %d %d 1" % (n, rng.randrange(1 << 40)),
                 "S sym %d %d %d" % (n, rng.randrange(1 << 60), rng.choice([1, 7919, (1 << 32) + 1])),
                 "S mix %d %d 1" % (n, rng.randrange(1 << 31)), "S char 53248 0 1",
                 "B int 20000 %d 1" % rng.randrange(1 << 31), "B mix 20000 %d 3" % rng.randrange(1 << 31)]
        rc, outl = vplib.run_lines([vplib.private_copy(vplib.harness_bin("intern"))], "\n".join(lines) + "\n", timeout=900)
        stats["intern_stress"] = {}
        if rc != 0 or len(outl) != len(lines):
            v.tie_failure("intern stress run rc=%s lines=%d/%d" % (rc, len(outl), len(lines)))
        for ln in outl:
            case, _, res = ln.partition("\t")
            stats["intern_stress"][case] = res[:80]
            if res.startswith("ok"):
                stats["steps"] += int(res.split("n=")[1])
            else:
                v.violation(component="intern", input="intern " + case, what="distinct constants are confused: " + res, impl=res)
    # directed search for residue of failed / abandoned operations leaking into later values: histories that mix
    # constants with conversions failing midway; everything is read back after every step (harness/src/bin/residue.rs)
    okR, outR = vplib.cargo_build("debug", bins=["residue"])
    if not okR:
        v.tie_failure("harness build failed (residue): " + outR[-400:])
    else:
        rngr = vplib.rng_for(seed, PID + "/residue")
        nres = 400 if tier == "thorough" else 60
        lines = []
        for k in range(nres):
            sd = rngr.randrange(1 << 40)
            lines.append("S %d %d" % (sd, 40 + (k % 5) * 20))
            lines.append("B %d %d" % (sd, 40 + (k % 5) * 20))
        rc, outl = vplib.run_lines([vplib.private_copy(vplib.harness_bin("residue"))], "\n".join(lines) + "\n", timeout=900)
        rs = {"cases": len(lines), "failed_conversions": 0, "attempted_conversions": 0, "steps": 0}
        if rc != 0 or len(outl) != len(lines):
            v.tie_failure("residue run rc=%s lines=%d/%d" % (rc, len(outl), len(lines)))
        nbad = 0
        for ln in outl:
            case, _, res = ln.partition("\t")
            if res.startswith("ok"):
                m = re.search(r"steps=(\d+) failed_conversions=(\d+)/(\d+)", res)
                if m:
                    rs["steps"] += int(m.group(1)); rs["failed_conversions"] += int(m.group(2)); rs["attempted_conversions"] += int(m.group(3))
            else:
                nbad += 1
                if nbad <= 5:
                    v.violation(component="residue", input="residue " + case,
                                what="a value added through the data interface does not read back as added (after a failed conversion): " + res, impl=res)
        stats["residue"] = rs
        stats["steps"] += rs["steps"]
    viol.sort(key=lambda x: x[0])
    for n, case, probs, body in viol[:20]:
        v.violation(component="store", input=case, what=probs[0], all_problems=probs[:6], impl=body[:1500])
    for _, c in cases:
        for o in c.partition(" | ")[2].split(" ; "):
            kname = o.split(" ")[0]
            stats["ops"][kname] = stats["ops"].get(kname, 0) + 1
    v.coverage.update({
        "evaluations": stats["steps"],
        "distinct_nontrivial": len(distinct),
        "rule": "all interleavings (lengths 1..%d over the six tables, 1..%d with register/value/frame pushes) for initial sizes 0,1,2 x "
                "{FixedSize 1, FixedSize 2, Multiplicative 2 from non-zero}; random long histories with default settings; random per-block "
                "profiles; finite max_items; address soups; non-progressing settings (correspondence only). A case is non-trivial when "
                "at least one block grew (Basic) / distinct final store (Simple); distinct final dumps are counted"
                % ((7, 5) if tier == "thorough" else (5, 4)),
        "samples": samples,
        "histogram": stats,
    })
    return v.finish("proof")


def replay(obj):
    cases = [x["input"] for x in obj.get("violations", []) if "input" in x]
    if not cases:
        print("replay names a broken tie, not an input:", obj.get("no_longer_checks"))
        return run("quick", obj.get("seed", 0))
    bad = 0
    special = [c for c in cases if c.startswith(("residue ", "intern "))]
    cases = [c for c in cases if not c.startswith(("residue ", "intern "))]
    for c in special:
        name, _, line = c.partition(" ")
        okb, _ = vplib.cargo_build("debug", bins=[name])
        rc, outl = vplib.run_lines([vplib.harness_bin(name)], line + "\n", timeout=900) if okb else (1, [])
        res = outl[0].partition("\t")[2] if outl else "no output"
        if res.startswith("ok"):
            print("ok: %s" % c)
        else:
            bad = 1
            print("FAILS: %s\n   %s" % (c, res))
    if not cases:
        return bad
    ok, out = vplib.cargo_build("debug", bins=[STORE])
    if not ok:
        print("harness build failed")
        return 1
    rc, impl = vplib.run_lines([store_exe()], "\n".join(cases) + "\n", timeout=600)
    for line in impl:
        case, results, dumps, oracle_col = split_out(line)
        stream = "mixed" if " | " in case else "exh"
        probs = oracle_check(stream, case, results, dumps, oracle_col)
        if probs:
            bad = 1
            print("FAILS: %s\n   %s" % (case, probs[0]))
        else:
            print("ok: %s" % case)
    return bad
