(* C15  Stored values read back unchanged, however the store grows.
   Only statements, [exact] and [Print Assumptions] live here (and Examples
   showing the hypotheses are satisfiable and the interesting branches taken). *)
From Coq Require Import NArith ZArith List Bool Arith Lia.
From GV Require Import Base.Result Gen.Instr Model.StoreBase Model.BasicStore Model.SimpleStore Model.StoreOps
  Spec.AbsTables Proofs.C15.Layout Proofs.C15.Stable Proofs.C15.Steps Proofs.C15.History Proofs.C15.AbsView
  Proofs.C15.NoProgress Proofs.C15.SimpleIntern.
Import ListNotations.

(* ---- BasicGarnishData: the storage layer ---- *)

(* reallocate_heap with any new sizes >= the cursors (and within max_items):
   returns Ok, re-establishes the layout invariant and changes no table *)
Theorem C15_reallocate_preserves_tables : forall s new, Inv s -> (forall b, cur s b <= new b) ->
  (forall b, exceeds (new b) (max_items (sett s b)) = false) ->
  exists s', reallocate_heap new s = Ok (s', Done tt) /\ Inv s' /\ abs s' = abs s /\ (forall b, sz s' b = new b).
Proof. exact reallocate_abs. Qed.
Print Assumptions C15_reallocate_preserves_tables.

(* every push_to_<block>_block, under every growth setting that can make
   progress: Ok, the invariant holds again, exactly the one table is extended
   (tpush appends to table b and to no other) and the returned index is the
   old length of that table *)
Theorem C15_push_extends_one_table : forall s b c, Good s ->
  exists s', push_to b c s = Ok (s', Done (snd (tpush b c (abs s)))) /\ Good s' /\ abs s' = fst (tpush b c (abs s)).
Proof. exact push_abs. Qed.
Print Assumptions C15_push_extends_one_table.

(* the _mut accessors: exactly the one named cell changes *)
Theorem C15_update_changes_one_cell : forall s b i c, Inv s -> i < cur s b ->
  exists s', set_in_block b i c s = Ok (s', Done tt) /\ Inv s' /\ tupdate b i c (abs s) = Some (abs s').
Proof. exact update_abs. Qed.
Print Assumptions C15_update_changes_one_cell.

(* a fresh store with progressing settings satisfies the invariant and is empty *)
Theorem C15_fresh_store : forall si sj ss se sd sc,
  progressing si -> progressing sj -> progressing ss -> progressing se -> progressing sd -> progressing sc ->
  exists s0, new_with_settings si sj ss se sd sc = Ok (s0, Done tt) /\ G s0 /\ (forall b, window s0 b = []).
Proof. exact fresh_store_ok. Qed.
Print Assumptions C15_fresh_store.

(* every operation of the history vocabulary (instructions, jump table and its
   patch, symbol tables, custom, every data adder, text, bytes, list
   construction, register / value / frame stacks): no panic, the invariant
   holds again, everything stored before still reads back *)
Theorem C15_step : forall o s, G s -> exists s' r, bstep o s = Ok (s', r) /\ G s' /\ Stable s s'.
Proof. exact bstep_ok. Qed.
Print Assumptions C15_step.

(* ---- lifted to all histories ---- *)
Theorem C15_readback : forall si sj ss se sd sc ops1 ops2,
  progressing si -> progressing sj -> progressing ss -> progressing se -> progressing sd -> progressing sc ->
  exists s0 s1 s2 r1 r2,
    new_with_settings si sj ss se sd sc = Ok (s0, Done tt) /\
    run bstep ops1 s0 = Ok (s1, r1) /\ run bstep ops2 s1 = Ok (s2, r2) /\
    length r1 = length ops1 /\ length r2 = length ops2 /\
    Inv s1 /\ Inv s2 /\
    (forall a, frozen (data s1) a -> get_from_block BData a s2 = get_from_block BData a s1) /\
    (forall i x, get_instruction i s1 = Ok (Some x) -> get_instruction i s2 = Ok (Some x)).
Proof. exact readback_history. Qed.
Print Assumptions C15_readback.

(* what an adder returns is the address of a frozen cell holding the value *)
Theorem C15_stored_value_is_frozen : forall s c, G s -> plain c -> stable_kind c = true ->
  exists s', push_to_data_block c s = Ok (s', Done (length (data s))) /\ G s' /\
    nth_error (data s') (length (data s)) = Some c /\ frozen (data s') (length (data s)).
Proof. exact stored_cell. Qed.
Print Assumptions C15_stored_value_is_frozen.

(* so are the header, the items and the associations of a finished list *)
Theorem C15_list_cells_are_frozen : forall T p len ac k, RegionOk T ->
  nth_error T p = Some (CList len ac) -> k <= 2 * len -> frozen T (p + k).
Proof. exact list_cells_frozen. Qed.
Print Assumptions C15_list_cells_are_frozen.

(* ---- the side condition is necessary ---- *)
Theorem C15_no_progress_refuted :
  ~ progressing stuck_fixed /\
  exists s0 s1 s2 r1 r2,
    new_with_settings stuck_fixed stuck_fixed stuck_fixed stuck_fixed stuck_fixed stuck_fixed = Ok (s0, Done tt) /\
    run bstep [OJump 5] s0 = Ok (s1, r1) /\
    get_from_jump_table 0 s1 = Ok (Some 5) /\
    run bstep [OInstr I_Add None; OInstr I_Put None] s1 = Ok (s2, r2) /\
    get_from_jump_table 0 s2 = Ok None.
Proof. exact (conj stuck_fixed_not_progressing no_progress_overwrites). Qed.
Print Assumptions C15_no_progress_refuted.

Theorem C15_no_progress_panics :
  ~ progressing stuck_mult /\
  exists s0,
    new_with_settings stuck_mult stuck_mult stuck_mult stuck_mult stuck_mult stuck_mult = Ok (s0, Done tt) /\
    run bstep [ONumber (SInt 1%Z)] s0 = Panic P_push_index.
Proof. exact (conj stuck_mult_not_progressing no_progress_panics). Qed.
Print Assumptions C15_no_progress_panics.

(* ---- SimpleGarnishData ---- *)
(* the data vector only grows: what is stored reads back after any history
   (h: the intern-table hash, an oracle; dom: the constants added) *)
Theorem C15_simple_readback : forall (h : sdata -> N) (dom : sdata -> Prop),
  (forall v w, dom v -> dom w -> h v = h w -> v = w) ->
  forall ops s s' rs a v, SInv h dom s -> ops_dom dom ops -> run (sstep h) ops s = Ok (s', rs) ->
  nth_error (s_data s) a = Some v -> nth_error (s_data s') a = Some v.
Proof. exact simple_readback. Qed.
Print Assumptions C15_simple_readback.

(* adding an equal constant again returns the same address, a different
   constant a different address, whatever happens in between -- under the
   hypothesis that the hash does not collide on the constants added *)
Theorem C15_simple_intern : forall (h : sdata -> N) (dom : sdata -> Prop),
  (forall v w, dom v -> dom w -> h v = h w -> v = w) ->
  forall v w ops s s1 s2 s3 a1 a2 rs r1 r2,
  SInv h dom s -> dom v -> dom w -> ops_dom dom ops ->
  cache_add h v s = Ok (s1, r1) -> r1 = Done a1 ->
  run (sstep h) ops s1 = Ok (s2, rs) ->
  cache_add h w s2 = Ok (s3, r2) -> r2 = Done a2 ->
  (v = w -> a1 = a2) /\ (v <> w -> a1 <> a2) /\
  nth_error (s_data s3) a1 = Some v /\ nth_error (s_data s3) a2 = Some w.
Proof. exact simple_intern. Qed.
Print Assumptions C15_simple_intern.

(* ---- non-vacuity ---- *)
Definition ex_settings (init : nat) (p : strategy) : settings := mkSettings init None p.

Example C15_ex_progressing :
  progressing (ex_settings 0 (FixedSize 1)) /\ progressing (ex_settings 1 (Multiplicative 2)) /\
  progressing default_settings /\ ~ progressing (ex_settings 0 (Multiplicative 2)).
Proof.
  split; [split; [reflexivity|cbn; lia]|].
  split; [split; [reflexivity|cbn; lia]|].
  split; [split; [reflexivity|cbn; lia]|].
  intros [_ H]. cbn in H. destruct H as [_ H]. inversion H.
Qed.

(* a history in which four different blocks are reallocated while the others
   are partly filled; the number, the pair and the list stored early read
   back at the end *)
Definition ex_history : list op :=
  [ONumber (SInt 7%Z); OInstr I_Add None; OJump 3; OPair 0 0; OCustom; OListStart 1; OListAdd 2 1; OListEnd 2;
   OInstr I_Put (Some 0); ORegPush 0; OValPush 1; OFramePush 4; OExprSym 9%N 1; ONumber (SInt 8%Z)].

Example C15_ex_history :
  let st := ex_settings 0 (FixedSize 1) in
  match new_with_settings st st st st st st with
  | Ok (s0, Done tt) =>
      match run bstep ex_history s0 with
      | Ok (s, rs) =>
          get_number 0 s = Ok (SInt 7%Z) /\ get_pair 1 s = Ok (0, 0) /\ get_list_len 2 s = Ok 1 /\
          get_list_item 2 0%Z s = Ok (Some 1) /\ length (heap s) = 15 /\
          nth_error rs 13 = Some (RAddr 9)
      | _ => False
      end
  | _ => False
  end.
Proof. vm_compute. repeat split; reflexivity. Qed.

(* the no-collision hypothesis of the intern theorems is satisfiable on a
   non-trivial domain, and an (artificial) colliding hash makes interning
   return one address for two different constants *)
Definition ex_dom (v : sdata) : Prop := exists z, v = SNumber (SInt z).
Definition ex_hash (v : sdata) : N := match v with SNumber (SInt z) => Z.to_N (Z.abs z * 2 + (if Z.ltb z 0 then 1 else 0)) | _ => 0%N end.

Example C15_ex_hash_injective : forall v w, ex_dom v -> ex_dom w -> ex_hash v = ex_hash w -> v = w.
Proof.
  intros v w [a ->] [b ->] H. cbn in H. f_equal. f_equal.
  destruct (Z.ltb a 0) eqn:Ea; destruct (Z.ltb b 0) eqn:Eb;
    [apply Z.ltb_lt in Ea; apply Z.ltb_lt in Eb | apply Z.ltb_lt in Ea; apply Z.ltb_ge in Eb
    | apply Z.ltb_ge in Ea; apply Z.ltb_lt in Eb | apply Z.ltb_ge in Ea; apply Z.ltb_ge in Eb];
    apply (f_equal Z.of_N) in H; rewrite !Z2N.id in H by (destruct a, b; cbn; try discriminate; auto with zarith);
    destruct a, b; cbn in *; try discriminate; try congruence; auto with zarith.
Qed.

Example C15_ex_collision :
  let h := fun _ : sdata => 0%N in
  match run (sstep h) [ONumber (SInt 1%Z); ONumber (SInt 2%Z)] simple_new with
  | Ok (_, [RAddr a; RAddr b]) => a = b
  | _ => False
  end.
Proof. vm_compute. reflexivity. Qed.

(* ---- symbol names (BasicGarnishData) ---- *)
From GV Require Import Proofs.C15.SymbolNames Proofs.C15.SymbolNamesAll.

(* the binary search of search.rs on a table in nondecreasing key order
   (duplicate keys allowed: registering a name twice leaves two entries):
   if some entry carries the key, an entry carrying the key is returned; if
   none does, None; never an error, a panic or fuel exhaustion *)
Theorem C15_symbol_search : forall items, (forall c, In c items -> is_assoc c) ->
  Sorted.StronglySorted GV.Proofs.C16.BasicSearch.le_cell items -> forall sym,
  ((exists c, In c items /\ ckey c = sym) ->
   exists a, In (CAssociativeItem sym a) items /\ search_for_associative_item items sym = Ok (Some (CAssociativeItem sym a))) /\
  ((forall c, In c items -> ckey c <> sym) -> search_for_associative_item items sym = Ok None).
Proof. exact search_item_dup. Qed.
Print Assumptions C15_symbol_search.

(* the core, per state: h is DataFactory::parse_symbol (an oracle), dom the
   names registered, h does not collide on dom.  In a state with the layout
   invariant whose symbol table is sorted and whose every entry (h name, a)
   points at the text of a name of dom (header CharList (length name), then
   one Char cell per char), get_symbol_string (h name) is Ok (Some name) for
   a name with an entry, and Ok None for a value without entry *)
Theorem C15_symbol_lookup : forall (h : list N -> N) (dom : list N -> Prop),
  (forall v w, dom v -> dom w -> h v = h w -> v = w) ->
  forall s, Inv s -> SymOk h dom s ->
  (forall name, dom name -> (exists a, In (CAssociativeItem (h name) a) (window s BSym)) ->
     get_symbol_string (h name) s = Ok (Some name)) /\
  (forall k, (forall a, ~ In (CAssociativeItem k a) (window s BSym)) -> get_symbol_string k s = Ok None).
Proof.
  intros h dom Hinj s I Hs. split.
  - intros name Hd Hin. exact (symbol_lookup_found h dom Hinj s name I Hs Hd Hin).
  - intros k Hk. exact (symbol_lookup_absent h dom s k I Hs Hk).
Qed.
Print Assumptions C15_symbol_lookup.

(* every operation of the history vocabulary except parse_add_symbol leaves
   the symbol-table block exactly as it is *)
Theorem C15_other_ops_keep_symbols : forall o s s' r, G s -> is_symbol_op o = false -> bstep o s = Ok (s', r) ->
  window s' BSym = window s BSym.
Proof. exact other_ops_keep_symbols. Qed.
Print Assumptions C15_other_ops_keep_symbols.

(* the headline: any history (the whole vocabulary of C15_readback) from a
   fresh store with progressing settings, in which every parse_add_symbol
   registers a name of dom under its hash with header = number of chars
   (names for which str::len() is the char count); h does not collide on
   dom.  A name registered in ops1 reads back after ops1 and after any
   continuation ops2 -- the binary search over the re-sorted table finds an
   entry and the text it points to is unchanged -- and a value that no
   registered name hashes to yields Ok None, not an error *)
Theorem C15_symbol_name_readback : forall (h : list N -> N) (dom : list N -> Prop),
  (forall v w, dom v -> dom w -> h v = h w -> v = w) ->
  forall si sj ss se sd sc ops1 ops2,
  progressing si -> progressing sj -> progressing ss -> progressing se -> progressing sd -> progressing sc ->
  (forall sym bl name, In (OSymbol sym bl name) (ops1 ++ ops2) -> dom name /\ sym = h name /\ bl = length name) ->
  exists s0 s1 s2 r1 r2,
    new_with_settings si sj ss se sd sc = Ok (s0, Done tt) /\
    run bstep ops1 s0 = Ok (s1, r1) /\ run bstep ops2 s1 = Ok (s2, r2) /\
    (forall name, registers h ops1 name ->
       get_symbol_string (h name) s1 = Ok (Some name) /\ get_symbol_string (h name) s2 = Ok (Some name)) /\
    (forall k, (forall name, registers h (ops1 ++ ops2) name -> h name <> k) -> get_symbol_string k s2 = Ok None).
Proof. exact symbol_name_readback_all. Qed.
Print Assumptions C15_symbol_name_readback.

(* non-vacuity: three names registered in non-sorted order of their symbol
   values (98, 99, 97), the first one twice, interleaved with pushes, a list
   and the stacks; with
   growth by one cell every push reallocates the heap *)
Definition ex_sym_hash (name : list N) : N := match name with x :: _ => x | [] => 0%N end.
Definition ex_sym_dom (name : list N) : Prop := In name [[98%N]; [99%N; 97%N]; [97%N; 98%N; 99%N]].
Definition ex_sym_ops1 : list op :=
  [OSymbol 98%N 1 [98%N]; ONumber (SInt 7%Z); OInstr I_Add None; OSymbol 99%N 2 [99%N; 97%N]; OText 2 [120%N; 121%N];
   OExprSym 5%N 1; OListStart 1; OListAdd 11 3; OListEnd 11; ORegPush 3; OSymbol 97%N 3 [97%N; 98%N; 99%N]].
Definition ex_sym_ops2 : list op :=
  [OPair 0 0; OFramePush 2; OSymbol 98%N 1 [98%N]; OJump 3; OValPush 3; ORegPop; OBytes [1%N; 2%N]].

Example C15_ex_symbol_hypotheses :
  (forall v w, ex_sym_dom v -> ex_sym_dom w -> ex_sym_hash v = ex_sym_hash w -> v = w) /\
  (forall sym bl name, In (OSymbol sym bl name) (ex_sym_ops1 ++ ex_sym_ops2) ->
     ex_sym_dom name /\ sym = ex_sym_hash name /\ bl = length name) /\
  registers ex_sym_hash ex_sym_ops1 [97%N; 98%N; 99%N].
Proof.
  split; [|split].
  - intros v w Hv Hw. unfold ex_sym_dom in *. cbn [In] in Hv, Hw.
    destruct Hv as [<-|[<-|[<-|[]]]]; destruct Hw as [<-|[<-|[<-|[]]]]; cbn; intro E; try reflexivity; discriminate E.
  - intros sym bl name Hin. unfold ex_sym_ops1, ex_sym_ops2 in Hin. cbn [app In] in Hin.
    repeat (destruct Hin as [Hin|Hin]; [try discriminate Hin; inversion Hin; subst; unfold ex_sym_dom; cbn; tauto|]).
    destruct Hin.
  - unfold registers. cbn. tauto.
Qed.

Example C15_ex_symbol_history :
  let st := ex_settings 0 (FixedSize 1) in
  match new_with_settings st st st st st st with
  | Ok (s0, Done tt) =>
      match run bstep ex_sym_ops1 s0 with
      | Ok (s1, _) =>
          match run bstep ex_sym_ops2 s1 with
          | Ok (s2, _) =>
              window s1 BSym = [CAssociativeItem 97%N 16; CAssociativeItem 98%N 1; CAssociativeItem 99%N 5] /\
              get_symbol_string 97%N s1 = Ok (Some [97%N; 98%N; 99%N]) /\
              get_symbol_string 98%N s2 = Ok (Some [98%N]) /\
              get_symbol_string 99%N s2 = Ok (Some [99%N; 97%N]) /\
              get_symbol_string 97%N s2 = Ok (Some [97%N; 98%N; 99%N]) /\
              get_symbol_string 100%N s2 = Ok None /\
              length (window s2 BSym) = 4 /\ length (heap s0) = 0 /\ length (heap s2) = 37
          | _ => False
          end
      | _ => False
      end
  | _ => False
  end.
Proof. vm_compute. repeat split; reflexivity. Qed.

(* ---- expression symbols (the BExpr block, push_to_expression_symbol_block,
   op OExprSym) read back through get_symbol_expression ---- *)
From Coq Require Import Sorted.
From GV Require Import Proofs.C15.ExprSymbols.

(* the search, exactly: on a table of associative items in nondecreasing key
   order (duplicates allowed) search_for_associative_item returns the LAST
   entry carrying the key -- vals sym items lists the values stored under
   sym in table order -- and None when there is none; never an error *)
Theorem C15_expression_symbol_search : forall items, (forall c, In c items -> is_assoc c) ->
  StronglySorted GV.Proofs.C16.BasicSearch.le_cell items -> forall sym,
  search_for_associative_item items sym = Ok (option_map (CAssociativeItem sym) (last_opt (vals sym items))).
Proof. exact search_last. Qed.
Print Assumptions C15_expression_symbol_search.

(* per state: with the layout invariant and a sorted expression-symbol table
   of associative items, get_symbol_expression sym is the value of the last
   table entry for sym (None without one) *)
Theorem C15_expression_symbol_lookup : forall s sym, Inv s -> (forall c, In c (window s BExpr) -> is_assoc c) ->
  StronglySorted GV.Proofs.C16.BasicSearch.le_cell (window s BExpr) ->
  get_symbol_expression sym s = Ok (last_opt (vals sym (window s BExpr))).
Proof. exact expr_lookup. Qed.
Print Assumptions C15_expression_symbol_lookup.

(* every operation of the history vocabulary except the expression-symbol
   push (parse_add_symbol included) leaves the BExpr block exactly as it is *)
Theorem C15_other_ops_keep_expression_symbols : forall o s s' r, G s -> is_expr_op o = false ->
  bstep o s = Ok (s', r) -> window s' BExpr = window s BExpr.
Proof. exact other_ops_keep_exprs. Qed.
Print Assumptions C15_other_ops_keep_expression_symbols.

(* the push makes the block the stable sort of the old table plus the new entry *)
Theorem C15_expression_symbol_push : forall sym v s s' r, G s -> bstep (OExprSym sym v) s = Ok (s', r) ->
  window s' BExpr = stable_sort assoc_le (window s BExpr ++ [CAssociativeItem sym v]).
Proof. exact expr_push_step. Qed.
Print Assumptions C15_expression_symbol_push.

(* the headline: any history (the whole vocabulary, no side condition on the
   operations) from a fresh store with progressing settings.  After ops1 and
   after any continuation ops2, get_symbol_expression sym is Ok of the LAST
   value pushed for sym so far (expr_pushes sym ops lists the values v of the
   operations OExprSym sym v of ops in order) -- a symbol pushed twice reads
   back its most recent value, because the sort is stable and the search
   lands on the last entry of a run of equal keys -- and Ok None for a
   symbol never pushed; never an error *)
Theorem C15_expression_symbol_readback : forall si sj ss se sd sc ops1 ops2,
  progressing si -> progressing sj -> progressing ss -> progressing se -> progressing sd -> progressing sc ->
  exists s0 s1 s2 r1 r2,
    new_with_settings si sj ss se sd sc = Ok (s0, Done tt) /\
    run bstep ops1 s0 = Ok (s1, r1) /\ run bstep ops2 s1 = Ok (s2, r2) /\
    (forall sym, get_symbol_expression sym s1 = Ok (last_opt (expr_pushes sym ops1)) /\
                 get_symbol_expression sym s2 = Ok (last_opt (expr_pushes sym (ops1 ++ ops2)))).
Proof. exact expression_symbol_readback. Qed.
Print Assumptions C15_expression_symbol_readback.

(* the same without the auxiliary functions: the value of the last push for
   sym (no later OExprSym sym _ in the history) is returned; a symbol with no
   push yields Ok None *)
Theorem C15_expression_symbol_readback_cases : forall si sj ss se sd sc ops,
  progressing si -> progressing sj -> progressing ss -> progressing se -> progressing sd -> progressing sc ->
  exists s0 s1 r1,
    new_with_settings si sj ss se sd sc = Ok (s0, Done tt) /\ run bstep ops s0 = Ok (s1, r1) /\
    (forall sym v a b, ops = a ++ OExprSym sym v :: b -> (forall v', ~ In (OExprSym sym v') b) ->
       get_symbol_expression sym s1 = Ok (Some v)) /\
    (forall sym, (forall v, ~ In (OExprSym sym v) ops) -> get_symbol_expression sym s1 = Ok None).
Proof. exact expression_symbol_readback_cases. Qed.
Print Assumptions C15_expression_symbol_readback_cases.

(* non-vacuity: three expression symbols pushed in non-sorted order (7, 9, 5),
   the first one a second time with another value, interleaved with data
   pushes, a symbol registration, a list and the stacks; with growth by one
   cell every push reallocates the heap *)
Definition ex_expr_ops1 : list op :=
  [OExprSym 7%N 2; ONumber (SInt 7%Z); OSymbol 98%N 1 [98%N]; OExprSym 9%N 4; OText 2 [120%N; 121%N];
   OListStart 1; OListAdd 7 3; OListEnd 7; OExprSym 5%N 6; ORegPush 3; OInstr I_Add None].
Definition ex_expr_ops2 : list op :=
  [OPair 0 0; OFramePush 2; OExprSym 7%N 8; OJump 3; OValPush 3; ORegPop; OBytes [1%N; 2%N]].

Example C15_ex_expression_symbol_history :
  let st := ex_settings 0 (FixedSize 1) in
  match new_with_settings st st st st st st with
  | Ok (s0, Done tt) =>
      match run bstep ex_expr_ops1 s0 with
      | Ok (s1, _) =>
          match run bstep ex_expr_ops2 s1 with
          | Ok (s2, _) =>
              window s1 BExpr = [CAssociativeItem 5%N 6; CAssociativeItem 7%N 2; CAssociativeItem 9%N 4] /\
              window s2 BExpr = [CAssociativeItem 5%N 6; CAssociativeItem 7%N 2; CAssociativeItem 7%N 8; CAssociativeItem 9%N 4] /\
              get_symbol_expression 7%N s1 = Ok (Some 2) /\
              get_symbol_expression 7%N s2 = Ok (Some 8) /\
              get_symbol_expression 9%N s2 = Ok (Some 4) /\
              get_symbol_expression 5%N s2 = Ok (Some 6) /\
              get_symbol_expression 6%N s2 = Ok None /\
              expr_pushes 7%N (ex_expr_ops1 ++ ex_expr_ops2) = [2; 8] /\
              length (heap s0) = 0 /\ length (heap s2) = 25
          | _ => False
          end
      | _ => False
      end
  | _ => False
  end.
Proof. vm_compute. repeat split; reflexivity. Qed.
