"""Gen/Truth.v: the falsy sets of is_true_value / jump_if_true / jump_if_false and the shapes of
and / or / xor / not / tis (C10).  Kept apart from Gen/Dispatch.v so that C10 does not depend on
the arm tables of unrelated operations.  Anything of an unrecognised shape raises."""
from . import dispatch


def generate():
    return dispatch.truth_generate()
