(* Static half of C06, inductive: the theorem.  A proper tree that keeps the
   arity discipline of Proofs/C06/Balanced.v has no dropped arm, so every
   placeholder of its build is patched
   (Proofs/C05/Bodies.v); with the ghost invariant of the finished build
   (Proofs/C06/StaticBodies.v) the program is typable, for every initial state
   of the data object. *)
From Coq Require Import List Arith Bool NArith Lia.
From GV Require Import Base.Result Gen.TokenTypes Gen.Defs Gen.Instr Gen.Exec Model.Parser Model.BuilderWL Model.Compile
  Spec.Depth Proofs.C05.InlBase Proofs.C05.Known Proofs.C05.Operands Proofs.C05.Jumps Proofs.C05.Bodies
  Proofs.C06.Known Proofs.C06.DepthSound Proofs.C06.Balanced Proofs.C06.Static Proofs.C06.StaticInl Proofs.C06.StaticBodies
  Proofs.C06.StaticTyped.
Import ListNotations.

Definition P_good (t : tree) : Prop :=
  forall lst cond tail n, bal lst cond tail t = Some n -> drops_arms t = false.

Lemma bal_good : forall t, P_good t.
Proof.
  induction t as [ix d l r IHl IHr] using tree_ind'.
  intros lst cond tail n Hbal.
  cbn [bal] in Hbal. cbv zeta in Hbal. cbn [drops_arms].
  destruct l as [a|]; destruct r as [b|].
  all: destruct (kind_of d) eqn:Hk.
  all: bal_prep Hbal.
  all: try (inversion Hbal; subst n; clear Hbal).
  all: repeat match goal with
              | Hb : bal _ _ _ ?a = Some _, IH : forall x, Some ?a = Some x -> P_good x |- _ =>
                let A := fresh "A" in
                pose proof (IH a eq_refl _ _ _ _ Hb) as A; clear Hb
              end.
  all: cbn [opt_b orb].
  all: repeat match goal with H : _ = false |- _ => rewrite H end.
  all: reflexivity.
Qed.

Theorem balanced_typed : forall init lit_ok t s entry,
  balanced t = true -> compile init lit_ok t = Ok (s, entry) ->
  exists d, typed (prog_of init (ci s) (cj s) entry) d.
Proof.
  intros init lit_ok t s entry Hbal Hc.
  pose proof Hbal as Hb. unfold balanced in Hb. apply is_some_n_eq in Hb.
  pose proof (bal_good t _ _ _ _ Hb) as Hd.
  pose proof (compile_jinv init lit_ok t s entry Hd Hc) as [_ Hj].
  destruct (compile_static init lit_ok t s entry Hbal Hc) as [g [Hg [Hse Hen]]].
  exists (dmap_of_g init g). apply ghost_typed; auto.
  intros k T Hk HT. destruct (Hj k T HT) as [[A _]|[[_ A]|[_ [_ []]]]]; lia.
Qed.

(* the form stated in Properties/C06.v *)
Lemma C06_static_full_proof : forall init lit t r,
  balanced t = true -> compile init lit t = Ok r ->
  let p := prog_of init (ci (fst r)) (cj (fst r)) (snd r) in
  exists d, typed p d /\ ends_at_one p d /\ exists e, pjump p (snd r) = Some e /\ d e = Some (0, 0).
Proof.
  intros init lit t [s entry] Hbal Hc p. cbn [fst snd] in *.
  destruct (balanced_typed init lit t s entry Hbal Hc) as [d Hty].
  exists d. split; [exact Hty|]. split; [apply typed_ends_at_one; exact Hty|].
  destruct Hty as [Hent _]. destruct (Hent entry) as [e [He Hd]]; [left; reflexivity|].
  exists e. auto.
Qed.
