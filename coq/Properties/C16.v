(* C16  Lists keep their order and find every key.
   Only statements, [exact] and [Print Assumptions] live here (and Examples). *)
From Coq Require Import NArith ZArith List Bool Arith Sorted.
From GV Require Import Base.Result Gen.Instr Model.StoreBase Model.BasicStore Model.SimpleStore Model.StoreOps Model.Lists
  Spec.AssocSpec Proofs.C15.Stable Proofs.C16.SimpleLookup Proofs.C16.SimpleBuild Proofs.C16.BasicSearch Proofs.C16.BasicBuild Proofs.C16.Runtime.
Import ListNotations.

(* ---- SimpleGarnishData ---- *)

(* start_list / add_to_list* / end_list store the list value [SList items ordered]
   at a fresh address; the open-addressing placement keeps every item address *)
Theorem C16_simple_build : forall h items s,
  exists ordered s',
    build_list (simple_ops h) items s = Ok (s', Done (length (s_data s))) /\
    s_data s' = s_data s ++ [SList items ordered] /\
    length ordered = length items /\
    (forall x, x <> 0 -> (In x ordered <-> In x items)).
Proof. exact simple_build. Qed.
Print Assumptions C16_simple_build.

Theorem C16_simple_length : forall s l items ordered, nth_error (s_data s) l = Some (SList items ordered) ->
  s_get_list_len l s = Ok (length items).
Proof. exact simple_len. Qed.
Print Assumptions C16_simple_length.

(* item k for 0 <= k < n *)
Theorem C16_simple_item : forall s l items ordered, nth_error (s_data s) l = Some (SList items ordered) ->
  forall k a, nth_error items k = Some a -> s_get_list_item l (Z.of_nat k) s = Ok (Some a).
Proof. exact simple_item_in_range. Qed.
Print Assumptions C16_simple_item.

(* no item -- not an error -- outside 0..n-1 *)
Theorem C16_simple_item_outside : forall s l items ordered, nth_error (s_data s) l = Some (SList items ordered) ->
  forall z, (z < 0 \/ Z.of_nat (length items) <= z)%Z -> s_get_list_item l z s = Ok None.
Proof. exact simple_item_outside. Qed.
Print Assumptions C16_simple_item_outside.

(* iteration in insertion order *)
Theorem C16_simple_iteration : forall s l items ordered, nth_error (s_data s) l = Some (SList items ordered) ->
  s_get_list_item_iter l s = items.
Proof. exact simple_iter. Qed.
Print Assumptions C16_simple_iteration.

(* the probe makes length+1 steps from symbol mod length: every slot is visited *)
Theorem C16_simple_probe_visits_every_slot : forall s l items assoc,
  nth_error (s_data s) l = Some (SList items assoc) -> (forall a, In a assoc -> svalid s a) ->
  forall sym, assoc <> [] ->
  s_get_list_item_with_symbol l sym s =
    Ok (first_some (slot_at s assoc sym)
          (seq_from (length assoc) (N.to_nat (N.modulo sym (N.of_nat (length assoc)))) (length assoc + 1))) /\
  forall j, j < length assoc ->
    In j (seq_from (length assoc) (N.to_nat (N.modulo sym (N.of_nat (length assoc)))) (length assoc + 1)).
Proof.
  intros s l items assoc Hl Hv sym Hne. split; [exact (lookup_scans_all s l items assoc Hl Hv sym Hne)|].
  intros j Hj. apply seq_from_covers; [|exact Hj].
  assert (Hm : (N.modulo sym (N.of_nat (length assoc)) < N.of_nat (length assoc))%N)
    by (apply N.mod_lt; destruct assoc; [congruence|cbn; Lia.lia]). Lia.lia.
Qed.
Print Assumptions C16_simple_probe_visits_every_slot.

(* lookup for every mix of keyed and unkeyed items and distinct symbol keys:
   the value of the pair keyed by the symbol if present, absent otherwise, never an error *)
Theorem C16_simple_lookup : forall s l items ordered,
  nth_error (s_data s) l = Some (SList items ordered) ->
  (forall x, x <> 0 -> (In x ordered <-> In x items)) ->
  nth_error (s_data s) 0 = Some SUnit ->
  (forall a, In a items -> svalid s a) ->
  forall sym, NoDup (keys_of (map (sview s) items)) ->
  s_get_list_item_with_symbol l sym s = Ok (assoc_lookup sym (map (sview s) items)).
Proof. exact simple_lookup. Qed.
Print Assumptions C16_simple_lookup.

(* ---- BasicGarnishData: search.rs and the sort of end_list ---- *)

(* the binary search on a table sorted by strictly increasing key finds exactly the keyed entry *)
Theorem C16_basic_binary_search : forall tbl, StronglySorted key_lt tbl -> forall sym,
  (forall j v, nth_error tbl j = Some (sym, v) -> search_for_associative_item_index (map cell_of tbl) sym = Ok (Some j)) /\
  ((forall j v, nth_error tbl j <> Some (sym, v)) -> search_for_associative_item_index (map cell_of tbl) sym = Ok None).
Proof. exact search_index_spec. Qed.
Print Assumptions C16_basic_binary_search.

(* hence get_list_item_with_symbol's search-and-project computes the association lookup *)
Theorem C16_basic_search_value : forall tbl, StronglySorted key_lt tbl -> forall sym, NoDup (map fst tbl) ->
  (do it <- search_for_associative_item (map cell_of tbl) sym ;
   match it with
   | Some item => do sv <- as_associative_item item ; Ok (Some (snd sv))
   | None => Ok None
   end) = Ok (assoc_lookup sym (map Some tbl)).
Proof. exact search_value_spec. Qed.
Print Assumptions C16_basic_search_value.

(* the stable sort of end_list orders its range: associations by key, then everything else *)
Theorem C16_basic_sort_sorted : forall l, StronglySorted le_cell (stable_sort assoc_le l).
Proof. exact stable_sort_sorted. Qed.
Print Assumptions C16_basic_sort_sorted.

(* ---- BasicGarnishData end to end ---- *)

(* from any store satisfying the C15 invariant, start_list / add_to_list* / end_list on stored
   items returns normally and lays the finished list out at the old end of the data table:
   header List(n, #associations), the n items in insertion order, the association region
   stably sorted by key *)
Theorem C16_basic_build : forall items s, G s -> (forall a, In a items -> valid_item (data s) a) ->
  exists s', build_list basic_ops items s = Ok (s', Done (length (data s))) /\ G s' /\ built (data s) items (data s').
Proof. exact basic_build. Qed.
Print Assumptions C16_basic_build.

Theorem C16_basic_length : forall s T items, G s -> built T items (data s) -> get_list_len (length T) s = Ok (length items).
Proof. exact basic_len. Qed.
Print Assumptions C16_basic_length.

Theorem C16_basic_item : forall s T items, G s -> built T items (data s) ->
  forall k, k < length items -> get_list_item (length T) (Z.of_nat k) s = Ok (Some (nth k items 0)).
Proof. exact basic_item. Qed.
Print Assumptions C16_basic_item.

Theorem C16_basic_item_negative : forall s T items, G s -> built T items (data s) ->
  forall z, (z < 0)%Z -> get_list_item (length T) z s = Ok None.
Proof. exact basic_item_negative. Qed.
Print Assumptions C16_basic_item_negative.

(* the listed finding C16-K1, as a theorem about the model of the code that exists:
   past the end the data-level accessor of the Basic store reports an error *)
Theorem C16_K1_basic_item_past_end_is_error : forall s T items, G s -> built T items (data s) ->
  forall z, (Z.of_nat (length items) <= z)%Z -> get_list_item (length T) z s = Err E_list.
Proof. exact basic_item_past_end. Qed.
Print Assumptions C16_K1_basic_item_past_end_is_error.

Theorem C16_basic_iteration : forall s T items, G s -> built T items (data s) ->
  get_list_item_iter_all (length T) s = Ok items.
Proof. exact basic_iter. Qed.
Print Assumptions C16_basic_iteration.

Theorem C16_basic_lookup : forall s T items, G s -> built T items (data s) ->
  forall sym, NoDup (keys_of (map (bview T) items)) ->
  get_list_item_with_symbol (length T) sym s = Ok (assoc_lookup sym (map (bview T) items)).
Proof. exact basic_lookup. Qed.
Print Assumptions C16_basic_lookup.

(* ---- the runtime layer, for any data implementation ---- *)
Theorem C16_index_list_negative : forall St (D : DataOps St) l z s, (z < 0)%Z -> index_list D l z s = Ok (s, Done None).
Proof. exact @index_list_negative. Qed.
Print Assumptions C16_index_list_negative.

Theorem C16_index_list_past_end : forall St (D : DataOps St) l z s n, d_get_list_len D l s = Ok n -> (Z.of_nat n <= z)%Z ->
  index_list D l z s = (sdo u <- d_add_unit D ; sret (Some u)) s.
Proof. exact @index_list_past_end. Qed.
Print Assumptions C16_index_list_past_end.

Theorem C16_index_list_in_range : forall St (D : DataOps St) l z s n a, d_get_list_len D l s = Ok n -> (0 <= z < Z.of_nat n)%Z ->
  d_get_list_item D l z s = Ok (Some a) -> index_list D l z s = Ok (s, Done (Some a)).
Proof. exact @index_list_in_range. Qed.
Print Assumptions C16_index_list_in_range.

(* ---- the listed finding C16-K1 ---- *)
Theorem C16_K1_refuted :
  exists s0 s rs, new_default = Ok (s0, Done tt) /\ run bstep k1_history s0 = Ok (s, rs) /\
    get_list_len 3 s = Ok 3 /\ get_list_item 3 2%Z s = Ok (Some 2) /\
    get_list_item 3 3%Z s = Err E_list /\ get_list_item 3 (-1)%Z s = Ok None.
Proof. exact K1_refuted. Qed.
Print Assumptions C16_K1_refuted.

(* ---- non-vacuity: a mixed list on both stores, looked up ---- *)
Definition ex_ops : list op :=
  [ONumber (SInt 7%Z); OSym 5%N; OPair 1 0; ONumber (SInt 9%Z); OSym 12%N; OPair 4 3; OPair 0 3].

Definition ex_ops_simple : list op :=
  [ONumber (SInt 7%Z); OSym 5%N; OPair 4 3; ONumber (SInt 9%Z); OSym 12%N; OPair 7 6; OPair 3 6].

Example C16_ex_simple :
  let h := fun v : sdata => match v with SNumber (SInt z) => Z.to_N z | SSymbol k => (100 + k)%N | _ => 0%N end in
  match run (sstep h) ex_ops_simple simple_new with
  | Ok (s, rs) =>
      match build_list (simple_ops h) [3; 5; 8; 6; 9] s with
      | Ok (s', Done l) =>
          s_get_list_len l s' = Ok 5 /\ s_get_list_item l 2%Z s' = Ok (Some 8) /\ s_get_list_item l 5%Z s' = Ok None /\
          s_get_list_item_with_symbol l 5%N s' = Ok (Some 3) /\ s_get_list_item_with_symbol l 12%N s' = Ok (Some 6) /\
          s_get_list_item_with_symbol l 7%N s' = Ok None
      | _ => False
      end
  | _ => False
  end.
Proof. vm_compute. repeat split; reflexivity. Qed.

Example C16_ex_basic :
  match new_default with
  | Ok (s0, Done tt) =>
      match run bstep ex_ops s0 with
      | Ok (s, rs) =>
          match build_list basic_ops [0; 2; 5; 3; 6] s with
          | Ok (s', Done l) =>
              get_list_len l s' = Ok 5 /\ get_list_item l 2%Z s' = Ok (Some 5) /\
              get_list_item_with_symbol l 5%N s' = Ok (Some 0) /\ get_list_item_with_symbol l 12%N s' = Ok (Some 3) /\
              get_list_item_with_symbol l 7%N s' = Ok None /\ get_list_item_iter_all l s' = Ok [0; 2; 5; 3; 6]
          | _ => False
          end
      | _ => False
      end
  | _ => False
  end.
Proof. vm_compute. repeat split; reflexivity. Qed.

From GV Require Import Proofs.C16.Concat.

(* ---- concatenations of lists (traits/src/helpers/concatenation.rs, runtime list.rs) ---- *)

(* [denotes D s addr t]: read through the getters of the data implementation, [addr] holds the
   concatenation tree [t] whose leaves are lists (LeafList items) or single non-list values
   (LeafItem), [flatten t] is its left-to-right sequence of items.  [RegLaws D] are the laws of
   the register stack the worklist borrows (push/pop are a stack and leave the value getters
   alone; satisfied by the SimpleGarnishData model: [simple_laws]).
   Indexing a concatenation with k >= 0 and fuel >= concat_fuel t (= number of nodes of t)
   returns item k of the flattening for k < length, "no item" (None, not an error) past the
   end, and every register the worklist pushed is popped again: the register stack is what it
   was and the state differs from the initial one at most there ([frame]). *)
Theorem C16_concat_index : forall St (D : DataOps St) (L : RegLaws D) fuel addr tl tr s k,
  denotes D s addr (Cat tl tr) -> concat_fuel (Cat tl tr) <= fuel ->
  exists s', index_concatenation_for D fuel addr (Z.of_nat k) s = Ok (s', Done (nth_error (flatten (Cat tl tr)) k)) /\
             regs L s' = regs L s /\ frame L s s'.
Proof. exact @concat_index. Qed.
Print Assumptions C16_concat_index.

(* a negative index: no item, registers restored *)
Theorem C16_concat_index_negative : forall St (D : DataOps St) (L : RegLaws D) fuel addr tl tr s z,
  denotes D s addr (Cat tl tr) -> concat_fuel (Cat tl tr) <= fuel -> (z < 0)%Z ->
  exists s', index_concatenation_for D fuel addr z s = Ok (s', Done None) /\
             regs L s' = regs L s /\ frame L s s'.
Proof. exact @concat_index_negative. Qed.
Print Assumptions C16_concat_index_negative.

(* the public entry point on a Concatenation is index_concatenation_for *)
Theorem C16_concat_access_with_integer : forall St (D : DataOps St) fuel z addr s,
  d_get_data_type D addr s = Ok T_Concatenation ->
  access_with_integer D fuel z addr s = index_concatenation_for D fuel addr z s.
Proof. exact @access_with_integer_concat. Qed.
Print Assumptions C16_concat_access_with_integer.

(* symbol lookup on a concatenation uses iterate_rev_concatenation_mut: the children of every
   concatenation node are visited right to left, the items of one list leaf first to last
   ([lookup_order]); the answer is the value of the first pair keyed by the symbol in that
   order, None when no leaf item is such a pair; registers restored.  [viewed D s a v]: read
   through the getters, item a is an association (Some (key, value)) or not (None). *)
Theorem C16_concat_lookup : forall St (D : DataOps St) (L : RegLaws D) fuel sym addr tl tr s (view : nat -> assoc_view),
  denotes D s addr (Cat tl tr) -> concat_fuel (Cat tl tr) <= fuel ->
  (forall a, In a (lookup_order (Cat tl tr)) -> viewed D s a (view a)) ->
  exists s', access_with_symbol D fuel sym addr s =
               Ok (s', Done (assoc_lookup sym (map view (lookup_order (Cat tl tr))))) /\
             regs L s' = regs L s /\ frame L s s'.
Proof. exact @concat_lookup. Qed.
Print Assumptions C16_concat_lookup.

(* with distinct keys (the property's assumption) the order does not matter: every key of
   every leaf of the flattening is found *)
Theorem C16_concat_lookup_finds_every_key : forall St (D : DataOps St) (L : RegLaws D) fuel sym addr tl tr s (view : nat -> assoc_view) a v,
  denotes D s addr (Cat tl tr) -> concat_fuel (Cat tl tr) <= fuel ->
  (forall a, In a (lookup_order (Cat tl tr)) -> viewed D s a (view a)) ->
  NoDup (keys_of (map view (lookup_order (Cat tl tr)))) ->
  In a (flatten (Cat tl tr)) -> view a = Some (sym, v) ->
  exists s', access_with_symbol D fuel sym addr s = Ok (s', Done (Some v)) /\ regs L s' = regs L s /\ frame L s s'.
Proof. exact @concat_lookup_found. Qed.
Print Assumptions C16_concat_lookup_finds_every_key.

(* fuel: one unit per node of the tree suffices for both operations *)
Theorem C16_concat_fuel_suffices : forall St (D : DataOps St) (L : RegLaws D) fuel addr tl tr s,
  denotes D s addr (Cat tl tr) -> concat_fuel (Cat tl tr) <= fuel ->
  (forall z, index_concatenation_for D fuel addr z s <> OutOfFuel) /\
  (forall sym view, (forall a, In a (lookup_order (Cat tl tr)) -> viewed D s a (view a)) ->
     access_with_symbol D fuel sym addr s <> OutOfFuel).
Proof. exact concat_fuel_suffices. Qed.
Print Assumptions C16_concat_fuel_suffices.

(* the laws are those of the SimpleGarnishData model, where "registers restored and nothing
   else touched" is equality of states *)
Theorem C16_simple_concat_index : forall h fuel addr tl tr s k,
  denotes (simple_ops h) s addr (Cat tl tr) -> concat_fuel (Cat tl tr) <= fuel ->
  index_concatenation_for (simple_ops h) fuel addr (Z.of_nat k) s = Ok (s, Done (nth_error (flatten (Cat tl tr)) k)).
Proof. exact simple_concat_index. Qed.
Print Assumptions C16_simple_concat_index.

Theorem C16_simple_concat_index_negative : forall h fuel addr tl tr s z,
  denotes (simple_ops h) s addr (Cat tl tr) -> concat_fuel (Cat tl tr) <= fuel -> (z < 0)%Z ->
  index_concatenation_for (simple_ops h) fuel addr z s = Ok (s, Done None).
Proof. exact simple_concat_index_negative. Qed.
Print Assumptions C16_simple_concat_index_negative.

Theorem C16_simple_concat_lookup : forall h fuel sym addr tl tr s,
  denotes (simple_ops h) s addr (Cat tl tr) -> concat_fuel (Cat tl tr) <= fuel ->
  (forall a, In a (lookup_order (Cat tl tr)) -> svalid s a) ->
  access_with_symbol (simple_ops h) fuel sym addr s =
    Ok (s, Done (assoc_lookup sym (map (sview s) (lookup_order (Cat tl tr))))).
Proof. exact simple_concat_lookup. Qed.
Print Assumptions C16_simple_concat_lookup.

(* non-vacuity: [ex_concat_store] holds the keyed lists 9 = (:5 = 7, 7) and 12 = (:12 = 9, :20 = 7),
   their concatenation 13 and the nested concatenation 15 = 13 <> (:5 = 9).  The hypotheses of
   the theorems hold for 13 and 15; the model run with exactly concat_fuel agrees. *)
Example C16_ex_concat_two_lists :
  let h := fun _ : sdata => 0%N in
  let s := ex_concat_store in
  denotes (simple_ops h) s 13 ex_tree13 /\ flatten ex_tree13 = [5; 4; 8; 11] /\ concat_fuel ex_tree13 = 3 /\
  index_concatenation_for (simple_ops h) 3 13 0%Z s = Ok (s, Done (Some 5)) /\
  index_concatenation_for (simple_ops h) 3 13 3%Z s = Ok (s, Done (Some 11)) /\
  index_concatenation_for (simple_ops h) 3 13 4%Z s = Ok (s, Done None) /\
  index_concatenation_for (simple_ops h) 3 13 (-1)%Z s = Ok (s, Done None) /\
  index_concatenation_for (simple_ops h) 2 13 4%Z s = OutOfFuel /\
  access_with_symbol (simple_ops h) 3 5%N 13 s = Ok (s, Done (Some 4)) /\
  access_with_symbol (simple_ops h) 3 20%N 13 s = Ok (s, Done (Some 4)) /\
  access_with_symbol (simple_ops h) 3 12%N 13 s = Ok (s, Done (Some 7)) /\
  access_with_symbol (simple_ops h) 3 99%N 13 s = Ok (s, Done None).
Proof. split; [apply ex_denotes13|]. vm_compute. repeat split; reflexivity. Qed.

Example C16_ex_concat_nested :
  let h := fun _ : sdata => 0%N in
  let s := ex_concat_store in
  denotes (simple_ops h) s 15 ex_tree15 /\ (forall a, In a (lookup_order ex_tree15) -> svalid s a) /\
  flatten ex_tree15 = [5; 4; 8; 11; 14] /\ lookup_order ex_tree15 = [14; 8; 11; 5; 4] /\ concat_fuel ex_tree15 = 5 /\
  index_concatenation_for (simple_ops h) 5 15 2%Z s = Ok (s, Done (Some 8)) /\
  index_concatenation_for (simple_ops h) 5 15 4%Z s = Ok (s, Done (Some 14)) /\
  index_concatenation_for (simple_ops h) 5 15 5%Z s = Ok (s, Done None) /\
  (* key 5 occurs twice: the rightmost leaf wins *)
  access_with_symbol (simple_ops h) 5 5%N 15 s = Ok (s, Done (Some 7)) /\
  access_with_symbol (simple_ops h) 5 12%N 15 s = Ok (s, Done (Some 7)) /\
  access_with_symbol (simple_ops h) 5 20%N 15 s = Ok (s, Done (Some 4)) /\
  access_with_symbol (simple_ops h) 5 99%N 15 s = Ok (s, Done None).
Proof. split; [apply ex_denotes15|]. split; [apply ex_valid15|]. vm_compute. repeat split; reflexivity. Qed.

(* and the theorems applied to it *)
Example C16_ex_concat_by_theorem : forall h k sym,
  index_concatenation_for (simple_ops h) 5 15 (Z.of_nat k) ex_concat_store =
    Ok (ex_concat_store, Done (nth_error [5; 4; 8; 11; 14] k)) /\
  access_with_symbol (simple_ops h) 5 sym 15 ex_concat_store =
    Ok (ex_concat_store, Done (assoc_lookup sym [Some (5%N, 7); Some (12%N, 7); Some (20%N, 4); Some (5%N, 4); None])).
Proof.
  intros h k sym. split.
  - exact (C16_simple_concat_index h 5 15 _ _ ex_concat_store k (ex_denotes15 h) (Nat.le_refl _)).
  - exact (C16_simple_concat_lookup h 5 sym 15 _ _ ex_concat_store (ex_denotes15 h) (Nat.le_refl _) ex_valid15).
Qed.

From GV Require Import Proofs.C16.ConcatInv Proofs.C16.ConcatBasic.

(* ---- concatenations on the BasicGarnishData model ---- *)

(* Basic keeps its registers as Register / RegisterRoot cells in the data block, so the worklist
   of the traversal writes into the store it reads (a push appends a cell and may reallocate the
   heap); the laws RegLaws above cannot hold for it.  Proofs/C16/ConcatInv.v re-proves the
   traversal theorems from weaker laws ([RegLawsInv]: a state invariant, and "what was readable
   stays readable"), Proofs/C16/ConcatBasic.v proves them for [basic_ops] ([basic_laws]).
   [RegsOk s]: the C15 store invariant G and a well-formed register chain from cur_register.
   [bframe s s']: the data table of s' is the one of s followed by register cells only, all
   other tables and heads (value stack, frames, cursor) are unchanged.
   Indexing a concatenation with k >= 0 and fuel >= concat_fuel t returns item k of the
   flattening (None past the end, not an error); afterwards the invariant holds again,
   cur_register is the very cell it was, the register values are the same, and every cell
   that was in the data table is still there. *)
Theorem C16_basic_concat_index : forall fuel addr tl tr s k,
  RegsOk s -> denotes basic_ops s addr (Cat tl tr) -> concat_fuel (Cat tl tr) <= fuel ->
  exists s', index_concatenation_for basic_ops fuel addr (Z.of_nat k) s = Ok (s', Done (nth_error (flatten (Cat tl tr)) k)) /\
             RegsOk s' /\ cur_register s' = cur_register s /\ registers_rev s' = registers_rev s /\ bframe s s'.
Proof. exact basic_concat_index. Qed.
Print Assumptions C16_basic_concat_index.

(* a negative index: no item *)
Theorem C16_basic_concat_index_negative : forall fuel addr tl tr s z,
  RegsOk s -> denotes basic_ops s addr (Cat tl tr) -> concat_fuel (Cat tl tr) <= fuel -> (z < 0)%Z ->
  exists s', index_concatenation_for basic_ops fuel addr z s = Ok (s', Done None) /\
             RegsOk s' /\ cur_register s' = cur_register s /\ registers_rev s' = registers_rev s /\ bframe s s'.
Proof. exact basic_concat_index_negative. Qed.
Print Assumptions C16_basic_concat_index_negative.

(* symbol lookup: the value of the first pair keyed by the symbol in [lookup_order] (children of
   a concatenation right to left, the items of a list leaf first to last); [bview T a] reads the
   association an item denotes off the data table; [valid_item]: the item and the left of a
   stored pair are addresses inside the data table *)
Theorem C16_basic_concat_lookup : forall fuel sym addr tl tr s,
  RegsOk s -> denotes basic_ops s addr (Cat tl tr) -> concat_fuel (Cat tl tr) <= fuel ->
  (forall a, In a (lookup_order (Cat tl tr)) -> valid_item (data s) a) ->
  exists s', access_with_symbol basic_ops fuel sym addr s =
               Ok (s', Done (assoc_lookup sym (map (bview (data s)) (lookup_order (Cat tl tr))))) /\
             RegsOk s' /\ cur_register s' = cur_register s /\ registers_rev s' = registers_rev s /\ bframe s s'.
Proof. exact basic_concat_lookup. Qed.
Print Assumptions C16_basic_concat_lookup.

(* with distinct keys every key of every leaf is found *)
Theorem C16_basic_concat_lookup_finds_every_key : forall fuel sym addr tl tr s a v,
  RegsOk s -> denotes basic_ops s addr (Cat tl tr) -> concat_fuel (Cat tl tr) <= fuel ->
  (forall a, In a (lookup_order (Cat tl tr)) -> valid_item (data s) a) ->
  NoDup (keys_of (map (bview (data s)) (lookup_order (Cat tl tr)))) ->
  In a (flatten (Cat tl tr)) -> bview (data s) a = Some (sym, v) ->
  exists s', access_with_symbol basic_ops fuel sym addr s = Ok (s', Done (Some v)) /\
             RegsOk s' /\ cur_register s' = cur_register s /\ registers_rev s' = registers_rev s /\ bframe s s'.
Proof. exact basic_concat_lookup_found. Qed.
Print Assumptions C16_basic_concat_lookup_finds_every_key.

Theorem C16_basic_concat_fuel_suffices : forall fuel addr tl tr s,
  RegsOk s -> denotes basic_ops s addr (Cat tl tr) -> concat_fuel (Cat tl tr) <= fuel ->
  (forall z, index_concatenation_for basic_ops fuel addr z s <> OutOfFuel) /\
  (forall sym, (forall a, In a (lookup_order (Cat tl tr)) -> valid_item (data s) a) ->
     access_with_symbol basic_ops fuel sym addr s <> OutOfFuel).
Proof. exact basic_concat_fuel_suffices. Qed.
Print Assumptions C16_basic_concat_fuel_suffices.

(* the weaker laws are implied by RegLaws, so the generic theorems above are instances too *)
Theorem C16_concat_index_weak_laws : forall St (D : DataOps St) (L : RegLawsInv D) fuel addr tl tr s k,
  il_inv L s -> denotes D s addr (Cat tl tr) -> concat_fuel (Cat tl tr) <= fuel ->
  exists s', index_concatenation_for D fuel addr (Z.of_nat k) s = Ok (s', Done (nth_error (flatten (Cat tl tr)) k)) /\
             il_inv L s' /\ il_stack L s' = il_stack L s /\ il_frame L s s'.
Proof. exact @concat_index_inv. Qed.
Print Assumptions C16_concat_index_weak_laws.

(* non-vacuity: [ex_basic_store] is new_default followed by the model's own operations
   [ex_basic_ops] (so G holds by the C15 theorems): lists 8 = (:5 = 7, 7) and
   13 = (:12 = 9, :20 = 7), 18 = 8 <> 13, 20 = 18 <> (:5 = 9), registers [1; 4] already pushed,
   29 of the 30 cells of the data block used.  The hypotheses hold; the model run with exactly
   concat_fuel agrees with the flattening; the traversal reallocates the heap (block size
   30 -> 40), leaves 4 dead register cells, and cur_register / the register values are restored. *)
Example C16_ex_basic_concat :
  let s := ex_basic_store in
  RegsOk s /\ denotes basic_ops s 20 ex_btree20 /\ (forall a, In a (lookup_order ex_btree20) -> valid_item (data s) a) /\
  flatten ex_btree20 = [2; 1; 5; 7; 19] /\ lookup_order ex_btree20 = [19; 5; 7; 2; 1] /\ concat_fuel ex_btree20 = 5 /\
  registers_rev s = Ok [4; 1] /\ cur_register s = Some 28 /\ b_size (blk_data s) = 30 /\ b_cursor (blk_data s) = 29 /\
  match index_concatenation_for basic_ops 5 20 2%Z s with
  | Ok (s', r) => r = Done (Some 5) /\ cur_register s' = Some 28 /\ registers_rev s' = Ok [4; 1] /\
                  b_size (blk_data s') = 40 /\ b_cursor (blk_data s') = 33 /\
                  get_list_item 13 1%Z s' = Ok (Some 7)
  | _ => False
  end /\
  outcome_of (index_concatenation_for basic_ops 5 20 0%Z s) = Some (Done (Some 2)) /\
  outcome_of (index_concatenation_for basic_ops 5 20 4%Z s) = Some (Done (Some 19)) /\
  outcome_of (index_concatenation_for basic_ops 5 20 5%Z s) = Some (Done None) /\
  outcome_of (index_concatenation_for basic_ops 5 20 (-1)%Z s) = Some (Done None) /\
  index_concatenation_for basic_ops 4 20 5%Z s = OutOfFuel /\
  (* key 5 occurs twice: the rightmost leaf wins *)
  outcome_of (access_with_symbol basic_ops 5 5%N 20 s) = Some (Done (Some 4)) /\
  outcome_of (access_with_symbol basic_ops 5 12%N 20 s) = Some (Done (Some 4)) /\
  outcome_of (access_with_symbol basic_ops 5 20%N 20 s) = Some (Done (Some 1)) /\
  outcome_of (access_with_symbol basic_ops 5 99%N 20 s) = Some (Done None).
Proof.
  split; [apply ex_basic_regs|]. split; [apply ex_basic_den20|]. split; [apply ex_basic_valid20|].
  vm_compute. repeat split; reflexivity.
Qed.

(* and the theorems applied to it *)
Example C16_ex_basic_concat_by_theorem : forall k sym,
  (exists s', index_concatenation_for basic_ops 5 20 (Z.of_nat k) ex_basic_store =
                Ok (s', Done (nth_error [2; 1; 5; 7; 19] k)) /\
              cur_register s' = Some 28 /\ registers_rev s' = Ok [4; 1]) /\
  (exists s', access_with_symbol basic_ops 5 sym 20 ex_basic_store =
                Ok (s', Done (assoc_lookup sym [Some (5%N, 4); Some (12%N, 4); Some (20%N, 1); Some (5%N, 1); None])) /\
              cur_register s' = Some 28 /\ registers_rev s' = Ok [4; 1]).
Proof.
  intros k sym. split.
  - destruct (C16_basic_concat_index 5 20 _ _ ex_basic_store k ex_basic_regs ex_basic_den20 (Nat.le_refl _))
      as (s' & Hrun & _ & E1 & E2 & _).
    exists s'. split; [exact Hrun|]. split; [rewrite E1|rewrite E2]; vm_compute; reflexivity.
  - destruct (C16_basic_concat_lookup 5 sym 20 _ _ ex_basic_store ex_basic_regs ex_basic_den20 (Nat.le_refl _) ex_basic_valid20)
      as (s' & Hrun & _ & E1 & E2 & _).
    exists s'. split; [exact Hrun|]. split; [rewrite E1|rewrite E2]; vm_compute; reflexivity.
Qed.
