(* Inductive part of C05 (for every proper tree, every initial state of the data
   object): the tree compiler's output satisfies the operand clause and the
   metadata clause of Spec/WfCode.v, and it never writes a jump entry below the
   initial jump-table length (C20 frame). *)
From Coq Require Import List Arith Bool NArith Lia.
From GV Require Import Base.Result Gen.TokenTypes Gen.Defs Gen.Instr Gen.Exec Model.Parser Model.BuilderWL Model.Compile
  Spec.WfCode Proofs.C05.InlBase.
Import ListNotations.

(* the tree is the node array's: every node carries the definition stored at its index *)
Fixpoint tree_in (nodes : list pnode) (t : tree) : Prop :=
  match t with
  | T ix d l r =>
    node_def nodes ix = Some d /\
    match l with Some a => tree_in nodes a | None => True end /\
    match r with Some b => tree_in nodes b | None => True end
  end.

Lemma tree_of_aux_in : forall fuel nodes i t, tree_of_aux fuel nodes i = Some t -> tree_in nodes t.
Proof.
  induction fuel as [|f IH]; intros nodes i t H; [discriminate|].
  cbn [tree_of_aux] in H. destruct (nth_error nodes i) as [n|] eqn:Hn; [|discriminate].
  destruct (n_left n) as [lk|] eqn:Hl; destruct (n_right n) as [rk|] eqn:Hr.
  - destruct (tree_of_aux f nodes lk) as [lt|] eqn:Elt; [|discriminate].
    destruct (tree_of_aux f nodes rk) as [rt|] eqn:Ert; [|discriminate].
    inversion H; subst. cbn. unfold node_def. rewrite Hn. repeat split; eauto.
  - destruct (tree_of_aux f nodes lk) as [lt|] eqn:Elt; [|discriminate].
    inversion H; subst. cbn. unfold node_def. rewrite Hn. repeat split; eauto.
  - destruct (tree_of_aux f nodes rk) as [rt|] eqn:Ert; [|discriminate].
    inversion H; subst. cbn. unfold node_def. rewrite Hn. repeat split; eauto.
  - inversion H; subst. cbn. unfold node_def. rewrite Hn. repeat split; eauto.
Qed.

Lemma tree_of_in : forall nodes root t, tree_of nodes root = Some t -> tree_in nodes t.
Proof.
  intros nodes root t H. unfold tree_of in H.
  destruct (tree_of_aux (length nodes) nodes root) as [t'|] eqn:E; [|discriminate].
  destruct (nodup_b (indices t')); [|discriminate]. inversion H; subst.
  eapply tree_of_aux_in; eauto.
Qed.

Lemma node_def_lt : forall nodes ix d, node_def nodes ix = Some d -> ix < length nodes.
Proof.
  intros nodes ix d H. unfold node_def in H. destruct (nth_error nodes ix) eqn:E; [|discriminate].
  apply nth_error_Some. rewrite E. discriminate.
Qed.

Section Ops.
Variable nodes : list pnode.
Variable init : binit.
Variable lit_ok : nat -> bool.

Notation jlo := (i_jump_len init).
Notation JL := (jl init).
Notation IL := (il init).

Definition op_ok (hi : nat) (io : instr) : Prop := operand_ok nodes jlo hi io = true.

Lemma in_range_mono : forall lo hi hi' x, hi <= hi' -> in_range lo hi x = true -> in_range lo hi' x = true.
Proof.
  intros lo hi hi' x Hle H. unfold in_range in *. apply andb_true_iff in H. destruct H as [H1 H2].
  apply andb_true_iff. split; [exact H1|]. apply Nat.ltb_lt in H2. apply Nat.ltb_lt. lia.
Qed.

Lemma op_ok_mono : forall hi hi' io, hi <= hi' -> op_ok hi io -> op_ok hi' io.
Proof.
  intros hi hi' [i o] Hle H. unfold op_ok, operand_ok in *.
  destruct o as [|n|n|j]; destruct i; try exact H; try discriminate;
    try (apply andb_true_iff in H; destruct H as [Hj Hr]; apply andb_true_iff; split; [exact Hj|];
         eapply in_range_mono; eauto);
    try (eapply in_range_mono; eauto).
Qed.

Definition meta_ent_ok (m : option nat) : Prop := match m with Some n => n < length nodes | None => True end.

Definition st_ok (s : cst) : Prop :=
  Forall (op_ok (JL s)) (ci s) /\ length (cm s) = length (ci s) /\ Forall meta_ent_ok (cm s).

Lemma st_ok_emit : forall s io m, st_ok s -> op_ok (JL s) io -> meta_ent_ok m -> st_ok (emit s io m).
Proof.
  intros s io m [Ho [Hl Hm]] Hio Hme. unfold st_ok, emit. cbn [ci cm cj]. unfold jl. cbn [cj].
  repeat split.
  - apply Forall_app. split; [exact Ho | constructor; [exact Hio | constructor]].
  - rewrite !app_length. cbn. lia.
  - apply Forall_app. split; [exact Hm | constructor; [exact Hme | constructor]].
Qed.

Lemma st_ok_new_jump : forall s x, st_ok s -> st_ok (new_jump s x).
Proof.
  intros s x [Ho [Hl Hm]]. unfold st_ok. cbn [ci cm new_jump]. repeat split; auto.
  eapply Forall_impl; [|exact Ho]. intros io Hio. eapply op_ok_mono; [|exact Hio].
  rewrite jl_new_jump. lia.
Qed.

(* a body on root_stack / an arm registered with a conditional parent *)
Definition end_ok (hi : nat) (e : instr) : Prop :=
  e = (I_EndExpression, ONone) \/ e = (I_Tis, ONone) \/ exists j, e = (I_JumpTo, ONum j) /\ jlo <= j < hi.

Definition pend_ok (s : cst) (p : pend) : Prop :=
  tree_in nodes (p_tree p) /\ jlo <= p_containing p < JL s /\ jlo <= p_jump p < JL s /\
  Forall (end_ok (JL s)) (p_end p).
Definition item_ok (s : cst) (it : tree * nat) : Prop :=
  tree_in nodes (fst it) /\ jlo <= snd it < JL s.

Lemma end_ok_mono : forall hi hi' e, hi <= hi' -> end_ok hi e -> end_ok hi' e.
Proof.
  intros hi hi' e Hle [H|[H|[j [H Hj]]]]; [left; auto | right; left; auto | right; right; exists j; split; [auto | lia]].
Qed.

Lemma pend_ok_mono : forall s s' p, JL s <= JL s' -> pend_ok s p -> pend_ok s' p.
Proof.
  intros s s' p Hle [Ht [Hc [Hj He]]]. repeat split; try lia; auto.
  eapply Forall_impl; [|exact He]. intros e. apply end_ok_mono. exact Hle.
Qed.
Lemma item_ok_mono : forall s s' it, JL s <= JL s' -> item_ok s it -> item_ok s' it.
Proof. intros s s' it Hle [Ht Hj]. split; [auto | lia]. Qed.

Lemma end_ok_op : forall hi e, end_ok hi e -> op_ok hi e.
Proof.
  intros hi e [H|[H|[j [H Hj]]]]; subst; unfold op_ok, operand_ok; cbn; try reflexivity.
  unfold in_range. apply andb_true_iff. split; [apply Nat.leb_le | apply Nat.ltb_lt]; lia.
Qed.

(* the operands the compiler writes *)
Lemma op_ok_plain : forall hi i, executable i = true -> takes_operand i = false -> op_ok hi (i, ONone).
Proof. intros hi i He Ht. unfold op_ok, operand_ok. destruct i; cbn in *; try rewrite He, Ht; try reflexivity; try discriminate. Qed.

Lemma op_ok_jump : forall hi i j, jumping i = true -> jlo <= j < hi -> op_ok hi (i, ONum j).
Proof.
  intros hi i j Hj Hr. unfold op_ok, operand_ok.
  assert (Hin : in_range jlo hi j = true).
  { unfold in_range. apply andb_true_iff. split; [apply Nat.leb_le | apply Nat.ltb_lt]; lia. }
  destruct i; try discriminate; cbn; rewrite ?Hin; reflexivity.
Qed.

Lemma op_ok_expr : forall hi j, jlo <= j < hi -> op_ok hi (I_Put, OExpr j).
Proof.
  intros hi j Hr. unfold op_ok, operand_ok, in_range. apply andb_true_iff.
  split; [apply Nat.leb_le | apply Nat.ltb_lt]; lia.
Qed.

Lemma op_ok_list : forall hi n, op_ok hi (I_MakeList, ONum n).
Proof. intros. reflexivity. Qed.

End Ops.

(* ---- what each kind of definition writes ---- *)
Section Kinds.
Variable nodes : list pnode.
Variable init : binit.
Notation jlo := (i_jump_len init).

Lemma kind_value_data : forall d i ix hi, kind_of d = KValue i true -> node_def nodes ix = Some d ->
  op_ok nodes init hi (i, OData ix).
Proof.
  intros d i ix hi Hk Hd. unfold op_ok, operand_ok.
  destruct d; cbn in Hk; try discriminate; inversion Hk; subst; rewrite Hd; reflexivity.
Qed.

Lemma kind_value_plain : forall d i hi, kind_of d = KValue i false -> op_ok nodes init hi (i, ONone).
Proof. intros d i hi Hk. destruct d; cbn in Hk; try discriminate; inversion Hk; subst; reflexivity. Qed.

Lemma kind_unary_plain : forall d i c hi, kind_of d = KUnary i c -> op_ok nodes init hi (i, ONone).
Proof. intros d i c hi Hk. destruct d; cbn in Hk; try discriminate; inversion Hk; subst; reflexivity. Qed.

Lemma kind_binary_plain : forall d i c hi, kind_of d = KBinary i c -> op_ok nodes init hi (i, ONone).
Proof. intros d i c hi Hk. destruct d; cbn in Hk; try discriminate; inversion Hk; subst; reflexivity. Qed.

Lemma kind_logical_jumping : forall d i, kind_of d = KLogical i -> jumping i = true.
Proof. intros d i Hk. destruct d; cbn in Hk; try discriminate; inversion Hk; subst; reflexivity. Qed.

Lemma kind_jumpif_jumping : forall d i, kind_of d = KJumpIf i -> jumping i = true.
Proof. intros d i Hk. destruct d; cbn in Hk; try discriminate; inversion Hk; subst; reflexivity. Qed.

Lemma kind_fix_name : forall d c ix hi, kind_of d = KFixApply c -> node_def nodes ix = Some d ->
  op_ok nodes init hi (I_Resolve, OData ix).
Proof.
  intros d c ix hi Hk Hd. unfold op_ok, operand_ok.
  destruct d; cbn in Hk; try discriminate; rewrite Hd; reflexivity.
Qed.

Lemma kind_infix_name : forall d ix hi, kind_of d = KInfix -> node_def nodes ix = Some d ->
  op_ok nodes init hi (I_Resolve, OData ix).
Proof.
  intros d ix hi Hk Hd. unfold op_ok, operand_ok.
  destruct d; cbn in Hk; try discriminate; rewrite Hd; reflexivity.
Qed.

Lemma op_plain_fixed : forall hi,
  op_ok nodes init hi (I_StartSideEffect, ONone) /\ op_ok nodes init hi (I_EndSideEffect, ONone) /\
  op_ok nodes init hi (I_UpdateValue, ONone) /\ op_ok nodes init hi (I_PutValue, ONone) /\
  op_ok nodes init hi (I_Apply, ONone) /\ op_ok nodes init hi (I_Tis, ONone) /\
  op_ok nodes init hi (I_EndExpression, ONone).
Proof. intros. repeat split; reflexivity. Qed.
End Kinds.

Section Main.
Variable nodes : list pnode.
Variable init : binit.
Variable lit_ok : nat -> bool.
Notation jlo := (i_jump_len init).
Notation JL := (jl init).

Definition res_ok (s' : cst) (ps : list pend) (items : list (tree * nat)) : Prop :=
  st_ok nodes init s' /\ Forall (pend_ok nodes init s') ps /\ Forall (item_ok nodes init s') items.

Lemma Forall_pend_mono : forall s s' ps, JL s <= JL s' ->
  Forall (pend_ok nodes init s) ps -> Forall (pend_ok nodes init s') ps.
Proof. intros s s' ps Hle H. eapply Forall_impl; [|exact H]. intros p. apply pend_ok_mono. exact Hle. Qed.
Lemma Forall_item_mono : forall s s' its, JL s <= JL s' ->
  Forall (item_ok nodes init s) its -> Forall (item_ok nodes init s') its.
Proof. intros s s' its Hle H. eapply Forall_impl; [|exact H]. intros p. apply item_ok_mono. exact Hle. Qed.

Lemma items_to_pends_ok : forall s c jt its,
  Forall (item_ok nodes init s) its -> jlo <= c < JL s -> jlo <= jt < JL s ->
  Forall (pend_ok nodes init s) (map (fun it => mkP (fst it) c (snd it) [(I_JumpTo, ONum jt)]) its).
Proof.
  intros s c jt its H Hc Hj. induction H as [|it its [Ht Hi] _ IH]; cbn [map]; constructor; [|exact IH].
  unfold pend_ok. cbn [p_tree p_containing p_jump p_end]. repeat split; try lia; auto.
  constructor; [|constructor]. right. right. exists jt. split; [reflexivity | lia].
Qed.

Ltac rng := cbn [cx_containing cx_list cx_cond plain p_tree p_containing p_jump p_end fst snd] in *;
            repeat first [ rewrite jl_emit in * | rewrite jl_new_jump in * ]; lia.

Ltac meta_solve :=
  first [ exact I | cbn [meta_ent_ok]; eapply node_def_lt; eassumption ].

Ltac op_solve :=
  first [ reflexivity
        | eapply kind_value_plain; eassumption
        | eapply kind_unary_plain; eassumption
        | eapply kind_binary_plain; eassumption
        | eapply kind_value_data; eassumption
        | eapply kind_fix_name; eassumption
        | eapply kind_infix_name; eassumption
        | apply op_ok_expr; rng
        | apply op_ok_jump; [ first [ reflexivity | eapply kind_logical_jumping; eassumption | eapply kind_jumpif_jumping; eassumption ] | rng ] ].

Ltac st_solve :=
  lazymatch goal with
  | H : st_ok _ _ ?s |- st_ok _ _ ?s => exact H
  | |- st_ok _ _ (new_jump _ _) => apply st_ok_new_jump; st_solve
  | |- st_ok _ _ (emit _ _ _) => apply st_ok_emit; [ st_solve | op_solve | meta_solve ]
  end.

Theorem inl_ok : forall t, tree_in nodes t -> forall rj cx s s' ps items,
  inl init lit_ok rj t cx s = Ok (s', ps, items) ->
  st_ok nodes init s -> jlo <= rj < JL s -> jlo <= cx_containing cx < JL s ->
  res_ok s' ps items.
Proof.
  induction t as [ix d l r IHl IHr] using tree_ind'.
  intros Htree rj cx s s' ps items H Hst Hrj Hc.
  destruct Htree as [Hdef [Htl Htr]].
  assert (Htl' : forall a, l = Some a -> tree_in nodes a) by (intros a Ha; subst; exact Htl).
  assert (Htr' : forall b, r = Some b -> tree_in nodes b) by (intros b Hb; subst; exact Htr).
  clear Htl Htr.
  cbn [inl] in H. cbv zeta in H.
  destruct (kind_of d) eqn:Hk.
  all: repeat inv_ok.
  all: repeat match goal with
              | H : inl _ _ ?rj ?a ?cx ?sA = Ok (?sB, ?pB, ?iB) |- _ =>
                let E := fresh "E" in
                let F := fresh "F" in
                pose proof (ext_jl init _ _ (inl_ext init lit_ok _ _ _ _ _ _ _ H)) as E;
                assert (F : res_ok sB pB iB) by
                    (first [ eapply IHl; [ reflexivity | apply Htl'; reflexivity | exact H | st_solve | rng | rng ]
                           | eapply IHr; [ reflexivity | apply Htr'; reflexivity | exact H | st_solve | rng | rng ] ]);
                clear H; destruct F as (? & ? & ?)
              end.
  all: unfold res_ok; (split; [st_solve | split]).
  all: rewrite ?app_nil_r, ?app_nil_l.
  all: repeat rewrite Forall_app.
  all: repeat split.
  all: try solve [ constructor ].
  all: try solve [ eapply Forall_pend_mono; [| eassumption]; rng ].
  all: try solve [ eapply Forall_item_mono; [| eassumption]; rng ].
  all: try solve [ constructor; [ split; [ first [ apply Htl'; reflexivity | apply Htr'; reflexivity ] | rng ] | constructor ] ].
  all: try solve [ constructor; [| constructor ];
                   unfold pend_ok; cbn [p_tree p_containing p_jump p_end]; repeat split;
                   try rng; try (first [ apply Htl'; reflexivity | apply Htr'; reflexivity ]);
                   unfold default_end;
                   repeat (constructor; [ first [ left; reflexivity | right; left; reflexivity
                                                | right; right; eexists; split; [ reflexivity | rng ] ] | ]);
                   constructor ].
  (* else-chain head: the registered arms become pending bodies *)
  match goal with
  | Hi : ?p0 :: ?l1 = ?i1 ++ ?i2, H1 : Forall (item_ok _ _ _) ?i1, H4 : Forall (item_ok _ _ ?c) ?i2 |- _ =>
    assert (Hits : Forall (item_ok nodes init (new_jump c (il init c))) (p0 :: l1))
      by (rewrite Hi; apply Forall_app; split;
          [ eapply Forall_item_mono; [| exact H1]; rng | eapply Forall_item_mono; [| exact H4]; rng ]);
    apply (items_to_pends_ok (new_jump c (il init c)) (cx_containing cx) (JL c) (p0 :: l1) Hits); rng
  end.
Qed.

(* ---- bodies ---- *)
Lemma patch_ok : forall s j x s', patch init s j x = Ok s' ->
  jlo <= j /\ ci s' = ci s /\ cm s' = cm s /\ length (cj s') = length (cj s).
Proof.
  intros s j x s' H. unfold patch in H.
  destruct (Nat.ltb j jlo) eqn:E; [discriminate|]. apply Nat.ltb_ge in E.
  destruct (upd (cj s) (j - jlo) (fun _ => x)) as [l|] eqn:Eu; [|discriminate].
  inversion H; subst. cbn. repeat split; auto.
  clear H. revert l Eu. generalize (j - jlo). induction (cj s) as [|y ys IH]; intros n l Eu; [discriminate|].
  destruct n as [|n]; cbn in Eu.
  - inversion Eu; subst. reflexivity.
  - destruct (upd ys n (fun _ => x)) as [l'|] eqn:E'; [|discriminate]. inversion Eu; subst.
    cbn. f_equal. eapply IH. exact E'.
Qed.

(* the compiler never asks for a write below the initial jump-table length *)
Lemma patch_not_foreign : forall s j x, jlo <= j -> patch init s j x <> Err E_foreign_jump.
Proof.
  intros s j x Hj H. unfold patch in H.
  destruct (Nat.ltb j jlo) eqn:E; [apply Nat.ltb_lt in E; lia|].
  destruct (upd (cj s) (j - jlo) (fun _ => x)); discriminate.
Qed.

Lemma st_ok_same : forall s s', ci s' = ci s -> cm s' = cm s -> JL s' = JL s -> st_ok nodes init s -> st_ok nodes init s'.
Proof. intros s s' Hi Hm Hj [Ho [Hl Hme]]. unfold st_ok. rewrite Hi, Hm, Hj. auto. Qed.

Lemma finish_ok : forall ends s, st_ok nodes init s -> Forall (end_ok init (JL s)) ends ->
  st_ok nodes init (finish init s ends) /\ JL (finish init s ends) = JL s.
Proof.
  intros ends s Hst He. unfold finish. generalize (last_instr init s). intros last.
  generalize (existsb (Nat.eqb (il init s)) (cj s)). intros tg.
  assert (G : forall acc, st_ok nodes init acc -> JL acc = JL s ->
              st_ok nodes init
                (fold_left (fun acc e => match last with
                                         | Some li => if instr_eqb li e && instruction_eqb (fst e) I_EndExpression && negb tg then acc else emit acc e None
                                         | None => emit acc e None end) ends acc) /\
              JL (fold_left (fun acc e => match last with
                                          | Some li => if instr_eqb li e && instruction_eqb (fst e) I_EndExpression && negb tg then acc else emit acc e None
                                          | None => emit acc e None end) ends acc) = JL s).
  { induction He as [|e ends Hee _ IH]; intros acc Ha Hj; cbn [fold_left]; [auto|].
    assert (Hem : st_ok nodes init (emit acc e None) /\ JL (emit acc e None) = JL s).
    { split; [|rewrite jl_emit; exact Hj]. apply st_ok_emit; [exact Ha | | exact I].
      rewrite Hj. apply end_ok_op. exact Hee. }
    destruct last as [li|].
    - destruct (instr_eqb li e && instruction_eqb (fst e) I_EndExpression && negb tg); [apply IH; auto | apply IH; tauto].
    - apply IH; tauto. }
  apply G; auto.
Qed.

Definition fold_bodies (f : nat) (l : list pend) (s0 : res cst) : res cst :=
  fold_left (fun (acc : res cst) (q : pend) => do a <- acc; run_body init lit_ok f q a) l s0.

Lemma fold_bodies_err : forall f l, fold_bodies f l OutOfFuel = OutOfFuel /\
  (forall e, fold_bodies f l (Err e) = Err e) /\ (forall x, fold_bodies f l (Panic x) = Panic x).
Proof. intros f l. induction l as [|q l IH]; cbn; [auto|]. destruct IH as [I1 [I2 I3]]. auto. Qed.

Lemma run_body_ok : forall fuel p s s',
  run_body init lit_ok fuel p s = Ok s' -> st_ok nodes init s -> pend_ok nodes init s p ->
  st_ok nodes init s' /\ JL s <= JL s'.
Proof.
  induction fuel as [|f IH]; intros p s s' H Hst Hp; [discriminate|].
  cbn [run_body] in H.
  apply bind_ok in H. destruct H as [s1 [Hpatch H]].
  apply bind_ok in H. destruct H as [[[s2 ps] its] [Hinl H]].
  destruct Hp as [Ht [Hc [Hj He]]].
  destruct (patch_ok _ _ _ _ Hpatch) as [_ [Hci [Hcm Hlen]]].
  assert (HJ1 : JL s1 = JL s) by (unfold jl; rewrite Hlen; reflexivity).
  assert (Hst1 : st_ok nodes init s1) by (eapply st_ok_same; eauto).
  assert (R : res_ok s2 ps its).
  { eapply inl_ok; [exact Ht | exact Hinl | exact Hst1 | rewrite HJ1; exact Hj | cbn [cx_containing plain]; rewrite HJ1; exact Hc]. }
  destruct R as [Hst2 [Hps _]].
  pose proof (ext_jl init _ _ (inl_ext init lit_ok _ _ _ _ _ _ _ Hinl)) as E2.
  destruct (finish_ok (p_end p) s2 Hst2) as [Hst3 HJ3].
  { eapply Forall_impl; [|exact He]. intros e. apply end_ok_mono. lia. }
  (* the bodies registered by this one, LIFO *)
  assert (G : forall l s0 s', Forall (pend_ok nodes init s0) l -> st_ok nodes init s0 ->
              fold_bodies f l (Ok s0) = Ok s' -> st_ok nodes init s' /\ JL s0 <= JL s').
  { induction l as [|q l IHl]; intros s0 s0' Hl Hs0 Hf; cbn in Hf.
    - inversion Hf; subst. auto.
    - unfold fold_bodies in Hf. cbn [fold_left bind] in Hf.
      destruct (run_body init lit_ok f q s0) as [sq| | |] eqn:Eq.
      + inversion Hl as [|? ? Hq Hl']; subst.
        destruct (IH _ _ _ Eq Hs0 Hq) as [Hsq Hjq].
        destruct (IHl sq s0') as [Hr Hjr]; [eapply Forall_pend_mono; [|exact Hl']; exact Hjq | exact Hsq | exact Hf |].
        split; [exact Hr | lia].
      + destruct (fold_bodies_err f l) as [_ [He' _]]. unfold fold_bodies in He'. rewrite He' in Hf. discriminate.
      + destruct (fold_bodies_err f l) as [_ [_ Hp']]. unfold fold_bodies in Hp'. rewrite Hp' in Hf. discriminate.
      + destruct (fold_bodies_err f l) as [Ho' _]. unfold fold_bodies in Ho'. rewrite Ho' in Hf. discriminate. }
  destruct (G (rev ps) (finish init s2 (p_end p)) s') as [Hr Hjr].
  - apply Forall_rev. eapply Forall_pend_mono; [|exact Hps]. lia.
  - exact Hst3.
  - exact H.
  - split; [exact Hr | lia].
Qed.

Definition code_of_compile (r : cst * nat) : code := mkCode (ci (fst r)) (cm (fst r)) (cj (fst r)) (snd r).

(* C05, inductive part: for every proper tree and every initial state the
   compiled code satisfies the operand clause and the metadata clause *)
Theorem compile_operands_meta : forall t r,
  tree_in nodes t -> compile init lit_ok t = Ok r ->
  operands_wf nodes init (code_of_compile r) /\ meta_wf nodes (code_of_compile r).
Proof.
  intros t r Ht H. unfold compile in H.
  apply bind_ok in H. destruct H as [[[s2 ps] its] [Hinl H]].
  apply bind_ok in H. destruct H as [s4 [Hfold H]]. inversion H; subst. clear H.
  set (s1 := new_jump (mkC [] [] []) (il init (mkC [] [] []))) in *.
  assert (Hst1 : st_ok nodes init s1) by (unfold st_ok, s1; cbn; repeat split; constructor).
  assert (HJ1 : JL s1 = S jlo) by (unfold s1; rewrite jl_new_jump; unfold jl; cbn; lia).
  assert (R : res_ok s2 ps its).
  { eapply inl_ok; [exact Ht | exact Hinl | exact Hst1 | lia | cbn [cx_containing plain]; lia]. }
  destruct R as [Hst2 [Hps _]].
  destruct (finish_ok default_end s2 Hst2) as [Hst3 HJ3].
  { constructor; [left; reflexivity | constructor]. }
  assert (G : forall l s0 s', Forall (pend_ok nodes init s0) l -> st_ok nodes init s0 ->
              fold_bodies (size t) l (Ok s0) = Ok s' -> st_ok nodes init s').
  { induction l as [|q l IHl]; intros s0 s0' Hl Hs0 Hf; cbn in Hf.
    - inversion Hf; subst. auto.
    - unfold fold_bodies in Hf. cbn [fold_left bind] in Hf.
      destruct (run_body init lit_ok (size t) q s0) as [sq| | |] eqn:Eq.
      + inversion Hl as [|? ? Hq Hl']; subst.
        destruct (run_body_ok _ _ _ _ Eq Hs0 Hq) as [Hsq Hjq].
        apply (IHl sq s0'); [eapply Forall_pend_mono; [|exact Hl']; exact Hjq | exact Hsq | exact Hf].
      + destruct (fold_bodies_err (size t) l) as [_ [He' _]]. unfold fold_bodies in He'. rewrite He' in Hf. discriminate.
      + destruct (fold_bodies_err (size t) l) as [_ [_ Hp']]. unfold fold_bodies in Hp'. rewrite Hp' in Hf. discriminate.
      + destruct (fold_bodies_err (size t) l) as [Ho' _]. unfold fold_bodies in Ho'. rewrite Ho' in Hf. discriminate. }
  assert (Hst4 : st_ok nodes init s4).
  { apply (G (rev ps) (finish init s2 default_end) s4); [| exact Hst3 | exact Hfold].
    apply Forall_rev. eapply Forall_pend_mono; [|exact Hps]. lia. }
  destruct Hst4 as [Ho [Hl Hm]]. split.
  - intros k io Hk. unfold code_of_compile in *. cbn [k_instrs fst] in Hk.
    rewrite Forall_forall in Ho. apply (Ho io). eapply nth_error_In; eauto.
  - split; [exact Hl|]. intros k n Hk. cbn [code_of_compile k_meta fst] in Hk.
    rewrite Forall_forall in Hm. apply (Hm (Some n)). eapply nth_error_In; eauto.
Qed.
End Main.
