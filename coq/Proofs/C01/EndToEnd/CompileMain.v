(* (d) assembled: by induction on the AST, the tree compiler on the parser's
   tree of the printed tokens yields the program of the AST compiler. *)
From Coq Require Import ZArith NArith List Bool Arith Lia.
From GV Require Import Base.Result Base.Host Gen.TokenTypes Gen.Defs Gen.Instr Model.Num Model.Value
  Model.Parser Model.BuilderWL Model.Machine Model.Compile Model.CompileExpr Model.CompileWL
  Spec.RefTable Spec.Pratt Spec.Chains Spec.Ast Spec.Printer Spec.Eval Spec.Fragment
  Proofs.C02.Denote Proofs.C05.InlBase Proofs.Builder.PrattBridge Proofs.C01.Sizes
  Proofs.C01.EndToEnd.PrintItems Proofs.C01.EndToEnd.PrintClimb Proofs.C01.EndToEnd.CompileBase
  Proofs.C01.EndToEnd.CompileSim.
Import ListNotations.

Section Main.
Variable sym_hash : list N -> N.
Variable toks : list atok.
Variable ns : list pnode.

Notation inl_spec := (inl_spec sym_hash toks ns).
Notation chain_spec := (chain_spec sym_hash toks ns).
Notation at_off := (at_off toks).
Notation dn := (dn ns).

Lemma dn_pre i d k a : dn (NPre i d k a) -> dn a.
Proof. intros (p & n & _ & _ & _ & _ & _ & _ & _ & D). exists (Some i). exact D. Qed.
Lemma dn_suf i d k a : dn (NSuf i d k a) -> dn a.
Proof. intros (p & n & _ & _ & _ & _ & _ & _ & _ & D). exists (Some i). exact D. Qed.
Lemma dn_group b i k a : dn (NGroup b i k a) -> dn a.
Proof. intros (p & n & _ & _ & _ & _ & _ & _ & _ & D). exists (Some i). exact D. Qed.
Lemma dn_bin i d k l r : dn (NBin i d k l r) -> dn l /\ dn r.
Proof. intros (p & n & _ & _ & _ & _ & _ & Dl & Dr). split; exists (Some i); assumption. Qed.

Lemma left_not_chainy_and l r : ok_children (EAnd l r) = true -> chainy l = false.
Proof.
  cbn [ok_children]. intros H. apply andb_true_iff in H. destruct H as [H _]. unfold ok_left_ltr in H.
  destruct l; try reflexivity; [destruct neg|]; vm_compute in H; discriminate H.
Qed.
Lemma left_not_chainy_or l r : ok_children (EOr l r) = true -> chainy l = false.
Proof.
  cbn [ok_children]. intros H. apply andb_true_iff in H. destruct H as [H _]. unfold ok_left_ltr in H.
  destruct l; try reflexivity; [destruct neg|]; vm_compute in H; discriminate H.
Qed.

Lemma at_off_nested off lbl b : at_off off (ENested lbl b) -> at_off (off + 2) b.
Proof.
  intros (pre & post & E & L). cbn [aprint] in E.
  exists (pre ++ [aop TT_StartExpression; aws]), ([aws; aop TT_EndExpression] ++ post).
  split; [rewrite E; repeat rewrite <- app_assoc; cbn [app]; repeat rewrite <- app_assoc; reflexivity|rewrite app_length; cbn [length]; lia].
Qed.

Lemma at_off_reapply off x : at_off off (EReapply x) -> at_off (off + 2) x.
Proof.
  intros (pre & post & E & L). cbn [aprint] in E.
  exists (pre ++ [aop TT_Reapply; aws]), post.
  split; [rewrite E; repeat rewrite <- app_assoc; cbn [app]; repeat rewrite <- app_assoc; reflexivity|rewrite app_length; cbn [length]; lia].
Qed.

Theorem sim_all : forall e, efrag LV e = true -> paren_ok e = true ->
  forall t off, rep e off t -> dn t -> at_off off e -> forall c, inl_spec c e t /\ chain_spec c e t.
Proof.
  induction e; intros F P t off R D A c; try discriminate F; cbn [efrag] in F;
    repeat (apply andb_true_iff in F; let G := fresh "G" in destruct F as [F G]).
  - assert (H : inl_spec c (ELit l) t) by (eapply case_lit; eauto). split; [exact H|apply chain_of_plain; [reflexivity|exact H]].
  - assert (H : inl_spec c EValue t) by (eapply case_value; eauto). split; [exact H|apply chain_of_plain; [reflexivity|exact H]].
  - assert (H : inl_spec c (EIdent name) t) by (eapply case_ident; eauto). split; [exact H|apply chain_of_plain; [reflexivity|exact H]].
  - (* prefix / suffix *)
    pose proof (paren_ok_un _ _ P) as Px.
    assert (H : inl_spec c (EUn o e) t).
    { pose proof (step_un sym_hash toks ns c o e) as S. cbn [rep] in R. destruct (is_prefix o) eqn:Ho.
      - destruct t as [|i d k a| | |]; try contradiction. destruct R as (-> & -> & Rx).
        apply S. apply (IHe F Px a (off + 2) Rx (dn_pre _ _ _ _ D)). eapply at_off_pre; eauto.
      - destruct t as [| |i d k a| |]; try contradiction. destruct R as (-> & -> & Rx).
        apply S. apply (IHe F Px a off Rx (dn_suf _ _ _ _ D)). eapply at_off_suf; eauto. }
    split; [exact H|apply chain_of_plain; [reflexivity|exact H]].
  - (* binary operator *)
    destruct (paren_ok_binary (EBin o e1 e2) _ _ _ eq_refl P) as [P1 P2].
    destruct (at_off_binary toks off (EBin o e1 e2) _ _ _ eq_refl A) as [A1 A2].
    cbn [rep] in R. destruct t as [| | |i d k tl tr|]; try contradiction. destruct R as (-> & _ & R1 & R2).
    destruct (dn_bin _ _ _ _ _ D) as [D1 D2].
    assert (H : inl_spec c (EBin o e1 e2) (NBin i (hdef (EBin o e1 e2)) k tl tr)).
    { apply step_bin; [apply (IHe1 F P1 _ _ R1 D1 A1)|apply (IHe2 G P2 _ _ R2 D2 A2)]. }
    split; [exact H|apply chain_of_plain; [reflexivity|exact H]].
  - (* && *)
    destruct (paren_ok_binary (EAnd e1 e2) _ _ _ eq_refl P) as [P1 P2].
    destruct (at_off_binary toks off (EAnd e1 e2) _ _ _ eq_refl A) as [A1 A2].
    cbn [rep] in R. destruct t as [| | |i d k tl tr|]; try contradiction. destruct R as (-> & _ & R1 & R2).
    destruct (dn_bin _ _ _ _ _ D) as [D1 D2].
    assert (H : inl_spec c (EAnd e1 e2) (NBin i (hdef (EAnd e1 e2)) k tl tr)).
    { apply (step_logical sym_hash toks ns c true); [reflexivity|apply (left_not_chainy_and _ _ (paren_ok_children _ P))| |].
      - apply (IHe1 G0 P1 _ _ R1 D1 A1).
      - apply (IHe2 G P2 _ _ R2 D2 A2). }
    split; [exact H|apply chain_of_plain; [reflexivity|exact H]].
  - (* || *)
    destruct (paren_ok_binary (EOr e1 e2) _ _ _ eq_refl P) as [P1 P2].
    destruct (at_off_binary toks off (EOr e1 e2) _ _ _ eq_refl A) as [A1 A2].
    cbn [rep] in R. destruct t as [| | |i d k tl tr|]; try contradiction. destruct R as (-> & _ & R1 & R2).
    destruct (dn_bin _ _ _ _ _ D) as [D1 D2].
    assert (H : inl_spec c (EOr e1 e2) (NBin i (hdef (EOr e1 e2)) k tl tr)).
    { apply (step_logical sym_hash toks ns c false); [reflexivity|apply (left_not_chainy_or _ _ (paren_ok_children _ P))| |].
      - apply (IHe1 G0 P1 _ _ R1 D1 A1).
      - apply (IHe2 G P2 _ _ R2 D2 A2). }
    split; [exact H|apply chain_of_plain; [reflexivity|exact H]].
  - (* lists *)
    assert (Hb : exists tk, as_binary (EList k e1 e2) = Some (tk, e1, e2)) by (destruct k; eexists; reflexivity).
    destruct Hb as [tk Hb]. destruct (paren_ok_binary _ _ _ _ Hb P) as [P1 P2].
    assert (H : inl_spec c (EList k e1 e2) t).
    { destruct k.
      - destruct (at_off_space toks off _ _ A) as [A1 A2].
        cbn [rep] in R. destruct t as [| | |i d ko tl tr|]; try contradiction. destruct R as (-> & _ & R1 & R2).
        destruct (dn_bin _ _ _ _ _ D) as [D1 D2].
        apply (step_list sym_hash toks ns c Space _ _ _ _ _ _ _ _ R1 R2);
          [apply (IHe1 G0 P1 _ _ R1 D1 A1)|apply (IHe2 G P2 _ _ R2 D2 A2)].
      - destruct (at_off_binary toks off (EList Comma e1 e2) _ _ _ eq_refl A) as [A1 A2].
        cbn [rep] in R. destruct t as [| | |i d ko tl tr|]; try contradiction. destruct R as (-> & _ & R1 & R2).
        destruct (dn_bin _ _ _ _ _ D) as [D1 D2].
        apply (step_list sym_hash toks ns c Comma _ _ _ _ _ _ _ _ R1 R2);
          [apply (IHe1 G0 P1 _ _ R1 D1 A1)|apply (IHe2 G P2 _ _ R2 D2 A2)]. }
    split; [exact H|apply chain_of_plain; [reflexivity|exact H]].
  - (* group *)
    cbn [rep] in R. destruct t as [| | | |b i k a]; try contradiction. destruct b; try contradiction. destruct R as (-> & Rx).
    assert (H : inl_spec c (EGroup e) (NGroup BRound i off a)).
    { apply step_group. apply (IHe G (paren_ok_group _ P) _ _ Rx (dn_group _ _ _ _ D)). eapply at_off_group; eauto. }
    split; [exact H|apply chain_of_plain; [reflexivity|exact H]].
  - (* conditional *)
    destruct (paren_ok_binary (ECond neg e1 e2) _ _ _ eq_refl P) as [P1 P2].
    destruct (at_off_binary toks off (ECond neg e1 e2) _ _ _ eq_refl A) as [A1 A2].
    cbn [rep] in R. destruct t as [| | |i d k tl tr|]; try contradiction. destruct R as (-> & _ & R1 & R2).
    destruct (dn_bin _ _ _ _ _ D) as [D1 D2].
    pose proof (proj1 (IHe1 G0 P1 _ _ R1 D1 A1 c)) as H1. pose proof (proj1 (IHe2 G P2 _ _ R2 D2 A2 c)) as H2.
    split.
    + intros rj lk cond s ob jb Hc. rewrite (Hc eq_refl). apply step_cond; assumption.
    + apply step_cond_chain; assumption.
  - (* else chain *)
    destruct (paren_ok_binary (EElse e1 e2) _ _ _ eq_refl P) as [P1 P2].
    destruct (at_off_binary toks off (EElse e1 e2) _ _ _ eq_refl A) as [A1 A2].
    cbn [rep] in R. destruct t as [| | |i d k tl tr|]; try contradiction. destruct R as (-> & _ & R1 & R2).
    destruct (dn_bin _ _ _ _ _ D) as [D1 D2].
    pose proof (proj2 (IHe1 G0 P1 _ _ R1 D1 A1 c)) as H1. pose proof (proj2 (IHe2 G P2 _ _ R2 D2 A2 c)) as H2.
    assert (Hch : chain_spec c (EElse e1 e2) (NBin i (hdef (EElse e1 e2)) k tl tr)) by (apply step_else_chain; assumption).
    split; [|exact Hch].
    intros rj lk cond s ob jb Hc. rewrite (Hc eq_refl). apply step_else. exact Hch.
  - (* sequence *)
    destruct s; [|discriminate].
    destruct (paren_ok_binary (ESeq Semi e1 e2) _ _ _ eq_refl P) as [P1 P2].
    destruct (at_off_binary toks off (ESeq Semi e1 e2) _ _ _ eq_refl A) as [A1 A2].
    cbn [rep] in R. destruct t as [| | |i d k tl tr|]; try contradiction. destruct R as (-> & _ & R1 & R2).
    destruct (dn_bin _ _ _ _ _ D) as [D1 D2].
    assert (H : inl_spec c (ESeq Semi e1 e2) (NBin i (hdef (ESeq Semi e1 e2)) k tl tr)).
    { apply step_seq; [apply (IHe1 G0 P1 _ _ R1 D1 A1)|apply (IHe2 G P2 _ _ R2 D2 A2)]. }
    split; [exact H|apply chain_of_plain; [reflexivity|exact H]].
  - (* nested expression *)
    cbn [rep] in R. destruct t as [| | | |b i k a]; try contradiction. destruct b; try contradiction. destruct R as (-> & Rx).
    assert (H : inl_spec c (ENested label e) (NGroup BCurly i off a)).
    { apply step_nested; [exact G|]. intros c'.
      apply (IHe G (paren_ok_nested _ _ P) _ _ Rx (dn_group _ _ _ _ D) (at_off_nested _ _ _ A) c'). }
    split; [exact H|apply chain_of_plain; [reflexivity|exact H]].
  - (* re-apply *)
    cbn [rep] in R. destruct t as [|i d k a| | |]; try contradiction. destruct R as (-> & -> & Rx).
    assert (H : inl_spec c (EReapply e) (NPre i (hdef (EReapply e)) off a)).
    { apply step_reapply.
      apply (IHe G (paren_ok_reapply _ P) _ _ Rx (dn_pre _ _ _ _ D) (at_off_reapply _ _ A) c). }
    split; [exact H|apply chain_of_plain; [reflexivity|exact H]].
Qed.

End Main.
