(* Char-list literals: a literal made of raw characters, backslash escapes and
   \u{hex} escapes parses to exactly the characters its items denote, for any
   quote count and any characters; every string has such a spelling. *)
From Coq Require Import ZArith NArith List Bool Lia.
From Flocq Require Import IEEE754.Binary IEEE754.Bits.
From GV Require Import Base.Result Model.Num Model.Literals Spec.LitDenote
  Proofs.C14.StrLemmas Proofs.C14.Digits.
Import ListNotations.
Local Open Scope N_scope.

Lemma char_from_i32_scalar : forall v, is_scalar v = true -> char_from_i32 (Z.of_N v) = Some v.
Proof.
  intros v H. unfold is_scalar in H. unfold char_from_i32.
  assert (Hv : v <= 1114111).
  { apply orb_true_iff in H as [H|H].
    - apply N.ltb_lt in H. lia.
    - apply andb_true_iff in H as [_ H]. apply N.leb_le in H. exact H. }
  rewrite Z.mod_small by lia.
  replace ((Z.of_N v <? 55296)%Z || ((57344 <=? Z.of_N v)%Z && (Z.of_N v <=? 1114111)%Z)) with true.
  - rewrite N2Z.id. reflexivity.
  - symmetry. apply orb_true_iff in H as [H|H].
    + apply N.ltb_lt in H. apply orb_true_iff. left. apply Z.ltb_lt. lia.
    + apply andb_true_iff in H as [H1 H2]. apply N.leb_le in H1, H2.
      apply orb_true_iff. right. apply andb_true_iff. split; apply Z.leb_le; lia.
Qed.

Section CharList.
  Variable pf : str -> option binary64.

  (* hex digits of a \u{...} escape parse in radix 16 *)
  Lemma hex_number : forall hex, valid_digits 16 hex = true -> radix_value 16 hex <= i32_max_N ->
    parse_number_internal pf hex 16 = Ok (Int (Z.of_N (radix_value 16 hex))).
  Proof.
    intros hex Hv Hle. destruct (valid_digits_inv 16 hex Hv) as [c [t [Heq [_ Hall]]]].
    unfold parse_number_internal.
    rewrite (split_at_first_none ch_us hex (digits_no_us 16 hex Hall)). cbn [bind].
    rewrite remove_us_strip. unfold strip_seps. rewrite (filter_id _ hex (digits_no_us 16 hex Hall)).
    rewrite (from_str_radix_valid 16 hex Hv Hle). reflexivity.
  Qed.

  Lemma loop_collect_hex : forall q hex u r out esc, forallb (is_digit_of 16) hex = true ->
    char_list_loop pf q (hex ++ r) out esc (Some u) = char_list_loop pf q r out esc (Some (u ++ hex)).
  Proof.
    intros q hex. induction hex as [|c hex IH]; intros u r out esc H.
    - rewrite app_nil_r. reflexivity.
    - cbn [forallb] in H. apply andb_true_iff in H as [Hc Hs].
      cbn [app char_list_loop].
      rewrite (is_digit_not 16 c ch_rbrace Hc) by (unfold ch_rbrace; lia).
      rewrite (is_digit_not 16 c ch_lbrace Hc) by (unfold ch_lbrace; lia).
      rewrite (IH (u ++ [c]) r out esc Hs). rewrite <- app_assoc. reflexivity.
  Qed.

  Lemma loop_item : forall q i r out, wf_citem q i = true ->
    char_list_loop pf q (render_citem i ++ r) out false None =
    char_list_loop pf q r (out ++ [denote_citem i]) false None.
  Proof.
    intros q i r out Hwf. destruct i as [c|e|hex].
    - (* raw character *)
      cbn [wf_citem] in Hwf. apply andb_true_iff in Hwf as [Hb Hnl].
      apply negb_true_iff in Hb. apply negb_true_iff in Hnl.
      cbn [render_citem app char_list_loop denote_citem].
      change ch_bslash with 92. rewrite Hb.
      change ch_nl with 10. change ch_tab with 9. rewrite andb_comm, Hnl. reflexivity.
    - (* backslash escape *)
      destruct e; reflexivity.
    - (* \u{hex} *)
      cbn [wf_citem] in Hwf. apply andb_true_iff in Hwf as [Hv Hs].
      destruct (valid_digits_inv 16 hex Hv) as [c0 [t0 [_ [_ Hall]]]].
      assert (Hle : radix_value 16 hex <= i32_max_N).
      { unfold is_scalar in Hs. unfold i32_max_N. apply orb_true_iff in Hs as [H|H].
        - apply N.ltb_lt in H. lia.
        - apply andb_true_iff in H as [_ H]. apply N.leb_le in H. lia. }
      cbn [render_citem denote_citem].
      change ((92 :: 117 :: 123 :: hex ++ [125]) ++ r) with (92 :: 117 :: 123 :: (hex ++ [125]) ++ r).
      rewrite <- app_assoc.
      change (char_list_loop pf q (92 :: 117 :: 123 :: hex ++ [125] ++ r) out false None)
        with (char_list_loop pf q (hex ++ [125] ++ r) out false (Some [])).
      rewrite loop_collect_hex by exact Hall.
      cbn [app char_list_loop]. change (125 =? ch_rbrace) with true. cbv iota.
      rewrite (hex_number hex Hv Hle). cbn [bind].
      rewrite (char_from_i32_scalar _ Hs). reflexivity.
  Qed.

  Lemma loop_items : forall q items r out, forallb (wf_citem q) items = true ->
    char_list_loop pf q (render_citems items ++ r) out false None =
    char_list_loop pf q r (out ++ denote_citems items) false None.
  Proof.
    intros q items. induction items as [|i items IH]; intros r out H.
    - cbn [render_citems flat_map denote_citems map app]. rewrite app_nil_r. reflexivity.
    - cbn [forallb] in H. apply andb_true_iff in H as [Hi Hs].
      unfold render_citems. cbn [flat_map]. fold (render_citems items).
      rewrite <- app_assoc. rewrite (loop_item q i _ out Hi).
      rewrite (IH r _ Hs). cbn [denote_citems map]. rewrite <- app_assoc. reflexivity.
  Qed.

  Lemma render_citem_nonempty : forall i, exists c t, render_citem i = c :: t.
  Proof. intros [c|e|hex]; cbn [render_citem]; eexists; eexists; reflexivity. Qed.

  Theorem char_list_literal_denotes : forall q items,
    forallb (wf_citem q) items = true ->
    body_ok 34 (render_citems items) = true ->
    parse_char_list pf (char_list_literal q items) = Ok (denote_citems items).
  Proof.
    intros q items Hwf Hbody. unfold char_list_literal, quotes.
    set (nq := N.to_nat q). assert (Hq : q = N.of_nat nq) by (unfold nq; rewrite N2Nat.id; reflexivity).
    destruct items as [|i items].
    - (* nothing between the quotes *)
      cbn [render_citems flat_map app denote_citems map]. unfold parse_char_list.
      destruct (str_len (repeat 34 nq ++ repeat 34 nq) =? 0); [reflexivity|].
      rewrite <- repeat_app. rewrite count_leading_all.
      rewrite str_len_repeat_ascii by lia. rewrite N.eqb_refl. reflexivity.
    - set (body := render_citems (i :: items)) in *.
      assert (Hne : exists c t, body = c :: t).
      { unfold body, render_citems. cbn [flat_map]. destruct (render_citem_nonempty i) as [c [t ->]].
        eexists; eexists; reflexivity. }
      destruct Hne as [b0 [bt Hb]].
      assert (Hb0 : negb (b0 =? 34) = true) by (rewrite Hb in Hbody; exact Hbody).
      unfold parse_char_list.
      assert (Hlen : str_len (repeat 34 nq ++ body ++ repeat 34 nq) = q + str_len body + q).
      { rewrite !str_len_app, !str_len_repeat_ascii by lia. lia. }
      assert (Hbl : 1 <= str_len body) by (rewrite Hb; apply str_len_nonempty).
      rewrite Hlen.
      replace (q + str_len body + q =? 0) with false by (symmetry; apply N.eqb_neq; lia).
      change ch_quote with 34.
      rewrite (count_leading_repeat 34 nq (body ++ repeat 34 nq)) by (rewrite Hb; exact Hb0).
      rewrite <- Hq.
      replace (q =? q + str_len body + q) with false by (symmetry; apply N.eqb_neq; lia).
      assert (Hcc : chars_count (repeat 34 nq ++ body ++ repeat 34 nq) = q * 2 + N.of_nat (length body)).
      { unfold chars_count. rewrite !app_length, !repeat_length. lia. }
      rewrite Hcc.
      replace (q * 2 + N.of_nat (length body) <? q * 2) with false by (symmetry; apply N.ltb_ge; lia).
      replace (q * 2 + N.of_nat (length body) - q * 2) with (N.of_nat (length body)) by lia.
      replace (skip_chars q (repeat 34 nq ++ body ++ repeat 34 nq))
        with (skip_chars (N.of_nat (length (repeat 34 nq))) (repeat 34 nq ++ body ++ repeat 34 nq))
        by (rewrite repeat_length, <- Hq; reflexivity).
      rewrite skip_take_middle.
      rewrite <- (app_nil_r body). unfold body. rewrite (loop_items q (i :: items) [] [] Hwf).
      reflexivity.
  Qed.

  (* ---- every string has a spelling ---- *)
  Lemma citem_of_char_cases : forall q c,
    wf_citem q (citem_of_char c) = true /\ denote_citem (citem_of_char c) = c /\
    body_ok 34 (render_citem (citem_of_char c)) = true.
  Proof.
    intros q c. unfold citem_of_char.
    destruct (c =? 10) eqn:E10. { apply N.eqb_eq in E10. subst. repeat split; reflexivity. }
    destruct (c =? 9) eqn:E9. { apply N.eqb_eq in E9. subst. repeat split; reflexivity. }
    destruct (c =? 13) eqn:E13. { apply N.eqb_eq in E13. subst. repeat split; reflexivity. }
    destruct (c =? 0) eqn:E0. { apply N.eqb_eq in E0. subst. repeat split; reflexivity. }
    destruct (c =? 92) eqn:E92. { apply N.eqb_eq in E92. subst. repeat split; reflexivity. }
    destruct (c =? 34) eqn:E34. { apply N.eqb_eq in E34. subst. repeat split; reflexivity. }
    repeat split.
    - cbn [wf_citem]. rewrite E92, E10, E9. cbn [negb orb]. rewrite andb_false_r. reflexivity.
    - cbn [render_citem body_ok]. rewrite E34. reflexivity.
  Qed.

  Lemma spell_items_wf : forall q s, forallb (wf_citem q) (map citem_of_char s) = true.
  Proof.
    intros q s. induction s as [|c s IH]; [reflexivity|]. cbn [map forallb].
    destruct (citem_of_char_cases q c) as [H _]. rewrite H, IH. reflexivity.
  Qed.

  Lemma spell_items_denote : forall s, denote_citems (map citem_of_char s) = s.
  Proof.
    intros s. induction s as [|c s IH]; [reflexivity|]. cbn [map denote_citems].
    destruct (citem_of_char_cases 0 c) as [_ [H _]]. rewrite H. fold (denote_citems (map citem_of_char s)).
    rewrite IH. reflexivity.
  Qed.

  Lemma spell_items_body : forall s, body_ok 34 (render_citems (map citem_of_char s)) = true.
  Proof.
    intros [|c s]; [reflexivity|]. cbn [map]. unfold render_citems. cbn [flat_map].
    destruct (citem_of_char_cases 0 c) as [_ [_ H]].
    destruct (render_citem_nonempty (citem_of_char c)) as [x [t Hx]]. rewrite Hx in *. exact H.
  Qed.

  Theorem string_roundtrip : forall q s, parse_char_list pf (spell_string q s) = Ok s.
  Proof.
    intros q s. unfold spell_string.
    rewrite (char_list_literal_denotes q _ (spell_items_wf q s) (spell_items_body s)).
    rewrite spell_items_denote. reflexivity.
  Qed.
End CharList.
