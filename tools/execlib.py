"""Whole-program machinery shared by the C01 / C17 checks and the program clauses of C10.

A *program case* is (raw AST, style, input value tree, host script).  The pipeline is
  OCaml `exec_driver print`  (Coq-extracted printer: AST -> parenthesised AST, source text, tokens)
  Rust  `exec`               (real lex/parse/build/execute on both data implementations, recording host)
  OCaml `exec_driver run`    (Coq-extracted AST compiler + builder-model route + runtime model = "model",
                              Coq-extracted reference evaluator = "spec")
and `judge` turns one triple of answers into findings.

ASTs are nested tuples mirroring ocaml/exec_driver.ml's syntax:
  "u" "t" "F" "$"  ("i",n) ("f",m,k) ("s","text") ("y",name) ("p",name) ("x",name)
  ("U",op,e) ("B",op,l,r) ("&",l,r) ("O",l,r) ("L","s"|"c",l,r) ("G",e) ("C",0|1,c,a) ("E",l,r)
  ("Q","s"|"b",l,r) ("S",atom,body) ("N",label,body) ("R",e)
"""
import os, re, subprocess, itertools
import vplib
from vplib import log

UNOPS = ["abs", "neg", "bnot", "not", "tis", "left", "right", "len", "ea"]
ARITH = ["add", "sub", "mul", "div", "idiv", "pow", "rem"]
BITS = ["band", "bor", "bxor", "shl", "shr"]
CMP = ["lt", "le", "gt", "ge"]
EQ = ["eq", "ne"]
BINOPS = ARITH + BITS + CMP + EQ + ["xor", "pair", "acc", "app", "appto"]

INSTR_APPLY = 40


# ------------------------------------------------------------------ AST utilities
def show(e):
    if isinstance(e, str):
        return e
    k = e[0]
    if k == "i": return "(i %d)" % e[1]
    if k == "f": return "(f %d %d)" % (e[1], e[2])
    if k == "s": return "(s %s)" % (",".join("%x" % ord(c) for c in e[1]) or "-")
    if k in ("y", "p", "x"): return "(%s %s)" % (k, e[1])
    if k == "U": return "(U %s %s)" % (e[1], show(e[2]))
    if k == "B": return "(B %s %s %s)" % (e[1], show(e[2]), show(e[3]))
    if k in ("&", "O", "E", "S"): return "(%s %s %s)" % (k, show(e[1]), show(e[2]))
    if k in ("L", "Q"): return "(%s %s %s %s)" % (k, e[1], show(e[2]), show(e[3]))
    if k == "C": return "(C %d %s %s)" % (e[1], show(e[2]), show(e[3]))
    if k == "N": return "(N %d %s)" % (e[1], show(e[2]))
    if k in ("G", "R"): return "(%s %s)" % (k, show(e[1]))
    raise ValueError(e)


def children(e):
    """(index in tuple, child) pairs"""
    if isinstance(e, str): return []
    k = e[0]
    if k in ("i", "f", "s", "y", "p", "x"): return []
    if k == "U": return [(2, e[2])]
    if k == "B": return [(2, e[2]), (3, e[3])]
    if k in ("&", "O", "E", "S"): return [(1, e[1]), (2, e[2])]
    if k in ("L", "Q", "C"): return [(2, e[2]), (3, e[3])]
    if k == "N": return [(2, e[2])]
    if k in ("G", "R"): return [(1, e[1])]
    raise ValueError(e)


def size(e):
    return 1 + sum(size(c) for _, c in children(e))


def replace_child(e, idx, new):
    l = list(e)
    l[idx] = new
    return tuple(l)


def relabel(e, counter=None):
    """give every nested expression a distinct label (preorder)"""
    if counter is None: counter = [0]
    if isinstance(e, str): return e
    if e[0] == "N":
        counter[0] += 1
        lbl = counter[0]
        return ("N", lbl, relabel(e[2], counter))
    out = e
    for idx, c in children(e):
        out = replace_child(out, idx, relabel(c, counter))
    return out


def walk(e):
    yield e
    for _, c in children(e):
        yield from walk(c)


def idents(e):
    return sorted({n[1] for n in walk(e) if not isinstance(n, str) and n[0] == "x"})


def uses_input(e):
    return any(n == "$" or (not isinstance(n, str) and n[0] == "x") for n in walk(e))


def kinds(e):
    return {(n if isinstance(n, str) else (n[0] + ":" + str(n[1]) if n[0] in ("U", "B", "L", "Q", "C") else n[0])) for n in walk(e)}


def parse_sexpr(s):
    """inverse of show (for the parenthesised AST the printer returns)"""
    toks = s.replace("(", " ( ").replace(")", " ) ").split()
    pos = [0]

    def one():
        t = toks[pos[0]]
        pos[0] += 1
        if t != "(":
            return t
        items = []
        while toks[pos[0]] != ")":
            items.append(one())
        pos[0] += 1
        k = items[0]
        if k == "i": return ("i", int(items[1]))
        if k == "f": return ("f", int(items[1]), int(items[2]))
        if k == "s": return ("s", "" if items[1] == "-" else "".join(chr(int(x, 16)) for x in items[1].split(",")))
        if k in ("y", "p", "x"): return (k, items[1])
        if k == "C": return ("C", int(items[1]), items[2], items[3])
        if k == "N": return ("N", int(items[1]), items[2])
        return tuple(items)
    return one()


# -------------------------------------------------------------------- generators
LEAVES_SMALL = [("i", 2), ("f", 15, 1), ("s", "ab"), ("y", "a"), "u", "t", "F", "$", ("x", "a"), ("x", "b")]
ATOMS = [x for x in LEAVES_SMALL]


def enum_exprs(n, leaves, memo, unops=UNOPS, binops=BINOPS):
    """every non-sequence expression with exactly n constructors"""
    if n in memo: return memo[n]
    out = []
    if n == 1:
        out = list(leaves)
    else:
        for x in enum_exprs(n - 1, leaves, memo, unops, binops):
            for o in unops: out.append(("U", o, x))
            out.append(("G", x))
            # an unguarded `^~` never terminates: only inside a nested body, one level
        for b in enum_bodies(n - 1, leaves, memo, unops, binops):
            out.append(("N", 0, b))
        if n >= 3:
            for x in enum_exprs(n - 2, leaves, memo, unops, binops):
                out.append(("N", 0, ("R", x)))
        for k in range(1, n - 1):
            ls = enum_exprs(k, leaves, memo, unops, binops)
            rs = enum_exprs(n - 1 - k, leaves, memo, unops, binops)
            for l in ls:
                for r in rs:
                    for o in binops:
                        if o == "acc" and not isinstance(r, str) and r[0] == "x":
                            out.append(("B", "acc", l, ("p", r[1])))
                        else:
                            out.append(("B", o, l, r))
                    out.append(("&", l, r)); out.append(("O", l, r))
                    out.append(("L", "s", l, r)); out.append(("L", "c", l, r))
                    out.append(("C", 0, l, r)); out.append(("C", 1, l, r))
                    if not isinstance(l, str) and l[0] == "C" or (not isinstance(l, str) and l[0] == "E" and not isinstance(l[2], str) and l[2][0] == "C"):
                        out.append(("E", l, r))
            # side-effect block on an atom
            if k == 1:
                for a in ls:
                    for b in enum_bodies(n - 2, leaves, memo, unops, binops):
                        out.append(("S", a, b))
    memo[n] = out
    return out


def enum_bodies(n, leaves, memo, unops=UNOPS, binops=BINOPS):
    """expressions and sub-expression sequences with exactly n constructors"""
    key = ("body", n)
    if key in memo: return memo[key]
    out = list(enum_exprs(n, leaves, memo, unops, binops))
    for k in range(1, n - 1):
        for l in enum_bodies(k, leaves, memo, unops, binops):
            for r in enum_exprs(n - 1 - k, leaves, memo, unops, binops):
                out.append(("Q", "s", l, r))
                out.append(("Q", "b", l, r))
    memo[key] = out
    return out


class Gen:
    """seeded random ASTs, mostly well-typed.  Types: num bool str sym list klist pair fn any"""

    def __init__(self, rng, names=("a", "b", "c"), allow_reapply=True):
        self.rng = rng
        self.names = list(names)
        self.allow_reapply = allow_reapply

    def lit(self, t):
        r = self.rng
        if t == "num":
            return r.choice([("i", r.randint(0, 9)), ("i", r.choice([0, 1, 2, 3, 7, 31, 32, 100, 2147483647])), ("f", r.choice([5, 15, 20, 25, 125]), r.choice([1, 2]))])
        if t == "bool": return r.choice(["t", "F", "u"])
        if t == "str": return ("s", r.choice(["", "a", "ab", "abc", "b"]))
        if t == "sym": return ("y", r.choice(self.names))
        return r.choice([self.lit("num"), self.lit("bool"), self.lit("str"), self.lit("sym"), "u"])

    def gen(self, t, budget, in_fn=False):
        r = self.rng
        if budget <= 1:
            c = r.random()
            if c < 0.15: return "$"
            if c < 0.30: return ("x", r.choice(self.names))
            return self.lit(t if t in ("num", "bool", "str", "sym") else "any")
        b1 = max(1, (budget - 1) // 2)
        b2 = max(1, budget - 1 - b1)
        c = r.random()
        if c < 0.04: return ("G", self.gen(t, budget - 1, in_fn))
        if c < 0.08 and t != "fn":
            return ("C", r.randint(0, 1), self.gen("bool", b1, in_fn), self.gen(t, b2, in_fn))
        if c < 0.13 and t != "fn":
            n = r.randint(1, 3)
            per = max(1, (budget - 1) // (2 * n + 1))
            chain = ("C", r.randint(0, 1), self.gen("bool", per, in_fn), self.gen(t, per, in_fn))
            for _ in range(n - 1):
                chain = ("E", chain, ("C", r.randint(0, 1), self.gen("bool", per, in_fn), self.gen(t, per, in_fn)))
            if r.random() < 0.8:
                chain = ("E", chain, self.gen(t, per, in_fn))
            return chain
        if c < 0.17 and t != "fn":
            return ("B", r.choice(["app", "appto"]), *self.apply_pair(t, b1, b2, in_fn))
        if c < 0.19 and t != "fn":
            return ("U", "ea", ("N", 0, self.body(t, budget - 2, True)))
        if c < 0.22:
            return ("S", r.choice(["$", ("x", r.choice(self.names)), self.lit(t if t in ("num", "bool", "str", "sym") else "any")]), self.body("any", budget - 2, in_fn))
        if t == "num":
            if c < 0.75: return ("B", r.choice(ARITH + BITS if r.random() < 0.8 else ARITH), self.gen("num", b1, in_fn), self.gen("num", b2, in_fn))
            if c < 0.83: return ("U", r.choice(["abs", "neg", "bnot"]), self.gen("num", budget - 1, in_fn))
            if c < 0.90: return ("U", "len", self.gen(r.choice(["list", "str"]), budget - 1, in_fn))
            return ("B", "acc", self.gen("list", b1, in_fn), ("i", r.randint(0, 3)))
        if t == "bool":
            if c < 0.40: return ("B", r.choice(CMP), self.gen("num", b1, in_fn), self.gen("num", b2, in_fn))
            if c < 0.55: return ("B", r.choice(EQ), self.gen("any", b1, in_fn), self.gen("any", b2, in_fn))
            if c < 0.75: return (r.choice(["&", "O"]), self.gen("bool", b1, in_fn), self.gen("bool", b2, in_fn))
            if c < 0.82: return ("B", "xor", self.gen("bool", b1, in_fn), self.gen("bool", b2, in_fn))
            return ("U", r.choice(["not", "tis"]), self.gen("any", budget - 1, in_fn))
        if t == "list":
            k = r.choice(["s", "s", "c"])
            n = r.randint(2, 4)
            per = max(1, (budget - 1) // n)
            e = ("L", k, self.gen("any", per, in_fn), self.gen("any", per, in_fn))
            for _ in range(n - 2):
                e = ("L", k, e, self.gen("any", per, in_fn))
            return e
        if t == "klist":
            n = r.randint(2, 3)
            per = max(1, (budget - 1) // n)
            ks = r.sample(self.names, min(n, len(self.names)))
            e = ("L", "s", ("B", "pair", ("y", ks[0]), self.gen("any", per, in_fn)), ("B", "pair", ("y", ks[1]), self.gen("any", per, in_fn)))
            for kx in ks[2:]:
                e = ("L", "s", e, ("B", "pair", ("y", kx), self.gen("any", per, in_fn)))
            return e
        if t == "pair":
            return ("B", "pair", self.gen(r.choice(["sym", "num"]), b1, in_fn), self.gen("any", b2, in_fn))
        if t == "fn":
            return ("N", 0, self.body("any", budget - 1, True))
        if t == "str":
            return self.lit("str")
        if t == "sym":
            return self.lit("sym")
        # any
        return self.gen(r.choice(["num", "num", "bool", "list", "klist", "pair", "str", "sym"]), budget, in_fn)

    def apply_pair(self, t, b1, b2, in_fn):
        r = self.rng
        c = r.random()
        if c < 0.6:
            f, x = ("N", 0, self.body(t, b1, True)), self.gen("any", b2, in_fn)
        elif c < 0.75:
            f, x = self.gen("klist", b1, in_fn), ("y", r.choice(self.names))
        elif c < 0.9:
            f, x = self.gen("list", b1, in_fn), ("i", r.randint(0, 3))
        else:
            f, x = ("x", r.choice(self.names)), self.gen("any", b2, in_fn)
        return (f, x)

    def body(self, t, budget, in_fn):
        r = self.rng
        if budget >= 4 and r.random() < 0.3:
            b1 = max(1, budget // 2)
            first = self.gen("any", b1, in_fn)
            return ("Q", r.choice(["s", "b"]), first, self.gen(t, max(1, budget - 1 - b1), in_fn))
        if in_fn and self.allow_reapply and budget >= 6 and r.random() < 0.25:
            # bounded loop: $ < k ?> ^~ $ + 1
            k = r.randint(1, 4)
            return ("C", 0, ("B", "lt", "$", ("i", k)), ("R", ("B", "add", "$", ("i", 1))))
        return self.gen(t, budget, in_fn)

    def program(self, size_hint):
        t = self.rng.choice(["num", "num", "bool", "list", "klist", "any", "any"])
        return relabel(self.body(t, size_hint, False))


# ----------------------------------------------------------------- running a batch
INPUTS = ["U", "i7", "(L (P na i1) (P nb (L i2 i3)))", "(L i1 (L i2 i3) (P na i4) C[61])", "(P na i5)",
          "(L U (P na i4) U (P nb i5) (P nc i6))", "(L (P nb i2) U)"]


class Case:
    __slots__ = ("ast", "style", "input", "host", "tag", "ok", "src", "toks", "past", "impl", "oracle", "model", "spec")

    def __init__(self, ast, style="min", input="U", host="-", tag=""):
        self.ast, self.style, self.input, self.host, self.tag = ast, style, input, host, tag


def src_text(src_hex):
    return "" if src_hex in ("-", "") else "".join(chr(int(x, 16)) for x in src_hex.split(","))


_exe = {}


def exes():
    if not _exe:
        _exe["rust"] = vplib.private_copy(vplib.harness_bin("exec"))
        _exe["ocaml"] = vplib.private_copy(os.path.join(vplib.OCAML_BUILD, "exec_driver"))
    return _exe["rust"], _exe["ocaml"]


def run_batch(cases, timeout=1500):
    """fills in the answer fields of every case; returns an error string or None"""
    if not cases: return None
    rust, ocaml = exes()
    rc, plines = vplib.run_lines([ocaml, "print"], "".join("%s %s\n" % (c.style, show(c.ast)) for c in cases), timeout=timeout)
    if rc != 0 or len(plines) != len(cases):
        return "exec_driver print rc=%s lines=%d/%d %s" % (rc, len(plines), len(cases), plines[-1:] if plines else "")
    lines = []
    for c, pl in zip(cases, plines):
        f = pl.split("\t")
        c.ok, c.src, c.toks, c.past = f[0], f[1], f[2], f[3]
        lines.append("E %s|%s|%s|%s" % (c.src, c.input, c.host, c.past))
    rc, hl = vplib.run_lines([rust], "\n".join(lines) + "\n", timeout=timeout)
    if rc != 0 or len(hl) != len(cases):
        return "exec harness rc=%s lines=%d/%d" % (rc, len(hl), len(cases))
    rc, ml = vplib.run_lines([ocaml, "run"], "\n".join(hl) + "\n", timeout=timeout)
    if rc != 0 or len(ml) != len(cases):
        at = cases[len(ml)] if len(ml) < len(cases) else None
        try:
            open(os.path.join(vplib.BUILD, "exec_driver_failed_input.txt"), "w").write("\n".join(hl) + "\n")
        except OSError:
            pass
        return "exec_driver run rc=%s lines=%d/%d %s at %s" % (rc, len(ml), len(cases), ml[-1:] if ml else "",
                                                               (src_text(at.src), at.input, at.host) if at else "-")
    for c, h, m in zip(cases, hl, ml):
        hf = h.split("\t")
        mf = m.split("\t")
        c.impl = hf[1] if len(hf) > 1 else "?"
        c.oracle = hf[2] if len(hf) > 2 else "-"
        c.model = mf[1] if len(mf) > 1 else "?"
        c.spec = mf[2] if len(mf) > 2 else "-"
    return None


# --------------------------------------------------------------- reading answers
RUN_RE = re.compile(r"^(OK|ERR:\w+|LIMIT|PANIC|UNMODELED|RESTART|FUEL|UNSPEC:\d+)(?: v=(.*?))?(?: r=(\d+) vs=(\d+) fr=(\d+) n=(\d+))?(?: c=\[(.*)\])?$")


def parse_run(s):
    """{'cls','v','r','vs','fr','n','calls'}"""
    m = RUN_RE.match(s.strip())
    if not m:
        return {"cls": "?" + s[:40], "v": None, "r": None, "vs": None, "fr": None, "n": None, "calls": []}
    calls = m.group(7)
    return {"cls": m.group(1), "v": m.group(2), "r": m.group(3), "vs": m.group(4), "fr": m.group(5), "n": m.group(6),
            "calls": [] if not calls else calls.split(";")}


def split_impl(impl):
    """L=.. P=.. B=.. BB=.. S=.. X=..  ->  dict (values may contain spaces)"""
    out = {}
    keys = ["L", "P", "B", "BB", "S", "X"]
    idx = []
    for k in keys:
        m = re.search(r"(?:^| )%s=" % k, impl)
        if m: idx.append((m.start() + (1 if impl[m.start()] == " " else 0), k))
    idx.sort()
    for i, (p, k) in enumerate(idx):
        end = idx[i + 1][0] - 1 if i + 1 < len(idx) else len(impl)
        out[k] = impl[p + len(k) + 1:end]
    return out


def split_model(model):
    out = {}
    m = re.match(r"^P=(.*?) WL=(\S+) M=(.*)$", model)
    if m:
        out["P"], out["WL"], out["M"] = m.group(1), m.group(2), m.group(3)
    return out


def canon_exprs(*strings):
    """rename expression values E<hex> by order of first appearance, jointly over the strings of ONE side"""
    ren = {}

    def sub(m):
        k = m.group(1)
        if k not in ren: ren[k] = "E#%d" % len(ren)
        return ren[k]
    return [re.sub(r"\bE([0-9a-f]+)\b", sub, s) if s is not None else None for s in strings]


def observable(calls):
    return [c for c in calls if not c.startswith("D")]


def answer_key(run, with_defers, with_depths):
    """canonical comparable form of a run"""
    calls = run["calls"] if with_defers else observable(run["calls"])
    parts = canon_exprs(run["v"] or "", ";".join(calls))
    d = (run["vs"], run["fr"], run["n"]) if with_depths else ()
    return (run["cls"], parts[0], parts[1]) + d


# ------------------------------------------------------------------- known findings
def chain_without_else(e, in_chain=False):
    """an else-chain (looked at from its head) whose last item is a conditional (C01-K1)"""
    if isinstance(e, str): return False
    if e[0] == "E":
        last_is_cond = (not isinstance(e[2], str)) and e[2][0] == "C"
        if not in_chain and last_is_cond:
            return True
        return chain_without_else(e[1], True) or chain_without_else(e[2], (not isinstance(e[2], str)) and e[2][0] == "E")
    return any(chain_without_else(c, False) for _, c in children(e))


def has_reapply(e):
    """`^~` in e outside any nested expression body of e"""
    if isinstance(e, str): return False
    if e[0] == "N": return False
    if e[0] == "R": return True
    return any(has_reapply(c) for _, c in children(e))


def reapply_in_side_effect(e):
    """a `^~` that would run inside a side-effect block (C01-K2)"""
    for n in walk(e):
        if not isinstance(n, str) and n[0] == "S" and has_reapply(n[2]):
            return True
    return False


def classify(case, impl_run, spec_run):
    """known-finding id for a spec/impl disagreement, or None"""
    past = parse_sexpr(case.past)
    if chain_without_else(past):
        # every condition failed and nothing was pushed: `No references in register`, or the operand
        # below is consumed instead (a wrong value / a later error)
        return "C01-K1"
    if reapply_in_side_effect(past):
        return "C01-K2"
    return None


# --------------------------------------------------------------------------- judge
class Stats:
    def __init__(self):
        self.h = {}

    def inc(self, k, n=1):
        self.h[k] = self.h.get(k, 0) + n


def judge(c, stats, listed):
    """returns a list of findings: (kind, detail dict) with kind in
    'tie' (model/impl or print/lex correspondence), 'violation', 'known:<id>'"""
    out = []
    if c.ok != "1":
        stats.inc("not_printable")
        return out
    stats.inc("printable")
    im = split_impl(c.impl)
    mo = split_model(c.model)
    if c.impl.startswith("HANG") or c.impl.startswith("CRASH") or c.impl.startswith("BADCASE"):
        out.append(("violation", {"what": "the pipeline %s on a well-formed program" % c.impl.split()[0].lower(), "impl": c.impl}))
        return out
    # --- print / lex correspondence
    rust_toks = ""
    for part in c.oracle.split(" "):
        if part.startswith("toks="): rust_toks = part[5:]
    if im.get("L") != "ok":
        out.append(("violation", {"what": "the lexer rejects a well-formed program", "impl": c.impl}))
        return out
    if rust_toks != c.toks:
        out.append(("tie", {"what": "print/lex: the lexer's tokens differ from the printer's", "printer": c.toks, "lexer": rust_toks}))
        return out
    if im.get("P") != "ok":
        out.append(("violation", {"what": "the parser rejects a well-formed program", "impl": c.impl}))
        return out
    if "B" not in im or im["B"] in ("ERR", "PANIC"):
        out.append(("violation", {"what": "the builder rejects a well-formed program", "impl": c.impl}))
        return out
    if not mo:
        out.append(("tie", {"what": "model driver failed", "model": c.model}))
        return out
    # --- build correspondence
    if im["B"] != mo["P"]:
        out.append(("tie", {"what": "build: instruction/jump tables differ (Rust vs compile_prog)", "impl": im["B"], "model": mo["P"]}))
    elif im.get("BB") != "same":
        out.append(("tie", {"what": "build: BasicGarnishData build differs from SimpleGarnishData build", "impl": im.get("BB")}))
    if mo["WL"] != "same":
        out.append(("tie", {"what": "build: compile_prog differs from BuilderWL on the printed tokens", "wl": mo["WL"][:300]}))
    s_run = parse_run(im.get("S", "?"))
    x_run = s_run if im.get("X") == "same" else parse_run(im.get("X", "?"))
    m_run = parse_run(mo["M"])
    sp_run = parse_run(c.spec)
    stats.inc("impl:" + s_run["cls"])
    stats.inc("spec:" + sp_run["cls"].split(":")[0])
    # --- run correspondence (model vs implementation)
    if m_run["cls"] == "UNMODELED":
        stats.inc("model_unmodeled")
    else:
        mk = answer_key(m_run, True, True)
        xk = answer_key(x_run, True, True)
        if mk != xk or (m_run["cls"] == "OK" and m_run["r"] != x_run["r"]):
            out.append(("tie", {"what": "run: runtime model differs from BasicGarnishData", "impl": im.get("X") if im.get("X") != "same" else im.get("S"), "model": mo["M"]}))
        has_apply = any(cc.startswith("A") for cc in m_run["calls"])
        if not has_apply:
            sk = answer_key(s_run, True, True)
            if mk != sk:
                out.append(("tie", {"what": "run: runtime model differs from SimpleGarnishData", "impl": im.get("S"), "model": mo["M"]}))
    # --- direct oracle (reference evaluator vs implementation)
    if sp_run["cls"].startswith("UNSPEC"):
        stats.inc("spec_open:" + sp_run["cls"])
        return out
    if sp_run["cls"] in ("FUEL", "RESTART"):
        for nm, rr in (("Simple", s_run), ("Basic", x_run)):
            if rr["cls"] != "LIMIT":
                out.append(("violation", {"what": "the reference evaluator does not terminate but %s ends" % nm, "impl": rr, "spec": c.spec}))
        return out
    spk = answer_key(sp_run, False, False)
    spec_has_apply = any(cc.startswith("A") for cc in sp_run["calls"])
    for nm, rr in (("SimpleGarnishData", s_run), ("BasicGarnishData", x_run)):
        if nm == "SimpleGarnishData" and spec_has_apply:
            stats.inc("simple_skipped_external_apply")
            continue
        if nm == "BasicGarnishData" and rr is s_run and not spec_has_apply and any(f[0] == "violation" or f[0].startswith("known") for f in out):
            continue
        ik = answer_key(rr, False, False)
        if ik != spk:
            fid = classify(c, rr, sp_run)
            detail = {"what": "final value / host trace differ from the reference evaluator on %s" % nm,
                      "impl": {"cls": rr["cls"], "v": rr["v"], "calls": observable(rr["calls"])},
                      "spec": {"cls": sp_run["cls"], "v": sp_run["v"], "calls": sp_run["calls"]}}
            if fid and fid in listed:
                out.append(("known:" + fid, detail))
            else:
                out.append(("violation", detail))
    if not out:
        stats.inc("agree")
    return out


def describe(c):
    return {"source": src_text(c.src), "ast": c.past, "input": c.input, "host": c.host, "style": c.style, "tag": c.tag}


# ----------------------------------------------------------------------- shrinking
def shrink(case, still_fails, budget=60):
    """greedy sub-term replacement: replace the program by a child, or a sub-term by a child or a leaf,
    while [still_fails(new_case)] holds.  Returns the smallest failing case found."""
    best = case
    tried = 0
    improved = True
    while improved and tried < budget:
        improved = False
        cands = []
        e = best.ast
        for _, ch in children(e):
            cands.append(ch)

        def rewrites(t):
            """all trees obtained by replacing one proper sub-term of t by one of its children or a small leaf"""
            for idx, ch in children(t):
                for _, g in children(ch):
                    yield replace_child(t, idx, g)
                if not isinstance(ch, str) or ch not in ("u",):
                    if size(ch) > 1:
                        yield replace_child(t, idx, ("i", 1))
                        yield replace_child(t, idx, "u")
                for sub in rewrites(ch):
                    yield replace_child(t, idx, sub)
        cands += list(itertools.islice(rewrites(e), 200))
        cands = [x for x in cands if size(x) < size(e)]
        cands.sort(key=size)
        batch = []
        for x in cands[:40]:
            batch.append(Case(relabel(x), best.style, best.input, best.host, best.tag))
        if best.input != "U":
            batch.append(Case(best.ast, best.style, "U", best.host, best.tag))
        if best.host != "-":
            batch.append(Case(best.ast, best.style, best.input, "-", best.tag))
        if not batch: break
        err = run_batch(batch)
        tried += 1
        if err: break
        for b in batch:
            if b.ok == "1" and still_fails(b):
                best = b
                improved = True
                break
    return best
