//! exec: lex / parse / build / execute whole programs on BOTH data implementations under a
//! scripted, recording host (C01, C10 program clauses, C17).
//!
//! Case line (no tabs):   E <src>|<input>|<host>|<ignored...>
//!   src    source text as hex code points, comma separated ("-" = empty)
//!   input  the initial input value `$`, a value tree (grammar below)
//!   host   "-" or entries separated by ';'
//!            r:<name>=<mode>   resolve of identifier <name>:  v<tree> answer with that value,
//!                              # answer with Number(100 + number of resolve/apply calls made before this one)
//!            a:<n>=<mode>      apply of external <n>: v<tree> | # | i (answer with the argument itself)
//!          anything not listed is declined; defer_op is always declined; every call is recorded
//!
//! Value trees (ASCII; items of a form are separated by one space):
//!   U T F  i<hex> f<16 hex>  c<hex> b<hex>  s<hex u64> n<name> (symbol by name)  Y<type idx>  E<hex> X<hex>
//!   C[h,h,..] B[h,h,..] S[part,part..] (part: s<hex> | i<hex>)
//!   (P a b) (K a b) (R a b) (Z a b) (A a b) (L a b ..)   pair, concatenation, range, slice, partial, list
//!
//! Output:  <case>\t<result>\t<oracle>
//!   result  L=<ok|ERR|PANIC> P=<ok|ERR|PANIC> B=<ERR|PANIC|entry:I[..]:J[..]> BB=<same|..> S=<run> X=<same|run>
//!     I[..]  instructions "<opcode idx><operand>" with operand  - | n<k> | d<tree>  (data operands structurally)
//!     run    OK v=<tree> r=<register depth> vs=<value stack depth> fr=<frames> n=<steps> c=[call;call;..]
//!            | ERR:<noreg|other> (noreg: operand missing below the current frame) c=[..] | LIMIT c=[..] | PANIC
//!     call   R<sym hex> | A<n>:<arg tree> | D<opcode idx>:<left tree>:<right tree>
//!   oracle  toks=<tt idx,..> syms=<name>:<hex>,..
use garnish_lang_compiler::build::build;
use garnish_lang_compiler::lex::{lex, LexerToken, TokenType};
use garnish_lang_compiler::parse::parse;
use garnish_lang_runtime::{execute_current_instruction, SimpleRuntimeState};
use garnish_lang_simple_data::{symbol_value, BasicDataCompanion, BasicGarnishData, DataError, NoCustom, SimpleGarnishData, SimpleNumber};
use garnish_lang_traits::{GarnishData, GarnishDataType, Instruction, SymbolListPart};
use garnish_verif_harness::gen_tables::TOKEN_TYPES;
use garnish_verif_harness::*;

const STEP_LIMIT: usize = 4000;
const TREE_DEPTH: usize = 40;

// ------------------------------------------------------------------ value trees
#[derive(Debug, Clone, PartialEq, Eq, PartialOrd, Default)]
pub enum V {
    #[default]
    Unit,
    True,
    False,
    Int(i32),
    Flt(u64),
    Char(u32),
    Byte(u8),
    Sym(u64),
    Type(usize),
    Expr(usize),
    External(usize),
    Chars(Vec<u32>),
    Bytes(Vec<u8>),
    SymList(Vec<V>),
    Pair(Box<V>, Box<V>),
    Concat(Box<V>, Box<V>),
    Range(Box<V>, Box<V>),
    Slice(Box<V>, Box<V>),
    Partial(Box<V>, Box<V>),
    List(Vec<V>),
}

fn type_of_index(i: usize) -> GarnishDataType {
    use GarnishDataType::*;
    [
        Invalid, Unit, Number, Type, Char, CharList, Byte, ByteList, Symbol, SymbolList, Pair, Range, Concatenation, Slice, Partial, List, Expression,
        External, True, False, Custom,
    ][i]
}

struct P<'a> {
    s: &'a [u8],
    i: usize,
    names: Vec<String>,
}

impl<'a> P<'a> {
    fn new(s: &'a str) -> Self {
        P { s: s.as_bytes(), i: 0, names: vec![] }
    }
    fn peek(&self) -> u8 {
        if self.i < self.s.len() { self.s[self.i] } else { 0 }
    }
    fn skip(&mut self) {
        while self.peek() == b' ' {
            self.i += 1;
        }
    }
    fn word(&mut self) -> String {
        let st = self.i;
        while self.i < self.s.len() && !matches!(self.s[self.i], b' ' | b')' | b'(' | b',' | b']' | b'[' | b';' | b'=') {
            self.i += 1;
        }
        String::from_utf8(self.s[st..self.i].to_vec()).expect("ascii")
    }
    fn items(&mut self) -> Vec<String> {
        assert_eq!(self.peek(), b'[', "expected [");
        self.i += 1;
        let mut out = vec![];
        loop {
            match self.peek() {
                b']' => {
                    self.i += 1;
                    break;
                }
                b',' => self.i += 1,
                0 => panic!("unterminated ["),
                _ => out.push(self.word()),
            }
        }
        out
    }
    fn two(&mut self) -> (Box<V>, Box<V>) {
        self.skip();
        let a = self.value();
        self.skip();
        let b = self.value();
        self.skip();
        assert_eq!(self.peek(), b')', "expected )");
        self.i += 1;
        (Box::new(a), Box::new(b))
    }
    fn int(w: &str) -> i32 {
        let (neg, body) = match w.strip_prefix('-') {
            Some(r) => (true, r),
            None => (false, w),
        };
        let m = i64::from_str_radix(body, 16).expect("hex int");
        (if neg { -m } else { m }) as i32
    }
    fn value(&mut self) -> V {
        let c = self.peek();
        self.i += 1;
        match c {
            b'U' => V::Unit,
            b'T' => V::True,
            b'F' => V::False,
            b'i' => V::Int(Self::int(&self.word())),
            b'f' => V::Flt(u64::from_str_radix(&self.word(), 16).expect("bits")),
            b'c' => V::Char(u32::from_str_radix(&self.word(), 16).expect("hex")),
            b'b' => V::Byte(u8::from_str_radix(&self.word(), 16).expect("hex")),
            b's' => V::Sym(u64::from_str_radix(&self.word(), 16).expect("hex")),
            b'n' => {
                let w = self.word();
                let h = symbol_value(&w);
                self.names.push(w);
                V::Sym(h)
            }
            b'Y' => V::Type(self.word().parse().expect("type index")),
            b'E' => V::Expr(usize::from_str_radix(&self.word(), 16).expect("hex")),
            b'X' => V::External(usize::from_str_radix(&self.word(), 16).expect("hex")),
            b'C' => V::Chars(self.items().iter().map(|w| u32::from_str_radix(w, 16).expect("hex")).collect()),
            b'B' => V::Bytes(self.items().iter().map(|w| u8::from_str_radix(w, 16).expect("hex")).collect()),
            b'S' => V::SymList(
                self.items()
                    .iter()
                    .map(|w| match w.as_bytes()[0] {
                        b's' => V::Sym(u64::from_str_radix(&w[1..], 16).expect("hex")),
                        b'i' => V::Int(Self::int(&w[1..])),
                        _ => panic!("bad symbol list part"),
                    })
                    .collect(),
            ),
            b'(' => {
                let k = self.peek();
                self.i += 1;
                match k {
                    b'P' => {
                        let (a, b) = self.two();
                        V::Pair(a, b)
                    }
                    b'K' => {
                        let (a, b) = self.two();
                        V::Concat(a, b)
                    }
                    b'R' => {
                        let (a, b) = self.two();
                        V::Range(a, b)
                    }
                    b'Z' => {
                        let (a, b) = self.two();
                        V::Slice(a, b)
                    }
                    b'A' => {
                        let (a, b) = self.two();
                        V::Partial(a, b)
                    }
                    b'L' => {
                        let mut items = vec![];
                        loop {
                            self.skip();
                            if self.peek() == b')' {
                                self.i += 1;
                                break;
                            }
                            items.push(self.value());
                        }
                        V::List(items)
                    }
                    _ => panic!("bad form"),
                }
            }
            _ => panic!("bad value syntax at {}", self.i),
        }
    }
}

/// The two data implementations as the harness needs them.
pub trait Store: GarnishData<Number = SimpleNumber, Char = char, Byte = u8, Symbol = u64, Size = usize, Error = DataError> + Clone {
    fn mk_chars(&mut self, cs: &[char]) -> Result<usize, DataError>;
    fn mk_bytes(&mut self, bs: &[u8]) -> Result<usize, DataError>;
    fn script(&self) -> &Script;
    fn script_mut(&mut self) -> &mut Script;
}

fn build_value<D: Store>(d: &mut D, v: &V) -> Result<usize, DataError> {
    Ok(match v {
        V::Unit => d.add_unit()?,
        V::True => d.add_true()?,
        V::False => d.add_false()?,
        V::Int(i) => d.add_number(SimpleNumber::Integer(*i))?,
        V::Flt(b) => d.add_number(SimpleNumber::Float(f64::from_bits(*b)))?,
        V::Char(c) => d.add_char(char::from_u32(*c).expect("code point"))?,
        V::Byte(b) => d.add_byte(*b)?,
        V::Sym(s) => d.add_symbol(*s)?,
        V::Type(i) => d.add_type(type_of_index(*i))?,
        V::Expr(e) => d.add_expression(*e)?,
        V::External(e) => d.add_external(*e)?,
        V::Chars(cs) => {
            let cs: Vec<char> = cs.iter().map(|c| char::from_u32(*c).expect("code point")).collect();
            d.mk_chars(&cs)?
        }
        V::Bytes(bs) => d.mk_bytes(bs)?,
        V::SymList(parts) => {
            assert!(parts.len() >= 2, "symbol lists are built by merging, need two parts");
            let mut acc = build_value(d, &parts[0])?;
            for p in &parts[1..] {
                let s = build_value(d, p)?;
                acc = d.merge_to_symbol_list(acc, s)?;
            }
            acc
        }
        V::Pair(a, b) => {
            let x = build_value(d, a)?;
            let y = build_value(d, b)?;
            d.add_pair((x, y))?
        }
        V::Concat(a, b) => {
            let x = build_value(d, a)?;
            let y = build_value(d, b)?;
            d.add_concatenation(x, y)?
        }
        V::Range(a, b) => {
            let x = build_value(d, a)?;
            let y = build_value(d, b)?;
            d.add_range(x, y)?
        }
        V::Slice(a, b) => {
            let x = build_value(d, a)?;
            let y = build_value(d, b)?;
            d.add_slice(x, y)?
        }
        V::Partial(a, b) => {
            let x = build_value(d, a)?;
            let y = build_value(d, b)?;
            d.add_partial(x, y)?
        }
        V::List(items) => {
            let mut addrs = vec![];
            for it in items {
                addrs.push(build_value(d, it)?);
            }
            let l = d.start_list(addrs.len())?;
            for a in addrs {
                d.add_to_list(l, a)?;
            }
            d.end_list(l)?
        }
    })
}

fn show_int(v: i32) -> String {
    if v < 0 { format!("i-{:x}", (v as i64).unsigned_abs()) } else { format!("i{:x}", v) }
}

/// Structural tree of the value at `addr`, read through the GarnishData getters only.
fn read_tree<D: Store>(d: &D, addr: usize, depth: usize) -> String {
    if depth == 0 {
        return "?deep".to_string();
    }
    let two = |r: Result<(usize, usize), DataError>, k: &str| match r {
        Ok((a, b)) => format!("({} {} {})", k, read_tree(d, a, depth - 1), read_tree(d, b, depth - 1)),
        Err(_) => format!("?{}", k),
    };
    match d.get_data_type(addr) {
        Err(_) => "?type".to_string(),
        Ok(t) => match t {
            GarnishDataType::Invalid => "?invalid".to_string(),
            GarnishDataType::Custom => "?custom".to_string(),
            GarnishDataType::Unit => "U".to_string(),
            GarnishDataType::True => "T".to_string(),
            GarnishDataType::False => "F".to_string(),
            GarnishDataType::Number => match d.get_number(addr) {
                Ok(SimpleNumber::Integer(v)) => show_int(v),
                Ok(SimpleNumber::Float(f)) => {
                    if f.is_nan() { "fNaN".to_string() } else { format!("f{:016x}", f.to_bits()) }
                }
                Err(_) => "?num".to_string(),
            },
            GarnishDataType::Type => match d.get_type(addr) {
                Ok(t) => format!("Y{}", t as usize),
                Err(_) => "?Y".to_string(),
            },
            GarnishDataType::Char => match d.get_char(addr) {
                Ok(c) => format!("c{:x}", c as u32),
                Err(_) => "?c".to_string(),
            },
            GarnishDataType::Byte => match d.get_byte(addr) {
                Ok(b) => format!("b{:x}", b),
                Err(_) => "?b".to_string(),
            },
            GarnishDataType::Symbol => match d.get_symbol(addr) {
                Ok(s) => format!("s{:x}", s),
                Err(_) => "?s".to_string(),
            },
            GarnishDataType::Expression => match d.get_expression(addr) {
                Ok(e) => format!("E{:x}", e),
                Err(_) => "?E".to_string(),
            },
            GarnishDataType::External => match d.get_external(addr) {
                Ok(e) => format!("X{:x}", e),
                Err(_) => "?X".to_string(),
            },
            GarnishDataType::CharList => match d.get_char_list_len(addr) {
                Err(_) => "?C".to_string(),
                Ok(n) => {
                    let mut items = vec![];
                    for i in 0..n {
                        items.push(match d.get_char_list_item(addr, SimpleNumber::Integer(i as i32)) {
                            Ok(Some(c)) => format!("{:x}", c as u32),
                            Ok(None) => "?none".to_string(),
                            Err(_) => "?err".to_string(),
                        });
                    }
                    format!("C[{}]", items.join(","))
                }
            },
            GarnishDataType::ByteList => match d.get_byte_list_len(addr) {
                Err(_) => "?B".to_string(),
                Ok(n) => {
                    let mut items = vec![];
                    for i in 0..n {
                        items.push(match d.get_byte_list_item(addr, SimpleNumber::Integer(i as i32)) {
                            Ok(Some(c)) => format!("{:x}", c),
                            Ok(None) => "?none".to_string(),
                            Err(_) => "?err".to_string(),
                        });
                    }
                    format!("B[{}]", items.join(","))
                }
            },
            GarnishDataType::SymbolList => match d.get_symbol_list_len(addr) {
                Err(_) => "?S".to_string(),
                Ok(n) => {
                    let mut items = vec![];
                    for i in 0..n {
                        items.push(match d.get_symbol_list_item(addr, SimpleNumber::Integer(i as i32)) {
                            Ok(Some(SymbolListPart::Symbol(s))) => format!("s{:x}", s),
                            Ok(Some(SymbolListPart::Number(SimpleNumber::Integer(v)))) => show_int(v),
                            Ok(Some(SymbolListPart::Number(SimpleNumber::Float(f)))) => format!("f{:016x}", f.to_bits()),
                            Ok(None) => "?none".to_string(),
                            Err(_) => "?err".to_string(),
                        });
                    }
                    format!("S[{}]", items.join(","))
                }
            },
            GarnishDataType::Pair => two(d.get_pair(addr), "P"),
            GarnishDataType::Concatenation => two(d.get_concatenation(addr), "K"),
            GarnishDataType::Range => two(d.get_range(addr), "R"),
            GarnishDataType::Slice => two(d.get_slice(addr), "Z"),
            GarnishDataType::Partial => two(d.get_partial(addr), "A"),
            GarnishDataType::List => match d.get_list_len(addr) {
                Err(_) => "?L".to_string(),
                Ok(n) => {
                    let mut s = String::from("(L");
                    for i in 0..n {
                        s.push(' ');
                        match d.get_list_item(addr, SimpleNumber::Integer(i as i32)) {
                            Ok(Some(a)) => s.push_str(&read_tree(d, a, depth - 1)),
                            Ok(None) => s.push_str("?none"),
                            Err(_) => s.push_str("?err"),
                        }
                    }
                    s.push(')');
                    s
                }
            },
        },
    }
}

// ------------------------------------------------------------------------ host
#[derive(Debug, Clone, PartialEq, Eq, PartialOrd, Default)]
pub enum Mode {
    #[default]
    Decline,
    Const(V),
    Counter,
    Identity,
}

#[derive(Debug, Clone, PartialEq, Eq, PartialOrd, Default)]
pub struct Script {
    resolves: Vec<(u64, Mode)>,
    applies: Vec<(usize, Mode)>,
    calls: Vec<String>,
}

fn parse_mode(p: &mut P) -> Mode {
    match p.peek() {
        b'#' => {
            p.i += 1;
            Mode::Counter
        }
        b'i' => {
            p.i += 1;
            Mode::Identity
        }
        b'v' => {
            p.i += 1;
            Mode::Const(p.value())
        }
        _ => panic!("bad host mode"),
    }
}

fn parse_script(s: &str, names: &mut Vec<String>) -> Script {
    let mut sc = Script::default();
    if s == "-" || s.is_empty() {
        return sc;
    }
    let mut p = P::new(s);
    loop {
        p.skip();
        if p.i >= p.s.len() {
            break;
        }
        let kind = p.peek();
        p.i += 1;
        assert_eq!(p.peek(), b':', "expected :");
        p.i += 1;
        let key = p.word();
        assert_eq!(p.peek(), b'=', "expected =");
        p.i += 1;
        let mode = parse_mode(&mut p);
        match kind {
            b'r' => {
                sc.resolves.push((symbol_value(&key), mode));
                names.push(key);
            }
            b'a' => sc.applies.push((key.parse().expect("external number"), mode)),
            _ => panic!("bad host entry"),
        }
        p.skip();
        if p.peek() == b';' {
            p.i += 1;
        }
    }
    names.append(&mut p.names);
    sc
}

/// answer a host call according to `mode`; `arg` is the argument address of an apply
fn answer<D: Store>(d: &mut D, mode: Mode, arg: Option<usize>, calls_before: usize) -> Result<bool, DataError> {
    match mode {
        Mode::Decline => Ok(false),
        Mode::Const(v) => {
            let a = build_value(d, &v)?;
            d.push_register(a)?;
            Ok(true)
        }
        Mode::Counter => {
            let a = d.add_number(SimpleNumber::Integer(100 + calls_before as i32))?;
            d.push_register(a)?;
            Ok(true)
        }
        Mode::Identity => match arg {
            Some(a) => {
                d.push_register(a)?;
                Ok(true)
            }
            None => Ok(false),
        },
    }
}

/// number of resolve / apply calls recorded so far (defer_op calls are not counted)
fn calls_before<D: Store>(d: &D) -> usize {
    d.script().calls.iter().filter(|c| !c.starts_with('D')).count()
}

fn host_resolve<D: Store>(d: &mut D, symbol: u64) -> Result<bool, DataError> {
    let before = calls_before(d);
    d.script_mut().calls.push(format!("R{:x}", symbol));
    let mode = d.script().resolves.iter().find(|(s, _)| *s == symbol).map(|(_, m)| m.clone()).unwrap_or(Mode::Decline);
    answer(d, mode, None, before)
}

fn host_apply<D: Store>(d: &mut D, external: usize, input: usize) -> Result<bool, DataError> {
    let before = calls_before(d);
    let arg = read_tree(d, input, TREE_DEPTH);
    d.script_mut().calls.push(format!("A{:x}:{}", external, arg));
    let mode = d.script().applies.iter().find(|(s, _)| *s == external).map(|(_, m)| m.clone()).unwrap_or(Mode::Decline);
    answer(d, mode, Some(input), before)
}

fn host_defer<D: Store>(d: &mut D, op: Instruction, l: (GarnishDataType, usize), r: (GarnishDataType, usize)) -> Result<bool, DataError> {
    let lt = read_tree(d, l.1, TREE_DEPTH);
    // unary operations pass (Unit, Size::zero()) as the right operand: not a value of the program
    let unary = matches!(op, Instruction::Opposite | Instruction::AbsoluteValue | Instruction::BitwiseNot | Instruction::AccessLeftInternal | Instruction::AccessRightInternal | Instruction::AccessLengthInternal | Instruction::TypeOf);
    let rt = if unary { "-".to_string() } else { read_tree(d, r.1, TREE_DEPTH) };
    d.script_mut().calls.push(format!("D{}:{}:{}", op as usize, lt, rt));
    Ok(false)
}

type Simple = SimpleGarnishData<NoCustom, Script>;
type Basic = BasicGarnishData<(), Script>;

fn simple_resolver(d: &mut Simple, symbol: u64) -> Result<bool, DataError> {
    host_resolve(d, symbol)
}
fn simple_op_handler(d: &mut Simple, op: Instruction, l: (GarnishDataType, usize), r: (GarnishDataType, usize)) -> Result<bool, DataError> {
    host_defer(d, op, l, r)
}

impl BasicDataCompanion<()> for Script {
    fn resolve(d: &mut Basic, symbol: u64) -> Result<bool, DataError> {
        host_resolve(d, symbol)
    }
    fn apply(d: &mut Basic, external: usize, input: usize) -> Result<bool, DataError> {
        host_apply(d, external, input)
    }
    fn defer_op(d: &mut Basic, op: Instruction, l: (GarnishDataType, usize), r: (GarnishDataType, usize)) -> Result<bool, DataError> {
        host_defer(d, op, l, r)
    }
}

impl Store for Simple {
    fn mk_chars(&mut self, cs: &[char]) -> Result<usize, DataError> {
        self.start_char_list()?;
        for c in cs {
            self.add_to_char_list(*c)?;
        }
        self.end_char_list()
    }
    fn mk_bytes(&mut self, bs: &[u8]) -> Result<usize, DataError> {
        self.start_byte_list()?;
        for b in bs {
            self.add_to_byte_list(*b)?;
        }
        self.end_byte_list()
    }
    fn script(&self) -> &Script {
        self.auxiliary_data()
    }
    fn script_mut(&mut self) -> &mut Script {
        self.auxiliary_data_mut()
    }
}

impl Store for Basic {
    fn mk_chars(&mut self, cs: &[char]) -> Result<usize, DataError> {
        let mut s = String::from("\"");
        for c in cs {
            s.push_str(&format!("\\u{{{:x}}}", *c as u32));
        }
        s.push('"');
        self.parse_add_char_list(&s)
    }
    fn mk_bytes(&mut self, bs: &[u8]) -> Result<usize, DataError> {
        self.add_byte_slice(bs)
    }
    fn script(&self) -> &Script {
        self.companion()
    }
    fn script_mut(&mut self) -> &mut Script {
        self.companion_mut()
    }
}

// ------------------------------------------------------------------ the pipeline
fn tt_index(t: TokenType) -> usize {
    TOKEN_TYPES.iter().position(|x| *x == t).expect("token type in table")
}

fn show_program<D: Store>(d: &D, entry: usize) -> String {
    let mut ins = vec![];
    for i in 0..d.get_instruction_len() {
        let (instr, op) = d.get_instruction(i).expect("instruction");
        let o = match (instr, op) {
            (_, None) => "-".to_string(),
            (Instruction::Put, Some(a)) | (Instruction::Resolve, Some(a)) => format!("d{}", read_tree(d, a, TREE_DEPTH)),
            (_, Some(k)) => format!("n{}", k),
        };
        ins.push(format!("{}{}", instr as usize, o));
    }
    let mut js = vec![];
    for j in 0..d.get_jump_table_len() {
        js.push(match d.get_from_jump_table(j) {
            Some(v) => v.to_string(),
            None => "-".to_string(),
        });
    }
    format!("{}:I[{}]:J[{}]", entry, ins.join(" "), js.join(","))
}

fn depth_of<D: Store, F: Fn(&mut D) -> bool>(d: &D, pop: F) -> usize {
    let mut c = d.clone();
    let mut n = 0;
    while pop(&mut c) {
        n += 1;
        if n > 100000 {
            break;
        }
    }
    n
}

fn calls_of<D: Store>(d: &D) -> String {
    format!("c=[{}]", d.script().calls.join(";"))
}

/// build + run on one data implementation; returns (build string, run string)
fn run_on<D: Store>(mut d: D, tokens: &Vec<LexerToken>, input: &V) -> (String, String) {
    let parsed = match parse(tokens) {
        Ok(p) => p,
        Err(_) => return ("-".to_string(), "-".to_string()),
    };
    let bd = match build(parsed.get_root(), parsed.get_nodes_owned(), &mut d) {
        Err(_) => return ("ERR".to_string(), "-".to_string()),
        Ok(bd) => bd,
    };
    let entry = *bd.jump_index();
    let b_str = show_program(&d, entry);
    let start = match d.get_from_jump_table(entry) {
        Some(s) => s,
        None => return (b_str, "ERR:noentry".to_string()),
    };
    if d.set_instruction_cursor(start).is_err() {
        return (b_str, "ERR:cursor".to_string());
    }
    match build_value(&mut d, input).and_then(|a| d.push_value_stack(a)) {
        Ok(_) => (),
        Err(_) => return (b_str, "ERR:input".to_string()),
    }
    let mut steps = 0usize;
    loop {
        match execute_current_instruction(&mut d) {
            Err(e) => {
                // an operand is missing below the current frame: the runtime reports it itself, or
                // SimpleGarnishData's pop_register reports that it reached the frame marker
                let kind = if e.get_message().starts_with("No references in register")
                    || format!("{:?}", e).contains("Popped StackFrame from registers")
                {
                    "noreg"
                } else {
                    "other"
                };
                return (b_str, format!("ERR:{} {}", kind, calls_of(&d)));
            }
            Ok(info) => {
                if info.get_state() == SimpleRuntimeState::End {
                    break;
                }
            }
        }
        steps += 1;
        if steps > STEP_LIMIT {
            return (b_str, format!("LIMIT {}", calls_of(&d)));
        }
    }
    let v = match d.get_current_value() {
        Some(a) => read_tree(&d, a, TREE_DEPTH),
        None => "?novalue".to_string(),
    };
    let r = d.get_register_len();
    let vs = depth_of(&d, |c| c.pop_value_stack().is_some());
    let fr = depth_of(&d, |c| matches!(c.pop_frame(), Ok(Some(_))));
    (b_str, format!("OK v={} r={} vs={} fr={} n={} {}", v, r, vs, fr, steps, calls_of(&d)))
}

fn ident_name(t: &LexerToken) -> Option<String> {
    let text = t.get_text();
    match t.get_token_type() {
        TokenType::Identifier => Some(text.clone()),
        TokenType::Symbol => Some(text.trim_matches(':').to_string()),
        TokenType::PrefixIdentifier | TokenType::SuffixIdentifier | TokenType::InfixIdentifier => Some(text.trim_matches('`').to_string()),
        _ => None,
    }
}

fn run_case(line: &str) -> String {
    let rest = line[1..].trim_start();
    let fields: Vec<&str> = rest.split('|').collect();
    if fields.len() < 3 {
        return format!("{}\tBADCASE\t-", line);
    }
    let src = hex_to_string(fields[0].trim());
    let mut names: Vec<String> = vec![];
    let mut ip = P::new(fields[1].trim());
    let input = ip.value();
    names.append(&mut ip.names);
    let script = parse_script(fields[2].trim(), &mut names);

    let tokens = match catch(|| lex(&src)) {
        Err(_) => return format!("{}\tL=PANIC\t-", line),
        Ok(Err(_)) => return format!("{}\tL=ERR\t-", line),
        Ok(Ok(t)) => t,
    };
    let idx: Vec<String> = tokens.iter().map(|t| tt_index(t.get_token_type()).to_string()).collect();
    for t in &tokens {
        if let Some(n) = ident_name(t) {
            names.push(n);
        }
    }
    names.sort();
    names.dedup();
    let syms: Vec<String> = names.iter().map(|n| format!("{}:{:x}", n, symbol_value(n))).collect();
    let oracle = format!("toks={} syms={}", idx.join(","), syms.join(","));

    match catch(|| parse(&tokens)) {
        Err(_) => return format!("{}\tL=ok P=PANIC\t{}", line, oracle),
        Ok(Err(_)) => return format!("{}\tL=ok P=ERR\t{}", line, oracle),
        Ok(Ok(_)) => (),
    }
    let (sb, sr) = {
        let toks = tokens.clone();
        let inp = input.clone();
        let sc = script.clone();
        catch(move || {
            let mut d: Simple = SimpleGarnishData::new_custom();
            *d.auxiliary_data_mut() = sc;
            d.set_resolver(simple_resolver);
            d.set_op_handler(simple_op_handler);
            run_on(d, &toks, &inp)
        })
        .unwrap_or_else(|_| ("PANIC".to_string(), "PANIC".to_string()))
    };
    let (bb, br) = {
        let toks = tokens.clone();
        let inp = input.clone();
        let sc = script.clone();
        catch(move || {
            let d: Basic = BasicGarnishData::new(sc).expect("basic data");
            run_on(d, &toks, &inp)
        })
        .unwrap_or_else(|_| ("PANIC".to_string(), "PANIC".to_string()))
    };
    format!(
        "{}\tL=ok P=ok B={} BB={} S={} X={}\t{}",
        line,
        sb,
        if bb == sb { "same".to_string() } else { bb },
        sr,
        if br == sr { "same".to_string() } else { br },
        oracle
    )
}

fn main() {
    supervised(5000, |line| {
        if !line.starts_with('E') {
            return format!("{}\tBADCASE\t-", line);
        }
        match catch(|| run_case(line)) {
            Ok(s) => s,
            Err(_) => format!("{}\tBADCASE:panic\t-", line),
        }
    });
}
