(* The remaining case of the settled hypothesis -- a gap right after the end of a
   side-effect block -- checked by enumeration for short prefixes (bounds and
   alphabets in the names).  What FOLLOWS the gap stays unbounded. *)
From Coq Require Import List Arith Bool NArith Lia.
From GV Require Import Base.Result Gen.TokenTypes Gen.Defs Model.Parser Spec.Layout Spec.LayoutSim
  Proofs.C03.Bounded Proofs.C03.Bounded4.
Import ListNotations.

Definition settled_after_b (pre : list token_type) : bool :=
  match state_after pre with Ok st => adjust_settled st | _ => true end.

Lemma settled_after_b_sound pre : settled_after_b pre = true -> settled_after pre.
Proof.
  unfold settled_after_b, settled_after. destruct (state_after pre); auto.
Qed.

(* side-effect blocks, groups, a value, an operator, both separators *)
Definition block_alphabet : list token_type :=
  [TT_Number; TT_StartSideEffect; TT_EndSideEffect; TT_Whitespace; TT_PlusSign;
   TT_Subexpression; TT_StartGroup; TT_EndGroup; TT_StartExpression; TT_EndExpression].

Lemma settled_rep_4 : forallb settled_after_b (seqs_upto rep_alphabet 4) = true.
Proof. vm_compute. reflexivity. Qed.

Lemma settled_block_6 : forallb settled_after_b (seqs_upto block_alphabet 6) = true.
Proof. vm_compute. reflexivity. Qed.

Theorem settled_after_bounded_4_rep pre :
  length pre <= 4 -> (forall t, In t pre -> In t rep_alphabet) -> settled_after pre.
Proof.
  intros Hl Hin. apply settled_after_b_sound.
  pose proof settled_rep_4 as F. rewrite forallb_forall in F.
  apply F, seqs_upto_complete; assumption.
Qed.

Theorem settled_after_bounded_6_block pre :
  length pre <= 6 -> (forall t, In t pre -> In t block_alphabet) -> settled_after pre.
Proof.
  intros Hl Hin. apply settled_after_b_sound.
  pose proof settled_block_6 as F. rewrite forallb_forall in F.
  apply F, seqs_upto_complete; assumption.
Qed.
