"""Gen/Instr.v: the Instruction and GarnishDataType enums."""
from . import rustsrc as R


def generate():
    ins = R.enum_variants(R.read("traits/src/instructions.rs"), "Instruction")
    tys = R.enum_variants(R.read("traits/src/data.rs"), "GarnishDataType")
    t = R.HEADER % "traits/src/instructions.rs, traits/src/data.rs"
    t += R.coq_inductive("instruction", ins, "I_") + "\n" + R.coq_eqb("instruction", ins, "I_") + "\n\n"
    t += R.coq_inductive("data_type", tys, "T_") + "\n" + R.coq_eqb("data_type", tys, "T_") + "\n"
    return {"Instr.v": t}
