//! Shared by the `store` (C15) and `list` (C16) harness binaries (included with
//! `#[path]`): canonical printing of values read back through the public
//! `GarnishData` getters, of raw cells, and small parsing helpers.
#![allow(dead_code)]
use garnish_lang_simple_data::{BasicData, SimpleData, SimpleNumber};
use garnish_lang_traits::{GarnishData, GarnishDataType, Instruction, SymbolListPart};

pub const INSTRUCTIONS: [Instruction; 56] = [
    Instruction::Invalid,
    Instruction::Put,
    Instruction::PutValue,
    Instruction::PushValue,
    Instruction::UpdateValue,
    Instruction::JumpTo,
    Instruction::EndExpression,
    Instruction::Add,
    Instruction::Subtract,
    Instruction::Multiply,
    Instruction::Divide,
    Instruction::IntegerDivide,
    Instruction::Power,
    Instruction::Opposite,
    Instruction::AbsoluteValue,
    Instruction::Remainder,
    Instruction::BitwiseNot,
    Instruction::BitwiseAnd,
    Instruction::BitwiseOr,
    Instruction::BitwiseXor,
    Instruction::BitwiseShiftLeft,
    Instruction::BitwiseShiftRight,
    Instruction::And,
    Instruction::Or,
    Instruction::Xor,
    Instruction::Not,
    Instruction::Tis,
    Instruction::JumpIfTrue,
    Instruction::JumpIfFalse,
    Instruction::TypeOf,
    Instruction::ApplyType,
    Instruction::TypeEqual,
    Instruction::Equal,
    Instruction::NotEqual,
    Instruction::LessThan,
    Instruction::LessThanOrEqual,
    Instruction::GreaterThan,
    Instruction::GreaterThanOrEqual,
    Instruction::MakePair,
    Instruction::MakeList,
    Instruction::Apply,
    Instruction::PartialApply,
    Instruction::EmptyApply,
    Instruction::Reapply,
    Instruction::Access,
    Instruction::AccessLeftInternal,
    Instruction::AccessRightInternal,
    Instruction::AccessLengthInternal,
    Instruction::Resolve,
    Instruction::StartSideEffect,
    Instruction::EndSideEffect,
    Instruction::MakeRange,
    Instruction::MakeStartExclusiveRange,
    Instruction::MakeEndExclusiveRange,
    Instruction::MakeExclusiveRange,
    Instruction::Concat,
];

pub const DATA_TYPES: [GarnishDataType; 21] = [
    GarnishDataType::Invalid,
    GarnishDataType::Unit,
    GarnishDataType::Number,
    GarnishDataType::Type,
    GarnishDataType::Char,
    GarnishDataType::CharList,
    GarnishDataType::Byte,
    GarnishDataType::ByteList,
    GarnishDataType::Symbol,
    GarnishDataType::SymbolList,
    GarnishDataType::Pair,
    GarnishDataType::Range,
    GarnishDataType::Concatenation,
    GarnishDataType::Slice,
    GarnishDataType::Partial,
    GarnishDataType::List,
    GarnishDataType::Expression,
    GarnishDataType::External,
    GarnishDataType::True,
    GarnishDataType::False,
    GarnishDataType::Custom,
];

/// Instruction with the given discriminant (the index in declaration order).
pub fn instr_of(i: usize) -> Instruction {
    let x = INSTRUCTIONS[i];
    assert_eq!(x as usize, i, "instruction table out of date");
    x
}

pub fn type_of(i: usize) -> GarnishDataType {
    let x = DATA_TYPES[i];
    assert_eq!(x as usize, i, "data type table out of date");
    x
}

pub fn hex_i64(v: i64) -> String {
    if v < 0 { format!("-{:x}", (v as i128).unsigned_abs()) } else { format!("{:x}", v) }
}

/// `i<hex sign+magnitude>` or `f<16 hex digits of the bit pattern>`
pub fn show_num(n: SimpleNumber) -> String {
    match n {
        SimpleNumber::Integer(v) => format!("i{}", hex_i64(v as i64)),
        SimpleNumber::Float(f) => format!("f{:016x}", f.to_bits()),
    }
}

pub fn parse_num(s: &str) -> SimpleNumber {
    match s.as_bytes()[0] {
        b'i' => {
            let t = &s[1..];
            let v = if let Some(r) = t.strip_prefix('-') { -(i64::from_str_radix(r, 16).expect("hex")) } else { i64::from_str_radix(t, 16).expect("hex") };
            SimpleNumber::Integer(v as i32)
        }
        b'f' => SimpleNumber::Float(f64::from_bits(u64::from_str_radix(&s[1..], 16).expect("bits"))),
        _ => panic!("bad num {}", s),
    }
}

pub fn dotted<I: Iterator<Item = String>>(it: I) -> String {
    let v: Vec<String> = it.collect();
    if v.is_empty() { "-".to_string() } else { v.join(".") }
}

pub fn parse_dotted_hex(s: &str) -> Vec<u64> {
    if s == "-" {
        return vec![];
    }
    s.split('.').map(|h| u64::from_str_radix(h, 16).expect("hex")).collect()
}

/// Structural value tree read through the public getters only.
pub fn tree<D>(d: &D, addr: usize, depth: usize) -> String
where
    D: GarnishData<Size = usize, Number = SimpleNumber, Char = char, Byte = u8, Symbol = u64>,
{
    let t = match d.get_data_type(addr) {
        Err(_) => return "Err".to_string(),
        Ok(t) => t,
    };
    let two = |name: &str, r: Result<(usize, usize), D::Error>| -> String {
        match r {
            Err(_) => format!("{}(Err)", name),
            Ok((a, b)) => {
                if depth == 0 {
                    format!("{}(~)", name)
                } else {
                    format!("{}({},{})", name, tree(d, a, depth - 1), tree(d, b, depth - 1))
                }
            }
        }
    };
    match t {
        GarnishDataType::Invalid => "Inv".to_string(),
        GarnishDataType::Unit => "U".to_string(),
        GarnishDataType::True => "T".to_string(),
        GarnishDataType::False => "F".to_string(),
        GarnishDataType::Custom => "Cu".to_string(),
        GarnishDataType::Type => match d.get_type(addr) {
            Ok(t) => format!("Ty({})", t as usize),
            Err(_) => "Ty(Err)".to_string(),
        },
        GarnishDataType::Number => match d.get_number(addr) {
            Ok(n) => format!("N({})", show_num(n)),
            Err(_) => "N(Err)".to_string(),
        },
        GarnishDataType::Char => match d.get_char(addr) {
            Ok(c) => format!("Ch({:x})", c as u32),
            Err(_) => "Ch(Err)".to_string(),
        },
        GarnishDataType::Byte => match d.get_byte(addr) {
            Ok(c) => format!("By({:x})", c),
            Err(_) => "By(Err)".to_string(),
        },
        GarnishDataType::Symbol => match d.get_symbol(addr) {
            Ok(c) => format!("Sy({:x})", c),
            Err(_) => "Sy(Err)".to_string(),
        },
        GarnishDataType::Expression => match d.get_expression(addr) {
            Ok(c) => format!("Ex({})", c),
            Err(_) => "Ex(Err)".to_string(),
        },
        GarnishDataType::External => match d.get_external(addr) {
            Ok(c) => format!("Xt({})", c),
            Err(_) => "Xt(Err)".to_string(),
        },
        GarnishDataType::CharList => match d.get_char_list_len(addr) {
            Err(_) => "Cl(Err)".to_string(),
            Ok(len) => format!(
                "Cl({})",
                dotted((0..len).map(|i| match d.get_char_list_item(addr, SimpleNumber::Integer(i as i32)) {
                    Ok(Some(c)) => format!("{:x}", c as u32),
                    Ok(None) => "?".to_string(),
                    Err(_) => "!".to_string(),
                }))
            ),
        },
        GarnishDataType::ByteList => match d.get_byte_list_len(addr) {
            Err(_) => "Bl(Err)".to_string(),
            Ok(len) => format!(
                "Bl({})",
                dotted((0..len).map(|i| match d.get_byte_list_item(addr, SimpleNumber::Integer(i as i32)) {
                    Ok(Some(c)) => format!("{:x}", c),
                    Ok(None) => "?".to_string(),
                    Err(_) => "!".to_string(),
                }))
            ),
        },
        GarnishDataType::SymbolList => match d.get_symbol_list_len(addr) {
            Err(_) => "SyL(Err)".to_string(),
            Ok(len) => format!(
                "SyL({})",
                dotted((0..len).map(|i| match d.get_symbol_list_item(addr, SimpleNumber::Integer(i as i32)) {
                    Ok(Some(SymbolListPart::Symbol(s))) => format!("s{:x}", s),
                    Ok(Some(SymbolListPart::Number(n))) => format!("n{}", show_num(n)),
                    Ok(None) => "?".to_string(),
                    Err(_) => "!".to_string(),
                }))
            ),
        },
        GarnishDataType::Pair => two("P", d.get_pair(addr)),
        GarnishDataType::Concatenation => two("Cc", d.get_concatenation(addr)),
        GarnishDataType::Range => two("Rg", d.get_range(addr)),
        GarnishDataType::Slice => two("Sl", d.get_slice(addr)),
        GarnishDataType::Partial => two("Pt", d.get_partial(addr)),
        GarnishDataType::List => match d.get_list_len(addr) {
            Err(_) => "L(Err)".to_string(),
            Ok(len) => {
                if depth == 0 {
                    return "L(~)".to_string();
                }
                let items: Vec<String> = (0..len)
                    .map(|i| match d.get_list_item(addr, SimpleNumber::Integer(i as i32)) {
                        Ok(Some(a)) => tree(d, a, depth - 1),
                        Ok(None) => "?".to_string(),
                        Err(_) => "!".to_string(),
                    })
                    .collect();
                format!("L({})", items.join(","))
            }
        },
    }
}

/// One raw heap cell of `BasicGarnishData` (no commas, no spaces).
pub fn basic_cell(c: &BasicData<()>) -> String {
    match c {
        BasicData::Unit => "Unit".to_string(),
        BasicData::True => "True".to_string(),
        BasicData::False => "False".to_string(),
        BasicData::Type(t) => format!("Type:{}", *t as usize),
        BasicData::Number(n) => format!("Number:{}", show_num(*n)),
        BasicData::Char(c) => format!("Char:{:x}", *c as u32),
        BasicData::Byte(b) => format!("Byte:{:x}", b),
        BasicData::Symbol(s) => format!("Symbol:{:x}", s),
        BasicData::SymbolList(n) => format!("SymbolList:{}", n),
        BasicData::Expression(n) => format!("Expression:{}", n),
        BasicData::External(n) => format!("External:{}", n),
        BasicData::CharList(n) => format!("CharList:{}", n),
        BasicData::ByteList(n) => format!("ByteList:{}", n),
        BasicData::Pair(a, b) => format!("Pair:{}:{}", a, b),
        BasicData::Range(a, b) => format!("Range:{}:{}", a, b),
        BasicData::Slice(a, b) => format!("Slice:{}:{}", a, b),
        BasicData::Partial(a, b) => format!("Partial:{}:{}", a, b),
        BasicData::List(a, b) => format!("List:{}:{}", a, b),
        BasicData::Concatenation(a, b) => format!("Concatenation:{}:{}", a, b),
        BasicData::Custom(_) => "Custom".to_string(),
        BasicData::Empty => "_".to_string(),
        BasicData::UninitializedList(a, b) => format!("UninitializedList:{}:{}", a, b),
        BasicData::ListItem(a) => format!("ListItem:{}", a),
        BasicData::AssociativeItem(s, a) => format!("AssociativeItem:{:x}:{}", s, a),
        BasicData::Value(a, b) => format!("Value:{}:{}", a, b),
        BasicData::ValueRoot(a) => format!("ValueRoot:{}", a),
        BasicData::Register(a, b) => format!("Register:{}:{}", a, b),
        BasicData::RegisterRoot(a) => format!("RegisterRoot:{}", a),
        BasicData::InstructionWithData(i, a) => format!("InstructionWithData:{}:{}", *i as usize, a),
        BasicData::Instruction(i) => format!("Instruction:{}", *i as usize),
        BasicData::JumpPoint(a) => format!("JumpPoint:{}", a),
        BasicData::Frame(a, b) => format!("Frame:{}:{}", a, b),
        BasicData::FrameIndex(a) => format!("FrameIndex:{}", a),
        BasicData::FrameRegister(a) => format!("FrameRegister:{}", a),
        BasicData::FrameRoot => "FrameRoot".to_string(),
        BasicData::CloneItem(a) => format!("CloneItem:{}", a),
        BasicData::CloneIndexMap(a, b) => format!("CloneIndexMap:{}:{}", a, b),
    }
}

/// One raw data item of `SimpleGarnishData` (no commas, no spaces).
pub fn simple_cell(c: &SimpleData) -> String {
    let us = |v: &Vec<usize>| dotted(v.iter().map(|x| format!("{}", x)));
    match c {
        SimpleData::Unit => "Unit".to_string(),
        SimpleData::True => "True".to_string(),
        SimpleData::False => "False".to_string(),
        SimpleData::Type(t) => format!("Type:{}", *t as usize),
        SimpleData::Number(n) => format!("Number:{}", show_num(*n)),
        SimpleData::Char(c) => format!("Char:{:x}", *c as u32),
        SimpleData::Byte(b) => format!("Byte:{:x}", b),
        SimpleData::Symbol(s) => format!("Symbol:{:x}", s),
        SimpleData::SymbolList(l) => format!("SymbolList:{}", dotted(l.iter().map(|x| format!("{:x}", x)))),
        SimpleData::Expression(n) => format!("Expression:{}", n),
        SimpleData::External(n) => format!("External:{}", n),
        SimpleData::CharList(s) => format!("CharList:{}", dotted(s.chars().map(|c| format!("{:x}", c as u32)))),
        SimpleData::ByteList(l) => format!("ByteList:{}", dotted(l.iter().map(|x| format!("{:x}", x)))),
        SimpleData::Pair(a, b) => format!("Pair:{}:{}", a, b),
        SimpleData::Range(a, b) => format!("Range:{}:{}", a, b),
        SimpleData::Slice(a, b) => format!("Slice:{}:{}", a, b),
        SimpleData::Partial(a, b) => format!("Partial:{}:{}", a, b),
        SimpleData::List(a, b) => format!("List:{}:{}", us(a), us(b)),
        SimpleData::Concatenation(a, b) => format!("Concatenation:{}:{}", a, b),
        SimpleData::StackFrame(f) => format!("StackFrame:{}", f.return_addr()),
        SimpleData::Custom(_) => "Custom".to_string(),
    }
}
