(* Witness: the exclusion of the C05 theorems (C05-K2) is necessary -- a member
   of the class whose build is NOT well-formed (by evaluation) -- and regression
   lemmas for the two shapes repaired in build.rs (former C05-K1 / C20-K1). *)
From Coq Require Import List Arith Bool NArith Lia.
From GV Require Import Base.Result Gen.TokenTypes Gen.Defs Gen.Instr Model.Parser Model.BuilderWL Model.Compile
  Spec.WfCode Proofs.C05.Known Proofs.C05.WfSound.
Import ListNotations.

Definition parsed (toks : list token_type) : nat * list pnode :=
  match parse toks with Ok x => x | _ => (0, []) end.
Definition built (init : binit) (p : nat * list pnode) : bstate * nat :=
  match build (snd p) init lit_all (build_fuel (snd p)) (fst p) with
  | Ok r => r
  | _ => (mkBS [] [] [] [] [] 0, 0)
  end.
Definition tree_or_leaf (p : nat * list pnode) : tree :=
  match tree_of (snd p) (fst p) with Some t => t | None => T 0 D_Drop None None end.

Lemma not_wf : forall nodes init c, wf_code_b nodes init c = false -> ~ wf_code nodes init c.
Proof.
  intros nodes init c Hb Hw. apply (wf_code_b_iff nodes init c) in Hw. rewrite Hw in Hb. discriminate.
Qed.

(* ---- regression (former C05-K1): `{ ( ) }` ----
   the nested body is an empty group; before commit b7aaffe its EndExpression
   was skipped because the main body's EndExpression was the last instruction and
   the expression's jump entry pointed one past the end of the stream; now the
   entry names an EndExpression of its own and the build is well-formed *)
Definition k1_tokens : list token_type := [TT_StartExpression; TT_StartGroup; TT_EndGroup; TT_EndExpression].
Definition k1_p : nat * list pnode := Eval vm_compute in parsed k1_tokens.
Definition k1_r : bstate * nat := Eval vm_compute in built empty_init k1_p.

Lemma k1_fixed :
  parse k1_tokens = Ok k1_p /\
  build (snd k1_p) empty_init lit_all (build_fuel (snd k1_p)) (fst k1_p) = Ok k1_r /\
  instrs (fst k1_r) = [(I_Put, OExpr 1); (I_EndExpression, ONone); (I_EndExpression, ONone)] /\
  jumps (fst k1_r) = [0; 2] /\
  wf_code_b (snd k1_p) empty_init (code_of_build k1_r) = true.
Proof. vm_compute. repeat split; reflexivity. Qed.

(* ---- regression (former C20-K1): `( )` built after a program that ends in
   EndExpression now emits its own EndExpression ---- *)
Definition k1b_init : binit := mkInit 2 1 (Some (I_EndExpression, ONone)).
Definition k1b_tokens : list token_type := [TT_StartGroup; TT_EndGroup].
Definition k1b_p : nat * list pnode := Eval vm_compute in parsed k1b_tokens.
Definition k1b_r : bstate * nat := Eval vm_compute in built k1b_init k1b_p.

Lemma k1b_fixed :
  parse k1b_tokens = Ok k1b_p /\
  build (snd k1b_p) k1b_init lit_all (build_fuel (snd k1b_p)) (fst k1b_p) = Ok k1b_r /\
  instrs (fst k1b_r) = [(I_EndExpression, ONone)] /\ jumps (fst k1b_r) = [2] /\
  wf_code_b (snd k1b_p) k1b_init (code_of_build k1b_r) = true.
Proof. vm_compute. repeat split; reflexivity. Qed.

(* ---- C05-K2: a conditional directly in the left operand of `&&` (a tree the
   parser does not produce): the arm is registered with the logical node and
   never emitted; its placeholder jump entry stays 0 ---- *)
Definition k2_nodes : list pnode :=
  [ mkNode D_And S_BinaryLeftToRight None (Some 1) (Some 4) None;
    mkNode D_JumpIfTrue S_BinaryLeftToRight (Some 0) (Some 2) (Some 3) None;
    mkNode D_Number S_Value (Some 1) None None None;
    mkNode D_Number S_Value (Some 1) None None None;
    mkNode D_Number S_Value (Some 0) None None None ].
Definition k2_t : tree := Eval vm_compute in tree_or_leaf (0, k2_nodes).
Definition k2_r : bstate * nat := Eval vm_compute in built empty_init (0, k2_nodes).

Lemma k2_tree : tree_of k2_nodes 0 = Some k2_t. Proof. vm_compute. reflexivity. Qed.
Lemma k2_build : build k2_nodes empty_init lit_all (build_fuel k2_nodes) 0 = Ok k2_r. Proof. vm_compute. reflexivity. Qed.
Lemma k2_known : drops_arms k2_t = true. Proof. vm_compute. reflexivity. Qed.
Lemma k2_placeholder : nth_error (jumps (fst k2_r)) 1 = Some 0. Proof. vm_compute. reflexivity. Qed.
Lemma k2_not_wf_b : wf_code_b k2_nodes empty_init (code_of_build k2_r) = false. Proof. vm_compute. reflexivity. Qed.
Lemma k2_compile : match compile empty_init lit_all k2_t with Ok c => same_code c k2_r | _ => false end = true.
Proof. vm_compute. reflexivity. Qed.

Lemma K2_refuted :
  exists t r,
    tree_of k2_nodes 0 = Some t /\ Known_C05_K2 t /\
    build k2_nodes empty_init lit_all (build_fuel k2_nodes) 0 = Ok r /\
    nth_error (jumps (fst r)) 1 = Some 0 /\
    ~ wf_code k2_nodes empty_init (code_of_build r).
Proof.
  exists k2_t, k2_r.
  split; [exact k2_tree|]. split; [exact k2_known|]. split; [exact k2_build|].
  split; [exact k2_placeholder|]. apply not_wf. exact k2_not_wf_b.
Qed.
