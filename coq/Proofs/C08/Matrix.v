(* C08 by exhaustive computation over the finite matrix
   (56 instructions x 101 x 102 operand abstractions x 3 host modes), lifted to
   real quantifiers with the completeness lemmas of Enum.v. *)
From Coq Require Import NArith List Bool Arith.
From GV Require Import Gen.Instr Gen.Exec Gen.Dispatch Model.OpDispatch Spec.Defined
  Proofs.C08.Enum Proofs.C08.Statement.
Import ListNotations.

Lemma c08_matrix : for_matrix c08_check = true.
Proof. vm_compute. reflexivity. Qed.

Lemma never_defers_matrix : for_matrix never_defers_check = true.
Proof. vm_compute. reflexivity. Qed.

Lemma absorbed_matrix : for_matrix absorbed_check = true.
Proof. vm_compute. reflexivity. Qed.

Lemma arity_table : forallb arity_check all_instruction = true.
Proof. vm_compute. reflexivity. Qed.

Lemma helper_params : helper_params_check = true.
Proof. vm_compute. reflexivity. Qed.

(* ---- the statements with real quantifiers ---- *)
Lemma undefined_defers_then_unit : forall i l r h,
  wf_operand l = true -> wf_right r = true -> undefined_case i l r = true ->
  step i l r h = c08_expected i l r h.
Proof.
  intros i l r h Hl Hr Hu.
  pose proof (for_matrix_sound _ c08_matrix i l r h Hl Hr) as H.
  unfold c08_check in H. rewrite Hu in H. cbn [implb] in H.
  apply outcome_eqb_eq. exact H.
Qed.

(* the same, spelled out clause by clause as the property text has it *)
Lemma undefined_defers_then_unit_clauses : forall i l r h,
  wf_operand l = true -> wf_right r = true -> undefined_case i l r = true ->
  let o := step i l r h in
  res o = ROk /\ data_dep o = false
  /\ calls o = [expected_call i l r]
  /\ pops o = operand_count r /\ jumps o = false
  /\ (h <> HAccept -> pushes o = 1 /\ top_is o = TopUnit)
  /\ (h = HAccept -> pushes o = 0 /\ top_is o = TopHost).
Proof.
  intros i l r h Hl Hr Hu o. subst o. rewrite (undefined_defers_then_unit i l r h Hl Hr Hu).
  unfold c08_expected. cbn [res data_dep calls pops pushes top_is jumps frames].
  split; [reflexivity|]. split; [reflexivity|]. split; [reflexivity|].
  split; [reflexivity|]. split; [reflexivity|]. split.
  - intros Hh. destruct h; [split; reflexivity | split; reflexivity | contradiction Hh; reflexivity].
  - intros ->. split; reflexivity.
Qed.

Lemma defined_never_defers : forall i l r h,
  wf_operand l = true -> wf_right r = true -> defined_case i l r = true ->
  calls (step i l r h) = [].
Proof.
  intros i l r h Hl Hr Hd.
  pose proof (for_matrix_sound _ never_defers_matrix i l r h Hl Hr) as H.
  unfold never_defers_check in H. rewrite Hd in H. cbn [implb] in H.
  destruct (calls (step i l r h)); [reflexivity | discriminate].
Qed.

Lemma unsupported_never_escapes : forall i l r h,
  wf_operand l = true -> wf_right r = true -> well_shaped i r = true ->
  res (step i l r h) <> RErrUnsupported /\ res (step i l r h) <> ROkOrUnsupported.
Proof.
  intros i l r h Hl Hr Hs.
  pose proof (for_matrix_sound _ absorbed_matrix i l r h Hl Hr) as H.
  unfold absorbed_check in H. rewrite Hs in H. cbn [implb] in H.
  destruct (res (step i l r h)); cbn in H; split; congruence.
Qed.

Lemma model_arity_is_spec : forall i, arity i = operands i.
Proof.
  intros i. pose proof arity_table as H. rewrite forallb_forall in H.
  specialize (H i (all_instruction_complete i)). unfold arity_check in H.
  destruct (arity i) as [a|], (operands i) as [b|]; try discriminate; try reflexivity.
  apply Nat.eqb_eq in H. congruence.
Qed.

(* ---- non-vacuity: the domain is inhabited and the interesting arms are hit ---- *)
Definition count_matrix (p : instruction -> operand -> option operand -> bool) : nat :=
  length (filter (fun x => x) (flat_map (fun i => flat_map (fun l => map (fun r => p i l r) all_right_operands)
    all_operands) all_instruction)).

Lemma undefined_cases_exist : Nat.leb 10000 (count_matrix undefined_case) = true.
Proof. vm_compute. reflexivity. Qed.
