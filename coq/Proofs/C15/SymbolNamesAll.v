(* C15: no operation of the history vocabulary other than parse_add_symbol
   changes the symbol-table block; with Proofs/C15/SymbolNames.v this lifts
   the symbol-name read-back to every history. *)
From Coq Require Import NArith ZArith List Bool Arith Lia Sorted Permutation.
From GV Require Import Base.Result Gen.Instr Model.StoreBase Model.BasicStore Model.StoreOps Spec.AbsTables
  Proofs.C15.ListFacts Proofs.C15.Layout Proofs.C15.Stable Proofs.C15.Steps Proofs.C15.History Proofs.C15.SymbolNames.
Import ListNotations.

Definition keepsAt {A} (m : BM A) (s : basic) : Prop :=
  forall s' r, Good s -> m s = Ok (s', r) -> Good s' /\ window s' BSym = window s BSym.
Definition keeps {A} (m : BM A) : Prop := forall s, keepsAt m s.

Lemma keepsAt_bind : forall A B (m : BM A) (f : A -> BM B) s, keepsAt m s ->
  (forall a s1, m s = Ok (s1, Done a) -> keepsAt (f a) s1) -> keepsAt (sbind m f) s.
Proof.
  intros A B m f s Hm Hf s' r Gs H. unfold sbind in H.
  destruct (m s) as [[s1 [a|e]]|e|p|] eqn:E; try discriminate H.
  - destruct (Hm s1 _ Gs E) as [G1 W1]. destruct (Hf a s1 eq_refl s' r G1 H) as [G2 W2].
    split; [exact G2|congruence].
  - inversion H; subst s' r. exact (Hm s1 _ Gs E).
Qed.

Lemma keeps_bind : forall A B (m : BM A) (f : A -> BM B), keeps m -> (forall a, keeps (f a)) -> keeps (sbind m f).
Proof. intros A B m f Hm Hf s. apply keepsAt_bind; [apply Hm|intros a s1 _; apply Hf]. Qed.

Lemma keeps_ret : forall A (a : A), keeps (sret a).
Proof. intros A a s s' r Gs H. inversion H; subst. auto. Qed.
Lemma keeps_fail : forall A e, keeps (@sfail basic A e).
Proof. intros A e s s' r Gs H. inversion H; subst. auto. Qed.
Lemma keeps_sget : keeps (@sget basic).
Proof. intros s s' r Gs H. inversion H; subst. auto. Qed.
Lemma keeps_sread : forall A (f : basic -> res A), keeps (sread f).
Proof. intros A f s s' r Gs H. unfold sread in H. destruct (f s); inversion H; subst; auto. Qed.
Lemma keeps_get_data : forall i, keeps (get_data i).
Proof. intro i. apply keeps_sread. Qed.

Lemma same_store_keeps : forall s s', Good s -> same_store s s' -> Good s' /\ window s' BSym = window s BSym.
Proof. intros s s' Gs H. split; [eapply same_store_good; eassumption|apply same_store_window; exact H]. Qed.

Ltac same_store_tac := split; [reflexivity|let b0 := fresh "b" in intro b0; destruct b0; reflexivity].

Lemma keeps_heads : forall A (f : basic -> basic) (a : outcome A), (forall x, same_store x (f x)) ->
  keeps (fun x => Ok (f x, a)).
Proof. intros A f a Hf s s' r Gs H. inversion H; subst. apply same_store_keeps; auto. Qed.

Lemma keeps_push_data : forall c, keeps (push_to_data_block c).
Proof.
  intros c s s' r Gs H. destruct (push_data_raw s c Gs) as (s1 & Hp & (G1 & _ & W & _)).
  rewrite Hp in H. inversion H; subst. split; [exact G1|apply W; congruence].
Qed.

Lemma keeps_set_in_block : forall b i c, b <> BSym -> keeps (set_in_block b i c).
Proof.
  intros b i c Hb s s' r Gs H. destruct (le_lt_dec (cur s b) i) as [Hle|Hlt].
  - rewrite (set_in_block_fail s b i c Hle) in H. inversion H; subst. auto.
  - destruct (set_in_block_ok s b i c (good_inv s Gs) Hlt) as (s1 & l' & Hr & I1 & _ & _ & Ho & Hg & _).
    rewrite Hr in H. inversion H; subst s1 r. split; [|apply Ho; congruence].
    destruct Gs as [I P M]. constructor; [exact I1| |]; intro x; [rewrite Hg; apply P|unfold sett; rewrite Hg; apply M].
Qed.

Lemma keeps_set_data : forall i c, keeps (set_data i c).
Proof. intros. apply keeps_set_in_block. congruence. Qed.

Lemma keeps_srepeat : forall n (m : BM unit), keeps m -> keeps (srepeat n m).
Proof.
  induction n as [|n IH]; intros m Hm; cbn [srepeat]; [apply keeps_ret|].
  apply keeps_bind; [exact Hm|intros _; apply IH; exact Hm].
Qed.

(* sorting a range that starts in the data block (or later) *)
Lemma keepsAt_sort_range : forall a b s, st s BData <= a -> keepsAt (sort_range a b) s.
Proof.
  intros a b s Ha s' r Gs H. unfold sort_range in H.
  destruct (slice_ix (heap s) a b) as [sl|] eqn:E; [|discriminate H].
  unfold slice_ix in E. destruct ((a <=? b) && (b <=? length (heap s))) eqn:Eb; [|discriminate E].
  apply andb_true_iff in Eb. destruct Eb as [E1 E2]. apply Nat.leb_le in E1. apply Nat.leb_le in E2.
  inversion E; subst sl. clear E. inversion H; subst s' r. clear H.
  set (sl := firstn (b - a) (skipn a (heap s))).
  assert (Lsl : length sl = b - a) by (unfold sl; rewrite firstn_length, skipn_length; lia).
  set (h' := splice_ix (heap s) a b (stable_sort assoc_le sl)).
  assert (Lh : length h' = length (heap s)).
  { unfold h'. apply splice_ix_length; [lia|lia|]. rewrite stable_sort_length. lia. }
  assert (Hg : forall b2, get_block (set_heap s h') b2 = get_block s b2) by (intro; apply get_block_set_heap).
  destruct Gs as [I P M]. split.
  - constructor; [constructor| |].
    + intro b2. unfold st, sz. rewrite Hg. pose proof (inv_start s I b2) as Hs. unfold st in Hs. rewrite Hs.
      destruct b2; cbn [offset]; unfold sz; rewrite ?Hg; reflexivity.
    + intro b2. unfold cur, sz. rewrite Hg. apply (inv_cursor s I).
    + cbn [heap set_heap]. rewrite Lh, (inv_len s I). unfold total_size, sz. rewrite !Hg. reflexivity.
    + intro x. rewrite Hg. apply P.
    + intro x. unfold sett. rewrite Hg. apply M.
  - apply window_ext.
    + unfold cur. rewrite Hg. reflexivity.
    + intros j Hj. unfold st at 1. rewrite Hg. fold (st s BSym). cbn [heap set_heap].
      assert (Hlt : st s BSym + j < a).
      { pose proof (inv_start s I BSym) as S1. pose proof (inv_start s I BData) as S2.
        pose proof (inv_cursor s I BSym) as C1. cbn [offset] in S1, S2. lia. }
      unfold h', splice_ix. rewrite nth_error_app1 by (rewrite firstn_length; lia).
      apply nth_error_firstn_lt. exact Hlt.
Qed.

Ltac kp := repeat first
  [ apply keeps_ret | apply keeps_fail | apply keeps_get_data | apply keeps_set_data | apply keeps_push_data
  | apply keeps_sget
  | (apply keeps_heads; intro; same_store_tac)
  | (apply keeps_bind; [|intro])
  | match goal with |- keeps (match ?x with _ => _ end) => destruct x end ].

Lemma keeps_push_value_stack : forall a, keeps (push_value_stack a).
Proof. intro a. unfold push_value_stack. kp. Qed.
Lemma keeps_push_register : forall a, keeps (push_register a).
Proof. intro a. unfold push_register. kp. Qed.
Lemma keeps_push_frame : forall n, keeps (push_frame n).
Proof. intro n. unfold push_frame. kp. Qed.
Lemma keeps_start_list : forall n, keeps (start_list n).
Proof. intro n. unfold start_list. kp. apply keeps_srepeat. kp. Qed.
Lemma keeps_add_to_list : forall l i, keeps (add_to_list l i).
Proof. intros l i. unfold add_to_list. kp. Qed.

Ltac crush H := repeat match type of H with
  | context [match ?x with _ => _ end] => destruct x eqn:?; try discriminate H
  end.
Ltac fin H := inversion H; subst; apply same_store_keeps; [assumption|same_store_tac].

Lemma keeps_pop_value_stack : keeps pop_value_stack.
Proof. intros s s' r Gs H. unfold pop_value_stack in H. crush H; fin H. Qed.
Lemma keeps_pop_register : keeps pop_register.
Proof. intros s s' r Gs H. unfold pop_register in H. crush H; fin H. Qed.
Lemma keeps_pop_frame : keeps pop_frame.
Proof. intros s s' r Gs H. unfold pop_frame in H. crush H; fin H. Qed.

Ltac fin2 H := first [ fin H | (inversion H; subst; eapply keeps_set_in_block; [|eassumption|eassumption]; congruence) ].

Lemma keeps_set_current_value : forall v, keeps (set_current_value v).
Proof. intros v s s' r Gs H. unfold set_current_value, set_data in H. crush H; fin2 H. Qed.
Lemma keeps_set_jump_table : forall i v, keeps (set_jump_table i v).
Proof. intros i v s s' r Gs H. unfold set_jump_table in H. crush H; fin2 H. Qed.

Lemma keeps_spanic : forall A p, keeps (@spanic basic A p).
Proof. intros A p s s' r Gs H. discriminate H. Qed.

Lemma keeps_end_list : forall l, keeps (end_list l).
Proof.
  intros l s. unfold end_list. apply keepsAt_bind; [apply keeps_get_data|]. intros a s1 _.
  destruct a; try apply keeps_fail. destruct (count <? len); [apply keeps_fail|].
  apply keepsAt_bind; [apply keeps_sget|]. intros s2 s3 E2. inversion E2; subst s2 s3. cbv zeta.
  destruct (slice_ix (heap s1) _ _); [|apply keeps_spanic].
  apply keepsAt_bind; [apply keepsAt_sort_range; unfold st; cbn [get_block]; lia|]. intros _ s4 _.
  apply keeps_bind; [apply keeps_set_data|]. intros _. apply keeps_ret.
Qed.

Lemma lift_keeps : forall A (f : A -> result) (m : BM A) s s' r, keeps m -> Good s -> lift f m s = Ok (s', r) ->
  window s' BSym = window s BSym.
Proof.
  intros A f m s s' r Hm Gs H. unfold lift in H.
  destruct (m s) as [[s1 [a|e]]|e|p|] eqn:E; try discriminate H; inversion H; subst; exact (proj2 (Hm s _ _ Gs E)).
Qed.

(* every operation except parse_add_symbol leaves the symbol table as it is *)
Definition is_symbol_op (o : op) : bool := match o with OSymbol _ _ _ => true | _ => false end.

Theorem other_ops_keep_symbols : forall o s s' r, G s -> is_symbol_op o = false -> bstep o s = Ok (s', r) ->
  window s' BSym = window s BSym.
Proof.
  intros o s s' r Gs Hn H.
  destruct (sym_neutral o) eqn:En; [exact (neutral_window o s s' r Gs En H)|].
  pose proof (g_good s Gs) as Gd.
  destruct o; try discriminate En; try discriminate Hn; cbn [bstep] in H;
    (eapply lift_keeps; [|exact Gd|exact H]).
  - apply keeps_set_jump_table.
  - apply keeps_start_list.
  - apply keeps_add_to_list.
  - apply keeps_end_list.
  - apply keeps_push_register.
  - apply keeps_pop_register.
  - apply keeps_push_value_stack.
  - apply keeps_pop_value_stack.
  - apply keeps_set_current_value.
  - apply keeps_push_frame.
  - apply keeps_pop_frame.
Qed.

Definition not_symbol_op (o : op) : bool := negb (is_symbol_op o).

Lemma not_symbol_keeps : forall o s s' r, G s -> not_symbol_op o = true -> bstep o s = Ok (s', r) ->
  window s' BSym = window s BSym.
Proof.
  intros o s s' r Gs Hn H. apply (other_ops_keep_symbols o s s' r Gs); [|exact H].
  unfold not_symbol_op in Hn. destruct (is_symbol_op o); [discriminate Hn|reflexivity].
Qed.

(* the headline over every history *)
Theorem symbol_name_readback_all : forall (h : list N -> N) (dom : list N -> Prop),
  (forall v w, dom v -> dom w -> h v = h w -> v = w) ->
  forall si sj ss se sd sc ops1 ops2,
  progressing si -> progressing sj -> progressing ss -> progressing se -> progressing sd -> progressing sc ->
  (forall sym bl name, In (OSymbol sym bl name) (ops1 ++ ops2) -> dom name /\ sym = h name /\ bl = length name) ->
  exists s0 s1 s2 r1 r2,
    new_with_settings si sj ss se sd sc = Ok (s0, Done tt) /\
    run bstep ops1 s0 = Ok (s1, r1) /\ run bstep ops2 s1 = Ok (s2, r2) /\
    (forall name, registers h ops1 name ->
       get_symbol_string (h name) s1 = Ok (Some name) /\ get_symbol_string (h name) s2 = Ok (Some name)) /\
    (forall k, (forall name, registers h (ops1 ++ ops2) name -> h name <> k) -> get_symbol_string k s2 = Ok None).
Proof.
  intros h dom Hinj si sj ss se sd sc ops1 ops2 P1 P2 P3 P4 P5 P6 Hops.
  apply (symbol_name_readback h dom Hinj not_symbol_op not_symbol_keeps (fun _ _ _ => eq_refl)
           si sj ss se sd sc ops1 ops2 P1 P2 P3 P4 P5 P6).
  apply Forall_forall. intros o Ho. unfold sym_op_ok.
  destruct o; try (left; reflexivity). right.
  destruct (Hops _ _ _ Ho) as (Hd & -> & ->). exists name. split; [exact Hd|reflexivity].
Qed.
