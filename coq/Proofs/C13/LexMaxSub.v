(* (d), second half: the text of a Subexpression token.  Instance of Proofs.C13.LexMaxGen3
   (the invariant needs could_be_sub_expression).

   How the lexer makes a Subexpression token (start_token, arm_spaces, arm_subexpression):
   * a "head" is read first: a single line feed or form feed (start_token enters the
     Subexpression state on them), or a Whitespace run  h b* LF  with h a space, tab or carriage
     return and b spaces/tabs (the Spaces state enters the Subexpression state on a line feed);
   * in the Subexpression state a line feed, form feed or carriage return is appended and
     ends the token as a Subexpression;
   * a space or tab instead goes back to the Spaces state with could_be_sub_expression set;
     there, after more spaces/tabs, a line feed is appended and ends the token as a
     Subexpression (any other character ends a Whitespace token).
   In both cases the character after the token starts a fresh token: nothing is required of it. *)
From Coq Require Import NArith List Bool Lia.
From GV Require Import Base.Result Gen.TokenTypes Gen.Tokens Model.Lexer Spec.LexSpec
  Proofs.C13.LexBase Proofs.C13.LexInv Proofs.C13.LexRun Proofs.C13.LexOp Proofs.C13.LexMaxGen3
  Proofs.C13.LexMaximal.
Import ListNotations.
Local Open Scope N_scope.

(* space or tab *)
Definition blank_ch (c : N) : bool := (c =? 32) || (c =? 9).
(* line feed, form feed or carriage return: the ASCII whitespace that is not a blank *)
Definition break_ch (c : N) : bool := (c =? 10) || (c =? 12) || (c =? 13).
(* what starts a Whitespace run in the Spaces state *)
Definition sp_head_ch (c : N) : bool := (c =? 32) || (c =? 9) || (c =? 13).
(* what starts a token in the Subexpression state *)
Definition lf_ff (c : N) : bool := (c =? 10) || (c =? 12).

Definition sp0 (a : list N) : Prop :=
  exists h r, a = h :: r /\ sp_head_ch h = true /\ forallb blank_ch r = true.
Definition sub_head (a : list N) : Prop :=
  (exists c0, a = [c0] /\ lf_ff c0 = true) \/
  (exists h r, a = h :: r ++ [10] /\ sp_head_ch h = true /\ forallb blank_ch r = true).
Definition sub_shape (txt : list N) : Prop :=
  exists a m z, txt = a ++ m ++ [z] /\ sub_head a /\ forallb blank_ch m = true /\
                ((m = [] /\ break_ch z = true) \/ (m <> [] /\ z = 10)).

Ltac ch_cases c :=
  unfold blank_ch, break_ch, sp_head_ch, lf_ff, is_ascii_whitespace, ch_space, ch_tab, ch_lf, ch_ff, ch_cr in *;
  destruct (c =? 32) eqn:?, (c =? 9) eqn:?, (c =? 10) eqn:?, (c =? 12) eqn:?, (c =? 13) eqn:?;
  cbn in *; try congruence; try discriminate; try reflexivity.

Section Sub.
  Variables un ua : N -> bool.
  Notation start_token := (start_token un ua).
  Notation run_arm := (run_arm un ua).

  Definition TM (ty : option token_type) (txt : list N) (nx : option N) : Prop :=
    ty = Some TT_Subexpression -> sub_shape txt.

  Definition Inv (l : lexer) : Prop :=
    (st l = SSpaces -> could_sub l = false -> sp0 (cur l)) /\
    (st l = SSpaces -> could_sub l = true ->
       exists a m, cur l = a ++ m /\ sub_head a /\ forallb blank_ch m = true /\ m <> []) /\
    (st l = SSubexpression -> sub_head (cur l)) /\
    (st l <> SSubexpression -> cur_ty l <> Some TT_Subexpression) /\
    (st l = SNoToken -> could_sub l = false).

  Lemma Inv_ext : forall l l', cur l = cur l' -> cur_ty l = cur_ty l' -> st l = st l' ->
    could_sub l = could_sub l' -> Inv l -> Inv l'.
  Proof. intros l l' E1 E2 E3 E4. unfold Inv. rewrite E1, E2, E3, E4. auto. Qed.

  Lemma Inv_idle : forall l, cur l = [] -> cur_ty l = None -> st l = SNoToken -> could_sub l = false -> Inv l.
  Proof.
    intros l E1 E2 E3 E4. unfold Inv. rewrite E1, E2, E3, E4.
    repeat split; intros; try discriminate; reflexivity.
  Qed.

  Ltac split_all := repeat match goal with |- _ /\ _ => split end.

  Lemma nosub_op : forall p o, current_operator p = Some o -> o <> Some TT_Subexpression.
  Proof. intros p o H ->. eapply op_not_nonop; [exact H | auto with nonop]. Qed.

  (* ------------------------------------------------------------ start_token *)
  Lemma Inv_start : forall l c, could_sub l = false -> result (start_token l c) = None -> Inv (start_token l c).
  Proof.
    intros l c Hcs. unfold Lexer.start_token.
    destruct (current_operator _) eqn:Eop.
    - intros _. unfold Inv. cbn. split_all; try (intros Hh; discriminate Hh).
      intros _. eapply nosub_op; exact Eop.
    - repeat break_if; cbn; intros Hr; try discriminate; unfold Inv; cbn; rewrite ?Hcs;
        split_all; intros Hh; try discriminate Hh; try congruence; try (intros Hh2; discriminate Hh2).
      + intros _. exists c, []. split_all; try reflexivity. ch_cases c.
      + left. exists c. split; [reflexivity|]. ch_cases c.
  Qed.

  (* -------------------------------------------------------------- state arms *)
  Notation arm_max := (arm_max Inv TM).

  Ltac plain Hn Hst :=
    unfold LexMaxGen3.arm_max; cbn; rewrite ?Hst;
    first
      [ exact I
      | split; [intros _ nx _ | intros _ nx]; unfold TM; intros Hty;
        exfalso; first [exact (Hn Hty) | discriminate Hty]
      | intros _; split;
        [ unfold Inv; cbn; rewrite ?Hst; split_all;
          try (intros Hh; discriminate Hh);
          intros _; first [exact Hn | discriminate]
        | intros t Ht; discriminate Ht ] ].

  Ltac other_state arm :=
    intros l c Hwf (Hs0 & Hs1 & Hsub & Hn & Hnt) Hres Hst;
    assert (Hn' : cur_ty l <> Some TT_Subexpression) by (apply Hn; rewrite Hst; discriminate);
    unfold Lexer.run_arm; rewrite Hst; unfold arm;
    repeat break_if; plain Hn' Hst.

  Lemma arm_Number_max : forall l c, WF l -> Inv l -> result l = None -> st l = SNumber -> arm_max l c (run_arm l c).
  Proof. other_state arm_number. Qed.
  Lemma arm_Identifier_max : forall l c, WF l -> Inv l -> result l = None -> st l = SIdentifier -> arm_max l c (run_arm l c).
  Proof. other_state arm_identifier. Qed.
  Lemma arm_Annotation_max : forall l c, WF l -> Inv l -> result l = None -> st l = SAnnotation -> arm_max l c (run_arm l c).
  Proof. other_state arm_annotation. Qed.
  Lemma arm_LineAnnotation_max : forall l c, WF l -> Inv l -> result l = None -> st l = SLineAnnotation -> arm_max l c (run_arm l c).
  Proof. other_state arm_line_annotation. Qed.
  Lemma arm_CharList_max : forall l c, WF l -> Inv l -> result l = None -> st l = SCharList -> arm_max l c (run_arm l c).
  Proof. other_state arm_list. Qed.
  Lemma arm_ByteList_max : forall l c, WF l -> Inv l -> result l = None -> st l = SByteList -> arm_max l c (run_arm l c).
  Proof. other_state arm_list. Qed.
  Lemma arm_StartCharList_max : forall l c, WF l -> Inv l -> result l = None -> st l = SStartCharList -> arm_max l c (run_arm l c).
  Proof. other_state arm_start_list. Qed.
  Lemma arm_StartByteList_max : forall l c, WF l -> Inv l -> result l = None -> st l = SStartByteList -> arm_max l c (run_arm l c).
  Proof. other_state arm_start_list. Qed.

  Lemma arm_Float_max : forall l c, WF l -> Inv l -> result l = None -> st l = SFloat -> arm_max l c (run_arm l c).
  Proof.
    intros l c Hwf (Hs0 & Hs1 & Hsub & Hn & Hnt) Hres Hst.
    assert (Hn' : cur_ty l <> Some TT_Subexpression) by (apply Hn; rewrite Hst; discriminate).
    unfold Lexer.run_arm. rewrite Hst. unfold arm_float.
    destruct (is_number_char un ua c).
    - plain Hn' Hst.
    - destruct ((c =? ch_period) && ends_with ch_period (cur l)) eqn:Esplit.
      + apply andb_true_iff in Esplit as [Hc Hend]. apply N.eqb_eq in Hc. subst c.
        destruct (text_col (set_start_row l (text_row l)) =? 0); [exact I|].
        change ch_period with 46.
        change (push (set_start_col (Lexer.start_token un ua (set_start_row l (text_row l)) 46)
                        (text_col (set_start_row l (text_row l)) - 1)) 46) with (float_split_state un ua l).
        rewrite float_split_state_eq. cbn [cur]. rewrite current_operator_range.
        unfold LexMaxGen3.arm_max. intros _. split.
        * unfold Inv; cbn. split_all; try (intros Hh; discriminate Hh). intros _; discriminate.
        * intros t Ht. inversion Ht; subst. cbn. exists 46. split; [reflexivity|].
          unfold TM. cbn. discriminate.
      + plain Hn' Hst.
  Qed.

  Lemma arm_Operator_max : forall l c, WF l -> Inv l -> result l = None -> st l = SOperator -> arm_max l c (run_arm l c).
  Proof.
    intros l c Hwf (Hs0 & Hs1 & Hsub & Hn & Hnt) Hres Hst.
    assert (Hn' : cur_ty l <> Some TT_Subexpression) by (apply Hn; rewrite Hst; discriminate).
    unfold Lexer.run_arm. rewrite Hst. unfold arm_operator.
    destruct (current_operator (cur (push l c))) eqn:Eop.
    - unfold LexMaxGen3.arm_max; cbn. intros _. split; [|intros t Ht; discriminate Ht].
      unfold Inv; cbn. rewrite ?Hst. split_all; try (intros Hh; discriminate Hh).
      intros _; eapply nosub_op; exact Eop.
    - repeat break_if; plain Hn' Hst.
  Qed.

  Lemma sp0_snoc : forall a c, sp0 a -> blank_ch c = true -> sp0 (a ++ [c]).
  Proof.
    intros a c (h & r & -> & Hh & Hr) Hc. exists h, (r ++ [c]). split; [reflexivity|].
    split; [exact Hh | apply forallb_snoc; assumption].
  Qed.

  Lemma arm_Spaces_max : forall l c, WF l -> Inv l -> result l = None -> st l = SSpaces -> arm_max l c (run_arm l c).
  Proof.
    intros l c Hwf (Hs0 & Hs1 & Hsub & Hn & Hnt) Hres Hst.
    assert (Hn' : cur_ty l <> Some TT_Subexpression) by (apply Hn; rewrite Hst; discriminate).
    specialize (Hs0 Hst). specialize (Hs1 Hst).
    unfold Lexer.run_arm. rewrite Hst. unfold arm_spaces.
    destruct (c =? ch_lf) eqn:Elf.
    - apply N.eqb_eq in Elf. subst c. change ch_lf with 10.
      change (could_sub (wrap_line l)) with (could_sub l).
      destruct (could_sub l) eqn:Ecs.
      + (* second line feed after blanks: Subexpression *)
        unfold LexMaxGen3.arm_max; cbn.
        split; [intros Hf; discriminate Hf | intros _ nx].
        unfold TM. intros _. destruct (Hs1 eq_refl) as (a & m & Hc & Ha & Hm & Hne).
        exists a, m, 10. rewrite Hc, <- app_assoc. split; [reflexivity|]. split; [exact Ha|].
        split; [exact Hm|]. right. split; [exact Hne | reflexivity].
      + (* first line feed: enter the Subexpression state *)
        unfold LexMaxGen3.arm_max; cbn. intros _. split; [|intros t Ht; discriminate Ht].
        unfold Inv; cbn. split_all; try (intros Hh; discriminate Hh); [|intros Hh; congruence].
        intros _. destruct (Hs0 eq_refl) as (h & r & Hc & Hh & Hr). right.
        exists h, r. rewrite Hc. split; [reflexivity|]. split; assumption.
    - destruct (negb (c =? ch_space) && negb (c =? ch_tab)) eqn:Enb.
      + plain Hn' Hst.
      + assert (Hb : blank_ch c = true) by (ch_cases c).
        unfold LexMaxGen3.arm_max; cbn. intros _. split; [|intros t Ht; discriminate Ht].
        unfold Inv; cbn. rewrite ?Hst. split_all; try (intros Hh; discriminate Hh).
        * intros _ Hcs. apply sp0_snoc; auto.
        * intros _ Hcs. destruct (Hs1 Hcs) as (a & m & Hc & Ha & Hm & Hne).
          exists a, (m ++ [c]). rewrite Hc, <- app_assoc. split; [reflexivity|]. split; [exact Ha|].
          split; [apply forallb_snoc; assumption|]. destruct m; discriminate.
        * intros _. exact Hn'.
  Qed.

  Lemma arm_Subexpression_max : forall l c, WF l -> Inv l -> result l = None -> st l = SSubexpression -> arm_max l c (run_arm l c).
  Proof.
    intros l c Hwf (Hs0 & Hs1 & Hsub & Hn & Hnt) Hres Hst.
    specialize (Hsub Hst).
    unfold Lexer.run_arm. rewrite Hst. unfold arm_subexpression.
    destruct (is_ascii_whitespace c && negb ((c =? ch_tab) || (c =? ch_space))) eqn:Ebrk.
    - (* LF, FF or CR: Subexpression *)
      assert (Hb : break_ch c = true) by (ch_cases c).
      unfold LexMaxGen3.arm_max; cbn.
      split; [intros Hf; discriminate Hf | intros _ nx].
      unfold TM. intros _. exists (cur l), [], c. cbn [app]. split; [reflexivity|]. split; [exact Hsub|].
      split; [reflexivity|]. left. split; [reflexivity | exact Hb].
    - destruct ((c =? ch_tab) || (c =? ch_space)) eqn:Ebl.
      + assert (Hb : blank_ch c = true) by (ch_cases c).
        unfold LexMaxGen3.arm_max; cbn. intros _. split; [|intros t Ht; discriminate Ht].
        unfold Inv; cbn. split_all; try (intros Hh; discriminate Hh).
        * intros _ Hh. discriminate Hh.
        * intros _ _. exists (cur l), [c]. split; [reflexivity|]. split; [exact Hsub|].
          split; [cbn; rewrite Hb; reflexivity | discriminate].
        * intros _. discriminate.
      + unfold LexMaxGen3.arm_max; cbn.
        split; [intros _ nx _ | intros _ nx]; unfold TM; intros Hty; discriminate Hty.
  Qed.

  Lemma Inv_arm : forall l c, WF l -> Inv l -> result l = None -> arm_max l c (run_arm l c).
  Proof.
    intros l c Hwf Hinv Hres. destruct (st l) eqn:Hst.
    - unfold Lexer.run_arm. rewrite Hst. unfold LexMaxGen3.arm_max. intros Hr.
      split; [|intros t Ht; discriminate Ht].
      apply Inv_start; [|exact Hr]. destruct Hinv as (_ & _ & _ & _ & Hnt). exact (Hnt Hst).
    - apply arm_Operator_max; auto.
    - apply arm_Spaces_max; auto.
    - apply arm_Subexpression_max; auto.
    - apply arm_Number_max; auto.
    - apply arm_Float_max; auto.
    - apply arm_Identifier_max; auto.
    - apply arm_Annotation_max; auto.
    - apply arm_LineAnnotation_max; auto.
    - apply arm_CharList_max; auto.
    - apply arm_StartCharList_max; auto.
    - apply arm_ByteList_max; auto.
    - apply arm_StartByteList_max; auto.
  Qed.

  Theorem lex_tokens_TM_sub : forall s ts,
    lex un ua s = Ok ts ->
    forall pre t post, ts = pre ++ t :: post ->
      TM (Some (tok_type t)) (tok_text t) (hd_error (texts post)).
  Proof. exact (lex_tokens_max un ua Inv TM Inv_ext Inv_idle Inv_start Inv_arm). Qed.
End Sub.

(* ------------------------------------------------- readable forms *)
Theorem lex_subexpression_text : forall un ua s ts,
  lex un ua s = Ok ts ->
  forall pre t post, ts = pre ++ t :: post -> tok_type t = TT_Subexpression ->
    exists a m z, tok_text t = a ++ m ++ [z] /\
      ((exists c0, a = [c0] /\ lf_ff c0 = true) \/
       (exists h r, a = h :: r ++ [10] /\ sp_head_ch h = true /\ forallb blank_ch r = true)) /\
      forallb blank_ch m = true /\
      ((m = [] /\ break_ch z = true) \/ (m <> [] /\ z = 10)).
Proof.
  intros un ua s ts H pre t post E Hty.
  exact (lex_tokens_TM_sub un ua s ts H pre t post E (f_equal Some Hty)).
Qed.

Lemma forallb_blank_ws : forall m, forallb blank_ch m = true -> forallb is_ascii_whitespace m = true.
Proof.
  induction m as [|x m IH]; intros H; [reflexivity|]. cbn [forallb] in *.
  apply andb_true_iff in H as [H1 H2]. rewrite (IH H2), andb_true_r. ch_cases x.
Qed.

Lemma forallb_blank_nobreak : forall m, forallb blank_ch m = true -> filter break_ch m = [].
Proof.
  induction m as [|x m IH]; intros H; [reflexivity|]. cbn [forallb filter] in *.
  apply andb_true_iff in H as [H1 H2]. rewrite (IH H2).
  unfold blank_ch in H1. apply orb_true_iff in H1 as [H1|H1]; apply N.eqb_eq in H1; subst x; reflexivity.
Qed.

(* consequences: only ASCII whitespace, and exactly two of its characters are line-break
   characters (line feed, form feed, carriage return) unless it starts with a carriage
   return, which adds a third *)
Theorem lex_subexpression_whitespace : forall un ua s ts,
  lex un ua s = Ok ts ->
  forall pre t post, ts = pre ++ t :: post -> tok_type t = TT_Subexpression ->
    forallb is_ascii_whitespace (tok_text t) = true /\
    (2 <= length (filter break_ch (tok_text t)) <= 3)%nat.
Proof.
  intros un ua s ts H pre t post E Hty.
  destruct (lex_subexpression_text un ua s ts H pre t post E Hty) as (a & m & z & Ht & Ha & Hm & Hz).
  rewrite Ht. rewrite !forallb_app, !filter_app, !app_length.
  rewrite (forallb_blank_ws m Hm), (forallb_blank_nobreak m Hm).
  assert (Hzb : break_ch z = true) by (destruct Hz as [[_ Hz]|[_ ->]]; [exact Hz | reflexivity]).
  assert (Hzw : is_ascii_whitespace z = true) by (clear - Hzb; ch_cases z).
  cbn [forallb filter length]. rewrite Hzb, Hzw. cbn [length andb].
  destruct Ha as [(c0 & -> & Hc0)|(h & r & -> & Hh & Hr)].
  - cbn [forallb filter]. replace (break_ch c0) with true by (clear - Hc0; ch_cases c0).
    replace (is_ascii_whitespace c0) with true by (clear - Hc0; ch_cases c0). cbn. split; [reflexivity | lia].
  - cbn [forallb filter]. rewrite forallb_app, filter_app, (forallb_blank_ws r Hr), (forallb_blank_nobreak r Hr).
    replace (is_ascii_whitespace h) with true by (clear - Hh; ch_cases h).
    cbn. split; [reflexivity|]. destruct (break_ch h); cbn; lia.
Qed.
