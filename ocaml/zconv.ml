(* Shared conversions between OCaml strings/ints and the extracted Coq
   numeric datatypes (positive / n / z).  This text is placed after
   "open <X>_model" in every driver, so it refers to that module's
   constructors.  Numbers cross the boundary in hexadecimal
   (sign + magnitude) so that 64-bit patterns and larger values need no
   bignum library. *)
let hex_digit c =
  match c with
  | '0'..'9' -> Char.code c - 48
  | 'a'..'f' -> Char.code c - 87
  | 'A'..'F' -> Char.code c - 55
  | _ -> failwith ("bad hex digit " ^ String.make 1 c)

(* bits, most significant first *)
let bits_of_hex (s : string) : bool list =
  let acc = ref [] in
  String.iter (fun c ->
    let d = hex_digit c in
    acc := (d land 1 <> 0) :: (d land 2 <> 0) :: (d land 4 <> 0) :: (d land 8 <> 0) :: !acc) s;
  List.rev !acc

let rec drop_zeros = function false :: r -> drop_zeros r | l -> l

let pos_of_bits (bits : bool list) : positive option =
  match drop_zeros bits with
  | [] -> None
  | _ :: rest -> Some (List.fold_left (fun p b -> if b then XI p else XO p) XH rest)

let z_of_hex (s : string) : z =
  let neg, body =
    if String.length s > 0 && s.[0] = '-' then true, String.sub s 1 (String.length s - 1) else false, s in
  match pos_of_bits (bits_of_hex body) with
  | None -> Z0
  | Some p -> if neg then Zneg p else Zpos p

let n_of_hex (s : string) : n =
  match pos_of_bits (bits_of_hex s) with None -> N0 | Some p -> Npos p

(* least significant bit first *)
let rec bits_of_pos (p : positive) : bool list =
  match p with XH -> [true] | XO q -> false :: bits_of_pos q | XI q -> true :: bits_of_pos q

let hex_of_bits_lsb (bits : bool list) : string =
  let rec go bits acc =
    match bits with
    | [] -> acc
    | _ ->
      let take k l = (match l with [] -> false, [] | b :: r -> ignore k; b, r) in
      let b0, r = take 0 bits in let b1, r = take 1 r in let b2, r = take 2 r in let b3, r = take 3 r in
      let d = (if b0 then 1 else 0) + (if b1 then 2 else 0) + (if b2 then 4 else 0) + (if b3 then 8 else 0) in
      go r (String.make 1 "0123456789abcdef".[d] ^ acc) in
  let s = go bits "" in if s = "" then "0" else s

let hex_of_pos p = hex_of_bits_lsb (bits_of_pos p)
let hex_of_z (v : z) : string =
  match v with Z0 -> "0" | Zpos p -> hex_of_pos p | Zneg p -> "-" ^ hex_of_pos p
let hex_of_n (v : n) : string = match v with N0 -> "0" | Npos p -> hex_of_pos p

let z_of_int (i : int) : z = z_of_hex (if i < 0 then Printf.sprintf "-%x" (- i) else Printf.sprintf "%x" i)
let n_of_int (i : int) : n = n_of_hex (Printf.sprintf "%x" i)
let rec int_of_pos (p : positive) : int =
  match p with XH -> 1 | XO q -> 2 * int_of_pos q | XI q -> 2 * int_of_pos q + 1
let int_of_z (v : z) : int = match v with Z0 -> 0 | Zpos p -> int_of_pos p | Zneg p -> - (int_of_pos p)
let int_of_n (v : n) : int = match v with N0 -> 0 | Npos p -> int_of_pos p

let split_on (c : char) (s : string) : string list = String.split_on_char c s

let iter_lines (f : string -> unit) : unit =
  (try while true do f (input_line stdin) done with End_of_file -> ());
  flush stdout
