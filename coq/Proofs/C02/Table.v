(* (a) the tables the translator extracts from the current parser.rs order every
   pair of definitions exactly as the pinned reference table does, and classify
   every token type the same way. Finite domains: vm_compute proofs. *)
From Coq Require Import List Arith Bool NArith.
From GV Require Import Gen.TokenTypes Gen.Defs Spec.RefTable.
Import ListNotations.
Local Open Scope N_scope.

Definition cmp_opt (a b : option N) : option comparison :=
  match a, b with
  | Some x, Some y => Some (N.compare x y)
  | None, None => None
  | _, _ => Some Eq    (* one registered, one not: treated as a disagreement below *)
  end.

Definition same_registered (d : definition) : bool :=
  match priority d, ref_rank d with
  | Some _, Some _ | None, None => true
  | _, _ => false
  end.

Definition comparison_eqb (a b : comparison) : bool :=
  match a, b with Eq, Eq | Lt, Lt | Gt, Gt => true | _, _ => false end.

Definition pair_agrees (d1 d2 : definition) : bool :=
  match priority d1, priority d2, ref_rank d1, ref_rank d2 with
  | Some a, Some b, Some x, Some y => comparison_eqb (N.compare a b) (N.compare x y)
  | _, _, _, _ => true
  end.

Lemma registered_agree_all : forallb same_registered all_definition = true.
Proof. vm_compute. reflexivity. Qed.

Lemma pairs_agree_all :
  forallb (fun d1 => forallb (pair_agrees d1) all_definition) all_definition = true.
Proof. vm_compute. reflexivity. Qed.

Lemma all_definition_complete (d : definition) : In d all_definition.
Proof. destruct d; vm_compute; tauto. Qed.

Theorem table_order_agrees (d1 d2 : definition) a b x y :
  priority d1 = Some a -> priority d2 = Some b -> ref_rank d1 = Some x -> ref_rank d2 = Some y ->
  N.compare a b = N.compare x y.
Proof.
  intros Ha Hb Hx Hy. pose proof pairs_agree_all as F. rewrite forallb_forall in F.
  specialize (F d1 (all_definition_complete d1)). rewrite forallb_forall in F.
  specialize (F d2 (all_definition_complete d2)). unfold pair_agrees in F.
  rewrite Ha, Hb, Hx, Hy in F.
  destruct (a ?= b), (x ?= y); simpl in F; congruence.
Qed.

Theorem table_same_domain (d : definition) :
  (exists a, priority d = Some a) <-> (exists x, ref_rank d = Some x).
Proof.
  pose proof registered_agree_all as F. rewrite forallb_forall in F.
  specialize (F d (all_definition_complete d)). unfold same_registered in F.
  destruct (priority d), (ref_rank d); try discriminate; split; intros [v H]; eauto; discriminate.
Qed.

(* token classification: definition and associativity class *)
Definition kind_of_secondary (s : secondary) : tok_kind :=
  match s with
  | S_Value | S_Identifier => KValue
  | S_BinaryLeftToRight | S_BinaryRightToLeft | S_OptionalBinaryLeftToRight | S_Subexpression => KBinary
  | S_UnaryPrefix => KPrefix
  | S_UnarySuffix => KSuffix
  | S_Whitespace => KSpace
  | _ => KOther
  end.

Definition tok_kind_eqb (a b : tok_kind) : bool :=
  match a, b with
  | KValue, KValue | KBinary, KBinary | KPrefix, KPrefix | KSuffix, KSuffix
  | KSpace, KSpace | KOther, KOther => true
  | KOpen x, KOpen y | KClose x, KClose y => bkind_eqb x y
  | _, _ => false
  end.

Definition token_agrees (t : token_type) : bool :=
  let '(d, s) := get_definition t in
  definition_eqb d (ref_def t) &&
  (* right-to-left exactly for the pinned set *)
  Bool.eqb (secondary_eqb s S_BinaryRightToLeft) (ref_rtl d && tok_kind_eqb (ref_kind t) KBinary) &&
  match ref_kind t with
  | KOpen b => secondary_eqb s S_StartGrouping && definition_eqb d (bdef b)
  | KClose _ => secondary_eqb s S_EndGrouping
  | KOther => true
  | k => tok_kind_eqb (kind_of_secondary s) k
  end.

Lemma tokens_agree_all : forallb token_agrees all_token_type = true.
Proof. vm_compute. reflexivity. Qed.
