"""Shared machinery for the per-property checks (see DESIGN.md section 6).

A check does, in order: sync (translator) -> prove (make + hygiene + Print
Assumptions allow-list) -> correspond (model vs implementation) -> direct
(property oracle vs implementation) -> decide -> evidence.
"""
import fcntl, hashlib, json, os, random, re, subprocess, sys, time

VERIF = "/verif"
REPO = "/repo"
COQ = os.path.join(VERIF, "coq")
BUILD = os.path.join(VERIF, "build")
OCAML_BUILD = os.path.join(BUILD, "ocaml")
CARGO_TARGET = os.path.join(BUILD, "cargo")
HARNESS = os.path.join(VERIF, "harness")
EVIDENCE = os.path.join(VERIF, "evidence")
REPLAYS = os.path.join(VERIF, "replays")
CASES = os.path.join(BUILD, "cases")
GUARD = "garnish_core_verif"

ALLOWED_AXIOMS = {
    # Flocq / Reals (standard library axioms, named in DESIGN.md section 9)
    "ClassicalDedekindReals.sig_not_dec",
    "ClassicalDedekindReals.sig_forall_dec",
    "FunctionalExtensionality.functional_extensionality_dep",
    "Classical_Prop.classic",
}
FORBIDDEN = re.compile(
    r"\b(Admitted|admit|Axiom|Axioms|Parameter|Parameters|Conjecture|Conjectures|Abort All)\b|"
    r"Unset\s+Guard|Unset\s+Positivity|Unset\s+Universe|bypass_check|type-in-type|impredicative-set|"
    r"Admit\s+Obligations")


def log(*a):
    print("[vp]", *a, file=sys.stderr, flush=True)


def sh(cmd, cwd=None, timeout=None, env=None, input=None):
    """Run a command; returns (rc, stdout+stderr). rc=124 on timeout."""
    e = dict(os.environ)
    e["CARGO_NET_OFFLINE"] = "true"
    if env:
        e.update(env)
    try:
        p = subprocess.run(cmd, cwd=cwd, env=e, input=input, stdout=subprocess.PIPE,
                           stderr=subprocess.STDOUT, text=True, timeout=timeout,
                           shell=isinstance(cmd, str))
        return p.returncode, p.stdout
    except subprocess.TimeoutExpired as ex:
        out = ex.stdout or ""
        if isinstance(out, bytes):
            out = out.decode("utf-8", "replace")
        return 124, out + "\n[timeout]"


class Lock:
    def __init__(self, name="build"):
        os.makedirs(BUILD, exist_ok=True)
        self.path = os.path.join(BUILD, "." + name + ".lock")

    def __enter__(self):
        self.f = open(self.path, "w")
        fcntl.flock(self.f, fcntl.LOCK_EX)
        return self

    def __exit__(self, *a):
        fcntl.flock(self.f, fcntl.LOCK_UN)
        self.f.close()


# ------------------------------------------------------------- translator
def sync(names=None):
    """Step 1 of a check: regenerate coq/Gen/*.v from /repo. Returns {"changed":[], "errors":{}}."""
    import sync_tables
    with Lock("coq"):
        return sync_tables.run(names)


SYNC_OUTPUTS = {   # translator module -> the Gen file it writes (what a proof cone can depend on)
    "instr": "Gen/Instr.v", "tokentypes": "Gen/TokenTypes.v", "defs": "Gen/Defs.v", "tokens": "Gen/Tokens.v",
    "dispatch": "Gen/Dispatch.v", "dispatch_strict": "Gen/Dispatch.v", "truth": "Gen/Truth.v", "execmap": "Gen/Exec.v",
    "cmptable": "Gen/CmpTable.v", "eqtable": "Gen/EqTable.v", "storecells": "Gen/StoreCells.v",
    "panicsites": "Gen/PanicSites.v",
}


def sync_cone(targets):
    """Regenerate every table, but report translator errors only for the tables the given .vo targets
    depend on (so that a table this property does not use cannot break its tie)."""
    r = sync()
    cone = dependency_cone(targets)
    if cone is None:
        return r
    cone = set(cone)
    keep = {}
    for name, err in r["errors"].items():
        out = SYNC_OUTPUTS.get(name)
        if out is None or out in cone:
            keep[name] = err
    return {"changed": r["changed"], "errors": keep, "ignored_errors": {k: v for k, v in r["errors"].items() if k not in keep}}


# ----------------------------------------------------------------- coq side
def coq_makefile():
    import gen_coqproject
    gen_coqproject.main()
    mk = os.path.join(COQ, "Makefile")
    proj = os.path.join(COQ, "_CoqProject")
    if not os.path.exists(mk) or os.path.getmtime(mk) < os.path.getmtime(proj):
        rc, out = sh(["coq_makefile", "-f", "_CoqProject", "-o", "Makefile"], cwd=COQ, timeout=120)
        if rc != 0:
            raise RuntimeError("coq_makefile failed: " + out)


def coq_make(targets, timeout=1500):
    """Full .vo build of the given targets (relative to coq/). Returns (ok, log)."""
    os.makedirs(OCAML_BUILD, exist_ok=True)
    with Lock("coq"):
        coq_makefile()
        rc, out = sh(["make", "-j16"] + list(targets), cwd=COQ, timeout=timeout)
    return rc == 0, out


def coq_property_file(pid, timeout=900):
    """Re-run coqc on Properties/<pid>.v to capture Print Assumptions output.
    Returns (ok, output)."""
    with Lock("coq"):
        rc, out = sh(["coqc", "-q", "-Q", ".", "GV", "Properties/%s.v" % pid], cwd=COQ, timeout=timeout)
    return rc == 0, out


def parse_assumptions(out):
    """Return (set of axiom names, number of 'Closed under the global context')."""
    names = set()
    closed = len(re.findall(r"Closed under the global context", out))
    in_ax = False
    for line in out.splitlines():
        if line.startswith("Axioms:"):
            in_ax = True
            continue
        if in_ax:
            m = re.match(r"^([A-Za-z_][\w.']*)\s*(:|$)", line)
            if m:
                names.add(m.group(1))
            elif line and not line.startswith(" "):
                in_ax = False
    return names, closed


def dependency_cone(targets):
    """.v files (relative to coq/) that the given .vo targets depend on, from coq_makefile's .Makefile.d;
    None if it cannot be determined."""
    dep = os.path.join(COQ, ".Makefile.d")
    if not os.path.exists(dep):
        return None
    graph = {}
    for line in open(dep).read().replace("\\\n", " ").splitlines():
        if ":" not in line:
            continue
        lhs, rhs = line.split(":", 1)
        outs = [x for x in lhs.split() if x.endswith(".vo")]
        deps = [x for x in rhs.split() if x.endswith(".vo") and not x.startswith("/")]
        for o in outs:
            graph.setdefault(o, set()).update(deps)
    seen, todo = set(), [t for t in targets]
    while todo:
        t = todo.pop()
        if t in seen:
            continue
        seen.add(t)
        todo += list(graph.get(t, ()))
    return sorted(x[:-1] for x in seen)   # .vo -> .v


def hygiene(targets=None):
    """grep the development (the dependency cone of [targets] when given, else everything) for
    forbidden vernacular. Returns list of hits."""
    hits = []
    files = None
    if targets:
        cone = dependency_cone(targets)
        if cone:
            files = [os.path.join(COQ, f) for f in cone if os.path.exists(os.path.join(COQ, f))]
    if files is None:
        files = []
        for root, _, fs in os.walk(COQ):
            files += [os.path.join(root, fn) for fn in fs if fn.endswith(".v")]
    for p in files:
        txt = open(p, encoding="utf-8").read()
        txt_nc = strip_coq_comments(txt)
        for i, line in enumerate(txt_nc.splitlines(), 1):
            if FORBIDDEN.search(line):
                hits.append("%s:%d: %s" % (os.path.relpath(p, VERIF), i, line.strip()))
    proj = open(os.path.join(COQ, "_CoqProject")).read()
    if re.search(r"type-in-type|impredicative-set|-vos|-vok", proj):
        hits.append("_CoqProject: forbidden flag")
    return hits


def strip_coq_comments(s):
    out, depth, i, n = [], 0, 0, len(s)
    while i < n:
        if s.startswith("(*", i):
            depth += 1
            i += 2
        elif s.startswith("*)", i) and depth > 0:
            depth -= 1
            i += 2
        else:
            if depth == 0:
                out.append(s[i])
            elif s[i] == "\n":
                out.append("\n")
            i += 1
    return "".join(out)


def theorem_inventory(pid, proof_dirs):
    """Names of the theorems in Properties/<pid>.v and lemmas in the proof dirs."""
    props, lemmas = [], []
    pf = os.path.join(COQ, "Properties", pid + ".v")
    if os.path.exists(pf):
        props = re.findall(r"^\s*(?:Theorem|Example|Corollary)\s+(\w+)", strip_coq_comments(open(pf).read()), re.M)
    for d in proof_dirs:
        dd = os.path.join(COQ, d)
        paths = []
        if os.path.isdir(dd):
            for root, _, files in os.walk(dd):
                paths += [os.path.join(root, f) for f in files if f.endswith(".v")]
        elif os.path.exists(dd):
            paths = [dd]
        for p in paths:
            lemmas += re.findall(r"^\s*(?:Theorem|Lemma|Example|Corollary|Fact|Remark|Proposition)\s+(\w+)",
                                 strip_coq_comments(open(p).read()), re.M)
    return props, lemmas


def prove(pid, proof_dirs, extra_targets=(), timeout=1500):
    """Step 2 of a check. Returns dict(ok, failures[], props[], lemmas[], axioms[], log)."""
    res = {"ok": True, "failures": [], "axioms": [], "log": ""}
    t0 = time.time()
    targets = ["Properties/%s.vo" % pid] + list(extra_targets)
    ok, out = coq_make(targets, timeout=timeout)
    res["log"] = out[-6000:]
    props, lemmas = theorem_inventory(pid, proof_dirs)
    res["props"], res["lemmas"] = props, lemmas
    if not ok:
        res["ok"] = False
        m = re.search(r'File "\./([^"]+)", line (\d+)', out)
        where = "%s:%s" % (m.group(1), m.group(2)) if m else "make"
        err = out.strip().splitlines()[-12:]
        res["failures"].append("coq build failed at %s: %s" % (where, " | ".join(l.strip() for l in err if l.strip())[:600]))
        res["wall_s"] = time.time() - t0
        return res
    ok2, out2 = coq_property_file(pid)
    if not ok2:
        res["ok"] = False
        res["failures"].append("coqc Properties/%s.v failed: %s" % (pid, out2[-400:]))
    axioms, closed = parse_assumptions(out2)
    res["axioms"] = sorted(axioms)
    bad = axioms - ALLOWED_AXIOMS
    if bad:
        res["ok"] = False
        res["failures"].append("axioms outside the allow-list: " + ", ".join(sorted(bad)))
    n_print = len(re.findall(r"^\s*Print Assumptions", open(os.path.join(COQ, "Properties", pid + ".v")).read(), re.M))
    n_seen = closed + len(re.findall(r"^Axioms:", out2, re.M))
    if n_seen < n_print:
        res["ok"] = False
        res["failures"].append("Print Assumptions output incomplete (%d of %d)" % (n_seen, n_print))
    hits = hygiene(targets)
    if hits:
        res["ok"] = False
        res["failures"].append("hygiene: " + "; ".join(hits[:5]))
    res["wall_s"] = time.time() - t0
    return res


# ------------------------------------------------------------ build of runners
def cargo_build(profile="debug", timeout=900, bins=None):
    """Build harness binaries from /repo's current tree (hooks on). Pass bins=["name", ...]
    to build only those (so that somebody else's half-written binary cannot break you)."""
    args = ["cargo", "build", "--offline"]
    if bins:
        for b in bins:
            args += ["--bin", b]
    else:
        args.append("--bins")
    if profile == "release":
        args.append("--release")
    with Lock("cargo"):
        rc, out = sh(args, cwd=HARNESS, timeout=timeout,
                     env={"RUSTFLAGS": "--cfg " + GUARD})
    return rc == 0, out


def harness_bin(name, profile="debug"):
    return os.path.join(CARGO_TARGET, profile, name)


def private_copy(path):
    """Copy an executable to a private name so that a concurrent rebuild cannot replace it mid-run."""
    import shutil, tempfile
    d = os.path.join(BUILD, "priv")
    os.makedirs(d, exist_ok=True)
    fd, dst = tempfile.mkstemp(prefix=os.path.basename(path) + ".", dir=d)
    os.close(fd)
    shutil.copy2(path, dst)
    os.chmod(dst, 0o755)
    return dst


def ocaml_build(component, timeout=600):
    """Build the extracted model + driver for a component (needs Extract/<C>Extract.vo built)."""
    with Lock("ocaml"):
        rc, out = sh([os.path.join(VERIF, "tools", "build_ocaml.sh"), component], timeout=timeout)
    return rc == 0, out


def run_lines(cmd, text, timeout=600):
    """Feed text to a line filter; returns (rc, lines)."""
    rc, out = sh(cmd, input=text, timeout=timeout)
    return rc, out.splitlines()


# ----------------------------------------------------------------- findings
def load_findings():
    p = os.path.join(VERIF, "known_findings.json")
    if not os.path.exists(p):
        return {"findings": [], "fixed": []}
    return json.load(open(p))


def findings_for(pid):
    return [f for f in load_findings().get("findings", []) if f.get("property") == pid]


# ------------------------------------------------------------------ verdicts
class Verdict:
    """Collects what a check saw and turns it into exit code / lines / evidence."""

    def __init__(self, pid, tier, seed):
        self.pid, self.tier, self.seed = pid, tier, seed
        self.t0 = time.time()
        self.violations = []      # dicts: {what, input, impl, expected, model, component}
        self.known = {}           # finding id -> list of witnesses seen
        self.tie_failures = []    # strings: proof / sync / correspondence failures
        self.coverage = {}
        self.assumptions = []
        self.notes = []

    def violation(self, **kw):
        self.violations.append(kw)

    def known_hit(self, fid, witness):
        self.known.setdefault(fid, []).append(witness)

    def tie_failure(self, s):
        self.tie_failures.append(s)

    def finish(self, level="proof"):
        os.makedirs(EVIDENCE, exist_ok=True)
        listed = {f["id"]: f for f in findings_for(self.pid)}
        lines = []
        for fid, ws in sorted(self.known.items()):
            f = listed.get(fid, {})
            lines.append("KNOWN-FINDING: property=%s %s %s (witness: %s)" % (
                self.pid, fid, f.get("what", ""), ws[0]))
        rc = 0
        if self.violations:
            rc = 1
            v = self.violations[0]
            path = self.write_replay({"kind": "failing-input", "property": self.pid, "violations": self.violations[:20],
                                      "tie_failures": self.tie_failures, "seed": self.seed, "tier": self.tier,
                                      "how_to_rerun": "python3 tools/vp.py replay <this file>"})
            lines.append("VIOLATION property=%s replay=%s" % (self.pid, path))
        elif self.tie_failures:
            rc = 1
            path = self.write_replay({"kind": "tie-broken", "property": self.pid,
                                      "no_longer_checks": self.tie_failures, "seed": self.seed, "tier": self.tier,
                                      "note": "a proof obligation, the translator or the model/implementation "
                                              "correspondence no longer checks and the directed search found no input "
                                              "on which the property itself fails"})
            lines.append("VIOLATION property=%s replay=%s no-failing-input-found" % (self.pid, path))
        cov = dict(self.coverage)
        ev = {
            "property_id": self.pid, "tier": self.tier, "seed": int(self.seed), "level": level,
            "coverage": cov, "assumptions": self.assumptions, "wall_s": round(time.time() - self.t0, 2),
            "violations": len(self.violations) + (1 if (self.tie_failures and not self.violations) else 0),
            "known_findings_reconfirmed": sorted(self.known.keys()),
            "tie_failures": self.tie_failures, "notes": self.notes,
        }
        with open(os.path.join(EVIDENCE, self.pid + ".json"), "w") as f:
            json.dump(ev, f, indent=1, sort_keys=True)
        for l in lines:
            print(l, flush=True)
        if rc == 0:
            print("OK property=%s tier=%s wall=%.1fs" % (self.pid, self.tier, time.time() - self.t0), flush=True)
        return rc

    def write_replay(self, obj):
        d = os.path.join(REPLAYS, self.pid)
        os.makedirs(d, exist_ok=True)
        blob = json.dumps(obj, indent=1, sort_keys=True, default=str)
        h = hashlib.sha256(blob.encode()).hexdigest()[:12]
        p = os.path.join(d, h + ".json")
        with open(p, "w") as f:
            f.write(blob)
        return p


def proof_coverage(pr, checker_cmd, trusted_base):
    """coverage keys for a proof-level claim from the result of prove()."""
    n = len(pr.get("props", [])) + len(pr.get("lemmas", []))
    return {
        "obligations": n,
        "discharged": n if pr["ok"] or not any("coq build failed" in f for f in pr["failures"]) else 0,
        "checker_cmd": checker_cmd,
        "trusted_base": trusted_base,
        "property_theorems": pr.get("props", []),
        "axioms_reported_by_Print_Assumptions": pr.get("axioms", []),
        "prove_wall_s": round(pr.get("wall_s", 0), 1),
    }


BASE_TRUSTED = [
    "Coq 8.16.1 kernel (coqc; vm_compute used for finite/witness proofs; native_compute not used)",
    "translator tools/sync_tables.py (tables regenerated from /repo on every run)",
    "extraction with ExtrOcamlBasic only (bool, option, unit, list, prod, sumbool, sumor; no Extract Constant); OCaml 4.13.1",
    "hand-written OCaml drivers ocaml/*_driver.ml and ocaml/zconv.ml",
    "Rust harness /verif/harness (path dependencies on /repo, built with --cfg garnish_core_verif) and tools/*.py",
    "rustc/std semantics of the primitives the model takes as documented (overflowing_*, checked_sh*, f64 ops = IEEE-754 binary64)",
]


def rng_for(seed, salt):
    return random.Random("%s/%s" % (seed, salt))
