(* C18  Layout that carries no meaning does not change the result.
   Only statements, [exact] and [Print Assumptions] live here. *)
From Coq Require Import List Arith Bool NArith.
From GV Require Import Base.Result Gen.TokenTypes Gen.Defs Model.Parser Spec.Layout
  Proofs.C03.Bounded4 Proofs.C18.Bounded.
Import ListNotations.

(* The parser model takes a list of token TYPES: the text of a whitespace run, of an
   annotation or of any other token cannot influence the tree (the real parser is
   compared with this model node-for-node on every run). *)

(* Token level, every sequence of at most three non-trivia tokens over the
   representative alphabet that does not begin or end with a separator:
   - putting an annotation into a gap (with or without surrounding whitespace) changes
     neither acceptance nor the tree;
   - any two whitespace spellings of the gaps that are both accepted give the same tree;
   - parentheses around a complete operand (no separator, no side-effect bracket) change
     the tree only by group nodes. *)
Theorem C18_layout_transparent_bounded_3_rep : forall s : list token_type,
  length s <= 3 -> (forall t, In t s -> In t plain_alphabet) -> fragment s = true ->
  annotation_ok s = true /\ whitespace_ok s = true /\
  (existsb not_operand_tok s = false -> paren_ok s = true).
Proof. exact layout_transparent_bounded_3_rep. Qed.
Print Assumptions C18_layout_transparent_bounded_3_rep.

(* full statement (unbounded; not proved): *)
Definition C18_full_statement : Prop :=
  forall s : list token_type, fragment s = true ->
    annotation_ok s = true /\ whitespace_ok s = true /\
    (existsb not_operand_tok s = false -> paren_ok s = true).

(* non-vacuity: the three clauses say something on a real expression, and the tree
   comparison does distinguish different trees *)
Example C18_ex :
  annotation_ok [TT_Number; TT_PlusSign; TT_Number] = true /\
  parse_tree [TT_Number; TT_Whitespace; TT_Annotation; TT_Whitespace; TT_PlusSign; TT_Number]
    = parse_tree [TT_Number; TT_PlusSign; TT_Number] /\
  parse_tree [TT_Number; TT_PlusSign; TT_Number] <> None /\
  opt_gtree_eqb (parse_tree [TT_Number; TT_PlusSign; TT_Number])
                (parse_tree [TT_Number; TT_MultiplicationSign; TT_Number]) = false.
Proof. vm_compute. repeat split; try reflexivity; discriminate. Qed.
