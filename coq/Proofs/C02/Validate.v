(* completeness of validate_tree on a node array that is a tree with indices in token
   order: the depth-first check marks exactly the nodes of the tree, never meets a
   marked node, and finishes within the fuel parse() gives it. *)
From Coq Require Import List Arith Bool NArith Lia.
From GV Require Import Base.Result Gen.TokenTypes Gen.Defs Model.Parser Spec.RefTable Spec.Pratt Spec.Chains
  Proofs.C02.Denote.
Import ListNotations.

Lemma visit_child_some ns v stk i k cn :
  nth_error ns k = Some cn -> n_parent cn = Some i -> nth_error v k = Some false ->
  exists v', visit_child ns v stk i (Some k) = Ok (v', k :: stk) /\ upd v k (fun _ => true) = Some v'.
Proof.
  intros Hn Hp Hv. unfold visit_child. rewrite Hn, Hv, Hp, opt_nat_eqb_refl.
  destruct (upd_some v k (fun _ => true) (nth_error_lt _ _ _ Hv)) as [v' E]. rewrite E.
  exists v'. split; reflexivity.
Qed.

Lemma visit_child_none ns v stk i : visit_child ns v stk i None = Ok (v, stk).
Proof. reflexivity. Qed.

Definition marks (v v' : list bool) (t : ntree) : Prop :=
  length v' = length v /\
  (forall j, has_id t j -> nth_error v' j = Some true) /\
  (forall j, ~ has_id t j -> nth_error v' j = nth_error v j).

Lemma validate_go_tree ns : forall t p, denotes ns p t -> ordered t ->
  forall fuel v stk,
    nth_error v (nid t) = Some true ->
    (forall j, has_id t j -> j <> nid t -> nth_error v j = Some false) ->
    exists v', validate_go (size t + fuel) ns v (nid t :: stk) = validate_go fuel ns v' stk /\ marks v v' t.
Proof.
  induction t as [i d k|i d k a IH|i d k a IH|i d k l IHl r IHr|b i k a IH]; intros p D O fuel v stk Hroot Hfalse;
    simpl in D; destruct D as (n & Hn & A); cbn [nid size] in *.
  - destruct A as (A1 & A2 & A3 & A4 & A5 & A6 & A7).
    exists v. split.
    + cbn [plus validate_go]. rewrite Hn, A5, A6. rewrite !visit_child_none. reflexivity.
    + split; [reflexivity|]. split; [|reflexivity]. intros j Hj. simpl in Hj. subst j. exact Hroot.
  - (* prefix: one child, to the right *)
    destruct A as (A1 & A2 & A3 & A4 & A5 & A6 & A7). destruct O as [O1 O2].
    destruct (denotes_root _ _ _ A7) as (cn & Hcn & Hcp).
    pose proof (ordered_lo_hi a O2) as Ba.
    assert (Hva : nth_error v (nid a) = Some false).
    { apply Hfalse; [simpl; right; apply has_id_root|lia]. }
    destruct (visit_child_some ns v stk i (nid a) cn Hcn Hcp Hva) as (v1 & E1 & U1).
    destruct (IH (Some i) A7 O2 fuel v1 stk) as (v2 & E2 & M2 & M3 & M4).
    { eapply upd_same in U1; [exact U1|exact Hva]. }
    { intros j Hj Hne. rewrite (upd_other _ _ _ _ j U1 Hne). apply Hfalse; [simpl; auto|].
      pose proof (ordered_range a j O2 Hj). lia. }
    exists v2. split.
    + cbn [plus validate_go]. rewrite Hn, A4, A5. rewrite visit_child_none. cbn [bind]. rewrite E1. cbn [bind]. exact E2.
    + split; [rewrite M2; eapply upd_len; eauto|]. split.
      * intros j [->|Hj]; [|apply M3; exact Hj].
        rewrite M4; [|intros Hc; pose proof (ordered_range a i O2 Hc); lia].
        rewrite (upd_other _ _ _ _ i U1) by lia. exact Hroot.
      * intros j Hj. simpl in Hj. rewrite M4 by tauto.
        apply (upd_other _ _ _ _ j U1). intros ->. apply Hj. right. apply has_id_root.
  - (* suffix: one child, to the left *)
    destruct A as (A1 & A2 & A3 & A4 & A5 & A6 & A7). destruct O as [O1 O2].
    destruct (denotes_root _ _ _ A7) as (cn & Hcn & Hcp).
    pose proof (ordered_lo_hi a O2) as Ba.
    assert (Hva : nth_error v (nid a) = Some false).
    { apply Hfalse; [simpl; right; apply has_id_root|lia]. }
    destruct (visit_child_some ns v stk i (nid a) cn Hcn Hcp Hva) as (v1 & E1 & U1).
    destruct (IH (Some i) A7 O2 fuel v1 stk) as (v2 & E2 & M2 & M3 & M4).
    { eapply upd_same in U1; [exact U1|exact Hva]. }
    { intros j Hj Hne. rewrite (upd_other _ _ _ _ j U1 Hne). apply Hfalse; [simpl; auto|].
      pose proof (ordered_range a j O2 Hj). lia. }
    exists v2. split.
    + cbn [plus validate_go]. rewrite Hn, A4, A5. rewrite E1. cbn [bind]. rewrite visit_child_none. cbn [bind]. exact E2.
    + split; [rewrite M2; eapply upd_len; eauto|]. split.
      * intros j [->|Hj]; [|apply M3; exact Hj].
        rewrite M4; [|intros Hc; pose proof (ordered_range a i O2 Hc); lia].
        rewrite (upd_other _ _ _ _ i U1) by lia. exact Hroot.
      * intros j Hj. simpl in Hj. rewrite M4 by tauto.
        apply (upd_other _ _ _ _ j U1). intros ->. apply Hj. right. apply has_id_root.
  - (* binary: left pushed first, so the right subtree is checked first *)
    destruct A as (A1 & A2 & A3 & A4 & A5 & A6). destruct O as (O1 & O2 & O3 & O4).
    destruct (denotes_root _ _ _ A5) as (cl & Hcl & Hpl).
    destruct (denotes_root _ _ _ A6) as (cr & Hcr & Hpr).
    pose proof (ordered_lo_hi l O3) as Bl. pose proof (ordered_lo_hi r O4) as Br.
    assert (Hvl : nth_error v (nid l) = Some false).
    { apply Hfalse; [simpl; right; left; apply has_id_root|lia]. }
    assert (Hvr : nth_error v (nid r) = Some false).
    { apply Hfalse; [simpl; right; right; apply has_id_root|lia]. }
    destruct (visit_child_some ns v stk i (nid l) cl Hcl Hpl Hvl) as (v1 & E1 & U1).
    assert (Hvr1 : nth_error v1 (nid r) = Some false).
    { rewrite (upd_other _ _ _ _ (nid r) U1) by lia. exact Hvr. }
    destruct (visit_child_some ns v1 (nid l :: stk) i (nid r) cr Hcr Hpr Hvr1) as (v2 & E2 & U2).
    destruct (IHr (Some i) A6 O4 (size l + fuel) v2 (nid l :: stk)) as (v3 & E3 & M2 & M3 & M4).
    { eapply upd_same in U2; [exact U2|exact Hvr1]. }
    { intros j Hj Hne. pose proof (ordered_range r j O4 Hj).
      rewrite (upd_other _ _ _ _ j U2 Hne), (upd_other _ _ _ _ j U1) by lia.
      apply Hfalse; [simpl; auto|lia]. }
    destruct (IHl (Some i) A5 O3 fuel v3 stk) as (v4 & E4 & N2 & N3 & N4).
    { rewrite M4; [|intros Hc; pose proof (ordered_range r _ O4 Hc); lia].
      rewrite (upd_other _ _ _ _ _ U2) by lia. eapply upd_same in U1; [exact U1|exact Hvl]. }
    { intros j Hj Hne. pose proof (ordered_range l j O3 Hj).
      rewrite M4; [|intros Hc; pose proof (ordered_range r _ O4 Hc); lia].
      rewrite (upd_other _ _ _ _ j U2), (upd_other _ _ _ _ j U1) by lia.
      apply Hfalse; [simpl; auto|lia]. }
    exists v4. split.
    + replace (S (size l + size r) + fuel) with (S (size r + (size l + fuel))) by lia.
      cbn [validate_go]. rewrite Hn, A3, A4. rewrite E1. cbn [bind]. rewrite E2. cbn [bind].
      rewrite E3. exact E4.
    + split; [rewrite N2, M2, (upd_len _ _ _ _ U2), (upd_len _ _ _ _ U1); reflexivity|]. split.
      * intros j [->|[Hj|Hj]].
        -- rewrite N4; [|intros Hc; pose proof (ordered_range l _ O3 Hc); lia].
           rewrite M4; [|intros Hc; pose proof (ordered_range r _ O4 Hc); lia].
           rewrite (upd_other _ _ _ _ _ U2), (upd_other _ _ _ _ _ U1) by lia. exact Hroot.
        -- apply N3. exact Hj.
        -- pose proof (ordered_range r j O4 Hj).
           rewrite N4; [|intros Hc; pose proof (ordered_range l _ O3 Hc); lia]. apply M3. exact Hj.
      * intros j Hj. simpl in Hj. rewrite N4 by tauto. rewrite M4 by tauto.
        rewrite (upd_other _ _ _ _ j U2); [|intros ->; apply Hj; right; right; apply has_id_root].
        apply (upd_other _ _ _ _ j U1). intros ->. apply Hj. right. left. apply has_id_root.
  - (* bracket: one child, to the right *)
    destruct A as (A1 & A2 & A3 & A4 & A5 & A6 & A7). destruct O as [O1 O2].
    destruct (denotes_root _ _ _ A7) as (cn & Hcn & Hcp).
    pose proof (ordered_lo_hi a O2) as Ba.
    assert (Hva : nth_error v (nid a) = Some false).
    { apply Hfalse; [simpl; right; apply has_id_root|lia]. }
    destruct (visit_child_some ns v stk i (nid a) cn Hcn Hcp Hva) as (v1 & E1 & U1).
    destruct (IH (Some i) A7 O2 fuel v1 stk) as (v2 & E2 & M2 & M3 & M4).
    { eapply upd_same in U1; [exact U1|exact Hva]. }
    { intros j Hj Hne. rewrite (upd_other _ _ _ _ j U1 Hne). apply Hfalse; [simpl; auto|].
      pose proof (ordered_range a j O2 Hj). lia. }
    exists v2. split.
    + cbn [plus validate_go]. rewrite Hn, A4, A5. rewrite visit_child_none. cbn [bind]. rewrite E1. cbn [bind]. exact E2.
    + split; [rewrite M2; eapply upd_len; eauto|]. split.
      * intros j [->|Hj]; [|apply M3; exact Hj].
        rewrite M4; [|intros Hc; pose proof (ordered_range a i O2 Hc); lia].
        rewrite (upd_other _ _ _ _ i U1) by lia. exact Hroot.
      * intros j Hj. simpl in Hj. rewrite M4 by tauto.
        apply (upd_other _ _ _ _ j U1). intros ->. apply Hj. right. apply has_id_root.
Qed.

Lemma unvisited_all_true : forall ns v,
  length v = length ns -> (forall j, j < length ns -> nth_error v j = Some true) -> unvisited_ok ns v = true.
Proof.
  induction ns as [|n r IH]; intros v Hl Hall; [reflexivity|].
  destruct v as [|b vr]; [discriminate|]. cbn [unvisited_ok].
  pose proof (Hall 0 ltac:(simpl; lia)) as H0. simpl in H0. injection H0 as ->. cbn [orb andb].
  apply IH; [simpl in Hl; lia|]. intros j Hj. apply (Hall (S j)). simpl. lia.
Qed.

Lemma nth_error_map_false (ns : list pnode) j :
  j < length ns -> nth_error (map (fun _ : pnode => false) ns) j = Some false.
Proof.
  intros H. destruct (nth_error ns j) as [x|] eqn:E; [|apply nth_error_None in E; lia].
  erewrite map_nth_error; eauto.
Qed.

Theorem validate_tree_complete ns t :
  denotes ns None t -> ordered t -> (forall j, j < length ns -> has_id t j) ->
  validate_tree ns (nid t) = Ok tt.
Proof.
  intros D O Cov. unfold validate_tree.
  pose proof (denotes_lt ns None t (nid t) D (has_id_root t)) as Hr.
  destruct (upd_some (map (fun _ : pnode => false) ns) (nid t) (fun _ => true)) as [v0 E0];
    [rewrite map_length; exact Hr|]. rewrite E0.
  pose proof (ordered_size t O) as Hs. pose proof (ordered_lo_hi t O) as Hb.
  pose proof (denotes_lt ns None t (hi t) D) as Hh.
  assert (Hhi : hi t < length ns) by (apply Hh; apply has_id_hi).
  destruct (validate_go_tree ns t None D O (S (S (length ns)) - size t) v0 []) as (v' & E & M1 & M2 & M3).
  - eapply upd_same in E0; [exact E0|]. apply nth_error_map_false. exact Hr.
  - intros j Hj Hne. rewrite (upd_other _ _ _ _ j E0 Hne). apply nth_error_map_false.
    eapply denotes_lt; eauto.
  - replace (S (S (length ns))) with (size t + (S (S (length ns)) - size t)) by lia. rewrite E.
    destruct (S (S (length ns)) - size t) as [|f] eqn:Ef; [lia|]. cbn [validate_go bind].
    rewrite unvisited_all_true; [reflexivity| |].
    + rewrite M1, (upd_len _ _ _ _ E0), map_length. reflexivity.
    + intros j Hj. apply M2. apply Cov. exact Hj.
Qed.
