(* wf driver (C05): reads the wfcode harness lines
     <case>\t<impl result>\ttoks=<i,i,...>[ init=<il>,<jl>,<last>]
   and prints  <case>\tB=<..> C=<same|..> W=<bits|-> T=<tree|notree|->\t-
     B: the worklist model's build in the harness' format
          ERRn | PANIC | HANG | OK:entry:I[..]:J[..]:M[..]
     C: the tree compiler's result compared with B (same / its own text)
     W: wf_report of the worklist model's result, one digit per clause
        (operands, jump entries, body starts, last instruction, metadata), 1 = holds *)
let nat_of_int (i : int) : nat = let rec go k acc = if k <= 0 then acc else go (k - 1) (S acc) in go i O
let int_of_nat (n : nat) : int = let rec go n acc = match n with O -> acc | S m -> go m (acc + 1) in go n 0

let tt_table : token_type array = Array.of_list all_token_type
let instr_table : instruction array = Array.of_list all_instruction

let opt_nat (o : nat option) : string = match o with None -> "-" | Some n -> string_of_int (int_of_nat n)

let show_operand (o : operand) : string =
  match o with
  | ONone -> "-"
  | ONum k -> "n" ^ string_of_int (int_of_nat k)
  | OData _ -> "d"
  | OExpr j -> "x" ^ string_of_int (int_of_nat j)

let show_err (c : n) : string = "ERR" ^ string_of_int (int_of_n c)

let show_code (entry : nat) (ins : (instruction * operand) list) (js : nat list) (ms : nat option list) : string =
  Printf.sprintf "OK:%d:I[%s]:J[%s]:M[%s]" (int_of_nat entry)
    (String.concat "," (List.map (fun (i, o) ->
        string_of_int (int_of_n (instruction_index i)) ^ show_operand o) ins))
    (String.concat "," (List.map (fun j -> string_of_int (int_of_nat j)) js))
    (String.concat "," (List.map opt_nat ms))

(* "6-" / "5n3" / "1d" / "1x2" *)
let parse_instr (s : string) : instruction * operand =
  let n = String.length s in
  let k = ref 0 in
  while !k < n && s.[!k] >= '0' && s.[!k] <= '9' do incr k done;
  let idx = int_of_string (String.sub s 0 !k) in
  let rest = String.sub s !k (n - !k) in
  let o =
    if rest = "-" then ONone
    else if rest = "d" then OData (nat_of_int 100000)
    else if rest.[0] = 'n' then ONum (nat_of_int (int_of_string (String.sub rest 1 (String.length rest - 1))))
    else if rest.[0] = 'x' then OExpr (nat_of_int (int_of_string (String.sub rest 1 (String.length rest - 1))))
    else failwith ("bad operand " ^ s) in
  (instr_table.(idx), o)

let parse_init (s : string) : binit =
  match split_on ',' s with
  | [il; jl; last] ->
    { i_instr_len = nat_of_int (int_of_string il); i_jump_len = nat_of_int (int_of_string jl);
      i_last_instr = (if last = "none" then None else Some (parse_instr last)) }
  | _ -> failwith ("bad init " ^ s)

let () =
  iter_lines (fun line ->
    match split_on '\t' line with
    | case :: _ :: oracle :: _ ->
      let fields = split_on ' ' oracle in
      let toks_f = List.find_opt (fun f -> String.length f >= 5 && String.sub f 0 5 = "toks=") fields in
      let init_f = List.find_opt (fun f -> String.length f >= 5 && String.sub f 0 5 = "init=") fields in
      (match toks_f with
       | None -> Printf.printf "%s\t-\t-\n" case
       | Some tf ->
         let body = String.sub tf 5 (String.length tf - 5) in
         let idx = if body = "" then [] else List.map int_of_string (split_on ',' body) in
         let toks = List.map (fun i -> tt_table.(i)) idx in
         let init = (match init_f with
                     | None -> empty_init
                     | Some f -> parse_init (String.sub f 5 (String.length f - 5))) in
         (match parse toks with
          | Err c -> Printf.printf "%s\tP=%s\t-\n" case (show_err c)
          | Panic _ -> Printf.printf "%s\tP=PANIC\t-\n" case
          | OutOfFuel -> Printf.printf "%s\tP=HANG\t-\n" case
          | Ok (root, nodes) ->
            let lit _ = true in
            let b = build nodes init lit (build_fuel nodes) root in
            let bs, w =
              (match b with
               | Err c -> show_err c, "-"
               | Panic _ -> "PANIC", "-"
               | OutOfFuel -> "HANG", "-"
               | Ok (s, entry) ->
                 show_code entry s.instrs s.jumps s.meta,
                 String.concat "" (List.map (fun x -> if x then "1" else "0")
                                     (wf_report nodes init (code_of_build (s, entry))))) in
            let is_tree = (match nodes with [] -> true | _ -> (match tree_of nodes root with Some _ -> true | None -> false)) in
            let c = compile_nodes nodes init lit root in
            let cs =
              (match c, b with
               | Ok cr, Ok br when same_code cr br -> "same"
               | Ok (s, entry), _ -> show_code entry s.ci s.cj s.cm
               | Err cc, Err bc when cc = bc -> "same"
               | Err cc, _ -> show_err cc
               | Panic _, _ -> "PANIC"
               | OutOfFuel, _ -> "HANG") in
            Printf.printf "%s\tB=%s C=%s W=%s T=%s\t-\n" case bs cs w (if is_tree then "tree" else "notree")))
    | _ -> failwith ("bad line " ^ line))
