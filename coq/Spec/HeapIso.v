(* C19 specification: what "structurally identical" means on a Basic data block.

   A [tree] is the structure found at an address with every address erased: the
   cell's label and the trees of the cells it points to.  One rose-tree type covers
   values (pairs, lists with their item and association slots, text with its
   character cells, ...) and the bookkeeping cells the store's stacks are made of
   (Register/RegisterRoot, Value/ValueRoot, Frame cells with the JumpPoint cell that
   precedes them), so the read-back of a stack is a function of the tree at its head.

   [Reads h a t] is the specification (an inductive relation, no fuel, no ordering
   assumption: a finite derivation exists exactly when the part of the heap reachable
   from [a] is acyclic and well formed).  [read_f] is its executable counterpart on
   fuel; [read] uses fuel [a + 1], which is enough on heaps whose children lie below
   their parents (Proofs/C19).  No proofs in this file. *)
From Coq Require Import NArith ZArith List Bool Arith.
From Flocq Require Import IEEE754.Bits.
From GV Require Import Base.Result Gen.Instr Model.Num Model.Value Model.Optimize.
Import ListNotations.

Inductive tree : Type := TNode (lbl : cell) (kids : list tree).

(* cells that hold no address: copied verbatim *)
Definition is_leaf (c : cell) : bool :=
  match c with
  | CUnit | CTrue | CFalse | CType _ | CNumber _ | CChar _ | CByte _ | CSymbol _
  | CExpression _ | CExternal _ | CCustom | CEmpty | CInstr _ | CJumpPoint _ => true
  | _ => false
  end.

(* cells whose fields are addresses of other cells, in field order *)
Definition addrs (c : cell) : option (list nat) :=
  match c with
  | CPair l r | CRange l r | CSlice l r | CPartial l r | CConcat l r => Some [l; r]
  | CValue p v | CRegister p v => Some [p; v]
  | CValueRoot v | CRegisterRoot v => Some [v]
  | CInstrData _ d => Some [d]
  | _ => None
  end.

(* frame cells: preceded by the JumpPoint cell holding the return point *)
Definition frame_addrs (c : cell) : option (list nat) :=
  match c with
  | CFrame p r => Some [p; r]
  | CFrameIndex p => Some [p]
  | CFrameRegister r => Some [r]
  | CFrameRoot => Some []
  | _ => None
  end.

(* headers followed by [len] address-free cells *)
Definition seq_len (c : cell) : option nat :=
  match c with
  | CSymbolList len | CCharList len | CByteList len => Some len
  | _ => None
  end.

(* headers followed by [2 * len] item / association slots *)
Definition list_len (c : cell) : option nat :=
  match c with
  | CList len _ | CUninitList len _ => Some len
  | _ => None
  end.

(* the label: the cell with its addresses erased *)
Definition erase (c : cell) : cell :=
  match c with
  | CPair _ _ => CPair 0 0 | CRange _ _ => CRange 0 0 | CSlice _ _ => CSlice 0 0
  | CPartial _ _ => CPartial 0 0 | CConcat _ _ => CConcat 0 0
  | CValue _ _ => CValue 0 0 | CValueRoot _ => CValueRoot 0
  | CRegister _ _ => CRegister 0 0 | CRegisterRoot _ => CRegisterRoot 0
  | CInstrData i _ => CInstrData i 0
  | CFrame _ _ => CFrame 0 0 | CFrameIndex _ => CFrameIndex 0 | CFrameRegister _ => CFrameRegister 0
  | CListItem _ => CListItem 0 | CAssocItem s _ => CAssocItem s 0
  | c => c
  end.

Definition leaf_node (c : cell) : tree := TNode c [].

(* [len] cells starting at [a], all present *)
Fixpoint slice (h : list cell) (a len : nat) : option (list cell) :=
  match len with
  | O => Some []
  | S n => match nth_error h a with
           | None => None
           | Some c => match slice h (S a) n with None => None | Some r => Some (c :: r) end
           end
  end.

(* ---------------------------------------------------------------- the relation *)
Inductive Reads (h : list cell) : nat -> tree -> Prop :=
| R_leaf : forall a c,
    nth_error h a = Some c -> is_leaf c = true -> Reads h a (TNode c [])
| R_simple : forall a c ads kids,
    nth_error h a = Some c -> addrs c = Some ads -> ReadsL h ads kids ->
    Reads h a (TNode (erase c) kids)
| R_seq : forall a c len payload,
    nth_error h a = Some c -> seq_len c = Some len -> slice h (S a) len = Some payload ->
    forallb is_leaf payload = true ->
    Reads h a (TNode c (map leaf_node payload))
| R_list : forall a c len slots kids,
    nth_error h a = Some c -> list_len c = Some len -> slice h (S a) (len * 2) = Some slots ->
    ReadsSlots h slots kids ->
    Reads h a (TNode c kids)
| R_frame : forall a c ads p kids,
    nth_error h (S a) = Some c -> frame_addrs c = Some ads -> nth_error h a = Some (CJumpPoint p) ->
    ReadsL h ads kids ->
    Reads h (S a) (TNode (erase c) (TNode (CJumpPoint p) [] :: kids))
with ReadsL (h : list cell) : list nat -> list tree -> Prop :=
| RL_nil : ReadsL h [] []
| RL_cons : forall a t l ts, Reads h a t -> ReadsL h l ts -> ReadsL h (a :: l) (t :: ts)
with ReadsSlots (h : list cell) : list cell -> list tree -> Prop :=
| RS_nil : ReadsSlots h [] []
| RS_item : forall a t l ts,
    Reads h a t -> ReadsSlots h l ts -> ReadsSlots h (CListItem a :: l) (TNode (CListItem 0) [t] :: ts)
| RS_assoc : forall s a t l ts,
    Reads h a t -> ReadsSlots h l ts -> ReadsSlots h (CAssocItem s a :: l) (TNode (CAssocItem s 0) [t] :: ts)
| RS_empty : forall l ts,
    ReadsSlots h l ts -> ReadsSlots h (CEmpty :: l) (TNode CEmpty [] :: ts).

(* ---------------------------------------------------------------- executable reader *)
Fixpoint all_some {A : Type} (l : list (option A)) : option (list A) :=
  match l with
  | [] => Some []
  | None :: _ => None
  | Some a :: t => match all_some t with None => None | Some r => Some (a :: r) end
  end.

Fixpoint read_f (fuel : nat) (h : list cell) (a : nat) : option tree :=
  match fuel with
  | O => None
  | S f =>
      match nth_error h a with
      | None => None
      | Some c =>
          if is_leaf c then Some (TNode c [])
          else
            match addrs c with
            | Some ads =>
                match all_some (map (read_f f h) ads) with
                | Some kids => Some (TNode (erase c) kids)
                | None => None
                end
            | None =>
                match seq_len c with
                | Some len =>
                    match slice h (S a) len with
                    | Some payload => if forallb is_leaf payload then Some (TNode c (map leaf_node payload)) else None
                    | None => None
                    end
                | None =>
                    match list_len c with
                    | Some len =>
                        match slice h (S a) (len * 2) with
                        | Some slots =>
                            match all_some (map (fun sl =>
                                     match sl with
                                     | CListItem x => match read_f f h x with Some t => Some (TNode (CListItem 0) [t]) | None => None end
                                     | CAssocItem s x => match read_f f h x with Some t => Some (TNode (CAssocItem s 0) [t]) | None => None end
                                     | CEmpty => Some (TNode CEmpty [])
                                     | _ => None
                                     end) slots) with
                            | Some kids => Some (TNode c kids)
                            | None => None
                            end
                        | None => None
                        end
                    | None =>
                        match frame_addrs c with
                        | Some ads =>
                            match a with
                            | O => None
                            | S a' =>
                                match nth_error h a' with
                                | Some (CJumpPoint p) =>
                                    match all_some (map (read_f f h) ads) with
                                    | Some kids => Some (TNode (erase c) (TNode (CJumpPoint p) [] :: kids))
                                    | None => None
                                    end
                                | _ => None
                                end
                            end
                        | None => None
                        end
                    end
                end
            end
      end
  end.

(* the reader of DESIGN.md: fuel = address + 1 *)
Definition read_tree (h : list cell) (a : nat) : option tree := read_f (S a) h a.

(* the correspondence driver reads with the whole block as fuel (value slots may point forward) *)
Definition read_any (h : list cell) (a : nat) : option tree := read_f (S (length h)) h a.

(* ---------------------------------------------------------------- stacks as functions of the head's tree *)
(* bottom first, as get_register(0..len) *)
Fixpoint regs_of (t : tree) : list tree :=
  match t with
  | TNode (CRegister _ _) [p; v] => regs_of p ++ [v]
  | TNode (CRegisterRoot _) [v] => [v]
  | _ => []
  end.

(* top first, as pop_value_stack yields them *)
Fixpoint vals_of (t : tree) : list tree :=
  match t with
  | TNode (CValue _ _) [p; v] => v :: vals_of p
  | TNode (CValueRoot _) [v] => [v]
  | _ => []
  end.

(* top first: (return point, registers restored by pop_frame) *)
Fixpoint frames_of (t : tree) : list (nat * list tree) :=
  match t with
  | TNode (CFrame _ _) [TNode (CJumpPoint j) []; p; r] => (j, regs_of r) :: frames_of p
  | TNode (CFrameIndex _) [TNode (CJumpPoint j) []; p] => (j, []) :: frames_of p
  | TNode (CFrameRegister _) [TNode (CJumpPoint j) []; r] => [(j, regs_of r)]
  | TNode CFrameRoot [TNode (CJumpPoint j) []] => [(j, [])]
  | _ => []
  end.

(* ---------------------------------------------------------------- values (coq/Model/Value.v) *)
Definition num_of (n : numrep) : num :=
  match n with NInt z => Int z | NFloat b => Flt (b64_of_bits (Z.of_N b)) end.

Definition type_of_index (i : N) : option data_type :=
  nth_error all_data_type (N.to_nat i).

Fixpoint chars_of (l : list tree) : option (list N) :=
  match l with
  | [] => Some []
  | TNode (CChar c) [] :: t => match chars_of t with Some r => Some (c :: r) | None => None end
  | _ => None
  end.

Fixpoint bytes_of (l : list tree) : option (list N) :=
  match l with
  | [] => Some []
  | TNode (CByte c) [] :: t => match bytes_of t with Some r => Some (c :: r) | None => None end
  | _ => None
  end.

Fixpoint symparts_of (l : list tree) : option (list sympart) :=
  match l with
  | [] => Some []
  | TNode (CSymbol s) [] :: t => match symparts_of t with Some r => Some (SPSym s :: r) | None => None end
  | TNode (CNumber n) [] :: t => match symparts_of t with Some r => Some (SPNum (num_of n) :: r) | None => None end
  | _ => None
  end.

(* the value a tree denotes; a list's value is its items (the first [len] slots) *)
Fixpoint val_of_tree (t : tree) : option val :=
  match t with
  | TNode CUnit [] => Some VUnit
  | TNode CTrue [] => Some VTrue
  | TNode CFalse [] => Some VFalse
  | TNode (CType i) [] => match type_of_index i with Some d => Some (VType d) | None => None end
  | TNode (CNumber n) [] => Some (VNum (num_of n))
  | TNode (CChar c) [] => Some (VChar c)
  | TNode (CByte b) [] => Some (VByte b)
  | TNode (CSymbol s) [] => Some (VSym s)
  | TNode (CExpression e) [] => Some (VExpr (N.of_nat e))
  | TNode (CExternal e) [] => Some (VExternal (N.of_nat e))
  | TNode CCustom [] => Some VCustom
  | TNode (CSymbolList _) l => match symparts_of l with Some r => Some (VSymList r) | None => None end
  | TNode (CCharList _) l => match chars_of l with Some r => Some (VChars r) | None => None end
  | TNode (CByteList _) l => match bytes_of l with Some r => Some (VBytes r) | None => None end
  | TNode (CPair _ _) [a; b] =>
      match val_of_tree a, val_of_tree b with Some x, Some y => Some (VPair x y) | _, _ => None end
  | TNode (CRange _ _) [a; b] =>
      match val_of_tree a, val_of_tree b with Some x, Some y => Some (VRange x y) | _, _ => None end
  | TNode (CSlice _ _) [a; b] =>
      match val_of_tree a, val_of_tree b with Some x, Some y => Some (VSlice x y) | _, _ => None end
  | TNode (CPartial _ _) [a; b] =>
      match val_of_tree a, val_of_tree b with Some x, Some y => Some (VPartial x y) | _, _ => None end
  | TNode (CConcat _ _) [a; b] =>
      match val_of_tree a, val_of_tree b with Some x, Some y => Some (VConcat x y) | _, _ => None end
  | TNode (CList len _) slots =>
      match all_some (firstn len (map (fun sl => match sl with
                                                 | TNode (CListItem _) [x] => val_of_tree x
                                                 | _ => None
                                                 end) slots)) with
      | Some items => Some (VList items)
      | None => None
      end
  | _ => None
  end.

(* read of DESIGN.md section 8 / C19 *)
Definition read (s : store) (a : nat) : option val :=
  match read_tree (cells s) a with Some t => val_of_tree t | None => None end.

(* association table of a list tree, for get_list_item_with_symbol: the [alen] entries after the items *)
Definition assoc_entries (t : tree) : list (option (N * tree)) :=
  match t with
  | TNode (CList len alen) slots =>
      map (fun sl => match sl with TNode (CAssocItem s _) [x] => Some (s, x) | _ => None end)
          (firstn alen (skipn len slots))
  | _ => []
  end.

(* symbol table read-back: data index of a symbol's name, through the same binary search as
   get_symbol_string (None: a non-associative cell was probed; Some None: absent) *)
Definition symbol_index (s : store) (sym : N) : option (option nat) :=
  assoc_search (map (fun e => Some (fst e, snd e)) (symtab s)) sym.
