(* The inductive step of the simulation, outcome ODone: one lemma per construct.
   The induction hypotheses are section hypotheses in the form the proofs use
   (one enclosing body: [cont] / [pcont] are fixed). *)
From Coq Require Import ZArith NArith List Bool Arith Lia.
From GV Require Import Base.Result Base.Host Gen.Instr Gen.Exec Model.Num Model.Value Model.Machine
  Model.CompileExpr Spec.Ast Spec.Eval
  Proofs.C01.MachineFacts Proofs.C01.Sizes Proofs.C01.Placement Proofs.C01.Labels Proofs.C01.OpRefine Proofs.C01.Fragment
  Proofs.C01.Steps Proofs.C01.Sim.
Import ListNotations.

Section SimDone.
Variable sym_hash : list N -> N.
Variable hstate : Type.
Variable host : hstate -> host_call -> hstate * option val.
Hypothesis Hdef : declines_defer hstate host.
Variable pbodies : list (N * expr).
Variable P : program.

Notation St := (mkSt hstate).
Notation star := (star hstate host P).
Notation C := (code P).
Notation J := (jt P).
Notation eval := (eval sym_hash hstate host pbodies).
Notation eval_items := (eval_items sym_hash hstate host pbodies).
Notation eval_chain := (eval_chain sym_hash hstate host pbodies).
Notation apply_val := (apply_val sym_hash hstate host pbodies).
Notation placed := (lplaced sym_hash C J).
Notation placedC := (lplacedC sym_hash C J).
Notation est := (st hstate).

Lemma nth_lt : forall A (l : list A) k x, nth_error l k = Some x -> k < length l.
Proof. intros. apply nth_error_Some. congruence. Qed.

(* ---- every expression has inline code ---- *)
Lemma ci_pos : forall e ic lk, 1 <= ci (sizesC ic lk e).
Proof.
  induction e; intros ic lk; cbn [sizesC]; cbn [to_sz of_sz sz_leaf si so sji sjo ci cji cao cajo cio cijo cn];
    try lia.
  - specialize (IHe1 false (Some k)). lia.
  - apply IHe.
  - specialize (IHe1 false None). destruct ic; cbn [ci of_sz si]; lia.
  - specialize (IHe1 true None). destruct ic; cbn [ci of_sz si]; lia.
Qed.
Lemma si_pos : forall lk e, 1 <= si (sizes lk e).
Proof. intros. unfold sizes. cbn [to_sz si]. apply ci_pos. Qed.

Lemma placed_start_lt : forall cont lk e pc j ob jb, placed cont lk e pc j ob jb -> pc < length C.
Proof.
  intros cont lk e pc j ob jb ((A & _) & _).
  pose proof (comp_sizes sym_hash e cont lk pc j ob jb) as (L & _).
  pose proof (si_pos lk e) as Hp.
  destruct (f_inl (comp sym_hash cont lk e pc j ob jb)) as [|x l] eqn:Hf.
  - cbn [length] in L. lia.
  - specialize (A 0 x eq_refl). rewrite Nat.add_0_r in A. eapply nth_lt; eauto.
Qed.

Variable n : nat.
Variable cont pcont : nat.
Hypothesis Hcj : nth_error J cont = Some pcont.
Hypothesis Hcp : pcont < length C.

(* induction hypotheses, outcome ODone, at every level up to n *)
Hypothesis IHd : forall m, m <= n -> forall e vin (s : est) v s',
  eval m e vin s = ODone v s' ->
  frag e = true -> shape_ok e = true -> forall b, seq_ok b e = true ->
  forall pc j ob jb sg vs fs mt,
  placed cont None e pc j ob jb -> pc + si (sizes None e) < length C -> observable mt = snd s ->
  exists vin' mt',
    star (St pc sg (vin :: vs) fs (fst s) mt) (St (pc + si (sizes None e)) (v :: sg) (vin' :: vs) fs (fst s') mt') /\
    observable mt' = snd s' /\ (is_seq e = false -> vin' = vin).
Hypothesis IHid : forall m, m <= n -> forall k e vin (s : est) items s',
  eval_items m k e vin s = ODone items s' ->
  frag e = true -> shape_ok e = true -> seq_ok false e = true ->
  forall pc j ob jb sg vs fs mt,
  placed cont (Some k) e pc j ob jb -> pc + si (sizes (Some k) e) < length C -> observable mt = snd s ->
  exists mt',
    star (St pc sg (vin :: vs) fs (fst s) mt)
         (St (pc + si (sizes (Some k) e)) (rev items ++ sg) (vin :: vs) fs (fst s') mt') /\
    observable mt' = snd s' /\ length items = leaves k e.
Hypothesis IHcd : forall m, m <= n -> forall e vin (s : est) o s',
  eval_chain m e vin s = ODone o s' ->
  lchain e = true -> frag e = true -> shape_okC true e = true -> seq_ok false e = true ->
  forall pc j aob ajb ob jb jj pjoin sg vs fs mt,
  placedC true cont None e pc j aob ajb ob jb jj ->
  nth_error J jj = Some pjoin -> pjoin < length C -> pc + ci (csizes e) < length C -> observable mt = snd s ->
  exists mt', observable mt' = snd s' /\
    match o with
    | None => star (St pc sg (vin :: vs) fs (fst s) mt) (St (pc + ci (csizes e)) sg (vin :: vs) fs (fst s') mt')
    | Some v => star (St pc sg (vin :: vs) fs (fst s) mt) (St pjoin (v :: sg) (vin :: vs) fs (fst s') mt')
    end.
Hypothesis IHad : forall f x (s : est) v s',
  apply_val n f x s = ODone v s' ->
  forall (ea : bool) pcx sg vs fs mt,
  (ea = true -> x = VUnit) ->
  nth_error C pcx = Some (ins (if ea then I_EmptyApply else I_Apply)) -> S pcx < length C ->
  observable mt = snd s ->
  exists mt',
    star (St pcx (if ea then f :: sg else x :: f :: sg) vs fs (fst s) mt) (St (S pcx) (v :: sg) vs fs (fst s') mt') /\
    observable mt' = snd s'.

Let IHe := IHd n (le_n n).
Let IHi := IHid n (le_n n).
Let IHc := IHcd n (le_n n).

Ltac inv_obind H :=
  let a := fresh "a" in let s1 := fresh "s1" in let E := fresh "E" in
  apply obind_done in H; destruct H as (a & s1 & E & H).

Ltac inv_as H a s1 E :=
  apply obind_done in H; destruct H as (a & s1 & E & H).
Ltac bools :=
  repeat match goal with
         | H : _ && _ = true |- _ => apply andb_prop in H; destruct H
         end.
Ltac and2 H a b := apply andb_prop in H; destruct H as [a b].
Ltac and3 H a b c := apply andb_prop in H; destruct H as [H c]; apply andb_prop in H; destruct H as [a b].
Ltac and4 H a b c d := apply andb_prop in H; destruct H as [H d]; and3 H a b c.

(* ---- leaves ---- *)
Lemma sim_leaf : forall e, (match e with ELit _ | EValue | EIdent _ => True | _ => False end) ->
  forall vin (s : est) v s',
  eval (S n) e vin s = ODone v s' ->
  forall pc j ob jb sg vs fs mt,
  placed cont None e pc j ob jb ->
  pc + si (sizes None e) < length C ->
  observable mt = snd s ->
  exists vin' mt',
    star (St pc sg (vin :: vs) fs (fst s) mt)
         (St (pc + si (sizes None e)) (v :: sg) (vin' :: vs) fs (fst s') mt') /\
    observable mt' = snd s' /\ (is_seq e = false -> vin' = vin).
Proof.
  intros e He vin s v s' H pc j ob jb sg vs fs mt Hp Hl Ho.
  destruct e; try contradiction; cbn [Eval.eval] in H.
  - (* literal *)
    injection H as <- <-.
    assert (Hn : nth_error C pc = Some (I_Put, MVal (lit_val sym_hash l))).
    { destruct Hp as [Hp _]. unfold Placement.placed, comp in Hp. cbn [compC to_frag of_frag f_inl c_inl] in Hp.
      destruct Hp as (A & _). apply code_at_one in A. exact A. }
    cbn [sizes sizesC to_sz of_sz sz_leaf si ci] in *. replace (pc + 1) with (S pc) in * by lia.
    exists vin, mt. split; [|split; auto].
    apply star_one. apply step_put; auto.
  - (* $ *)
    injection H as <- <-.
    assert (Hn : nth_error C pc = Some (ins I_PutValue)).
    { destruct Hp as [Hp _]. unfold Placement.placed, comp in Hp. cbn [compC to_frag of_frag f_inl c_inl] in Hp.
      destruct Hp as (A & _). apply code_at_one in A. exact A. }
    cbn [sizes sizesC to_sz of_sz sz_leaf si ci] in *. replace (pc + 1) with (S pc) in * by lia.
    exists vin, mt. split; [|split; auto].
    apply star_one. apply step_put_value; auto.
  - (* identifier *)
    assert (Hn : nth_error C pc = Some (I_Resolve, MVal (VSym (sym_hash name)))).
    { destruct Hp as [Hp _]. unfold Placement.placed, comp in Hp. cbn [compC to_frag of_frag f_inl c_inl] in Hp.
      destruct Hp as (A & _). apply code_at_one in A. exact A. }
    cbn [sizes sizesC to_sz of_sz sz_leaf si ci] in *. replace (pc + 1) with (S pc) in * by lia.
    destruct (step_resolve hstate host P sym_hash name vin v s s' pc sg vs fs mt H Hn Hl Ho) as [mt' [Hs Ho']].
    exists vin, mt'. split; [|split; auto].
    apply star_one. exact Hs.
Qed.

Definition Goal_eval (e : expr) : Prop :=
  forall vin (s : est) v s',
  eval (S n) e vin s = ODone v s' ->
  frag e = true -> shape_ok e = true ->
  forall b, seq_ok b e = true ->
  forall pc j ob jb sg vs fs mt,
  placed cont None e pc j ob jb ->
  pc + si (sizes None e) < length C ->
  observable mt = snd s ->
  exists vin' mt',
    star (St pc sg (vin :: vs) fs (fst s) mt)
         (St (pc + si (sizes None e)) (v :: sg) (vin' :: vs) fs (fst s') mt') /\
    observable mt' = snd s' /\ (is_seq e = false -> vin' = vin).

Ltac size_simpl :=
  cbn [sizes sizesC to_sz of_sz sz_leaf si so sji sjo ci cji cao cajo cio cijo cn] in *;
  fold (sizes None) in *.

(* ---- unary operators ---- *)
Lemma sim_un : forall o x, un_supported o = true -> Goal_eval (EUn o x).
Proof.
  intros o x H0 vin s v s' H Hf Hsh b Hsq pc j ob jb sg vs fs mt Hp Hl Ho.
  cbn [frag shape_okC seq_ok] in *. rename Hf into H1.
  destruct (lplaced_EUn sym_hash C J cont None o x pc j ob jb Hp) as (Px & Hn).
  assert (Hsz : si (sizes None (EUn o x)) = si (sizes None x) + 1) by reflexivity.
  rewrite Hsz in *.
  assert (Hv : exists a s1, eval n x vin s = ODone a s1 /\ prim_unop o a = Some v /\ s1 = s').
  { destruct o; try discriminate; cbn [Eval.eval] in H; inv_obind H;
      (destruct (prim_unop _ a) eqn:Hpu; [injection H as <- <-; eauto | discriminate]). }
  destruct Hv as (a & s1 & E & Hpu & ->).
  destruct (IHe x vin s a s' E H1 Hsh false Hsq pc j ob jb sg vs fs mt Px (nth_lt _ _ _ _ Hn) Ho)
    as (vin' & mt1 & St1 & Ho1 & Hv1).
  rewrite (Hv1 (seq_ok_false_noseq _ Hsq)) in St1.
  replace (pc + (si (sizes None x) + 1)) with (S (pc + si (sizes None x))) in * by lia.
  destruct (step_unop hstate host Hdef P o a v (pc + si (sizes None x)) sg (vin :: vs) fs (fst s') mt1 H0 Hpu Hn Hl)
    as (mt2 & Hs2 & Ho2).
  exists vin, mt2. split; [|split; [congruence | auto]].
  eapply star_trans; [exact St1 | apply star_one; exact Hs2].
Qed.

(* ---- strict binary operators (left operand first) ---- *)
Lemma sim_bin : forall o l r, bin_supported o = true -> o <> BPair -> Goal_eval (EBin o l r).
Proof.
  intros o l r Hso Hnp vin s v s' H Hf Hsh b Hsq pc j ob jb sg vs fs mt Hp Hl Ho.
  cbn [frag shape_okC seq_ok] in *. and2 Hf Hfl Hfr. and2 Hsh Hshl Hshr. and2 Hsq Hsql Hsqr.
  assert (Hrf : right_first o = false) by (destruct o; try reflexivity; try discriminate; congruence).
  destruct (lplaced_EBin_lr sym_hash C J cont None o l r pc j ob jb Hrf Hp) as (Pl & Pr & Hn).
  assert (Hsz : si (sizes None (EBin o l r)) = si (sizes None l) + si (sizes None r) + 1) by reflexivity.
  rewrite Hsz in *.
  assert (Hv : exists vl s1 vr w, eval n l vin s = ODone vl s1 /\ eval n r vin s1 = ODone vr s' /\
                                   prim_binop o vl vr = (Some v, w)).
  { destruct o; try discriminate; try congruence; cbn [Eval.eval] in H;
      inv_obind H; inv_obind H; unfold lift in H;
      match type of H with context [prim_binop ?o ?x ?y] => destruct (prim_binop o x y) as [[r0|] w] eqn:Hpb end;
      try discriminate; injection H as <- <-; eauto 10. }
  destruct Hv as (vl & s1 & vr & w & El & Er & Hpb).
  assert (Hl1 : pc + si (sizes None l) < length C).
  { apply nth_lt in Hn. lia. }
  destruct (IHe l vin s vl s1 El Hfl Hshl false Hsql pc j _ _ sg vs fs mt Pl Hl1 Ho)
    as (vin1 & mt1 & St1 & Ho1 & Hv1).
  rewrite (Hv1 (seq_ok_false_noseq _ Hsql)) in St1.
  destruct (IHe r vin s1 vr s' Er Hfr Hshr false Hsqr _ _ ob jb (vl :: sg) vs fs mt1 Pr (nth_lt _ _ _ _ Hn) Ho1)
    as (vin2 & mt2 & St2 & Ho2 & Hv2).
  rewrite (Hv2 (seq_ok_false_noseq _ Hsqr)) in St2.
  replace (pc + (si (sizes None l) + si (sizes None r) + 1)) with (S (pc + si (sizes None l) + si (sizes None r))) in * by lia.
  destruct (step_binop hstate host Hdef P o vl vr v w (pc + si (sizes None l) + si (sizes None r)) sg (vin :: vs) fs (fst s') mt2 Hso Hnp Hpb Hn Hl)
    as (mt3 & Hs3 & Ho3).
  exists vin, mt3. split; [|split; [congruence | auto]].
  eapply star_trans; [exact St1|]. eapply star_trans; [exact St2|]. apply star_one; exact Hs3.
Qed.

(* ---- pair: the right operand first ---- *)
Lemma sim_pair : forall l r, Goal_eval (EBin BPair l r).
Proof.
  intros l r vin s v s' H Hf Hsh b Hsq pc j ob jb sg vs fs mt Hp Hl Ho.
  cbn [frag shape_okC seq_ok bin_supported andb] in *. and2 Hf Hfl Hfr. and2 Hsh Hshl Hshr. and2 Hsq Hsql Hsqr.
  destruct (lplaced_EBin_rl sym_hash C J cont None BPair l r pc j ob jb eq_refl Hp) as (Pr & Pl & Hn).
  assert (Hsz : si (sizes None (EBin BPair l r)) = si (sizes None l) + si (sizes None r) + 1) by reflexivity.
  rewrite Hsz in *.
  cbn [Eval.eval] in H. inv_as H vr s1 E. inv_as H vl s2 E0. injection H as <- ->.
  assert (Hl1 : pc + si (sizes None r) < length C).
  { apply nth_lt in Hn. lia. }
  destruct (IHe r vin s vr s1 E Hfr Hshr false Hsqr pc j _ _ sg vs fs mt Pr Hl1 Ho)
    as (vin1 & mt1 & St1 & Ho1 & Hv1).
  rewrite (Hv1 (seq_ok_false_noseq _ Hsqr)) in St1.
  destruct (IHe l vin s1 vl s' E0 Hfl Hshl false Hsql _ _ ob jb (vr :: sg) vs fs mt1 Pl (nth_lt _ _ _ _ Hn) Ho1)
    as (vin2 & mt2 & St2 & Ho2 & Hv2).
  rewrite (Hv2 (seq_ok_false_noseq _ Hsql)) in St2.
  replace (pc + (si (sizes None l) + si (sizes None r) + 1)) with (S (pc + si (sizes None r) + si (sizes None l))) in * by lia.
  exists vin, mt2. split; [|split; auto].
  eapply star_trans; [exact St1|]. eapply star_trans; [exact St2|]. apply star_one.
  apply step_pair; auto.
Qed.

(* ---- group ---- *)
Lemma sim_group : forall x, Goal_eval (EGroup x).
Proof.
  intros x vin s v s' H Hf Hsh b Hsq pc j ob jb sg vs fs mt Hp Hl Ho.
  cbn [frag shape_okC seq_ok] in *. cbn [Eval.eval] in H.
  pose proof (lplaced_EGroup sym_hash C J cont None x pc j ob jb Hp) as Px.
  assert (Hsz : si (sizes None (EGroup x)) = si (sizes None x)) by reflexivity.
  rewrite Hsz in *.
  destruct (IHe x vin s v s' H Hf Hsh false Hsq pc j ob jb sg vs fs mt Px Hl Ho)
    as (vin1 & mt1 & St1 & Ho1 & Hv1).
  exists vin1, mt1. split; [exact St1 | split; auto].
  intros _. apply Hv1. apply seq_ok_false_noseq; auto.
Qed.

(* ---- sub-expression sequence ---- *)
Lemma sim_seq : forall sp l r, Goal_eval (ESeq sp l r).
Proof.
  intros sp l r vin s v s' H Hf Hsh b Hsq pc j ob jb sg vs fs mt Hp Hl Ho.
  cbn [frag shape_okC seq_ok] in *. and2 Hf Hfl Hfr. and2 Hsh Hshl Hshr. and3 Hsq Hb Hsql Hsqr.
  destruct (lplaced_ESeq sym_hash C J cont None sp l r pc j ob jb Hp) as (Pl & Pr & Hn).
  assert (Hsz : si (sizes None (ESeq sp l r)) = si (sizes None l) + 1 + si (sizes None r)) by reflexivity.
  rewrite Hsz in *.
  cbn [Eval.eval] in H. inv_as H vl s1 E.
  destruct (IHe l vin s vl s1 E Hfl Hshl true Hsql pc j _ _ sg vs fs mt Pl (nth_lt _ _ _ _ Hn) Ho)
    as (vin1 & mt1 & St1 & Ho1 & Hv1).
  assert (Hs2 : Machine.step hstate host P (St (pc + si (sizes None l)) (vl :: sg) (vin1 :: vs) fs (fst s1) mt1) =
                SRun hstate (St (S (pc + si (sizes None l))) sg (vl :: vs) fs (fst s1) mt1)).
  { apply step_update_value; auto. lia. }
  replace (pc + (si (sizes None l) + 1 + si (sizes None r))) with (pc + si (sizes None l) + 1 + si (sizes None r)) in * by lia.
  destruct (IHe r vl s1 v s' H Hfr Hshr true Hsqr _ _ ob jb sg vs fs mt1 Pr Hl Ho1)
    as (vin2 & mt2 & St2 & Ho2 & Hv2).
  exists vin2, mt2. split; [|split; [auto | intros; discriminate]].
  eapply star_trans; [exact St1|]. eapply star_step; [exact Hs2|].
  replace (S (pc + si (sizes None l))) with (pc + si (sizes None l) + 1) by lia. exact St2.
Qed.

(* ---- side-effect block ---- *)
Lemma sim_side : forall a sd, Goal_eval (ESide a sd).
Proof.
  intros a sd vin s v s' H Hf Hsh b Hsq pc j ob jb sg vs fs mt Hp Hl Ho.
  cbn [frag shape_okC seq_ok] in *. and3 Hf Hfl Hfr Hnr. and2 Hsh Hshl Hshr. and2 Hsq Hsql Hsqr.
  destruct (lplaced_ESide sym_hash C J cont None a sd pc j ob jb Hp) as (Pa & Ps & Hn1 & Hn2).
  assert (Hsz : si (sizes None (ESide a sd)) = si (sizes None a) + 1 + si (sizes None sd) + 1) by reflexivity.
  rewrite Hsz in *.
  cbn [Eval.eval] in H. inv_as H va s1 E. inv_as H vsd s2 E0. injection H as <- ->.
  destruct (IHe a vin s va s1 E Hfl Hshl false Hsql pc j _ _ sg vs fs mt Pa (nth_lt _ _ _ _ Hn1) Ho)
    as (vin1 & mt1 & St1 & Ho1 & Hv1).
  rewrite (Hv1 (seq_ok_false_noseq _ Hsql)) in St1.
  assert (Hs2 : Machine.step hstate host P (St (pc + si (sizes None a)) (va :: sg) (vin :: vs) fs (fst s1) mt1) =
                SRun hstate (St (S (pc + si (sizes None a))) (va :: sg) (vin :: vin :: vs) fs (fst s1) mt1)).
  { apply step_start_side; auto. apply nth_lt in Hn2. lia. }
  destruct (IHe sd vin s1 vsd s' E0 Hfr Hshr true Hsqr _ _ ob jb (va :: sg) (vin :: vs) fs mt1 Ps (nth_lt _ _ _ _ Hn2) Ho1)
    as (vin2 & mt2 & St2 & Ho2 & Hv2).
  assert (Hs3 : Machine.step hstate host P (St (pc + si (sizes None a) + 1 + si (sizes None sd)) (vsd :: va :: sg) (vin2 :: vin :: vs) fs (fst s') mt2) =
                SRun hstate (St (S (pc + si (sizes None a) + 1 + si (sizes None sd))) (va :: sg) (vin :: vs) fs (fst s') mt2)).
  { apply step_end_side; auto. lia. }
  exists vin, mt2. split; [|split; auto].
  eapply star_trans; [exact St1|]. eapply star_step; [exact Hs2|].
  replace (S (pc + si (sizes None a))) with (pc + si (sizes None a) + 1) by lia.
  eapply star_trans; [exact St2|]. eapply star_step; [exact Hs3|].
  replace (S (pc + si (sizes None a) + 1 + si (sizes None sd))) with (pc + (si (sizes None a) + 1 + si (sizes None sd) + 1)) by lia.
  apply star_refl.
Qed.

(* ---- && and || ---- *)
Lemma sim_logical : forall (is_and : bool) l r, Goal_eval (if is_and then EAnd l r else EOr l r).
Proof.
  intros is_and l r vin s v s' H Hf Hsh b Hsq pc j ob jb sg vs fs mt Hp Hl Ho.
  assert (Hf' : frag l = true /\ frag r = true) by (destruct is_and; cbn [frag] in Hf; apply andb_prop in Hf; exact Hf).
  assert (Hsh' : shape_ok l = true /\ shape_ok r = true) by (destruct is_and; cbn [shape_ok] in Hsh; apply andb_prop in Hsh; exact Hsh).
  assert (Hsq' : seq_ok false l = true /\ seq_ok false r = true) by (destruct is_and; cbn [seq_ok] in Hsq; apply andb_prop in Hsq; exact Hsq).
  destruct Hf' as [Hfl Hfr]. destruct Hsh' as [Hshl Hshr]. destruct Hsq' as [Hsql Hsqr].
  destruct (lplaced_logical sym_hash C J is_and cont None l r pc j ob jb Hp) as (Pl & Pr & Hn & Hj1 & Hj2 & Htail).
  assert (Hsz : si (sizes None (if is_and then EAnd l r else EOr l r)) = si (sizes None l) + 1)
    by (destruct is_and; reflexivity).
  rewrite Hsz in *. assert (Hnoseq : is_seq (if is_and then EAnd l r else EOr l r) = false) by (destruct is_and; reflexivity).
  (* the evaluator *)
  assert (Hev : exists vl s1, eval n l vin s = ODone vl s1 /\
            if Bool.eqb (truthy vl) is_and
            then exists vr, eval n r vin s1 = ODone vr s' /\ v = vbool (truthy vr)
            else v = vbool (negb is_and) /\ s' = s1).
  { destruct is_and; cbn [Eval.eval] in H; inv_as H vl s1 E; exists vl, s1; (split; [exact E|]);
      destruct (truthy vl); cbn [Bool.eqb negb].
    - inv_as H vr s2 E2. injection H as <- <-. eauto.
    - injection H as <- <-. auto.
    - injection H as <- <-. auto.
    - inv_as H vr s2 E2. injection H as <- <-. eauto. }
  destruct Hev as (vl & s1 & El & Hrest).
  destruct (IHe l vin s vl s1 El Hfl Hshl false Hsql pc j _ _ sg vs fs mt Pl (nth_lt _ _ _ _ Hn) Ho)
    as (vin1 & mt1 & St1 & Ho1 & Hv1).
  rewrite (Hv1 (seq_ok_false_noseq _ Hsql)) in St1.
  replace (pc + (si (sizes None l) + 1)) with (S (pc + si (sizes None l))) in * by lia.
  pose proof (placed_start_lt _ _ _ _ _ _ _ Pr) as Hob.
  (* the And / Or step *)
  assert (Hstep : Machine.step hstate host P (St (pc + si (sizes None l)) (vl :: sg) (vin :: vs) fs (fst s1) mt1) =
          SRun hstate (if Bool.eqb (truthy vl) is_and then St ob sg (vin :: vs) fs (fst s1) mt1
                       else St (S (pc + si (sizes None l))) (vbool (negb is_and) :: sg) (vin :: vs) fs (fst s1) mt1)).
  { destruct is_and.
    - rewrite (step_and hstate host P _ _ ob vl sg (vin :: vs) fs (fst s1) mt1 Hn Hj1 Hob Hl).
      destruct (truthy vl); reflexivity.
    - rewrite (step_or hstate host P _ _ ob vl sg (vin :: vs) fs (fst s1) mt1 Hn Hj1 Hob Hl).
      destruct (truthy vl); reflexivity. }
  destruct (Bool.eqb (truthy vl) is_and).
  - (* the right operand is evaluated *)
    destruct Hrest as (vr & Er & ->).
    assert (Hlr : ob + si (sizes None r) < length C).
    { unfold logical_tail in Htail. apply code_at_cons in Htail. destruct Htail as [T1 _].
      apply nth_lt in T1. exact T1. }
    destruct (IHe r vin s1 vr s' Er Hfr Hshr false Hsqr ob jb _ _ sg vs fs mt1 Pr Hlr Ho1)
      as (vin2 & mt2 & St2 & Ho2 & Hv2).
    rewrite (Hv2 (seq_ok_false_noseq _ Hsqr)) in St2.
    exists vin, mt2. split; [|split; auto].
    eapply star_trans; [exact St1|]. eapply star_step; [exact Hstep|].
    eapply star_trans; [exact St2|].
    unfold logical_tail in Htail. apply code_at_cons in Htail. destruct Htail as [T1 T2]. apply code_at_one in T2.
    eapply star_step.
    + apply step_tis; eauto. apply nth_lt in T2. exact T2.
    + apply star_one.
      replace (S (pc + si (sizes None l))) with (pc + si (sizes None l) + 1) in * by lia.
      apply step_jump_to with (j := j + sji (sizes None l) + 1); auto.
  - destruct Hrest as [-> ->].
    exists vin, mt1. split; [|split; auto].
    eapply star_trans; [exact St1|]. apply star_one. exact Hstep.
Qed.

(* ---- a conditional on its own ---- *)
Lemma sim_cond : forall neg c a, Goal_eval (ECond neg c a).
Proof.
  intros neg c a vin s v s' H Hf Hsh b Hsq pc j ob jb sg vs fs mt Hp Hl Ho.
  cbn [frag shape_okC seq_ok] in *. and2 Hf Hfc Hfa. and2 Hsh Hshc Hsha. and2 Hsq Hsqc Hsqa.
  destruct (lplaced_ECond sym_hash C J cont None neg c a pc j ob jb Hp) as (Pc & Pa & Hn1 & Hn2 & Hj1 & Hj2 & Hn3).
  assert (Hsz : si (sizes None (ECond neg c a)) = si (sizes None c) + 2) by reflexivity.
  rewrite Hsz in *.
  cbn [Eval.eval] in H. inv_as H vc s1 Ec.
  destruct (IHe c vin s vc s1 Ec Hfc Hshc false Hsqc pc j _ _ sg vs fs mt Pc (nth_lt _ _ _ _ Hn1) Ho)
    as (vin1 & mt1 & St1 & Ho1 & Hv1).
  rewrite (Hv1 (seq_ok_false_noseq _ Hsqc)) in St1.
  pose proof (placed_start_lt _ _ _ _ _ _ _ Pa) as Hob.
  assert (Hstep : Machine.step hstate host P (St (pc + si (sizes None c)) (vc :: sg) (vin :: vs) fs (fst s1) mt1) =
          SRun hstate (St (if cond_holds neg vc then ob else S (pc + si (sizes None c))) sg (vin :: vs) fs (fst s1) mt1)).
  { apply step_jump_if with (j := j + sji (sizes None c)); auto. apply nth_lt in Hn2. lia. }
  destruct (cond_holds neg vc).
  - destruct (IHe a vin s1 v s' H Hfa Hsha false Hsqa ob jb _ _ sg vs fs mt1 Pa (nth_lt _ _ _ _ Hn3) Ho1)
      as (vin2 & mt2 & St2 & Ho2 & Hv2).
    rewrite (Hv2 (seq_ok_false_noseq _ Hsqa)) in St2.
    exists vin, mt2. split; [|split; auto].
    eapply star_trans; [exact St1|]. eapply star_step; [exact Hstep|].
    eapply star_trans; [exact St2|]. apply star_one.
    apply step_jump_to with (j := j + sji (sizes None c) + 1); auto.
    rewrite Hj2. f_equal. lia.
  - injection H as <- <-.
    exists vin, mt1. split; [|split; auto].
    eapply star_trans; [exact St1|]. eapply star_step; [exact Hstep|].
    apply star_one.
    replace (pc + (si (sizes None c) + 2)) with (S (S (pc + si (sizes None c)))) in * by lia.
    apply step_put_value; auto.
    replace (S (pc + si (sizes None c))) with (pc + si (sizes None c) + 1) by lia. exact Hn2.
Qed.

(* ---- lists ---- *)
Lemma same_kind_refl : forall k, same_kind k k = true.
Proof. destruct k; reflexivity. Qed.

Definition placed_list_ctx := lplaced_list_ctx sym_hash C J.

Lemma sim_list : forall k l r, Goal_eval (EList k l r).
Proof.
  intros k l r vin s v s' H Hf Hsh b Hsq pc j ob jb sg vs fs mt Hp Hl Ho.
  cbn [Eval.eval] in H. inv_as H items s1 Ei. injection H as <- <-.
  destruct (lplaced_EList sym_hash C J cont None k l r pc j ob jb Hp) as (_ & _ & Hmk).
  specialize (Hmk eq_refl).
  pose proof (placed_list_ctx _ _ _ _ _ _ _ _ Hp) as Pk.
  assert (Hsz1 : si (sizes None (EList k l r)) = si (sizes (Some k) l) + si (sizes (Some k) r) + 1) by reflexivity.
  assert (Hsz2 : si (sizes (Some k) (EList k l r)) = si (sizes (Some k) l) + si (sizes (Some k) r)).
  { unfold sizes. cbn [sizesC in_list to_sz of_sz si ci]. rewrite same_kind_refl. lia. }
  assert (Hsq' : seq_ok false (EList k l r) = true) by (cbn [seq_ok] in *; exact Hsq).
  assert (Hl2 : pc + si (sizes (Some k) (EList k l r)) < length C) by (rewrite Hsz2; apply nth_lt in Hmk; lia).
  destruct (IHi k (EList k l r) vin s items s1 Ei Hf Hsh Hsq' pc j ob jb sg vs fs mt Pk Hl2 Ho)
    as (mt1 & St1 & Ho1 & Hlen).
  rewrite Hsz1 in *. rewrite Hsz2 in *.
  exists vin, mt1. split; [|split; auto].
  eapply star_trans; [exact St1|]. apply star_one.
  replace (pc + (si (sizes (Some k) l) + si (sizes (Some k) r) + 1)) with (S (pc + (si (sizes (Some k) l) + si (sizes (Some k) r)))) in * by lia.
  apply step_make_list; auto.
  rewrite Hlen. replace (pc + (si (sizes (Some k) l) + si (sizes (Some k) r))) with (pc + si (sizes (Some k) l) + si (sizes (Some k) r)) by lia.
  exact Hmk.
Qed.

(* ---- list items ---- *)
Definition placed_lk := lplaced_lk sym_hash C J.
Lemma sizes_lk : forall k e, is_list_of k e = false -> sizes (Some k) e = sizes None e.
Proof. intros. unfold sizes. rewrite sizesC_lk; auto. Qed.

Lemma leaves_not_list : forall k e, is_list_of k e = false -> leaves k e = 1.
Proof. intros k e H. destruct e; cbn in *; auto. destruct k, k0; cbn in *; auto; discriminate. Qed.

Lemma sim_items_step : forall k e vin (s : est) items s',
  eval_items (S n) k e vin s = ODone items s' ->
  frag e = true -> shape_ok e = true -> seq_ok false e = true ->
  forall pc j ob jb sg vs fs mt,
  placed cont (Some k) e pc j ob jb -> pc + si (sizes (Some k) e) < length C -> observable mt = snd s ->
  exists mt',
    star (St pc sg (vin :: vs) fs (fst s) mt)
         (St (pc + si (sizes (Some k) e)) (rev items ++ sg) (vin :: vs) fs (fst s') mt') /\
    observable mt' = snd s' /\ length items = leaves k e.
Proof.
  intros k e vin s items s' H Hf Hsh Hsq pc j ob jb sg vs fs mt Hp Hl Ho.
  destruct (is_list_of k e) eqn:Hlist.
  - (* a list of the same kind: its items *)
    destruct e; try discriminate.
    assert (k0 = k) by (destruct k, k0; cbn in Hlist; auto; discriminate). subst k0.
    cbn [frag shape_okC seq_ok] in *. and2 Hf Hfl Hfr. and3 Hsh Hnl Hshl Hshr. and2 Hsq Hsql Hsqr.
    apply negb_true_iff in Hnl.
    destruct (lplaced_EList sym_hash C J cont (Some k) k e1 e2 pc j ob jb Hp) as (Pl & Pr & _).
    assert (Hsz : si (sizes (Some k) (EList k e1 e2)) = si (sizes (Some k) e1) + si (sizes (Some k) e2)).
    { unfold sizes. cbn [sizesC in_list to_sz of_sz si ci]. rewrite same_kind_refl. lia. }
    rewrite Hsz in *.
    assert (Hev : exists ls s1 vr, (if is_list_of k e1 then eval_items n k e1 vin s = ODone ls s1
                                    else exists v1, eval n e1 vin s = ODone v1 s1 /\ ls = [v1]) /\
                                   eval n e2 vin s1 = ODone vr s' /\ items = ls ++ [vr]).
    { cbn [Eval.eval_items] in H.
      assert (Hk : match k, k with Space, Space | Comma, Comma => true | _, _ => false end = true) by (destruct k; reflexivity).
      rewrite Hk in H. inv_as H ls s1 El. inv_as H vr s2 Er. injection H as <- <-.
      exists ls, s1, vr. split; [|split; auto].
      destruct (is_list_of k e1); auto. inv_as El v1 s0 E1. injection El as <- <-. eauto. }
    destruct Hev as (ls & s1 & vr & Hls & Er & ->).
    pose proof (placed_lk _ _ _ _ _ _ _ Hnl Pr) as Pr'.
    rewrite (sizes_lk k e2 Hnl) in *.
    assert (Hl1 : pc + si (sizes (Some k) e1) < length C).
    { pose proof (placed_start_lt _ _ _ _ _ _ _ Pr'). lia. }
    assert (Hleft : exists mt1, star (St pc sg (vin :: vs) fs (fst s) mt)
                                  (St (pc + si (sizes (Some k) e1)) (rev ls ++ sg) (vin :: vs) fs (fst s1) mt1) /\
                                observable mt1 = snd s1 /\ length ls = leaves k e1).
    { destruct (is_list_of k e1) eqn:Hl1k.
      - apply (IHi k e1 vin s ls s1 Hls Hfl Hshl Hsql pc j _ _ sg vs fs mt Pl Hl1 Ho).
      - destruct Hls as (v1 & E1 & ->).
        pose proof (placed_lk _ _ _ _ _ _ _ Hl1k Pl) as Pl'.
        rewrite (sizes_lk k e1 Hl1k) in *.
        destruct (IHe e1 vin s v1 s1 E1 Hfl Hshl false Hsql pc j _ _ sg vs fs mt Pl' Hl1 Ho)
          as (vin1 & mt1 & St1 & Ho1 & Hv1).
        rewrite (Hv1 (seq_ok_false_noseq _ Hsql)) in St1.
        exists mt1. split; [exact St1 | split; auto]. rewrite leaves_not_list; auto. }
    destruct Hleft as (mt1 & St1 & Ho1 & Hlen).
    rewrite Nat.add_assoc in Hl.
    destruct (IHe e2 vin s1 vr s' Er Hfr Hshr false Hsqr _ _ ob jb (rev ls ++ sg) vs fs mt1 Pr' Hl Ho1)
      as (vin2 & mt2 & St2 & Ho2 & Hv2).
    rewrite (Hv2 (seq_ok_false_noseq _ Hsqr)) in St2.
    exists mt2. split; [|split; auto].
    + rewrite rev_app_distr. cbn [rev app].
      replace (pc + (si (sizes (Some k) e1) + si (sizes None e2))) with (pc + si (sizes (Some k) e1) + si (sizes None e2)) by lia.
      eapply star_trans; [exact St1 | exact St2].
    + rewrite app_length. cbn [length leaves]. rewrite same_kind_refl, Hlen, (leaves_not_list k e2 Hnl). lia.
  - (* one item *)
    assert (Hev : exists v, eval n e vin s = ODone v s' /\ items = [v]).
    { destruct e; cbn [Eval.eval_items] in H;
        try (inv_as H v1 s1 E1; injection H as <- <-; eauto).
      destruct k, k0; cbn in Hlist; try discriminate;
        inv_as H v1 s1 E1; injection H as <- <-; eauto. }
    destruct Hev as (v & E & ->).
    pose proof (placed_lk _ _ _ _ _ _ _ Hlist Hp) as Hp'.
    rewrite (sizes_lk k e Hlist) in *.
    destruct (IHe e vin s v s' E Hf Hsh false Hsq pc j ob jb sg vs fs mt Hp' Hl Ho)
      as (vin1 & mt1 & St1 & Ho1 & Hv1).
    rewrite (Hv1 (seq_ok_false_noseq _ Hsq)) in St1.
    exists mt1. split; [exact St1 | split; auto]. rewrite leaves_not_list; auto.
Qed.

(* ---- else-chains ---- *)
Lemma placedC_start_lt : forall cont0 e pc j aob ajb ob jb jj,
  placedC true cont0 None e pc j aob ajb ob jb jj -> pc < length C.
Proof.
  intros cont0 e pc j aob ajb ob jb jj ((A & _) & _).
  pose proof (len_inl sym_hash e true cont0 None pc j aob ajb ob jb jj) as L.
  pose proof (ci_pos e true None) as Hp.
  destruct (c_inl (compC sym_hash true cont0 None e pc j aob ajb ob jb jj)) as [|x l] eqn:Hf.
  - cbn [length] in L. lia.
  - specialize (A 0 x eq_refl). rewrite Nat.add_0_r in A. eapply nth_lt; eauto.
Qed.

Lemma lchain_cond_or_else : forall e, lchain e = true ->
  (exists neg c a, e = ECond neg c a) \/ (exists l r, e = EElse l r /\ lchain l = true /\ is_cond r = true).
Proof.
  destruct e; cbn; intros H; try discriminate; eauto.
  apply andb_prop in H. destruct H. right. eauto.
Qed.

Lemma sim_chain_step : forall e vin (s : est) o s',
  eval_chain (S n) e vin s = ODone o s' ->
  lchain e = true -> frag e = true -> shape_okC true e = true -> seq_ok false e = true ->
  forall pc j aob ajb ob jb jj pjoin sg vs fs mt,
  placedC true cont None e pc j aob ajb ob jb jj ->
  nth_error J jj = Some pjoin -> pjoin < length C -> pc + ci (csizes e) < length C -> observable mt = snd s ->
  exists mt', observable mt' = snd s' /\
    match o with
    | None => star (St pc sg (vin :: vs) fs (fst s) mt) (St (pc + ci (csizes e)) sg (vin :: vs) fs (fst s') mt')
    | Some v => star (St pc sg (vin :: vs) fs (fst s) mt) (St pjoin (v :: sg) (vin :: vs) fs (fst s') mt')
    end.
Proof.
  intros e vin s o s' H Hlc Hf Hsh Hsq pc j aob ajb ob jb jj pjoin sg vs fs mt Hp Hj Hpj Hl Ho.
  destruct (lchain_cond_or_else e Hlc) as [(neg & c & a & ->) | (l & r & -> & Hll & Hcr)].
  - (* one conditional item *)
    cbn [frag shape_okC seq_ok] in *. and2 Hf Hfc Hfa. and2 Hsh Hshc Hsha. and2 Hsq Hsqc Hsqa.
    destruct (lplacedC_ECond sym_hash C J cont None neg c a pc j aob ajb ob jb jj Hp) as (Pc & Pa & Hn1 & Hj1 & Hn2).
    assert (Hsz : ci (csizes (ECond neg c a)) = si (sizes None c) + 1) by reflexivity.
    rewrite Hsz in *.
    cbn [Eval.eval_chain] in H. inv_as H vc s1 Ec.
    destruct (IHe c vin s vc s1 Ec Hfc Hshc false Hsqc pc j _ _ sg vs fs mt Pc (nth_lt _ _ _ _ Hn1) Ho)
      as (vin1 & mt1 & St1 & Ho1 & Hv1).
    rewrite (Hv1 (seq_ok_false_noseq _ Hsqc)) in St1.
    pose proof (placed_start_lt _ _ _ _ _ _ _ Pa) as Hob.
    replace (pc + (si (sizes None c) + 1)) with (S (pc + si (sizes None c))) in * by lia.
    assert (Hstep : Machine.step hstate host P (St (pc + si (sizes None c)) (vc :: sg) (vin :: vs) fs (fst s1) mt1) =
            SRun hstate (St (if cond_holds neg vc then aob else S (pc + si (sizes None c))) sg (vin :: vs) fs (fst s1) mt1)).
    { apply step_jump_if with (j := j + sji (sizes None c)); auto. }
    destruct (cond_holds neg vc).
    + inv_as H v s2 Ea. injection H as <- <-.
      destruct (IHe a vin s1 v s2 Ea Hfa Hsha false Hsqa aob ajb _ _ sg vs fs mt1 Pa (nth_lt _ _ _ _ Hn2) Ho1)
        as (vin2 & mt2 & St2 & Ho2 & Hv2).
      rewrite (Hv2 (seq_ok_false_noseq _ Hsqa)) in St2.
      exists mt2. split; auto.
      eapply star_trans; [exact St1|]. eapply star_step; [exact Hstep|].
      eapply star_trans; [exact St2|]. apply star_one.
      apply step_jump_to with (j := jj); auto.
    + injection H as <- <-.
      exists mt1. split; auto.
      eapply star_trans; [exact St1|]. apply star_one. exact Hstep.
  - (* a chain followed by one more conditional *)
    cbn [frag shape_okC seq_ok] in *. and2 Hf Hfl Hfr. and2 Hsh Hshl Hshr. and2 Hsq Hsql Hsqr.
    destruct (lplacedC_EElse sym_hash C J cont None l r pc j aob ajb ob jb jj Hp) as (Pl & Pr).
    assert (Hsz : ci (csizes (EElse l r)) = ci (csizes l) + ci (csizes r)) by reflexivity.
    rewrite Hsz in *.
    assert (Hlr : lchain r = true) by (destruct r; try discriminate; reflexivity).
    cbn [Eval.eval_chain] in H. inv_as H ol s1 El.
    pose proof (placedC_start_lt _ _ _ _ _ _ _ _ _ Pr) as Hl1.
    destruct (IHc l vin s ol s1 El Hll Hfl Hshl Hsql pc j _ _ _ _ jj pjoin sg vs fs mt Pl Hj Hpj Hl1 Ho)
      as (mt1 & Ho1 & Hres).
    destruct ol as [v|].
    + injection H as <- <-. exists mt1. split; auto.
    + rewrite Nat.add_assoc in Hl.
      destruct (IHc r vin s1 o s' H Hlr Hfr Hshr Hsqr _ _ aob ajb ob jb jj pjoin sg vs fs mt1 Pr Hj Hpj Hl Ho1)
        as (mt2 & Ho2 & Hres2).
      exists mt2. split; auto.
      destruct o; rewrite ?Nat.add_assoc; (eapply star_trans; [exact Hres | exact Hres2]).
Qed.

Lemma lchain_cn : forall l, lchain l = true -> 1 <= cn (csizes l).
Proof.
  induction l; cbn [lchain]; intros H; try discriminate.
  - unfold csizes. cbn [sizesC cn]. lia.
  - apply andb_prop in H. destruct H as [H1 H2]. specialize (IHl1 H1).
    unfold csizes in *. cbn [sizesC cn]. lia.
Qed.

Lemma plain_chain_eval : forall m r vin (s : est) o s',
  plain r = true -> eval_chain (S m) r vin s = ODone o s' ->
  exists v, eval m r vin s = ODone v s' /\ o = Some v.
Proof.
  intros m r vin s o s' Hpl H.
  destruct r; try discriminate; cbn [Eval.eval_chain] in H;
    apply obind_done in H; destruct H as (v & s1 & E & H); injection H as <- <-; eauto.
Qed.

(* ---- the head of an else-chain ---- *)
Lemma sim_else : forall l r, Goal_eval (EElse l r).
Proof.
  intros l r vin s v s' H Hf Hsh b Hsq pc j ob jb sg vs fs mt Hp Hl Ho.
  cbn [frag shape_okC seq_ok] in *. and2 Hf Hfl Hfr. and4 Hsh Hll Hpr Hshl Hshr. and2 Hsq Hsql Hsqr.
  destruct (lplaced_EElse_head sym_hash C J cont None l r pc j ob jb Hp) as (Pl & Pr & Hjj).
  assert (Hsz : si (sizes None (EElse l r)) = ci (csizes l) + ci (csizes r)) by reflexivity.
  rewrite Hsz in *.
  pose proof (lchain_cn l Hll) as Hcn.
  assert (Hj : nth_error J (j + cji (csizes l) + cji (csizes r)) = Some (pc + ci (csizes l) + ci (csizes r))) by (apply Hjj; lia).
  assert (Hpl : is_cond r = false /\ is_else r = false).
  { unfold plain in Hpr. apply andb_prop in Hpr. destruct Hpr as [A B].
    apply negb_true_iff in A. apply negb_true_iff in B. auto. }
  destruct Hpl as [Hnc Hne].
  pose proof (lplacedC_plain_item sym_hash C J cont r _ _ _ _ _ _ _ Hnc Hne Pr) as Pr'.
  assert (Hcr : ci (csizes r) = si (sizes None r)).
  { unfold csizes, sizes. rewrite (sizesC_plain_item r None Hnc Hne). reflexivity. }
  rewrite Nat.add_assoc in Hl.
  cbn [Eval.eval] in H. inv_as H o s1 Ech.
  destruct n as [|n1]; [discriminate|].
  cbn [Eval.eval_chain] in Ech. inv_as Ech ol s2 El.
  pose proof (IHcd n1 (le_S _ _ (le_n n1))) as IHc1.
  assert (Hl1 : pc + ci (csizes l) < length C) by (pose proof (placed_start_lt _ _ _ _ _ _ _ Pr'); lia).
  destruct (IHc1 l vin s ol s2 El Hll Hfl Hshl Hsql pc j _ _ _ _ _ _ sg vs fs mt Pl Hj Hl Hl1 Ho)
    as (mt1 & Ho1 & Hres).
  destruct ol as [v1|].
  - injection Ech as <- <-. injection H as <- <-.
    exists vin, mt1. split; [|split; auto].
    rewrite Nat.add_assoc. exact Hres.
  - destruct n1 as [|n2]; [discriminate|].
    destruct (plain_chain_eval n2 r vin s2 o s1 Hpr Ech) as (v2 & Er & ->).
    injection H as <- <-.
    assert (Hle : n2 <= S (S n2)) by lia.
    pose proof (IHd n2 Hle) as IHe2.
    rewrite Hcr in *.
    destruct (IHe2 r vin s2 v2 s1 Er Hfr Hshr false Hsqr _ _ _ _ sg vs fs mt1 Pr' Hl Ho1)
      as (vin2 & mt2 & St2 & Ho2 & Hv2).
    rewrite (Hv2 (seq_ok_false_noseq _ Hsqr)) in St2.
    exists vin, mt2. split; [|split; auto].
    rewrite Nat.add_assoc. eapply star_trans; [exact Hres | exact St2].
Qed.

(* ---- all constructs ---- *)

(* ---- stage 4: nested expressions and the apply forms ---- *)
Lemma sim_nested : forall lbl b, Goal_eval (ENested lbl b).
Proof.
  intros lbl b vin s v s' H Hf Hsh bb Hsq pc j ob jb sg vs fs mt Hp Hl Ho.
  cbn [Eval.eval] in H. injection H as <- <-.
  destruct (lplaced_ENested sym_hash C J cont None lbl b pc j ob jb Hp) as (-> & Hn & _).
  assert (Hsz : si (sizes None (ENested (N.of_nat j) b)) = 1) by reflexivity.
  rewrite Hsz in *. replace (pc + 1) with (S pc) in * by lia.
  exists vin, mt. split; [|split; auto].
  apply star_one. apply step_put; auto.
Qed.

Lemma sim_apply : forall f x, Goal_eval (EBin BApply f x).
Proof.
  intros f x vin s v s' H Hf Hsh b Hsq pc j ob jb sg vs fs mt Hp Hl Ho.
  cbn [frag shape_okC seq_ok] in *. and2 Hf Hff Hfx. and2 Hsh Hshf Hshx. and2 Hsq Hsqf Hsqx.
  destruct (lplaced_EBin_lr sym_hash C J cont None BApply f x pc j ob jb eq_refl Hp) as (Pf & Px & Hn).
  assert (Hsz : si (sizes None (EBin BApply f x)) = si (sizes None f) + si (sizes None x) + 1) by reflexivity.
  rewrite Hsz in *.
  cbn [Eval.eval] in H. inv_as H vf s1 Ef. inv_as H vx s2 Ex.
  assert (Hl1 : pc + si (sizes None f) < length C) by (apply nth_lt in Hn; lia).
  destruct (IHe f vin s vf s1 Ef Hff Hshf false Hsqf pc j _ _ sg vs fs mt Pf Hl1 Ho)
    as (vin1 & mt1 & St1 & Ho1 & Hv1).
  rewrite (Hv1 (seq_ok_false_noseq _ Hsqf)) in St1.
  destruct (IHe x vin s1 vx s2 Ex Hfx Hshx false Hsqx _ _ ob jb (vf :: sg) vs fs mt1 Px (nth_lt _ _ _ _ Hn) Ho1)
    as (vin2 & mt2 & St2 & Ho2 & Hv2).
  rewrite (Hv2 (seq_ok_false_noseq _ Hsqx)) in St2.
  replace (pc + (si (sizes None f) + si (sizes None x) + 1)) with (S (pc + si (sizes None f) + si (sizes None x))) in * by lia.
  destruct (IHad vf vx s2 v s' H false (pc + si (sizes None f) + si (sizes None x)) sg (vin :: vs) fs mt2
              (fun E => False_ind _ (Bool.diff_false_true E)) Hn Hl Ho2) as (mt3 & St3 & Ho3).
  exists vin, mt3. split; [|split; auto].
  eapply star_trans; [exact St1|]. eapply star_trans; [exact St2|]. exact St3.
Qed.

Lemma sim_applyto : forall x f, Goal_eval (EBin BApplyTo x f).
Proof.
  intros x f vin s v s' H Hf Hsh b Hsq pc j ob jb sg vs fs mt Hp Hl Ho.
  cbn [frag shape_okC seq_ok] in *. and2 Hf Hfx Hff. and2 Hsh Hshx Hshf. and2 Hsq Hsqx Hsqf.
  destruct (lplaced_EBin_rl sym_hash C J cont None BApplyTo x f pc j ob jb eq_refl Hp) as (Pf & Px & Hn).
  assert (Hsz : si (sizes None (EBin BApplyTo x f)) = si (sizes None x) + si (sizes None f) + 1) by reflexivity.
  rewrite Hsz in *.
  cbn [Eval.eval] in H. inv_as H vf s1 Ef. inv_as H vx s2 Ex.
  assert (Hl1 : pc + si (sizes None f) < length C) by (apply nth_lt in Hn; lia).
  destruct (IHe f vin s vf s1 Ef Hff Hshf false Hsqf pc j _ _ sg vs fs mt Pf Hl1 Ho)
    as (vin1 & mt1 & St1 & Ho1 & Hv1).
  rewrite (Hv1 (seq_ok_false_noseq _ Hsqf)) in St1.
  destruct (IHe x vin s1 vx s2 Ex Hfx Hshx false Hsqx _ _ ob jb (vf :: sg) vs fs mt1 Px (nth_lt _ _ _ _ Hn) Ho1)
    as (vin2 & mt2 & St2 & Ho2 & Hv2).
  rewrite (Hv2 (seq_ok_false_noseq _ Hsqx)) in St2.
  replace (pc + (si (sizes None x) + si (sizes None f) + 1)) with (S (pc + si (sizes None f) + si (sizes None x))) in * by lia.
  destruct (IHad vf vx s2 v s' H false (pc + si (sizes None f) + si (sizes None x)) sg (vin :: vs) fs mt2
              (fun E => False_ind _ (Bool.diff_false_true E)) Hn Hl Ho2) as (mt3 & St3 & Ho3).
  exists vin, mt3. split; [|split; auto].
  eapply star_trans; [exact St1|]. eapply star_trans; [exact St2|]. exact St3.
Qed.

Lemma sim_empty_apply : forall f, Goal_eval (EUn UEmptyApply f).
Proof.
  intros f vin s v s' H Hf Hsh b Hsq pc j ob jb sg vs fs mt Hp Hl Ho.
  cbn [frag shape_okC seq_ok] in *.
  destruct (lplaced_EUn sym_hash C J cont None UEmptyApply f pc j ob jb Hp) as (Pf & Hn).
  assert (Hsz : si (sizes None (EUn UEmptyApply f)) = si (sizes None f) + 1) by reflexivity.
  rewrite Hsz in *.
  cbn [Eval.eval] in H. inv_as H vf s1 Ef.
  destruct (IHe f vin s vf s1 Ef Hf Hsh false Hsq pc j ob jb sg vs fs mt Pf (nth_lt _ _ _ _ Hn) Ho)
    as (vin1 & mt1 & St1 & Ho1 & Hv1).
  rewrite (Hv1 (seq_ok_false_noseq _ Hsq)) in St1.
  replace (pc + (si (sizes None f) + 1)) with (S (pc + si (sizes None f))) in * by lia.
  destruct (IHad vf VUnit s1 v s' H true (pc + si (sizes None f)) sg (vin :: vs) fs mt1 (fun _ => eq_refl) Hn Hl Ho1)
    as (mt2 & St2 & Ho2).
  exists vin, mt2. split; [|split; auto].
  eapply star_trans; [exact St1 | exact St2].
Qed.

(* ---- every construct, outcome ODone ---- *)
Lemma sim_eval_done : forall e, Goal_eval e.
Proof.
  intros e. destruct e.
  - intros vin s v s' H _ _ _ _. apply (sim_leaf (ELit l) I vin s v s' H).
  - intros vin s v s' H _ _ _ _. apply (sim_leaf EValue I vin s v s' H).
  - intros vin s v s' H _ _ _ _. apply (sim_leaf (EIdent name) I vin s v s' H).
  - destruct o; try (apply sim_un; reflexivity). apply sim_empty_apply.
  - destruct o; try (apply sim_bin; [reflexivity | discriminate]).
    + apply sim_pair.
    + apply sim_apply.
    + apply sim_applyto.
  - apply (sim_logical true).
  - apply (sim_logical false).
  - apply sim_list.
  - apply sim_group.
  - apply sim_cond.
  - apply sim_else.
  - apply sim_seq.
  - apply sim_side.
  - apply sim_nested.
  - intros vin s v s' H. cbn [Eval.eval] in H. apply obind_done in H. destruct H as (? & ? & _ & H). discriminate.
Qed.

End SimDone.
