"""Parsing of the pipeline harness / pipe_driver line format and the native
(Python) evaluation of the C03/C04 statements on it."""
import re

TRIVIA_NAMES = {"Whitespace", "Annotation", "LineAnnotation", "EndGroup", "EndExpression", "EndSideEffect",
                "Subexpression", "ExpressionSeparator"}


def load_names():
    tts = re.findall(r"TokenType::(\w+),", open("/verif/harness/src/gen_tables.rs").read())
    gen = open("/verif/coq/Gen/Defs.v").read()
    defs = re.findall(r"^\| D_(\w+)", gen, re.M)
    secs = re.findall(r"^\| S_(\w+)", gen, re.M)
    ins = re.findall(r"^\| I_(\w+)", open("/verif/coq/Gen/Instr.v").read(), re.M)
    return tts, defs, secs, ins


def parse_result(res):
    """res: 'L=ok P=... B=... [BB=...]' -> dict"""
    out = {"raw": res}
    if res in ("HANG", "CRASH", "BADCASE") or res.startswith("L=PANIC") or res.startswith("L=ERR"):
        out["class"] = res.split(" ")[0]
        return out
    m = re.match(r"L=ok P=(\S+)(?: B=(\S+))?(?: BB=(\S+))?", res)
    if not m:
        out["class"] = "?"
        return out
    out["class"] = "ok"
    p, b, bb = m.group(1), m.group(2), m.group(3)
    out["P"], out["B"], out["BB"] = p, b, bb
    if p.startswith("OK:"):
        _, root, nodes = p.split(":", 2)
        out["root"] = int(root)
        ns = []
        body = nodes[1:-1]
        if body:
            for item in body.split(";"):
                d, s, par, l, r, t = item.split(".")
                ns.append({"def": int(d), "sec": int(s), "parent": None if par == "-" else int(par),
                           "left": None if l == "-" else int(l), "right": None if r == "-" else int(r),
                           "tok": None if t == "e" else int(t)})
        out["nodes"] = ns
    if b and b.startswith("OK:"):
        m2 = re.match(r"OK:(\d+):I\[(.*?)\]:J\[(.*?)\]:M\[(.*?)\]$", b)
        out["entry"] = int(m2.group(1))
        out["instrs"] = [x for x in m2.group(2).split(",") if x]
        out["jumps"] = [None if x == "-" else int(x) for x in m2.group(3).split(",") if x]
        out["meta"] = [None if x == "-" else int(x) for x in m2.group(4).split(",") if x]
    return out


def proper_tree(nodes, root, sep_defs=()):
    """Returns None if the nodes reachable from the root form a proper binary tree (child and
    parent links agree, nothing shared or cyclic) and every unreachable node is a dropped
    separator; else a reason string."""
    n = len(nodes)
    if n == 0:
        return None
    if not (0 <= root < n):
        return "root out of range"
    if nodes[root]["parent"] is not None:
        return "root has a parent"
    order = inorder(nodes, root)
    if order is None:
        return "cycle or dangling child below the root"
    if len(set(order)) != len(order):
        return "a node is shared (visited twice)"
    for i in order:
        nd = nodes[i]
        for side in ("left", "right"):
            c = nd[side]
            if c is not None and nodes[c]["parent"] != i:
                return "node %d: %s child %d has parent %s" % (i, side, c, nodes[c]["parent"])
        if nd["left"] is not None and nd["left"] == nd["right"]:
            return "node %d: left == right" % i
    reach = set(order)
    for i, nd in enumerate(nodes):
        if i not in reach and nd["def"] not in sep_defs:
            return "node %d is not reachable from the root" % i
    return None


def inorder(nodes, root):
    out, stack, cur, steps = [], [], root, 0
    limit = 4 * len(nodes) + 4
    while stack or cur is not None:
        steps += 1
        if steps > limit:
            return None
        if cur is not None:
            if not (0 <= cur < len(nodes)):
                return None
            stack.append(cur)
            cur = nodes[cur]["left"]
        else:
            cur = stack.pop()
            out.append(cur)
            cur = nodes[cur]["right"]
    return out


def c04_verdict(parsed, toks, names):
    """C04 on one accepted case. Returns None if it holds, else a reason."""
    tts, defs, secs, ins = names
    nodes, root = parsed["nodes"], parsed["root"]
    D = {n: i for i, n in enumerate(defs)}
    S = {n: i for i, n in enumerate(secs)}
    why = proper_tree(nodes, root, (D["Subexpression"], D["ExpressionSeparator"]))
    if why:
        return "not a proper tree: " + why
    if not nodes:
        return None
    order = inorder(nodes, root)
    seq = []
    for i in order:
        nd = nodes[i]
        synth = nd["def"] == D["List"] and nd["sec"] == S["StartGrouping"]
        if not synth:
            seq.append(nd["tok"])
    if any(t is None for t in seq):
        return "a non-synthesised node carries the empty token"
    if any(a >= b for a, b in zip(seq, seq[1:])):
        return "in-order walk is not in source order: %s" % seq
    have = set(seq)
    for k, t in enumerate(toks):
        if tts[t] not in TRIVIA_NAMES and k not in have:
            return "token %d (%s) is not in the tree" % (k, tts[t])
    if "instrs" in parsed:
        attributed = {m for m in parsed["meta"] if m is not None}
        if len(parsed["meta"]) != len(parsed["instrs"]):
            return "metadata count %d != instruction count %d" % (len(parsed["meta"]), len(parsed["instrs"]))
        for i in order:
            nd = nodes[i]
            d = defs[nd["def"]]
            if d in ("Group", "ElseJump"):
                continue
            if d in ("List", "CommaList") and nd["parent"] is not None and nodes[nd["parent"]]["def"] == nd["def"]:
                continue  # flattened into the enclosing list of the same kind
            if i not in attributed:
                return "node %d (%s) has no instruction attributed to it" % (i, d)
    return None


def known_c04(parsed, toks, names):
    """classifier for the listed C04 findings (same class as Coq's known_c04_k1); returns a finding id or None"""
    tts, defs, secs, ins = names
    gen = open("/verif/coq/Gen/Defs.v").read()
    sec_of = dict(re.findall(r"\| TT_(\w+) => \(D_\w+, S_(\w+)\)", gen))
    for k, t in enumerate(toks):
        if tts[t] == "EndSideEffect":
            for u in toks[k + 1:]:
                s2 = sec_of[tts[u]]
                if s2 in ("Whitespace", "Annotation"):
                    continue
                if s2 in ("UnaryPrefix", "StartGrouping", "StartSideEffect"):
                    return "C04-K1"
                break
    return None
