(* One more bounded theorem: every token sequence of length 7 over a small
   alphabet (the ten token classes that produce bodies, groups and loops).
   The enumeration is done without materialising the list of sequences. *)
From Coq Require Import List Arith Bool NArith Lia.
From GV Require Import Base.Result Gen.TokenTypes Gen.Defs Gen.Instr Model.Parser Model.BuilderWL Model.Compile
  Spec.WfCode Proofs.C05.Known Proofs.C05.WfSound Proofs.C05.Bounded.
Import ListNotations.

Lemma small_b_7 : all_seqs_ok check_b small_alphabet 7 [] = true.
Proof. vm_cast_no_check (@eq_refl bool true). Qed.

Lemma small_check_b : forall toks, length toks = 7 -> (forall x, In x toks -> In x small_alphabet) -> check_b toks = true.
Proof. intros toks H7 Hin. exact (all_seqs_ok_spec _ check_b small_alphabet 7 [] small_b_7 toks H7 Hin). Qed.
