"""C07 Executing a built program never panics the host."""
import collections, concurrent.futures as cf, json, os, re, subprocess, time
import vplib
import c07_gen
from vplib import Verdict, log

PID = "C07"
MANIFEST_ENTRY = {
 "level_claimed": {
  "category": "proof",
  "text": "proof (partial: per component, not for a model of the whole runtime). Theorems in coq/Properties/C07.v: for ALL operand values the index/length arithmetic and slicing at every inventoried panic site reachable from execute_current_instruction cannot reach its Panic point -- GarnishNumber operations (shift counts, MIN / -1, zero divisors), number->usize casts, equality/make_list register arithmetic, item getters and index_list/char/byte/symbol list on both stores (negative, fractional, NaN, huge indexes), range length / range access / make_range, ~# range->list, Simple's end_list placement, association probing and slice-of-concatenation window, the iterators, Basic's block-relative addressing, extents (reversed, clamped), association/end_list/conversion slices, pop_frame, binary search, reallocation copy, bytes->i32, the depth bound of the recursive renderers -- each under the part of the store invariant it names; for BasicGarnishData these hypotheses are additionally DISCHARGED for every reachable store of Model/BasicStore.v (fresh store with progressing growth settings, then any history of the C15 operation vocabulary): theorems C07_*_reachable derive block bounds, list runs, frame indexes from the invariant C15 proves (Proofs/C07/Reachable.v) and text runs, Char/Byte cell kinds and association counts from a strengthened invariant proved preserved by every operation (Proofs/C07/TextInv.v, for histories whose text operations write the character count as header; C07_text_invariant_needs_wf shows the side condition is necessary); a run of a machine whose step is safe never panics (C07_run_from_step); C07_full_statement (one step of the real runtime from the global store invariant) stays a Definition. The inventory of potential panic sites (unwrap/expect/indexing/slicing/panicking macros/usize arithmetic/casts/std calls that panic/recursion) is regenerated from /repo on every run and every site must be classified in tools/panic_map.json (model+lemma, argument, out of scope as verified against the name-based call graph); the index models are run against both data implementations; a boundary-value search (every instruction x operand type pairs x boundary values, every ~# cast, nested slices/concatenations, 10^5-deep data, grammar-generated programs with boundary literals, hosts absent/declining/accepting) looks for PANIC/HANG/CRASH on the real code.",
  "design_ref": "DESIGN.md section 8 C07"
 },
 "level_note": "Trusted: Coq kernel; Flocq's four standard-library axioms (through Model/Num.v); the scanner tools/sync/panicsites.py (syntactic, not a Rust front end: macro-generated code and trait objects are invisible to it), its re-matching rule (a site whose line was rewritten inherits the classification of the stale map entry it replaces only when, per file/function/kind, exactly as many sites appeared as disappeared, or a new helper is called by the single function that lost them; an added site never matches; a re-matched `model` site relies on the correspondence and boundary search of the same run) and the hand-written arguments in tools/panic_map.json; extraction (ExtrOcamlBasic only); the Rust harness. Not modelled: the text rendered by ~# conversions (only index arithmetic and recursion depth). Store invariants: discharged for stores reachable through the C15 operation vocabulary (the C07_*_reachable theorems); they remain HYPOTHESES for stores produced by operations outside that vocabulary (merge_to_symbol_list and SymbolList runs, the add_*_from conversions including the delegate's in-place header patch, optimize / clone (C19)), for growth settings that cannot make progress or have an item limit (C15's side condition), and the theorems about SimpleGarnishData need no store hypothesis at all (Vec-backed, every access checked); usize addition overflow, allocation failure, native stack depth of non-recursive code. Seven defects were fixed in /repo (see known_findings.json); known finding C07-K1 (listing or rendering a range of 2^31 or more positions exhausts time and memory) is re-confirmed on every run and excluded; known finding C07-K2 (an UNOPTIMISED build takes 20-25 KiB of native stack per nesting level in the recursive text conversions: depth ~90 overflows a 2 MiB stack on both data implementations) is a measured finding - every run builds the harness with opt-level 0, requires nesting depth 40 to answer Ok / Err on a 2 MiB stack and reports the crash at depth 999 as the known finding.",
 "technique": "Coq proofs (lia / induction) over executable index models + panic-site inventory tie + differential correspondence + boundary-value search on the Rust implementation"
}

TRUSTED = vplib.BASE_TRUSTED + [
    "axioms (Print Assumptions): the four standard-library axioms Flocq's real-number development depends on (through Model/Num.v)",
    "tools/sync/panicsites.py: a syntactic scanner (unwrap/expect/indexing/slicing/macros/usize arithmetic/casts/std calls/recursion); what it cannot see (macro expansions, panics inside std other than the listed calls) is covered by the boundary search only",
    "tools/panic_map.json: the written arguments of the sites classified 'argument'",
    "re-matching (tools/sync/panicsites.py rematch): exact keys are the primary tie; a rewritten line inherits the classification of the stale entry it replaces "
    "only when per file/function/kind exactly as many sites appeared as disappeared (paired in source order), or when a function with no map entry is called by "
    "the single function of the same file that lost at least as many equally classified sites of that kind; re-matched sites are listed in Gen/PanicSites.v "
    "(rematched_sites), in the evidence and as NOTE lines; for class `model` the inherited theorem is about the model, so the claim rests on this run's correspondence and boundary search",
    "store invariants (block layout, runs inside the data cursor, frame cells preceded by jump points, Char/Byte cells after CharList/ByteList headers): hypotheses of the C07_<name> Basic theorems, discharged in the C07_<name>_reachable theorems from C15's invariant G (Proofs/C15, imported, not edited) and the strengthening X of Proofs/C07/TextInv.v, for the C15 history vocabulary with progressing settings and character-count headers",
    "Model/BasicStore.v (C15's model of BasicGarnishData, tied to the code by C15's store correspondence) and the correspondence view/hlen between its nat-valued blocks and Model/RuntimeIndex.v's N-valued ones (Proofs/C07/Reachable.v)",
]
PROOF_DIRS = ["Proofs/C07"]
NPROC = 16
PROGRAM_STEPS = 2000
MAIN_DEADLINE_MS = 10000      # watchdog of the parallel runs; an expiry there only schedules a re-run
ALONE_DEADLINE_MS = 30000     # the same case again, alone, with a generous deadline
MAX_RERUNS = {"quick": 10, "thorough": 40}


# ------------------------------------------------------------------- running
def run_chunks(exe, cases, deadline_ms=None, nproc=NPROC, timeout=3000):
    """Run the line filter over the cases in nproc processes; returns output lines in case order."""
    if not cases:
        return []
    n = max(1, min(nproc, len(cases) // 200 + 1))
    chunks = [cases[k::n] for k in range(n)]
    env = dict(os.environ)
    # DataError captures (and its Display symbolises) a backtrace whenever RUST_BACKTRACE is set: tens of
    # milliseconds per Err result, seconds under load.  The harness only needs the class of the result.
    env["RUST_BACKTRACE"] = "0"
    env["RUST_LIB_BACKTRACE"] = "0"
    if deadline_ms:
        env["NOPANIC_DEADLINE_MS"] = str(deadline_ms)

    def one(chunk):
        try:
            p = subprocess.run([exe], input="\n".join(chunk) + "\n", stdout=subprocess.PIPE, stderr=subprocess.DEVNULL,
                               text=True, timeout=timeout, env=env)
            return p.stdout.splitlines()
        except subprocess.TimeoutExpired:
            return []

    with cf.ThreadPoolExecutor(n) as ex:
        outs = list(ex.map(one, chunks))
    res = [None] * len(cases)
    for k, out in enumerate(outs):
        idx = list(range(k, len(cases), n))
        for j, line in zip(idx, out):
            res[j] = line
    return res


def klass(result):
    if result.startswith("REJECT"):
        return result if result.endswith(":panic") else "REJECT"
    return result.split(":")[0].split(" ")[0]


REMATCH_NOTE = (
    "exact keys (file :: function :: kind :: normalised line) are the primary tie; a site whose line was rewritten inherits the "
    "classification of the stale entry it replaces only when, per file/function/kind, exactly as many sites appeared as disappeared "
    "(or a new helper is called by the one function of the file that lost at least as many sites of that kind, all classified alike); "
    "an ADDED site always stays unmapped.  For a re-matched site of class `model` the inherited theorem speaks about "
    "Model/RuntimeIndex.v, so it is only as good as the model/implementation correspondence and the boundary search, which re-check "
    "the current code on every run and must both have run for the re-match to be accepted")


# ------------------------------------------------------------- inventory tie
def check_inventory(v, sy):
    """sync step: inventory vs map.  Returns the evidence dict."""
    info = {}
    err = sy.get("errors", {}).get("panicsites")
    if err:
        v.tie_failure("sync panicsites: " + err)
        return info
    try:
        inv = json.load(open(os.path.join(vplib.VERIF, "tools", "panic_sites.json")))
        pmap = json.load(open(os.path.join(vplib.VERIF, "tools", "panic_map.json")))["sites"]
    except Exception as e:
        v.tie_failure("panic-site inventory unreadable: %s" % e)
        return info
    sites = inv["sites"]
    by_class = collections.Counter(s["class"] for s in sites)
    unmapped = [s for s in sites if s["class"] == "UNMAPPED"]
    for s in unmapped[:8]:
        v.tie_failure("panic site not in tools/panic_map.json: %s (line %d)" % (s["key"], s["line"]))
    bad_scope = [s for s in sites if s["class"] == "out_of_scope" and s.get("reachable")]
    for s in bad_scope[:8]:
        v.tie_failure("site classified out of scope is reachable from execute_current_instruction in the name-based call graph: " + s["key"])
    # lemmas cited by the map exist in the development
    texts = ""
    for root, _, files in os.walk(os.path.join(vplib.COQ, "Proofs", "C07")):
        for fn in files:
            if fn.endswith(".v"):
                texts += vplib.strip_coq_comments(open(os.path.join(root, fn)).read())
    present = {s["key"] for s in sites}
    lemmas = collections.Counter()
    for key, ent in pmap.items():
        if key not in present:
            continue
        if ent["class"] == "model":
            lemmas[ent.get("lemma", "")] += 1
            if not re.search(r"\b(Theorem|Lemma|Corollary)\s+%s\b" % re.escape(ent.get("lemma", "?")), texts):
                v.tie_failure("panic_map.json cites lemma %r (site %s) which is not in coq/Proofs/C07" % (ent.get("lemma"), key))
        if ent["class"] in ("argument", "out_of_scope") and len(ent.get("why", "")) < 20:
            v.tie_failure("panic_map.json: site %s has no written argument" % key)
        for (rel, pattern) in ent.get("requires_text", []):
            # the written argument leans on a fact of the source text: verify it on the current tree
            try:
                src = open(os.path.join(vplib.REPO, rel), encoding="utf-8").read()
            except OSError:
                src = ""
            if not re.search(pattern, src):
                v.tie_failure("panic_map.json: the argument for %s needs %r in %s, which is no longer there" % (key, pattern, rel))
        if ent.get("unreferenced"):
            # the argument says nothing calls this function: verify it
            name = ent["unreferenced"]
            hits = 0
            for rel in inv.get("files", []):
                src = open(os.path.join(vplib.REPO, rel), encoding="utf-8").read()
                hits += len(re.findall(r"(?<!fn )\b%s\s*\(" % re.escape(name), src))
            if hits:
                v.tie_failure("panic_map.json says %s is never called, but %d call(s) exist in the runtime path" % (name, hits))
    rematched = inv.get("rematched", [])
    inherited = {r["old_key"] for r in rematched}
    for r in rematched:
        if r["class"] == "model":
            lemmas[r.get("lemma") or ""] += 1
    stale = sorted(k for k in pmap if k not in present and k not in inherited)
    info = {
        "sites_inventoried": len(sites),
        "sites_by_kind": inv.get("by_kind", {}),
        "sites_by_classification": dict(by_class),
        "sites_reachable_from_execute": sum(1 for s in sites if s.get("reachable")),
        "covered_by_theorem": by_class.get("model", 0),
        "covered_by_argument": by_class.get("argument", 0),
        "out_of_scope_verified_unreachable": by_class.get("out_of_scope", 0),
        "known_finding_sites": by_class.get("finding", 0),
        "unmapped": [s["key"] for s in unmapped],
        "lemmas_cited": dict(lemmas),
        "stale_map_entries": len(stale),
        "rematched_sites": [{k: r[k] for k in ("id", "class", "lemma", "rule", "file", "function", "kind", "old_text", "new_text")} for r in rematched],
        "rematched_note": REMATCH_NOTE,
        "files_scanned": len(inv.get("files", [])),
    }
    if stale:
        v.notes.append("%d entries of panic_map.json name sites that no longer exist (harmless): %s" % (len(stale), "; ".join(stale[:3])))
    return info


def check_operator_impls_unused(v):
    """Thorough tier: the argument for the `.unwrap()` sites in `impl Add<i32> for SimpleNumber` & co. is that no
    non-test code uses those operators.  Verify it: copy the tree, delete the four impls, build the three crates."""
    dst = os.path.join(vplib.BUILD, "scratch", "c07_noops")
    os.makedirs(dst, exist_ok=True)
    rc, out = vplib.sh(["rsync", "-a", "--delete", "--exclude", "target", "--exclude", ".git", vplib.REPO + "/", dst + "/src/"], timeout=120)
    if rc != 0:
        v.notes.append("operator-impl check skipped: rsync failed")
        return None
    p = os.path.join(dst, "src", "data", "src", "data", "number.rs")
    src = open(p, encoding="utf-8").read()
    a, b = src.find("impl Add<i32> for SimpleNumber {"), src.find("impl GarnishNumber for SimpleNumber {")
    if a < 0 or b < a:
        v.tie_failure("operator-impl check: the Add/Mul impls of number.rs were not found where panic_map.json says they are")
        return False
    open(p, "w", encoding="utf-8").write(src[:a] + src[b:])
    rc, out = vplib.sh(["cargo", "build", "--offline", "-p", "garnish_lang_simple_data", "-p", "garnish_lang_runtime", "-p", "garnish_lang_compiler"],
                       cwd=os.path.join(dst, "src"), timeout=900, env={"CARGO_TARGET_DIR": os.path.join(dst, "target")})
    if rc != 0:
        v.tie_failure("panic_map.json argues that nothing outside tests uses `SimpleNumber + i32` / `* i32`, but the crates no longer build "
                      "without those impls: " + out[-300:])
        return False
    return True


# ------------------------------------------------------------------ the check
def run(tier, seed):
    v = Verdict(PID, tier, seed)
    v.assumptions = [
        "the store invariants named in the Basic theorems hold for every store reachable through the C15 operation vocabulary (proved: C07_*_reachable); for stores produced by other operations (conversions, merge_to_symbol_list, optimize, clone) they are assumed",
        "usize addition does not overflow and allocation succeeds (2^64 cells are unreachable); listing or rendering 2^31 or more positions of a range is a resource question (known finding C07-K1)",
        "hosts follow the documented callback contract (push exactly one register when answering true)",
        "programs are stepped a bounded number of times (%d)" % PROGRAM_STEPS,
    ]
    rng = vplib.rng_for(seed, "C07")
    phases = {}
    t_phase = [time.time()]

    def phase(name):
        phases[name] = round(time.time() - t_phase[0], 1)
        t_phase[0] = time.time()
    # 1. sync
    # only this check's table: the Coq cone of C07 depends on no other generated file.  sync_tables.run is called
    # directly (vplib.sync would wait for the lock that serialises everybody's Coq builds; nothing but C07 reads
    # Gen/PanicSites.v, and prove() below takes that lock before building).
    import sync_tables
    sy = sync_tables.run(["panicsites"])
    inv_info = check_inventory(v, sy)
    if tier == "thorough":
        inv_info["operator_impls_unused_outside_tests"] = check_operator_impls_unused(v)
    phase("sync+inventory")
    # 2. prove
    pr = vplib.prove(PID, PROOF_DIRS, extra_targets=["Extract/IdxExtract.vo"])
    for f in pr["failures"]:
        v.tie_failure("prove: " + f)
    v.coverage.update(vplib.proof_coverage(
        pr, "make -C coq Properties/C07.vo && coqc Properties/C07.v (Print Assumptions) && tools/props/c07.py (inventory, correspondence, boundary search)", TRUSTED))
    v.coverage["theorems"] = {
        "proved_per_component": [p for p in pr.get("props", []) if p.startswith("C07_") and not p.startswith("C07_ex")],
        "reachable_store_theorems": [p for p in pr.get("props", []) if p.endswith("_reachable") or p.endswith("_reaches")],
        "still_hypotheses": "progressing growth settings without item limit (C15's side condition); text headers equal to the character count (wf_op; shown necessary by "
                            "C07_text_invariant_needs_wf); stores built by operations outside the C15 vocabulary (merge_to_symbol_list / SymbolList runs, add_*_from "
                            "conversions, optimize, clone); list_item_in_range needs len < 2^31; simple_concat_slice_window needs i32 bounds (the type's range)",
        "full_statement": "C07_full_statement is a Definition (not proved for a model of the whole runtime); C07_run_from_step proves it from the one-step premise",
        "refuted_witnesses_for_fixed_code": "C07_fixed_defects_refuted (models of the code before each fix: commit reach their Panic point)",
    }
    phase("prove")
    # 3. build
    ok, out = vplib.cargo_build("debug", bins=["nopanic"])
    if not ok:
        v.tie_failure("harness build failed: " + out[-500:])
    profiles = ["debug"] if ok else []
    if tier == "thorough" and ok:
        okr, outr = vplib.cargo_build("release", bins=["nopanic"])
        if okr:
            profiles.append("release")
        else:
            v.tie_failure("harness release build failed: " + outr[-300:])
    okm, outm = vplib.ocaml_build("idx") if os.path.exists(vplib.OCAML_BUILD + "/idx_model.ml") else (False, "no extracted model")
    if not okm:
        v.tie_failure("index model driver build failed: " + outm[-300:])
    phase("build")
    stats = collections.Counter()
    samples, panics = [], []
    probe_hits = []        # HANG / CRASH of the deliberate C07-K1 probes (short deadline)
    timing = collections.Counter()
    slow_samples = []
    listed = {f["id"] for f in vplib.findings_for(PID)}
    corr = {"cases": 0, "compared": 0, "disagreements": 0, "by_function": collections.Counter(), "classes": collections.Counter()}
    distinct = set()
    exes = {}
    try:
        for profile in profiles:
            exes[profile] = vplib.private_copy(vplib.harness_bin("nopanic", profile))
        # 4. correspondence: index models vs both data implementations
        if ok and okm:
            xc = c07_gen.x_cases(tier, rng)
            corr["cases"] = len(xc)
            impl = run_chunks(exes["debug"], xc, deadline_ms=MAIN_DEADLINE_MS)
            if any(l is None for l in impl):
                v.tie_failure("correspondence: harness returned %d of %d lines" % (sum(1 for l in impl if l), len(xc)))
            impl = [l if l is not None else c + "\tMISSING\t-" for l, c in zip(impl, xc)]
            rc, model = vplib.run_lines([vplib.OCAML_BUILD + "/idx_driver"], "\n".join(impl) + "\n", timeout=1200)
            if rc != 0 or len(model) != len(impl):
                v.tie_failure("idx_driver rc=%s lines=%d/%d" % (rc, len(model), len(impl)))
            else:
                for a, b in zip(impl, model):
                    pa, pb = a.split("\t"), b.split("\t")
                    fn = pa[0].split(" ")[1]
                    corr["classes"][klass(pa[1])] += 1
                    if pa[1].startswith("UNBUILDABLE"):
                        continue
                    corr["compared"] += 1
                    corr["by_function"][fn] += 1
                    if pa[1].startswith("Ok "):
                        distinct.add(pa[0])
                    if pa[1] in ("PANIC", "HANG", "CRASH") or pa[1] == "MISSING":
                        panics.append((pa[0], pa[1], pa[2] if len(pa) > 2 else "-", "debug"))
                    elif pa[1] != pb[1]:
                        corr["disagreements"] += 1
                        if corr["disagreements"] <= 6:
                            v.tie_failure("correspondence idx: %s impl=%s model=%s" % (pa[0], pa[1], pb[1]))
                    if len(samples) < 4 and corr["compared"] % 30011 == 1:
                        samples.append({"case": pa[0], "impl": pa[1], "model": pb[1]})
        phase("correspondence")
        # 5. direct search on the implementation.  When a tie is broken the thorough corpus is used.
        search_tier = "thorough" if (tier == "thorough" or v.tie_failures) else "quick"
        cases = c07_gen.op_cases(search_tier, rng) + c07_gen.nested_cases(search_tier, rng) + c07_gen.program_cases(search_tier, rng)
        res_cases = c07_gen.resource_cases(search_tier, rng)
        per_kind = collections.Counter(c[0] for c in cases)
        build_stage_panics = []
        for profile in profiles:
            outs = run_chunks(exes[profile], cases, deadline_ms=MAIN_DEADLINE_MS)
            routs = run_chunks(exes[profile], res_cases, deadline_ms=1500)
            for c, line, resource_run in [(c, l, False) for c, l in zip(cases, outs)] + [(c, l, True) for c, l in zip(res_cases, routs)]:
                if line is None:
                    stats["missing"] += 1
                    panics.append((c, "MISSING", "-", profile))
                    continue
                p = line.split("\t")
                k = klass(p[1])
                stats[k if profile == "debug" else profile + ":" + k] += 1
                if k in ("Ok", "Err", "LIMIT") and profile == "debug":
                    distinct.add(c)
                if k in ("PANIC", "HANG", "CRASH"):
                    (probe_hits if (resource_run and k != "PANIC") else panics).append((c, p[1], p[2] if len(p) > 2 else "-", profile))
                elif k.endswith(":panic"):
                    build_stage_panics.append((c, p[1], p[2] if len(p) > 2 else "-"))
                elif k == "BADCASE":
                    v.tie_failure("generator produced a malformed case: %s (%s)" % (c[:120], p[2] if len(p) > 2 else ""))
                if len(samples) < 10 and profile == "debug" and (stats[k] in (1, 5000)):
                    samples.append({"case": c[:160], "program": c07_gen.decode_program(c) if c.startswith("P ") else None, "result": p[1], "detail": (p[2] if len(p) > 2 else "-")[:120]})
        # 5b. a watchdog expiry (or a lost answer) in the parallel runs is not a verdict: the case is run again,
        # alone, with a generous deadline.  Finishes -> fine.  PANIC / CRASH again -> violation.  Still no answer ->
        # known finding C07-K1 if it is of that class, otherwise counted as `slow` (C07 is about panics and aborts).
        verdicts = []
        budget = MAX_RERUNS.get(search_tier, 10)
        for (c, result, detail, profile) in panics:
            k = klass(result)
            if k == "PANIC":
                verdicts.append((c, result, detail, profile))
                continue
            if k in ("HANG", "CRASH") and c07_gen.is_resource_case(c):
                probe_hits.append((c, result, detail, profile))
                continue
            if budget <= 0:
                timing["slow_not_rerun"] += 1
                continue
            budget -= 1
            again = run_chunks(exes.get(profile, exes["debug"]), [c], deadline_ms=ALONE_DEADLINE_MS, nproc=1, timeout=ALONE_DEADLINE_MS // 1000 + 30)
            line = again[0] if again and again[0] else c + "\tMISSING\t-"
            p2 = line.split("\t")
            k2 = klass(p2[1])
            if k2 in ("PANIC", "CRASH"):
                verdicts.append((c, p2[1], p2[2] if len(p2) > 2 else "-", profile))
            elif k2 in ("HANG", "MISSING"):
                timing["slow"] += 1
                if len(slow_samples) < 5:
                    slow_samples.append({"case": c[:200], "program": c07_gen.decode_program(c) if c.startswith("P ") else None,
                                         "first": result, "alone_%dms" % ALONE_DEADLINE_MS: p2[1], "profile": profile})
            else:
                timing["slow_but_finished_alone"] += 1
                if len(slow_samples) < 5:
                    slow_samples.append({"case": c[:200], "program": c07_gen.decode_program(c) if c.startswith("P ") else None,
                                         "first": result, "alone": p2[1], "profile": profile})
        panics = verdicts
    finally:
        for e in exes.values():
            try:
                os.unlink(e)
            except OSError:
                pass
    phase("direct search")
    rem = inv_info.get("rematched_sites", [])
    if rem:
        ran = bool(profiles) and okm and corr["compared"] > 0 and sum(stats.values()) > 0
        if any(r["class"] == "model" for r in rem) and not ran:
            v.tie_failure("re-matched panic sites of class `model` need the correspondence and the boundary search of this run, which did not run: "
                          + "; ".join("%s :: %s" % (r["function"], r["new_text"][:60]) for r in rem if r["class"] == "model")[:400])
        for r in rem[:12]:
            print("NOTE property=%s re-matched panic site %d (%s, %s) in %s :: %s: `%s` -> `%s`" % (
                PID, r["id"], r["class"], r["rule"], r["file"], r["function"], r["old_text"][:70], r["new_text"][:70]), flush=True)
        v.notes.append("%d panic site(s) re-matched to stale map entries (rewritten lines, nothing added): ids %s" % (len(rem), sorted(r["id"] for r in rem)))
    # 5b. native stack of an UNOPTIMISED build (what `cargo build` / `cargo test` give a host by default): the recursive text
    # conversions are run on data nested 40 and 999 levels deep with a 2 MiB stack (the default of a spawned thread).
    # Depth 40 has to work; what happens between there and the depth cap of 1000 is known finding C07-K2.
    unopt = {"built": False}
    with vplib.Lock("cargo"):
        rcU, outU = vplib.sh(["cargo", "build", "--offline", "--profile", "unopt", "--bin", "nopanic"], cwd=vplib.HARNESS, timeout=900,
                             env={"RUSTFLAGS": "--cfg " + vplib.GUARD})
    if rcU != 0:
        v.tie_failure("harness build failed (unoptimised profile): " + outU[-300:])
    else:
        import resource
        exeU = vplib.private_copy(os.path.join(vplib.CARGO_TARGET, "unopt", "nopanic"))
        unopt["built"] = True

        def deep_cases(depth):
            out = []
            for kind in "LlPpCcSA":
                val = "D%s%d(%s)" % (kind, depth, c07_gen.i(1) if kind != "S" else c07_gen.L123)
                for imp in "SB":
                    for t in ("CharList", "ByteList", "Symbol"):
                        out.append("O %s A ApplyType %s t%s" % (imp, val, t))
            return out

        def limit_stack():
            soft, hard = resource.getrlimit(resource.RLIMIT_STACK)
            resource.setrlimit(resource.RLIMIT_STACK, (2 * 1024 * 1024, hard))

        for depth in (40, 999):
            lines = deep_cases(depth)
            try:
                pU = subprocess.run([exeU], input="\n".join(lines) + "\n", stdout=subprocess.PIPE, stderr=subprocess.DEVNULL, text=True,
                                    timeout=900, preexec_fn=limit_stack)
                outl = [l for l in pU.stdout.splitlines() if "\t" in l]
            except subprocess.TimeoutExpired:
                outl = []
            if len(outl) != len(lines):
                v.tie_failure("unoptimised-profile run at depth %d: %d of %d answers" % (depth, len(outl), len(lines)))
                continue
            kinds = collections.Counter(l.split("\t")[1] for l in outl)
            unopt["depth_%d" % depth] = dict(kinds)
            for l in outl:
                case, res = l.split("\t")[0], l.split("\t")[1]
                if res in ("CRASH", "PANIC", "HANG"):
                    if depth >= 64 and res == "CRASH" and "C07-K2" in listed:
                        if not unopt.get("k2_reported"):
                            unopt["k2_reported"] = True
                            v.known_hit("C07-K2", "%s -> CRASH (unoptimised build, 2 MiB stack)" % case)
                    else:
                        v.violation(component="nopanic", profile="unopt", input=case, impl=res, expected="Ok or Err",
                                    what="converting data nested %d levels deep killed the process (native stack, unoptimised build, 2 MiB stack)" % depth
                                         if res == "CRASH" else "conversion of nested data: " + res)
        try:
            os.remove(exeU)
        except OSError:
            pass
    timing["unopt_stack"] = unopt
    # 6. decide
    seen_msgs = set()
    for (c, result, detail, profile) in probe_hits:
        if "C07-K1" in listed:
            v.known_hit("C07-K1", "%s -> %s (%s)" % (c07_gen.decode_program(c) if c.startswith("P ") else c, klass(result), profile))
        else:
            timing["slow"] += 1
    for (c, result, detail, profile) in panics:
        k = klass(result)
        key = (k, re.sub(r"\b\d+\b", "N", detail))
        if key in seen_msgs and len(v.violations) >= 3:
            continue
        seen_msgs.add(key)
        v.violation(component="nopanic", profile=profile, input=c, program=c07_gen.decode_program(c) if c.startswith("P ") else None,
                    impl="%s %s" % (result, detail), expected="Ok or Err",
                    what="a step of execute_current_instruction (or a public getter on its path) %s" % (
                        "panicked" if k == "PANIC" else "killed the process also when run alone (native stack / abort)" if k == "CRASH" else "gave no answer"))
    if build_stage_panics:
        v.notes.append("panics while lexing/parsing/building (C03's subject, not counted here): %d, first: %s" % (
            len(build_stage_panics), build_stage_panics[0][:2]))
    v.coverage.update({
        "evaluations": sum(stats.values()) + corr["compared"],
        "distinct_nontrivial": len(distinct),
        "rule": "direct search: every binary/unary instruction x pairs of boundary values of every type (i32 limits, huge/NaN/inf floats, empty and multi-byte text, "
                "shift counts 31/32/-1, ranges reversed / non-numeric / built end-first, slices with negative, fractional, reversed, oversized and nested ranges, "
                "slices of slices), access/apply with every number and symbol on every container, every ~# cast (value x 21 target types), random nestings of "
                "slices/concatenations/lists, 10^5-deep data for the recursive conversions, instructions with data operands, hosts absent/declining/accepting on a "
                "sample; programs: every cast source x target, access/apply with boundary indexes, operator x boundary literal pairs, loops/frames/side effects, "
                "grammar-generated expressions (depth <= 4) seeded with boundary literals, both stores, three hosts on a third; a case is non-trivial when it was "
                "executed (Ok / Err / step limit), i.e. not rejected by the compiler and not unbuildable on that store",
        "samples": samples,
        "phase_wall_s": phases,
        "inventory": inv_info,
        "correspondence": {"cases": corr["cases"], "compared": corr["compared"], "disagreements": corr["disagreements"],
                           "by_function": dict(corr["by_function"]), "impl_classes": dict(corr["classes"])},
        "direct_search": {"tier_used": search_tier, "cases_by_kind": dict(per_kind) if ok else {}, "resource_run_cases": len(res_cases) if ok else 0,
                          "result_classes": dict(stats), "profiles": profiles,
                          "watchdog_policy": "an expiry of the %d ms watchdog in the parallel runs is re-run alone with %d ms; only PANIC, or CRASH "
                                             "reproduced alone, is a violation; still no answer = C07-K1 if of that class, else `slow`" % (MAIN_DEADLINE_MS, ALONE_DEADLINE_MS),
                          "timing_outcomes": dict(timing), "timing_samples": slow_samples},
        "sites_covered_by": "theorem: inventory.covered_by_theorem sites (lemmas in inventory.lemmas_cited); written argument: inventory.covered_by_argument; "
                            "out of scope (verified unreachable in the name-based call graph): inventory.out_of_scope_verified_unreachable; everything, including what "
                            "the scanner cannot see, additionally by the boundary search only",
    })
    return v.finish("proof")


def replay(obj):
    cases = [x["input"] for x in obj.get("violations", []) if x.get("input")]
    if not cases:
        print("replay names a broken tie, not an input:", obj.get("no_longer_checks"))
        return run("quick", obj.get("seed", 0))
    ok, out = vplib.cargo_build("debug", bins=["nopanic"])
    if not ok:
        print("harness build failed")
        return 1
    exe = vplib.private_copy(vplib.harness_bin("nopanic"))
    rc = 0
    try:
        for c in cases:
            line = run_chunks(exe, [c], deadline_ms=ALONE_DEADLINE_MS, nproc=1)[0]
            p = (line or c + "\tMISSING\t-").split("\t")
            k = klass(p[1])
            bad = k == "PANIC" or (k == "CRASH" and not c07_gen.is_resource_case(c))
            if bad:
                rc = 1
            print("%s: %s -> %s %s" % ("FAILS" if bad else "slow (not a panic)" if k in ("HANG", "MISSING") else "ok",
                                       c07_gen.decode_program(c) if c.startswith("P ") else c, p[1], p[2] if len(p) > 2 else ""))
    finally:
        os.unlink(exe)
    return rc
