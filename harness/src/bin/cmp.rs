//! cmp: run the four ordering comparisons plus Equal / NotEqual on two operand
//! values, on BOTH data implementations, through the public GarnishData API.
//!
//! Input line:  <left value> <right value>        (format: see ../valtree.rs)
//! Output line: <case>\tS=<r6> B=<r6>\t-
//!   <r6> = six result letters in the order  <  <=  >  >=  ==  !=
//!   each letter: T | F | U (unit) | E (the operation returned Err) | P (panic) | ? (another type was pushed)
//!   a letter is followed by `*` when the register stack was not left as
//!   "two operands popped, one result pushed, everything below untouched".
#[path = "../valtree.rs"]
mod valtree;
use garnish_lang_runtime::ops;
use garnish_verif_harness::*;
use valtree::*;

const OPS: [&str; 6] = ["lt", "le", "gt", "ge", "eq", "ne"];

fn run_one<D: Store>(vals: &[V], op: &str) -> String {
    let r = catch(|| {
        let mut d = D::fresh();
        let mut b = Builder::new();
        let l = match b.build(&mut d, &vals[0], false) {
            Ok(a) => a,
            Err(_) => return "B".to_string(),
        };
        let r = match b.build(&mut d, &vals[1], false) {
            Ok(a) => a,
            Err(_) => return "B".to_string(),
        };
        // two sentinels below the operands
        let s0 = d.add_number(12345.into()).expect("sentinel");
        d.push_register(s0).expect("push");
        d.push_register(l).expect("push");
        let before = d.get_register_len();
        d.push_register(l).expect("push");
        d.push_register(r).expect("push");
        let res = match op {
            "lt" => ops::less_than(&mut d),
            "le" => ops::less_than_or_equal(&mut d),
            "gt" => ops::greater_than(&mut d),
            "ge" => ops::greater_than_or_equal(&mut d),
            "eq" => ops::equal(&mut d),
            "ne" => ops::not_equal(&mut d),
            _ => panic!("bad op"),
        };
        match res {
            Err(_) => "E".to_string(),
            Ok(_) => {
                let after = d.get_register_len();
                let top = if after > 0 { d.get_register(after - 1) } else { None };
                let mut s = match top {
                    Some(a) => show_result(&d, a),
                    None => "?".to_string(),
                };
                let below_ok = d.get_register(0) == Some(s0) && d.get_register(1) == Some(l);
                if after != before + 1 || !below_ok {
                    s.push('*');
                }
                s
            }
        }
    });
    r.unwrap_or_else(|_| "P".to_string())
}

fn run_impl<D: Store>(vals: &[V]) -> String {
    let mut out = String::new();
    for op in OPS.iter() {
        out.push_str(&run_one::<D>(vals, op));
    }
    format!("{}={}", D::NAME, out)
}

fn main() {
    quiet_panics();
    for_each_line(|line| {
        let parsed = catch(|| parse_values(line));
        match parsed {
            Ok(vals) if vals.len() == 2 => {
                let s = run_impl::<garnish_lang_simple_data::SimpleGarnishData<garnish_lang_simple_data::NoCustom>>(&vals);
                let b = run_impl::<garnish_lang_simple_data::BasicGarnishData>(&vals);
                format!("{}\t{} {}\t-", line, s, b)
            }
            _ => format!("{}\tBADCASE\t-", line),
        }
    });
}
