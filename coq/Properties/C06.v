(* C06  Evaluation is stack-balanced on every path.
   Only statements, [exact] and [Print Assumptions] live here. *)
From Coq Require Import List Arith Bool NArith.
From GV Require Import Base.Result Gen.TokenTypes Gen.Defs Gen.Instr Model.Parser Model.BuilderWL Model.Compile
  Spec.Depth Proofs.C05.Known Proofs.C05.Bounded Proofs.C06.Known Proofs.C06.DepthSound Proofs.C06.Dynamic
  Proofs.C06.Bounded Proofs.C06.Bounded7 Proofs.C06.Refuted Proofs.C06.Balanced Proofs.C06.BalancedBounded.
From GV Require Import Proofs.C06.Statements Proofs.C06.StaticFull Proofs.Builder.Transport.
From GV Require Spec.Pratt.
From GV Require Import Proofs.C06.OperatorBalanced.
Import ListNotations.

(* ---- static half: the checker ---- *)
Theorem C06_checker_sound : forall p l, check_typed p l = true -> typed p (dmap_of p l).
Proof. exact check_typed_sound. Qed.
Print Assumptions C06_checker_sound.

Theorem C06_infer_depths_sound : forall p l, infer_depths p = Some l -> typed p (dmap_of p l).
Proof. exact infer_depths_sound. Qed.
Print Assumptions C06_infer_depths_sound.

Theorem C06_expression_ends_at_one : forall p d, typed p d -> ends_at_one p d.
Proof. exact typed_ends_at_one. Qed.
Print Assumptions C06_expression_ends_at_one.

(* ---- static half: built programs (bounded) ---- *)
Theorem C06_static_triples_bounded_3 : forall a b c init, In init inits -> built_typable [a; b; c] init.
Proof. exact C06_static_triples_bounded_3_proof. Qed.
Print Assumptions C06_static_triples_bounded_3.

Theorem C06_static_reduced_bounded_5 : forall toks init,
  length toks <= 5 -> (forall x, In x toks -> In x reduced_alphabet) -> In init inits -> built_typable toks init.
Proof. exact C06_static_reduced_bounded_5_proof. Qed.
Print Assumptions C06_static_reduced_bounded_5.

Theorem C06_static_small_bounded_7 : forall toks init,
  length toks = 7 -> (forall x, In x toks -> In x small_alphabet) -> In init inits -> built_typable toks init.
Proof. exact C06_static_small_bounded_7_proof. Qed.
Print Assumptions C06_static_small_bounded_7.

(* ---- static half: every tree, every initial state (by induction on the tree through Model/Compile.v) ---- *)
(* [balanced t] (Proofs/C06/Balanced.v): every operand position of a construct
   holds a subtree that leaves exactly one operand, every attachment position
   one that leaves none, an else-chain is conditionals followed by one final
   else, `^~` stands where no operand of its body is pending, there is no bare
   `;;`.  The program the tree compiler builds from such a tree into any data
   object is typable, every expression in it ends at operand depth one, and it
   is entered at depth (0, 0). *)
Theorem C06_static_full : forall init lit t r,
  balanced t = true -> compile init lit t = Ok r ->
  let p := prog_of init (ci (fst r)) (cj (fst r)) (snd r) in
  exists d, typed p d /\ ends_at_one p d /\ exists e, pjump p (snd r) = Some e /\ d e = Some (0, 0).
Proof. exact C06_static_full_proof. Qed.
Print Assumptions C06_static_full.

(* ... directly on BuilderWL.build (by compile_agrees_full, Properties/C05.v): every
   successful build of a proper tree that keeps the discipline is typable *)
Theorem C06_static_full_builder : forall nodes root t init lit fuel r,
  tree_of nodes root = Some t -> balanced t = true ->
  build nodes init lit fuel root = Ok r ->
  let p := prog_of_build init r in
  exists d, typed p d /\ ends_at_one p d /\ exists e, pjump p (snd r) = Some e /\ d e = Some (0, 0).
Proof. exact C06_static_full_builder_proof. Qed.
Print Assumptions C06_static_full_builder.

(* ... and for EVERY token sequence the parser model accepts (C05_parse_tree_of) *)
Theorem C06_static_full_parsed : forall toks root nodes,
  parse toks = Ok (root, nodes) -> nodes <> [] ->
  exists t, tree_of nodes root = Some t /\
    (balanced t = true -> forall init lit fuel r, build nodes init lit fuel root = Ok r ->
       let p := prog_of_build init r in
       exists d, typed p d /\ ends_at_one p d /\ exists e, pjump p (snd r) = Some e /\ d e = Some (0, 0)).
Proof. exact C06_static_full_parsed_proof. Qed.
Print Assumptions C06_static_full_parsed.

(* ---- the operator fragment, unbounded ---- *)
(* For EVERY token list on which the reference precedence-climbing parser of C02
   (Spec/Pratt.v: values, prefix / suffix / binary operators of every rank,
   `?>` `!>` `|>`, `&&` `||`, `.`, apply forms `<~` `~>` `~~`, `^~`, comma and
   implicit space lists, round brackets `( )` and nested expressions `{ }` to any
   depth, the statement separator `;` at top level and directly inside `{ }`,
   whitespace; C02_full) is defined: parse accepts,
   and unless the tree is in finding class C06-K1 (else-chain without final
   else), C06-K3 (`^~` with something pending) or C06-K4 (a non-conditional before
   `|>`) -- the chain classes read at the head of a chain -- the tree keeps the
   arity discipline, hence every program BuilderWL.build emits for it, into any
   data object, is typable, ends every expression at depth one and is entered at
   (0, 0).  No bound on length or nesting; a nested expression is an out-of-line
   body that must itself keep the discipline and, as an operand, is one value;
   a sequence `a ; b` evaluates both sides from the same pending state, drops the
   left value and leaves the right one, so programs of several statements and
   multi-statement function bodies are covered;
   C06-K2 (an operand position without a value) cannot occur in the fragment. *)
Theorem C06_balanced_operator_expressions : forall toks R, Pratt.pratt toks = Some R ->
  exists root nodes t,
    parse toks = Ok (root, nodes) /\ Compile.tree_of nodes root = Some t /\
    (~ Known_C06_K1 t -> ~ Known_C06_K3 t -> ~ Known_C06_K4 t ->
     balanced t = true /\
     forall init lit fuel r, build nodes init lit fuel root = Ok r ->
       let p := prog_of_build init r in
       exists d, typed p d /\ ends_at_one p d /\ exists e, pjump p (snd r) = Some e /\ d e = Some (0, 0)).
Proof. exact C06_balanced_operator_expressions_proof. Qed.
Print Assumptions C06_balanced_operator_expressions.

(* ... and a conditional is never the left operand of && / || there (the class
   C05-K2 of the well-formedness theorems is outside the fragment): operators
   taken later bind no tighter than the root of what they extend *)
Theorem C06_operator_expressions_no_K2 : forall toks R, Pratt.pratt toks = Some R ->
  exists root nodes t, parse toks = Ok (root, nodes) /\ Compile.tree_of nodes root = Some t /\ drops_arms t = false.
Proof. exact C06_operator_expressions_no_K2_proof. Qed.
Print Assumptions C06_operator_expressions_no_K2.

(* non-vacuity: `a ?> b + 1 |> c !> d * 2 |> (e, f).g && h` (22 tokens): the reference
   parser is defined, the tree is in no finding class, it is balanced, and the
   built program is typable *)
Example C06_ex_operator_expression :
  let toks := [TT_Identifier; TT_JumpIfTrue; TT_Identifier; TT_PlusSign; TT_Number; TT_ElseJump;
               TT_Identifier; TT_JumpIfFalse; TT_Identifier; TT_MultiplicationSign; TT_Number; TT_ElseJump;
               TT_StartGroup; TT_Identifier; TT_Comma; TT_Identifier; TT_EndGroup; TT_Period; TT_Identifier;
               TT_Whitespace; TT_And; TT_Identifier] in
  (match Pratt.pratt toks with Some _ => true | None => false end) = true /\
  match parse toks with
  | Ok (root, nodes) =>
    match Compile.tree_of nodes root, build nodes empty_init lit_all (build_fuel nodes) root with
    | Some t, Ok r =>
      c06_known_b t = false /\ balanced t = true /\
      match infer_depths (prog_of_build empty_init r) with Some _ => true | None => false end = true
    | _, _ => False
    end
  | _ => False
  end.
Proof. vm_compute. repeat split; reflexivity. Qed.

(* ... with functions: `{ $ < 3 ?> ^~ $ + 1 |> $ } <~ 0 + { 5 } ~~` (19 tokens): a reapply loop in
   a nested expression that is applied, plus an applied constant function *)
Example C06_ex_operator_expression_nested :
  let toks := [TT_StartExpression; TT_Value; TT_LessThan; TT_Number; TT_JumpIfTrue; TT_Reapply; TT_Value; TT_PlusSign;
               TT_Number; TT_ElseJump; TT_Value; TT_EndExpression; TT_Apply; TT_Number;
               TT_PlusSign; TT_StartExpression; TT_Number; TT_EndExpression; TT_EmptyApply] in
  (match Pratt.pratt toks with Some _ => true | None => false end) = true /\
  match parse toks with
  | Ok (root, nodes) =>
    match Compile.tree_of nodes root, build nodes empty_init lit_all (build_fuel nodes) root with
    | Some t, Ok r =>
      c06_known_b t = false /\ balanced t = true /\
      match infer_depths (prog_of_build empty_init r) with Some _ => true | None => false end = true
    | _, _ => False
    end
  | _ => False
  end.
Proof. vm_compute. repeat split; reflexivity. Qed.

(* ... with several statements: `x + 1 ; { $ < 3 ?> ^~ $ + 1 ; $ * 2 } <~ 0 ; 7` (22 tokens): a
   three-statement program whose middle statement applies a two-statement function body *)
Example C06_ex_operator_expression_statements :
  let toks := [TT_Identifier; TT_PlusSign; TT_Number; TT_ExpressionSeparator;
               TT_StartExpression; TT_Value; TT_LessThan; TT_Number; TT_JumpIfTrue; TT_Reapply; TT_Value; TT_PlusSign;
               TT_Number; TT_ExpressionSeparator; TT_Value; TT_MultiplicationSign; TT_Number; TT_EndExpression;
               TT_Apply; TT_Number; TT_ExpressionSeparator; TT_Number] in
  (match Pratt.pratt toks with Some _ => true | None => false end) = true /\
  match parse toks with
  | Ok (root, nodes) =>
    match Compile.tree_of nodes root, build nodes empty_init lit_all (build_fuel nodes) root with
    | Some t, Ok r =>
      c06_known_b t = false /\ balanced t = true /\
      match infer_depths (prog_of_build empty_init r) with Some _ => true | None => false end = true
    | _, _ => False
    end
  | _ => False
  end.
Proof. vm_compute. repeat split; reflexivity. Qed.

(* every accepted program without a bare `;;` and outside C06-K1..K4 keeps the
   discipline (bounded: the trees the parser produces from these inputs) *)
Theorem C06_balanced_covers_triples_bounded_3 : forall a b c, accepted_balanced [a; b; c].
Proof. exact C06_balanced_covers_triples_bounded_3_proof. Qed.
Print Assumptions C06_balanced_covers_triples_bounded_3.

Theorem C06_balanced_covers_reduced_bounded_5 : forall toks,
  length toks <= 5 -> (forall x, In x toks -> In x reduced_alphabet) -> accepted_balanced toks.
Proof. exact C06_balanced_covers_reduced_bounded_5_proof. Qed.
Print Assumptions C06_balanced_covers_reduced_bounded_5.

Theorem C06_balanced_covers_small_bounded_7 : forall toks,
  length toks = 7 -> (forall x, In x toks -> In x small_alphabet) -> accepted_balanced toks.
Proof. exact C06_balanced_covers_small_bounded_7_proof. Qed.
Print Assumptions C06_balanced_covers_small_bounded_7.

(* ---- dynamic half: the abstract stack-depth machine ---- *)
(* every reachable configuration of a typed program carries the typed depths,
   and every active call returns to a pc typed one above the caller's depth *)
Theorem C06_dynamic_invariant : forall p d, typed p d -> forall t c,
  pjump p (pg_entry p) = Some t -> areach p (a_init p t) c ->
  d (a_pc c) = Some (a_r c, a_v c) /\
  Forall (fun f => d (fst (fst f)) = Some (S (snd (fst f)), snd f)) (a_frames c).
Proof. exact C06_dynamic_invariant_proof. Qed.
Print Assumptions C06_dynamic_invariant.

(* the operand stack never underflows: a reachable configuration can always move *)
Theorem C06_dynamic_no_underflow : forall p d, typed p d -> forall t c,
  pjump p (pg_entry p) = Some t -> areach p (a_init p t) c -> asteps p c <> [].
Proof. exact C06_dynamic_no_underflow_proof. Qed.
Print Assumptions C06_dynamic_no_underflow.

(* when the program ends, operand stack, value stack and frame chain are back
   at their initial depths *)
Theorem C06_dynamic_balanced_at_end : forall p d, typed p d -> forall t c r v,
  pjump p (pg_entry p) = Some t -> areach p (a_init p t) c -> astep p c (AHalt r v) ->
  r = 0 /\ v = 0 /\ a_frames c = [].
Proof. exact C06_dynamic_balanced_at_end_proof. Qed.
Print Assumptions C06_dynamic_balanced_at_end.

(* a pc -- in particular the head of a reapply loop -- is reached at the same
   operand and value depth at every iteration *)
Theorem C06_reapply_constant_depth : forall p d, typed p d -> forall t c1 c2,
  pjump p (pg_entry p) = Some t ->
  areach p (a_init p t) c1 -> areach p (a_init p t) c2 ->
  a_pc c1 = a_pc c2 -> a_r c1 = a_r c2 /\ a_v c1 = a_v c2.
Proof. exact reapply_constant_depth. Qed.
Print Assumptions C06_reapply_constant_depth.

(* ---- the exclusions are necessary ---- *)
Theorem C06_K1_refuted : untypable_witness k1_toks has_chain_no_else = true /\
  path_ok k1_prog k1_path = true /\ asteps k1_prog (mkA 4 0 0 []) = [].
Proof. exact C06_K1_refuted_proof. Qed.
Print Assumptions C06_K1_refuted.
Theorem C06_K2_refuted : untypable_witness k2_toks has_empty_value = true /\ untypable_witness k2b_toks has_empty_value = true.
Proof. exact C06_K2_refuted_proof. Qed.
Print Assumptions C06_K2_refuted.
Theorem C06_K3_refuted : untypable_witness k3_toks has_reapply_pending = true.
Proof. exact K3_untypable. Qed.
Print Assumptions C06_K3_refuted.
Theorem C06_K4_refuted : untypable_witness k4_toks has_chain_early_else = true.
Proof. exact K4_untypable. Qed.
Print Assumptions C06_K4_refuted.

(* regression (former finding C06-K5, inside the class the property excludes):
   `1 ?> 2 |> ;;` -- before commit b7aaffe the chain's join entry was the arm's own
   entry and an arm that ran was re-entered forever; now the join names an
   EndExpression of its own: the path through the arm ends the expression *)
Theorem C06_K5_repaired :
  pg_instrs k5_prog = [(I_Put, OData 0); (I_JumpIfTrue, ONum 1); (I_EndExpression, ONone); (I_EndExpression, ONone);
                       (I_Put, OData 2); (I_JumpTo, ONum 2)] /\
  pg_jumps k5_prog = [0; 4; 3] /\
  path_ok k5_prog [mkA 0 0 0 []; mkA 1 1 0 []; mkA 4 0 0 []; mkA 5 1 0 []; mkA 3 1 0 []] = true /\
  asteps k5_prog (mkA 3 1 0 []) = [AHalt 0 0].
Proof. exact K5_repaired. Qed.
Print Assumptions C06_K5_repaired.

(* non-vacuity: a reapply loop inside an applied expression with a conditional
   and an else is accepted, outside every class, and typed; its loop head is
   typed (0, 0) *)
Example C06_ex_loop :
  let toks := [TT_StartExpression; TT_Value; TT_LessThan; TT_Number; TT_JumpIfTrue; TT_Reapply; TT_Value; TT_PlusSign; TT_Number;
               TT_ElseJump; TT_Value; TT_EndExpression; TT_Apply; TT_Number] in
  match parse toks with
  | Ok (root, nodes) =>
    match tree_of nodes root, build nodes empty_init lit_all (build_fuel nodes) root with
    | Some t, Ok r =>
      c06_known_b t = false /\ has_terminator t = false /\
      match infer_depths (prog_of_build empty_init r) with
      | Some l => nth_error l 4 = Some (Some (0, 0)) /\ length l = 16
      | None => False
      end
    | _, _ => False
    end
  | _ => False
  end.
Proof. vm_compute. repeat split; reflexivity. Qed.
