(* The converse of the builder / tree-compiler agreement, outer loop and the
   theorems: where the tree compiler of Model/Compile.v succeeds on the proper
   tree below the root of a node array whose links stay inside the array, the
   worklist model of build() (Model/BuilderWL.v) succeeds with the fuel the
   checks use.  The inner loop is in BuildOkDrain.v ([drain_fwd]). *)
From Coq Require Import List Arith Bool NArith Lia.
From GV Require Import Base.Result Gen.TokenTypes Gen.Defs Gen.Instr Model.Parser Model.BuilderWL Model.Compile
  Proofs.C05.InlBase Proofs.C05.Known Proofs.C05.Operands Proofs.C05.Jumps
  Proofs.Builder.BState Proofs.Builder.TreeAt Proofs.Builder.Owned
  Proofs.Builder.DrainSim Proofs.Builder.ValidTree Proofs.Builder.RootsSim
  Proofs.C01.EndToEnd.BuildOkDrain.
Import ListNotations.

(* ------------------------------------------------------------ the outer loop *)
Lemma psz_rev : forall ps, psz (rev ps) = psz ps.
Proof.
  induction ps as [|p ps IH]; [reflexivity|]. cbn [rev]. rewrite psz_app, psz_cons, psz_cons, psz_nil, IH. lia.
Qed.

Lemma size_le_len : forall nodes t, tree_at nodes t -> NoDup (indices t) -> size t <= length nodes.
Proof.
  intros nodes t Hat Hnd. rewrite size_indices. rewrite <- (seq_length (length nodes) 0).
  apply NoDup_incl_length; [exact Hnd|]. intros k Hk. apply in_seq.
  pose proof (tree_at_in_range nodes t Hat k Hk). lia.
Qed.

Section Roots.
Variable nodes : list pnode.
Variable init : binit.
Variable lit_ok : nat -> bool.

Lemma finish_root_steps : forall s ix, steps (finish_root init s ix) = steps s.
Proof.
  intros s ix. unfold finish_root.
  generalize (last_instruction init s). intros last.
  generalize (match nth_error (bnodes s) ix with
              | Some (Some b) => match b_root_end b with Some e => e | None => [(I_EndExpression, ONone)] end
              | _ => [(I_EndExpression, ONone)] end).
  generalize (existsb (Nat.eqb (instr_len init s)) (jumps s)). intros tg ends.
  revert s. induction ends as [|e r IH]; intros s; [reflexivity|]. cbn [fold_left].
  rewrite IH. destruct last as [li|]; [|reflexivity].
  destruct (instr_eqb li e && instruction_eqb (fst e) I_EndExpression && negb tg); reflexivity.
Qed.

Lemma set_jump_fwd : forall s i x c1, patch init (cst_of s) i x = Ok c1 ->
  exists s1, set_jump init s i x = Ok s1 /\ cst_of s1 = c1 /\ bnodes s1 = bnodes s /\
             root_stack s1 = root_stack s /\ steps s1 = steps s.
Proof.
  intros s i x c1 H. unfold patch in H. unfold set_jump. cbn [cst_of cj ci cm] in H.
  destruct (Nat.ltb i (i_jump_len init)); [discriminate|].
  destruct (upd (jumps s) (i - i_jump_len init) (fun _ => x)) as [l|]; [|discriminate].
  inversion H; subst. eexists. split; [reflexivity|]. cbn. auto.
Qed.

(* [k] iterations of the outer loop *)
Definition rruns (dfuel : nat) (s s' : bstate) (k : nat) : Prop :=
  forall fuel, roots nodes init lit_ok dfuel (k + fuel) s = roots nodes init lit_ok dfuel fuel s'.

Lemma rruns_trans : forall dfuel s s1 s2 k1 k2,
  rruns dfuel s s1 k1 -> rruns dfuel s1 s2 k2 -> rruns dfuel s s2 (k1 + k2).
Proof. intros dfuel s s1 s2 k1 k2 A B fuel. rewrite <- Nat.add_assoc, A. apply B. Qed.

(* the inner loop on one body, started with the full budget *)
Lemma drain_body : forall dfuel crj s ri s2 n,
  runs nodes init lit_ok crj s [ri] s2 [] n -> steps s2 <= max_steps nodes -> n + 1 <= dfuel ->
  exists lf, drain nodes init lit_ok dfuel s crj [ri] = Ok (s2, lf).
Proof.
  intros dfuel crj s ri s2 n [_ H] Hle Hf. replace dfuel with (n + S (dfuel - n - 1)) by lia.
  rewrite (H Hle). cbn [drain]. eexists. reflexivity.
Qed.

Definition body_stmt (f dfuel : nat) : Prop :=
  forall p s rest c4,
    3 * length nodes + 1 <= dfuel ->
    root_stack s = proot p :: rest -> waiting nodes s f p -> blen s = length nodes ->
    steps s + 3 * size (p_tree p) <= max_steps nodes ->
    run_body init lit_ok f p (cst_of s) = Ok c4 ->
    exists s' k, cst_of s' = c4 /\ root_stack s' = rest /\ blen s' = length nodes /\
      (forall j, ~ In j (indices (p_tree p)) -> lk s' j = lk s j) /\
      steps s' <= steps s + 3 * size (p_tree p) /\ k <= size (p_tree p) /\
      rruns dfuel s s' k.

Lemma fold_fwd : forall f dfuel, body_stmt f dfuel ->
  forall qs s rest c4,
    3 * length nodes + 1 <= dfuel ->
    root_stack s = map proot qs ++ rest -> Forall (waiting nodes s f) qs ->
    NoDup (flat_map (fun q => indices (p_tree q)) qs) -> blen s = length nodes ->
    steps s + 3 * psz qs <= max_steps nodes ->
    fold_bodies init lit_ok f qs (Ok (cst_of s)) = Ok c4 ->
    exists s' k, cst_of s' = c4 /\ root_stack s' = rest /\ blen s' = length nodes /\
      (forall j, ~ In j (flat_map (fun q => indices (p_tree q)) qs) -> lk s' j = lk s j) /\
      steps s' <= steps s + 3 * psz qs /\ k <= psz qs /\ rruns dfuel s s' k.
Proof.
  intros f dfuel Hbody. induction qs as [|q qs IH]; intros s rest c4 Hdf Hrs Hw Hnd Hlen Hbud Hf.
  - cbn in Hf. inversion Hf; subst. exists s, 0. cbn in Hrs. rewrite psz_nil.
    repeat split; auto; try lia; try (intros fuel; reflexivity).
  - cbn [map app] in Hrs. inversion Hw as [|? ? Hq Hw']; subst.
    unfold fold_bodies in Hf. cbn [fold_left bind] in Hf.
    destruct (run_body init lit_ok f q (cst_of s)) as [c1| | |] eqn:Eq.
    2:{ destruct (fold_bodies_err init lit_ok f qs) as [_ [He' _]]. unfold fold_bodies in He'. rewrite He' in Hf. discriminate. }
    2:{ destruct (fold_bodies_err init lit_ok f qs) as [_ [_ Hp']]. unfold fold_bodies in Hp'. rewrite Hp' in Hf. discriminate. }
    2:{ destruct (fold_bodies_err init lit_ok f qs) as [Ho' _]. unfold fold_bodies in Ho'. rewrite Ho' in Hf. discriminate. }
    rewrite psz_cons in Hbud.
    destruct (Hbody q s (map proot qs ++ rest) c1 Hdf Hrs Hq Hlen ltac:(lia) Eq)
      as (s1 & k1 & Hc1 & Hrs1 & Hl1 & Hf1 & Hst1 & Hk1 & Hr1).
    cbn [flat_map] in Hnd. destruct (nodup_app_inv _ _ _ Hnd) as [Nq [Nqs Dq]].
    assert (Hw1 : Forall (waiting nodes s1 f) qs).
    { rewrite Forall_forall in *. intros q' Hq'. destruct (Hw' q' Hq') as [Hreg Hrest]. split; [|exact Hrest].
      eapply reg_same; [|exact Hreg]. apply Hf1. intros Hc. apply (Dq _ Hc). apply in_flat_map. exists q'. split; [exact Hq' | apply ix_in]. }
    rewrite <- Hc1 in Hf.
    destruct (IH s1 rest c4 Hdf Hrs1 Hw1 Nqs Hl1 ltac:(lia) Hf)
      as (s2 & k2 & Hc2 & Hrs2 & Hl2 & Hf2 & Hst2 & Hk2 & Hr2).
    exists s2, (k1 + k2). rewrite psz_cons.
    split; [exact Hc2|]. split; [exact Hrs2|]. split; [exact Hl2|]. split.
    { intros j Hj. cbn [flat_map] in Hj. rewrite in_app_iff in Hj. rewrite Hf2 by tauto. apply Hf1. tauto. }
    split; [lia|]. split; [lia|]. eapply rruns_trans; eassumption.
Qed.

Lemma body_fwd : forall f dfuel, body_stmt f dfuel.
Proof.
  induction f as [|f IH]; intros dfuel p s rest c4 Hdf Hrs [Hreg [Hat [Hnd Hsz]]] Hlen Hbud Hrun; [lia|].
  cbn [run_body] in Hrun.
  apply bind_ok in Hrun. destruct Hrun as [c1 [Hpatch Hrun]].
  apply bind_ok in Hrun. destruct Hrun as [[[c2 ps] its] [Hinl Hrun]].
  destruct Hreg as [bp [Hbp [Hrd [Hju Hends]]]].
  set (s0 := mkBS (bnodes s) (instrs s) (meta s) (jumps s) rest (steps s)).
  change (cst_of s) with (cst_of s0) in Hpatch.
  destruct (set_jump_fwd s0 _ _ _ Hpatch) as (s1 & Hset & Hc1 & Hbn & Hrs1 & Hst1).
  assert (Hlk1 : forall j, lk s1 j = lk s j) by (intros j; unfold lk; rewrite Hbn; reflexivity).
  assert (Hbp1 : lk s1 (t_ix (p_tree p)) = Some (Some bp)) by (rewrite Hlk1; exact Hbp).
  assert (Hlen1 : blen s1 = length nodes) by (unfold blen; rewrite Hbn; exact Hlen).
  rewrite <- Hc1 in Hinl.
  destruct (drain_fwd nodes init lit_ok (p_tree p) MPlain (p_containing p) s1 (p_jump p) [] bp c2 ps its
              Hat Hnd Hbp1 Hrd I (fun j E => ltac:(discriminate E)) Hlen1 Hinl)
    as (s2 & n & Hpost & [Hn1 Hn2] & Hruns).
  cbn [cx_of] in Hinl.
  assert (Hits : its = []) by (apply (proj1 (inl_items init lit_ok _ _ _ _ _ _ _ Hinl)); reflexivity).
  pose proof (proj1 Hruns) as Hst2. cbn [steps s0] in Hst1.
  pose proof (size_le_len nodes _ Hat Hnd) as Hszl.
  subst its. rewrite isz_nil in Hn2.
  destruct (drain_body dfuel (p_jump p) s1 (t_ix (p_tree p)) s2 n Hruns ltac:(lia) ltac:(lia)) as [lf Hdr].
  destruct Hpost as [Pc [Pr [Pl [Pf [_ [[b' [Hb' Hre]] [Pp _]]]]]]].
  destruct (finish_root_spec init s2 (t_ix (p_tree p)) b' Hb') as [Fc [Fb Fr]].
  pose proof (finish_root_steps s2 (t_ix (p_tree p))) as Fs.
  set (s3 := finish_root init s2 (t_ix (p_tree p))) in *.
  assert (He' : ends_of b' = p_end p) by (unfold ends_of in *; rewrite Hre; exact Hends).
  assert (Hlk3 : forall j, lk s3 j = lk s2 j) by (intros j; unfold lk; rewrite Fb; reflexivity).
  destruct (pends_waiting nodes init lit_ok (p_tree p) _ _ _ _ ps [] s3 f Hat Hnd ltac:(lia) Hinl eq_refl) as [Hw [Hndps Hinps]].
  { eapply Forall_impl; [|exact Pp]. cbv beta. intros q [Hq Hin]. split; [|exact Hin]. eapply reg_same; [apply Hlk3 | exact Hq]. }
  assert (Hrs3 : root_stack s3 = map proot (rev ps) ++ rest).
  { rewrite Fr, Pr, Hrs1. unfold s0. cbn [root_stack]. rewrite map_rev. reflexivity. }
  assert (Hndr : NoDup (flat_map (fun q => indices (p_tree q)) (rev ps))).
  { apply nodup_cnt. intros x. rewrite cnt_flat_rev. apply cnt_nodup. exact Hndps. }
  assert (Hlen3 : blen s3 = length nodes).
  { unfold blen. rewrite Fb. fold (blen s2). rewrite Pl. exact Hlen1. }
  rewrite <- Pc, <- He', <- Fc in Hrun.
  destruct (fold_fwd f dfuel (IH dfuel) (rev ps) s3 rest c4 Hdf Hrs3 (Forall_rev Hw) Hndr Hlen3
              ltac:(rewrite psz_rev; lia) Hrun)
    as (s4 & k4 & Hc4 & Hrs4 & Hl4 & Hf4 & Hst4 & Hk4 & Hr4).
  rewrite psz_rev in Hst4, Hk4.
  exists s4, (1 + k4).
  split; [exact Hc4|]. split; [exact Hrs4|]. split; [exact Hl4|]. split.
  { intros j Hj. rewrite Hf4.
    - rewrite Hlk3, Pf, Hlk1; [reflexivity | exact Hj | discriminate].
    - intros Hc. apply Hj. apply Hinps. rewrite in_flat_map in *. destruct Hc as [q [Hq Hx]]. exists q. split; [apply in_rev; exact Hq | exact Hx]. }
  split; [lia|]. split; [lia|].
  intros fuel. rewrite <- Nat.add_assoc. cbn [Nat.add roots]. rewrite Hrs.
  fold s0. unfold proot in Hbp. fold (proot p) in Hbp.
  change (nth_error (bnodes s0) (proot p)) with (lk s (proot p)). rewrite Hbp, Hju.
  change (il init (cst_of s0)) with (instr_len init s0) in Hset.
  rewrite Hset. cbn [bind]. unfold proot. rewrite Hdr. cbn [bind]. fold s3. apply Hr4.
Qed.

End Roots.

(* ------------------------------------------------------------ the whole build *)
Theorem build_ok : forall nodes init lit_ok root t c,
  tree_of nodes root = Some t -> links_in_range nodes = true ->
  compile init lit_ok t = Ok c ->
  exists r, build nodes init lit_ok (build_fuel nodes) root = Ok r.
Proof.
  intros nodes init lit_ok root t c Ht Hlinks Hc.
  destruct (tree_of_at _ _ _ Ht) as [Hat [Hnd Hroot]].
  pose proof (size_le_len nodes t Hat Hnd) as Hszl.
  assert (Hrlt : root < length nodes).
  { rewrite <- Hroot. apply (tree_at_in_range nodes t Hat). apply ix_in. }
  unfold build. destruct nodes as [|n0 nodes'] eqn:En; [cbn in Hrlt; lia|].
  rewrite <- En in *. clear En n0 nodes'.
  replace (negb (root <? length nodes)) with false by (symmetry; apply negb_false_iff, Nat.ltb_lt; exact Hrlt).
  rewrite Hlinks. cbn [negb].
  set (s0 := mkBS (map (fun _ : pnode => None) nodes) [] [] [] [root] 0).
  destruct (assign_b_fwd s0 root (b_new root (i_jump_len init))) as (s1 & Has & Hsb & Hst1).
  { unfold blen, s0. cbn [bnodes]. rewrite map_length. exact Hrlt. }
  rewrite Has. cbn [bind].
  destruct Hsb as [A1 [A2 [A3 [A4 A5]]]].
  cbn [steps s0] in Hst1.
  assert (Hlen1 : blen s1 = length nodes) by (rewrite A5; unfold blen, s0; cbn [bnodes]; apply map_length).
  (* the compiler's run *)
  unfold compile in Hc.
  apply bind_ok in Hc. destruct Hc as [[[c2 ps] its] [Hinl Hc]].
  apply bind_ok in Hc. destruct Hc as [c4 [Hfold _]].
  (* first iteration of the outer loop: the main body *)
  set (sa := push_jump (mkBS (bnodes s1) (instrs s1) (meta s1) (jumps s1) [] (steps s1)) (instr_len init s1)).
  assert (Hc1 : cst_of s1 = mkC [] [] []) by (rewrite A3; reflexivity).
  assert (Hjl : jump_len init s1 = i_jump_len init).
  { change (jump_len init s1) with (jl init (cst_of s1)). rewrite Hc1. unfold jl. cbn. lia. }
  assert (Hil : instr_len init s1 = il init (mkC [] [] [])).
  { change (instr_len init s1) with (il init (cst_of s1)). rewrite Hc1. reflexivity. }
  assert (Hca : cst_of sa = new_jump (mkC [] [] []) (il init (mkC [] [] []))).
  { unfold sa. change (cst_of (push_jump ?x ?y)) with (new_jump (cst_of x) y).
    change (cst_of (mkBS (bnodes s1) (instrs s1) (meta s1) (jumps s1) [] (steps s1))) with (cst_of s1).
    rewrite Hc1, Hil. reflexivity. }
  assert (Hba : lk sa (t_ix t) = Some (Some (b_new root (i_jump_len init)))) by (rewrite Hroot; exact A1).
  assert (Hlena : blen sa = length nodes) by exact Hlen1.
  rewrite <- Hca in Hinl.
  destruct (drain_fwd nodes init lit_ok t MPlain (i_jump_len init) sa (i_jump_len init) [] (b_new root (i_jump_len init)) c2 ps its
              Hat Hnd Hba ltac:(unfold ready; cbn; rewrite Hroot; repeat split; reflexivity) I
              (fun j E => ltac:(discriminate E)) Hlena Hinl)
    as (s2 & n & Hpost & [Hn1 Hn2] & Hruns).
  cbn [cx_of] in Hinl.
  assert (Hits : its = []) by (apply (proj1 (inl_items init lit_ok _ _ _ _ _ _ _ Hinl)); reflexivity).
  subst its. rewrite isz_nil in Hn2.
  pose proof (proj1 Hruns) as Hst2.
  assert (Hsta : steps sa = 0) by (unfold sa; cbn [steps push_jump]; exact Hst1).
  assert (Hms : max_steps nodes = length nodes * 16 + 16) by reflexivity.
  assert (Hbf : build_fuel nodes = 40 * length nodes + 40) by reflexivity.
  destruct (drain_body nodes init lit_ok (build_fuel nodes) (i_jump_len init) sa (t_ix t) s2 n Hruns ltac:(lia) ltac:(lia)) as [lf Hdr].
  destruct Hpost as [Pc [Pr [Pl [Pf [_ [[b' [Hb' Hre]] [Pp _]]]]]]].
  destruct (finish_root_spec init s2 (t_ix t) b' Hb') as [Fc [Fb Fr]].
  pose proof (finish_root_steps init s2 (t_ix t)) as Fs.
  set (s3 := finish_root init s2 (t_ix t)) in *.
  assert (He' : ends_of b' = default_end) by (unfold ends_of; rewrite Hre; reflexivity).
  assert (Hlk3 : forall j, lk s3 j = lk s2 j) by (intros j; unfold lk; rewrite Fb; reflexivity).
  destruct (pends_waiting nodes init lit_ok t _ _ _ _ ps [] s3 (size t) Hat Hnd (le_n _) Hinl eq_refl) as [Hw [Hndps Hinps]].
  { eapply Forall_impl; [|exact Pp]. cbv beta. intros q [Hq Hin]. split; [|exact Hin]. eapply reg_same; [apply Hlk3 | exact Hq]. }
  assert (Hrs3 : root_stack s3 = map proot (rev ps) ++ []).
  { rewrite Fr, Pr. unfold sa. cbn [root_stack push_jump]. rewrite map_rev. reflexivity. }
  assert (Hndr : NoDup (flat_map (fun q => indices (p_tree q)) (rev ps))).
  { apply nodup_cnt. intros x. rewrite cnt_flat_rev. apply cnt_nodup. exact Hndps. }
  assert (Hlen3 : blen s3 = length nodes).
  { unfold blen. rewrite Fb. fold (blen s2). rewrite Pl. exact Hlena. }
  rewrite <- Pc, <- He', <- Fc in Hfold.
  destruct (fold_fwd nodes init lit_ok (size t) (build_fuel nodes) (body_fwd nodes init lit_ok (size t) (build_fuel nodes))
              (rev ps) s3 [] c4 ltac:(lia) Hrs3 (Forall_rev Hw) Hndr Hlen3 ltac:(rewrite psz_rev; lia) Hfold)
    as (s4 & k4 & Hc4 & Hrs4 & Hl4 & Hf4 & Hst4 & Hk4 & Hr4).
  rewrite psz_rev in Hk4.
  exists (s4, i_jump_len init).
  replace (build_fuel nodes) with (1 + (k4 + S (build_fuel nodes - k4 - 2))) at 2 by lia.
  cbn [Nat.add roots]. rewrite A4. cbn [s0 root_stack].
  change (nth_error (bnodes (mkBS (bnodes s1) (instrs s1) (meta s1) (jumps s1) [] (steps s1))) root) with (lk s1 root).
  rewrite A1. cbn [b_jump_upd b_new bind].
  set (s1' := mkBS (bnodes s1) (instrs s1) (meta s1) (jumps s1) [] (steps s1)).
  assert (Hdr' : drain nodes init lit_ok (build_fuel nodes) (push_jump s1' (instr_len init s1')) (jump_len init s1') [root]
                 = Ok (s2, lf)).
  { change (jump_len init s1') with (jump_len init s1). rewrite Hjl. rewrite <- Hroot. exact Hdr. }
  rewrite Hdr'. cbn [bind]. rewrite <- Hroot. fold s3.
  rewrite Hr4. cbn [roots]. rewrite Hrs4. reflexivity.
Qed.


(* together with build_compile (Proofs/Builder/RootsSim.v): build() returns exactly the
   tree compiler's code and entry *)
Theorem build_is_compile : forall nodes init lit_ok root t c e,
  tree_of nodes root = Some t -> links_in_range nodes = true ->
  compile init lit_ok t = Ok (c, e) ->
  exists sb, build nodes init lit_ok (build_fuel nodes) root = Ok (sb, e) /\ cst_of sb = c.
Proof.
  intros nodes init lit_ok root t c e Ht Hlinks Hc.
  destruct (build_ok nodes init lit_ok root t (c, e) Ht Hlinks Hc) as [[sb e'] Hb].
  pose proof (build_compile nodes init lit_ok root t _ sb e' Ht Hb) as Hc'.
  rewrite Hc in Hc'. inversion Hc'; subst. exists sb. split; [exact Hb | reflexivity].
Qed.

(* ---- the staged statements (node-kind fragments): corollaries, the restriction on the
   kinds is not needed ---- *)
Definition okinds (f : tree -> bool) (o : option tree) : bool := match o with Some a => f a | None => true end.

Definition kind_ok1 (k : bkind) : bool :=
  match k with
  | KValue _ _ | KUnary _ _ | KBinary _ _ | KList | KGroup => true
  | _ => false
  end.
Fixpoint kinds_ok1 (t : tree) : bool :=
  match t with
  | T _ d l r => kind_ok1 (kind_of d) && okinds kinds_ok1 l && okinds kinds_ok1 r
  end.

Definition kind_ok (k : bkind) : bool :=
  match k with
  | KValue _ _ | KUnary _ _ | KBinary _ _ | KList | KGroup | KLogical _ | KJumpIf _ | KElse => true
  | _ => false
  end.
Fixpoint kinds_ok (t : tree) : bool :=
  match t with
  | T _ d l r => kind_ok (kind_of d) && okinds kinds_ok l && okinds kinds_ok r
  end.

Theorem build_ok_inline : forall nodes root t init lit c,
  tree_of nodes root = Some t -> links_in_range nodes = true -> kinds_ok1 t = true ->
  compile init lit t = Ok c ->
  exists r, build nodes init lit (build_fuel nodes) root = Ok r.
Proof. intros nodes root t init lit c Ht Hl _ Hc. exact (build_ok nodes init lit root t c Ht Hl Hc). Qed.

Theorem build_ok_fragment : forall nodes root t lit c,
  tree_of nodes root = Some t -> links_in_range nodes = true -> kinds_ok t = true ->
  compile empty_init lit t = Ok c ->
  exists r, build nodes empty_init lit (build_fuel nodes) root = Ok r.
Proof. intros nodes root t lit c Ht Hl _ Hc. exact (build_ok nodes empty_init lit root t c Ht Hl Hc). Qed.

(* the hypothesis on the links cannot be dropped: build() checks the links of every node of
   the array first, [tree_of] only looks at the nodes below the root *)
Example links_needed :
  let nodes := [mkNode D_Value S_None None None None None; mkNode D_Value S_None None (Some 99) None None] in
  exists t c, tree_of nodes 0 = Some t /\ compile empty_init (fun _ => true) t = Ok c /\
              build nodes empty_init (fun _ => true) (build_fuel nodes) 0 = Err E_build.
Proof. cbv zeta. eexists _, _. split; [|split]; vm_compute; reflexivity. Qed.

Print Assumptions build_ok.
Print Assumptions build_is_compile.
