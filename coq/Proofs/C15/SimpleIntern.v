(* C15 for SimpleGarnishData: the data vector only grows, so everything
   stored reads back; and the intern table [cache_add] returns the same
   address for an equal constant and a different address for a different
   one -- provided the hash does not collide on the constants added.
   The hash [h] is an oracle; the no-collision hypothesis is a Section
   hypothesis restricted to a domain [dom] of constants (non-vacuity: see the
   Example in Properties/C15.v). *)
From Coq Require Import NArith ZArith List Bool Arith Lia.
From GV Require Import Base.Result Gen.Instr Model.StoreBase Model.SimpleStore Model.StoreOps.
Import ListNotations.

Section Intern.
Variable h : sdata -> N.
Variable dom : sdata -> Prop.
Hypothesis h_inj : forall v w, dom v -> dom w -> h v = h w -> v = w.

(* every cached address holds a constant with that hash *)
Definition SInv (s : simple) : Prop :=
  forall hv a, map_get (s_cache s) hv = Some a ->
    exists v, nth_error (s_data s) a = Some v /\ h v = hv /\ dom v.

(* s' extends s: data and cache only grow *)
Record ext (s s' : simple) : Prop := {
  ext_data : forall a v, nth_error (s_data s) a = Some v -> nth_error (s_data s') a = Some v;
  ext_cache : forall hv a, map_get (s_cache s) hv = Some a -> map_get (s_cache s') hv = Some a }.

Lemma ext_refl : forall s, ext s s.
Proof. intro s. constructor; auto. Qed.
Lemma ext_trans : forall a b c, ext a b -> ext b c -> ext a c.
Proof. intros a b c [D1 C1] [D2 C2]. constructor; auto. Qed.

Definition pres {A} (m : PM A) : Prop :=
  forall s s' r, SInv s -> m s = Ok (s', r) -> SInv s' /\ ext s s'.

Lemma pres_same : forall A (m : PM A),
  (forall s s' r, m s = Ok (s', r) -> s_data s' = s_data s /\ s_cache s' = s_cache s) -> pres m.
Proof.
  intros A m H s s' r I E. destruct (H s s' r E) as [Hd Hc]. split.
  - unfold SInv. rewrite Hd, Hc. exact I.
  - constructor; intros; rewrite ?Hd, ?Hc; assumption.
Qed.

Lemma pres_bind : forall A B (m : PM A) (f : A -> PM B), pres m -> (forall a, pres (f a)) -> pres (sbind m f).
Proof.
  intros A B m f Hm Hf s s' r I E. unfold sbind in E.
  destruct (m s) as [[s1 [a|e]]| | |] eqn:Em; try discriminate.
  - destruct (Hm s s1 (Done a) I Em) as [I1 E1]. destruct (Hf a s1 s' r I1 E) as [I2 E2].
    split; [exact I2|eapply ext_trans; eassumption].
  - inversion E; subst. apply (Hm s s' (Fail e) I Em).
Qed.

Lemma pres_sfor : forall A (l : list A) (f : A -> PM unit), (forall a, pres (f a)) -> pres (sfor l f).
Proof.
  intros A l f Hf. induction l as [|x r IH]; cbn [sfor].
  - intros s s' r0 I E. inversion E; subst. split; [exact I|apply ext_refl].
  - apply pres_bind; [apply Hf|intro; exact IH].
Qed.

Lemma nth_error_snoc_old : forall {A} (l : list A) x a v, nth_error l a = Some v -> nth_error (l ++ [x]) a = Some v.
Proof. intros A l x a v H. rewrite nth_error_app1; [exact H|]. apply nth_error_Some. congruence. Qed.

Lemma map_get_insert : forall {V} (m : list (N * V)) k v k',
  map_get (map_insert m k v) k' = if N.eqb k k' then Some v else map_get m k'.
Proof.
  intros V m k v k'. unfold map_insert. cbn [map_get]. destruct (N.eqb k k') eqn:E; [reflexivity|].
  induction m as [|[k0 v0] r IH]; cbn [filter map_get fst negb]; [reflexivity|].
  destruct (N.eqb k0 k) eqn:E0; cbn [negb].
  - apply N.eqb_eq in E0. subst k0. rewrite E. exact IH.
  - cbn [map_get]. destruct (N.eqb k0 k'); [reflexivity|exact IH].
Qed.

Lemma pres_push_data : forall d, pres (push_data d).
Proof.
  intros d s s' r I E. unfold push_data in E. inversion E; subst. clear E. split.
  - intros hv a Ha. cbn in Ha. destruct (I hv a Ha) as (v & Hv & Hh & Hd). exists v. cbn. split; [apply nth_error_snoc_old; exact Hv|auto].
  - constructor; cbn; intros; [apply nth_error_snoc_old; assumption|assumption].
Qed.

(* the intern table *)
Lemma cache_add_spec : forall v s s' r, SInv s -> dom v -> cache_add h v s = Ok (s', r) ->
  exists a, r = Done a /\ SInv s' /\ ext s s' /\
    nth_error (s_data s') a = Some v /\ map_get (s_cache s') (h v) = Some a.
Proof.
  intros v s s' r I Dv E. unfold cache_add in E.
  destruct (map_get (s_cache s) (h v)) as [addr|] eqn:Eg.
  - inversion E; subst. exists addr. split; [reflexivity|]. split; [exact I|]. split; [apply ext_refl|].
    destruct (I (h v) addr Eg) as (w & Hw & Hh & Dw).
    rewrite (h_inj w v Dw Dv Hh) in Hw. auto.
  - inversion E; subst. clear E. exists (length (s_data s)). split; [reflexivity|].
    split; [|split; [|split]].
    + intros hv a Ha. cbn [s_cache s_data with_cache with_data] in Ha |- *. rewrite map_get_insert in Ha.
      destruct (N.eqb (h v) hv) eqn:Eh.
      * apply N.eqb_eq in Eh. inversion Ha; subst a. exists v.
        split; [rewrite nth_error_app2, Nat.sub_diag by lia; reflexivity|auto].
      * destruct (I hv a Ha) as (w & Hw & Hh & Dw). exists w. split; [apply nth_error_snoc_old; exact Hw|auto].
    + constructor; cbn [s_cache s_data with_cache with_data].
      * intros. apply nth_error_snoc_old. assumption.
      * intros hv a Ha. rewrite map_get_insert. destruct (N.eqb (h v) hv) eqn:Eh; [|exact Ha].
        apply N.eqb_eq in Eh. subst hv. rewrite Eg in Ha. discriminate.
    + cbn [s_cache s_data with_cache with_data]. rewrite nth_error_app2, Nat.sub_diag by lia. reflexivity.
    + cbn [s_cache s_data with_cache with_data]. rewrite map_get_insert, N.eqb_refl. reflexivity.
Qed.

Lemma pres_cache_add : forall v, dom v -> pres (cache_add h v).
Proof.
  intros v Dv s s' r I E. destruct (cache_add_spec v s s' r I Dv E) as (a & _ & I' & E' & _). auto.
Qed.

(* building the text / byte vector of OText / OBytes, then interning it *)
Lemma chars_built : forall cs s acc, s_current_chars s = Some acc ->
  sfor cs s_add_to_char_list s = Ok (with_current_chars s (Some (acc ++ cs)), Done tt).
Proof.
  induction cs as [|c r IH]; intros s acc H.
  - cbn [sfor sret]. rewrite app_nil_r. destruct s; cbn in *; subst; reflexivity.
  - cbn [sfor]. unfold sbind, s_add_to_char_list at 1. rewrite H.
    rewrite (IH _ (acc ++ [c])); [|reflexivity]. rewrite <- app_assoc. destruct s; reflexivity.
Qed.

Lemma bytes_built : forall cs s acc, s_current_bytes s = Some acc ->
  sfor cs s_add_to_byte_list s = Ok (with_current_bytes s (Some (acc ++ cs)), Done tt).
Proof.
  induction cs as [|c r IH]; intros s acc H.
  - cbn [sfor sret]. rewrite app_nil_r. destruct s; cbn in *; subst; reflexivity.
  - cbn [sfor]. unfold sbind, s_add_to_byte_list at 1. rewrite H.
    rewrite (IH _ (acc ++ [c])); [|reflexivity]. rewrite <- app_assoc. destruct s; reflexivity.
Qed.

Lemma SInv_same : forall s s', s_data s' = s_data s -> s_cache s' = s_cache s -> SInv s -> SInv s'.
Proof. intros s s' Hd Hc I. unfold SInv. rewrite Hd, Hc. exact I. Qed.

Lemma ext_same : forall s s', s_data s' = s_data s -> s_cache s' = s_cache s -> ext s s'.
Proof. intros s s' Hd Hc. constructor; intros; rewrite ?Hd, ?Hc; assumption. Qed.

Definition text_m (cs : list N) : PM nat :=
  sdo _ <- s_start_char_list ; sdo _ <- sfor cs s_add_to_char_list ; s_end_char_list h.
Definition bytes_m (l : list N) : PM nat :=
  sdo _ <- s_start_byte_list ; sdo _ <- sfor l s_add_to_byte_list ; s_end_byte_list h.

Lemma text_spec : forall cs s s' r, SInv s -> dom (SCharList cs) -> text_m cs s = Ok (s', r) ->
  exists a, r = Done a /\ SInv s' /\ ext s s' /\ nth_error (s_data s') a = Some (SCharList cs) /\
    map_get (s_cache s') (h (SCharList cs)) = Some a.
Proof.
  intros cs s s' r I D E. unfold text_m in E. unfold sbind at 1 in E. unfold s_start_char_list at 1 in E.
  unfold sbind at 1 in E. rewrite (chars_built cs (with_current_chars s (Some [])) []) in E by reflexivity.
  cbn [app] in E. unfold s_end_char_list in E.
  set (s1 := with_current_chars (with_current_chars s (Some [])) (Some cs)) in *.
  assert (Hc1 : s_current_chars s1 = Some cs) by reflexivity. rewrite Hc1 in E.
  unfold sbind in E. destruct (cache_add h (SCharList cs) s1) as [[s2 [a|e]]| | |] eqn:Ec; try discriminate.
  - inversion E; subst. clear E.
    assert (I1 : SInv s1) by (apply (SInv_same s s1); [reflexivity|reflexivity|exact I]).
    destruct (cache_add_spec _ _ _ _ I1 D Ec) as (a' & Ha & I2 & E2 & Hn & Hg). inversion Ha; subst a'.
    exists a. split; [reflexivity|]. split; [|split; [|split]].
    + apply (SInv_same s2); [reflexivity|reflexivity|exact I2].
    + eapply ext_trans; [apply (ext_same s s1); reflexivity|].
      eapply ext_trans; [exact E2|apply ext_same; reflexivity].
    + exact Hn.
    + exact Hg.
  - assert (I1 : SInv s1) by (apply (SInv_same s s1); [reflexivity|reflexivity|exact I]).
    destruct (cache_add_spec _ _ _ _ I1 D Ec) as (a' & Ha & _). discriminate.
Qed.

Lemma bytes_spec : forall l s s' r, SInv s -> dom (SByteList l) -> bytes_m l s = Ok (s', r) ->
  exists a, r = Done a /\ SInv s' /\ ext s s' /\ nth_error (s_data s') a = Some (SByteList l) /\
    map_get (s_cache s') (h (SByteList l)) = Some a.
Proof.
  intros cs s s' r I D E. unfold bytes_m in E. unfold sbind at 1 in E. unfold s_start_byte_list at 1 in E.
  unfold sbind at 1 in E. rewrite (bytes_built cs (with_current_bytes s (Some [])) []) in E by reflexivity.
  cbn [app] in E. unfold s_end_byte_list in E.
  set (s1 := with_current_bytes (with_current_bytes s (Some [])) (Some cs)) in *.
  assert (Hc1 : s_current_bytes s1 = Some cs) by reflexivity. rewrite Hc1 in E.
  unfold sbind in E. destruct (cache_add h (SByteList cs) s1) as [[s2 [a|e]]| | |] eqn:Ec; try discriminate.
  - inversion E; subst. clear E.
    assert (I1 : SInv s1) by (apply (SInv_same s s1); [reflexivity|reflexivity|exact I]).
    destruct (cache_add_spec _ _ _ _ I1 D Ec) as (a' & Ha & I2 & E2 & Hn & Hg). inversion Ha; subst a'.
    exists a. split; [reflexivity|]. split; [|split; [|split]].
    + apply (SInv_same s2); [reflexivity|reflexivity|exact I2].
    + eapply ext_trans; [apply (ext_same s s1); reflexivity|].
      eapply ext_trans; [exact E2|apply ext_same; reflexivity].
    + exact Hn.
    + exact Hg.
  - assert (I1 : SInv s1) by (apply (SInv_same s s1); [reflexivity|reflexivity|exact I]).
    destruct (cache_add_spec _ _ _ _ I1 D Ec) as (a' & Ha & _). discriminate.
Qed.

Lemma pres_text : forall cs, dom (SCharList cs) -> pres (text_m cs).
Proof. intros cs D s s' r I E. destruct (text_spec cs s s' r I D E) as (a & _ & I' & E' & _). auto. Qed.
Lemma pres_bytes : forall l, dom (SByteList l) -> pres (bytes_m l).
Proof. intros l D s s' r I E. destruct (bytes_spec l s s' r I D E) as (a & _ & I' & E' & _). auto. Qed.

(* the constants an operation hands to the intern table *)
Definition op_dom (o : op) : Prop :=
  match o with
  | OSymbol sym _ _ => dom (SSymbol sym)
  | ONumber n => dom (SNumber n)
  | OType t => dom (SType t)
  | OChar c => dom (SChar c)
  | OByte b => dom (SByte b)
  | OSym x => dom (SSymbol x)
  | OExpression n => dom (SExpression n)
  | OExternal n => dom (SExternal n)
  | OText _ cs => dom (SCharList cs)
  | OBytes l => dom (SByteList l)
  | _ => True
  end.

Lemma lift_pres : forall A (f : A -> result) (m : PM A) s s' r, pres m -> SInv s -> lift f m s = Ok (s', r) -> SInv s' /\ ext s s'.
Proof.
  intros A f m s s' r Hm I E. unfold lift in E.
  destruct (m s) as [[s1 [a|e]]| | |] eqn:Em; try discriminate; inversion E; subst; eapply Hm; eassumption.
Qed.

Ltac same_tac :=
  apply pres_same; intros s0 s1 r0 E0;
  repeat match goal with
         | H : context[match ?x with _ => _ end] |- _ => destruct x eqn:?; try discriminate
         end;
  inversion E0; subst; split; reflexivity.

Theorem sstep_pres : forall o s s' r, SInv s -> op_dom o -> sstep h o s = Ok (s', r) -> SInv s' /\ ext s s'.
Proof.
  intros o s s' r I D E. destruct o; cbn [sstep op_dom] in *;
    try (eapply lift_pres; [|exact I|exact E]).
  - unfold s_push_instruction. same_tac.
  - unfold s_push_to_jump_table. same_tac.
  - unfold s_set_jump_table. same_tac.
  - unfold s_parse_add_symbol, s_add_symbol. apply pres_bind; [same_tac|intro; apply pres_cache_add; exact D].
  - inversion E; subst. split; [exact I|apply ext_refl].
  - apply pres_push_data.
  - unfold s_add_unit. same_tac.
  - unfold s_add_true. same_tac.
  - unfold s_add_false. same_tac.
  - apply pres_cache_add; exact D.
  - apply pres_cache_add; exact D.
  - apply pres_cache_add; exact D.
  - apply pres_cache_add; exact D.
  - apply pres_cache_add; exact D.
  - apply pres_cache_add; exact D.
  - apply pres_cache_add; exact D.
  - apply pres_push_data.
  - apply pres_push_data.
  - apply pres_push_data.
  - apply pres_push_data.
  - apply pres_push_data.
  - apply (pres_text chars D).
  - apply (pres_bytes l D).
  - unfold s_start_list. same_tac.
  - unfold s_add_to_list. same_tac.
  - unfold s_end_list. intros s0 s1 r0 I0 E0.
    destruct (s_current_list s0) as [[items assoc]|]; [|inversion E0; subst; split; [exact I0|apply ext_refl]].
    destruct (place_all assoc (length assoc) (repeat 0 (length assoc))) as [[ordered|e]| | |]; try discriminate.
    + eapply pres_push_data; eassumption.
    + inversion E0; subst; split; [exact I0|apply ext_refl].
  - unfold s_push_register. same_tac.
  - unfold s_pop_register. same_tac.
  - unfold s_push_value_stack. same_tac.
  - unfold s_pop_value_stack. same_tac.
  - unfold s_set_current_value. same_tac.
  - unfold s_push_frame. apply pres_bind; [apply pres_push_data|intro; unfold s_push_register; same_tac].
  - unfold s_pop_frame. apply pres_same. intros s0 s1 r0 E0.
    destruct (pop_frame_loop (rev (s_register s0)) (s_data s0)). inversion E0; subst. split; reflexivity.
  - unfold s_set_instruction_cursor. same_tac.
Qed.

(* ---- histories ---- *)
Fixpoint ops_dom (ops : list op) : Prop :=
  match ops with [] => True | o :: r => op_dom o /\ ops_dom r end.

Theorem srun_pres : forall ops s s' rs, SInv s -> ops_dom ops -> run (sstep h) ops s = Ok (s', rs) -> SInv s' /\ ext s s'.
Proof.
  induction ops as [|o rest IH]; intros s s' rs I D E.
  - inversion E; subst. split; [exact I|apply ext_refl].
  - cbn [run] in E. destruct D as [Do Dr].
    destruct (sstep h o s) as [[s1 r1]| | |] eqn:E1; try discriminate. cbn [bind fst snd] in E.
    destruct (run (sstep h) rest s1) as [[s2 r2]| | |] eqn:E2; try discriminate. cbn [bind fst snd] in E. inversion E; subst.
    destruct (sstep_pres o s s1 r1 I Do E1) as [I1 X1]. destruct (IH s1 s' r2 I1 Dr E2) as [I2 X2].
    split; [exact I2|eapply ext_trans; eassumption].
Qed.

Lemma SInv_new : SInv simple_new.
Proof. intros hv a H. discriminate. Qed.

(* what is stored reads back after any continuation *)
Theorem simple_readback : forall ops s s' rs a v, SInv s -> ops_dom ops -> run (sstep h) ops s = Ok (s', rs) ->
  nth_error (s_data s) a = Some v -> nth_error (s_data s') a = Some v.
Proof.
  intros ops s s' rs a v I D E H. destruct (srun_pres ops s s' rs I D E) as [_ [Hd _]]. auto.
Qed.

(* interning: an equal constant gets the same address again, a different one a different address,
   whatever happens in between *)
Theorem simple_intern : forall v w ops s s1 s2 s3 a1 a2 rs r1 r2,
  SInv s -> dom v -> dom w -> ops_dom ops ->
  cache_add h v s = Ok (s1, r1) -> r1 = Done a1 ->
  run (sstep h) ops s1 = Ok (s2, rs) ->
  cache_add h w s2 = Ok (s3, r2) -> r2 = Done a2 ->
  (v = w -> a1 = a2) /\ (v <> w -> a1 <> a2) /\
  nth_error (s_data s3) a1 = Some v /\ nth_error (s_data s3) a2 = Some w.
Proof.
  intros v w ops s s1 s2 s3 a1 a2 rs r1 r2 I Dv Dw Dops E1 R1 Er E2 R2. subst r1 r2.
  destruct (cache_add_spec v s s1 _ I Dv E1) as (a & Ha & I1 & X1 & N1 & C1). inversion Ha; subst a.
  destruct (srun_pres ops s1 s2 rs I1 Dops Er) as [I2 X2].
  destruct (cache_add_spec w s2 s3 _ I2 Dw E2) as (a & Ha2 & I3 & X3 & N3 & C3). inversion Ha2; subst a.
  assert (N1' : nth_error (s_data s3) a1 = Some v).
  { apply (ext_data s2 s3 X3). apply (ext_data s1 s2 X2). exact N1. }
  split; [|split; [|split; [exact N1'|exact N3]]].
  - intro Hvw. subst w. pose proof (ext_cache s2 s3 X3 _ _ (ext_cache s1 s2 X2 _ _ C1)) as C. rewrite C in C3. inversion C3. reflexivity.
  - intros Hvw Hx. subst a2. rewrite N1' in N3. inversion N3. contradiction.
Qed.
End Intern.
