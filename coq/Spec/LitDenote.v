(* What C14 means, independent of the parsing algorithm: the value a digit
   string denotes in a radix, what an escape sequence denotes, and the spelling
   functions (how a value is written as a literal). *)
From Coq Require Import ZArith NArith List Bool.
Import ListNotations.
Local Open Scope N_scope.

(* ---- digits ---- *)
(* 0-9, a-z, A-Z (case-insensitive) *)
Definition digit_value (c : N) : option N :=
  if (48 <=? c) && (c <=? 57) then Some (c - 48)
  else if (97 <=? c) && (c <=? 122) then Some (c - 87)
  else if (65 <=? c) && (c <=? 90) then Some (c - 55)
  else None.

Definition is_digit_of (R c : N) : bool :=
  match digit_value c with Some d => d <? R | None => false end.

(* a non-empty string of digits of radix R *)
Definition valid_digits (R : N) (ds : list N) : bool :=
  match ds with [] => false | _ => forallb (is_digit_of R) ds end.

(* positional value, most significant digit first *)
Definition radix_step (R : N) (v c : N) : N :=
  v * R + match digit_value c with Some d => d | None => 0 end.
Definition radix_value (R : N) (ds : list N) : N := fold_left (radix_step R) ds 0.

(* lower-case digit character of a digit value *)
Definition digit_char (d : N) : N := if d <? 10 then 48 + d else 87 + d.

(* canonical digits of n in radix R (no leading zeros; "0" for zero) *)
Fixpoint to_digits_fuel (fuel : nat) (R n : N) (acc : list N) : list N :=
  match fuel with
  | O => acc
  | S f =>
      let acc' := digit_char (n mod R) :: acc in
      if n / R =? 0 then acc' else to_digits_fuel f R (n / R) acc'
  end.
Definition digits_of (R n : N) : list N := to_digits_fuel (S (N.to_nat (N.size n))) R n [].
Definition dec_string (n : N) : list N := digits_of 10 n.

(* `_` separators carry no meaning *)
Definition strip_seps (s : list N) : list N := filter (fun c => negb (c =? 95)) s.

(* 0R_digits *)
Definition spell_radix (R : N) (digits : list N) : list N := 48 :: dec_string R ++ 95 :: digits.
Definition spell_int (R n : N) : list N := spell_radix R (digits_of R n).

Definition i32_max_N : N := 2147483647.

(* ---- floats ---- *)
(* exactly k decimal digits of v (leading zeros), v < 10^k *)
Fixpoint fixed_digits (k : nat) (v : N) (acc : list N) : list N :=
  match k with
  | O => acc
  | S k' => fixed_digits k' (v / 10) (digit_char (v mod 10) :: acc)
  end.

(* a decimal-fraction spelling of the dyadic rational m * 2^e (every finite
   binary64 is one): m * 2^e = n / 10^k with n = m * 5^-e, k = -e when e < 0
   and n = m * 2^e * 10, k = 1 otherwise; the spelling is the integer part,
   a point, and the k fraction digits *)
Definition dyadic_decimal (m : positive) (e : Z) : N * nat :=
  if (0 <=? e)%Z then (Npos m * 2 ^ Z.to_N e * 10, 1%nat)
  else (Npos m * 5 ^ Z.to_N (- e), Z.to_nat (- e)).
Definition spell_dyadic (m : positive) (e : Z) : list N :=
  let '(n, k) := dyadic_decimal m e in
  dec_string (n / 10 ^ N.of_nat k) ++ 46 :: fixed_digits k (n mod 10 ^ N.of_nat k) [].

(* ---- char lists ---- *)
Inductive esc : Type := EscN | EscT | EscR | Esc0 | EscBackslash | EscQuote.
Definition esc_letter (e : esc) : N :=
  match e with EscN => 110 | EscT => 116 | EscR => 114 | Esc0 => 48 | EscBackslash => 92 | EscQuote => 34 end.
Definition esc_denotes (e : esc) : N :=
  match e with EscN => 10 | EscT => 9 | EscR => 13 | Esc0 => 0 | EscBackslash => 92 | EscQuote => 34 end.

(* what stands between the quotes of a char-list literal *)
Inductive citem : Type :=
| CRaw (c : N)               (* an ordinary character *)
| CEsc (e : esc)             (* backslash + letter *)
| CUni (hex : list N).       (* \u{hex} *)

Definition render_citem (i : citem) : list N :=
  match i with
  | CRaw c => [c]
  | CEsc e => [92; esc_letter e]
  | CUni hex => 92 :: 117 :: 123 :: hex ++ [125]
  end.
Definition denote_citem (i : citem) : N :=
  match i with
  | CRaw c => c
  | CEsc e => esc_denotes e
  | CUni hex => radix_value 16 hex
  end.

Definition is_scalar (v : N) : bool := (v <? 55296) || ((57344 <=? v) && (v <=? 1114111)).

(* q = number of quotes on each side.  A raw backslash starts an escape; in the
   single-quote form raw newlines and tabs are layout, not content (the
   implementation's tests pin this), so they are not items there. *)
Definition wf_citem (q : N) (i : citem) : bool :=
  match i with
  | CRaw c => negb (c =? 92) && negb ((q <=? 1) && ((c =? 10) || (c =? 9)))
  | CEsc _ => true
  | CUni hex => valid_digits 16 hex && is_scalar (radix_value 16 hex)
  end.
(* the text between the quotes must not itself begin with a quote (it would
   belong to the opening run) *)
Definition body_ok (quote : N) (body : list N) : bool :=
  match body with c :: _ => negb (c =? quote) | [] => true end.

Definition render_citems (l : list citem) : list N := flat_map render_citem l.
Definition denote_citems (l : list citem) : list N := map denote_citem l.
Definition quotes (c : N) (q : N) : list N := repeat c (N.to_nat q).
Definition char_list_literal (q : N) (l : list citem) : list N :=
  quotes 34 q ++ render_citems l ++ quotes 34 q.

(* the spelling of a string: escapes for the control characters that have one
   and for the backslash, \u{22} for the double quote (the lexer ends a literal
   at a quote run without looking at backslashes), every other character as
   itself *)
Definition citem_of_char (c : N) : citem :=
  if c =? 10 then CEsc EscN
  else if c =? 9 then CEsc EscT
  else if c =? 13 then CEsc EscR
  else if c =? 0 then CEsc Esc0
  else if c =? 92 then CEsc EscBackslash
  else if c =? 34 then CUni [50; 50]
  else CRaw c.
Definition spell_string (q : N) (s : list N) : list N := char_list_literal q (map citem_of_char s).

(* ---- byte lists ---- *)
Inductive besc : Type := BEscN | BEscT | BEscR | BEsc0 | BEscBackslash | BEscApos.
Definition besc_letter (e : besc) : N :=
  match e with BEscN => 110 | BEscT => 116 | BEscR => 114 | BEsc0 => 48 | BEscBackslash => 92 | BEscApos => 39 end.
Definition besc_denotes (e : besc) : N :=
  match e with BEscN => 10 | BEscT => 9 | BEscR => 13 | BEsc0 => 0 | BEscBackslash => 92 | BEscApos => 39 end.
Inductive bitem : Type := BRaw (c : N) | BEsc (e : besc).
Definition render_bitem (i : bitem) : list N :=
  match i with BRaw c => [c] | BEsc e => [92; besc_letter e] end.
(* a character stands for the byte with its code (Latin-1); code points above
   255 keep their low byte, as `c as u8` does *)
Definition denote_bitem (i : bitem) : N :=
  match i with BRaw c => c mod 256 | BEsc e => besc_denotes e end.
Definition wf_bitem (i : bitem) : bool := match i with BRaw c => negb (c =? 92) | BEsc _ => true end.
Definition render_bitems (l : list bitem) : list N := flat_map render_bitem l.
Definition denote_bitems (l : list bitem) : list N := map denote_bitem l.
Definition byte_text_literal (l : list bitem) : list N := 39 :: render_bitems l ++ [39].

Definition bitem_of_byte (b : N) : bitem :=
  if b =? 10 then BEsc BEscN
  else if b =? 9 then BEsc BEscT
  else if b =? 13 then BEsc BEscR
  else if b =? 0 then BEsc BEsc0
  else if b =? 92 then BEsc BEscBackslash
  else if b =? 39 then BEsc BEscApos
  else BRaw b.
(* text form: one quote each side *)
Definition spell_bytes_text (bs : list N) : list N := byte_text_literal (map bitem_of_byte bs).

(* numeric form: q >= 2 quotes each side, decimal numbers separated by one space *)
Definition spell_byte_numbers (bs : list N) : list N :=
  match bs with
  | [] => []
  | b :: r => dec_string b ++ flat_map (fun x => 32 :: dec_string x) r
  end.
Definition spell_bytes (q : N) (bs : list N) : list N :=
  quotes 39 q ++ spell_byte_numbers bs ++ quotes 39 q.
