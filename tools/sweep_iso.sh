#!/bin/sh
# seed sweep in the isolated snapshot /tmp/verif_iso_s (checks /tmp/iso_repo_s): ISO_TAG=_s tools/iso_setup.sh first
cd /tmp/verif_iso_s
for seed in ${SWEEP_SEEDS:-31 32 33 34 35 36}; do
  for p in C01 C02 C03 C04 C05 C06 C07 C08 C09 C10 C11 C12 C13 C14 C15 C16 C17 C18 C19 C20; do
    out=$(VERIF_SEED=$seed timeout 2400 python3 tools/vp.py check $p 2>&1 | grep -E "^(OK|VIOLATION)" | cut -c1-150)
    echo "seed=$seed $p $out" >> /verif/build/sweeps/sweep_iso.log
    if echo "$out" | grep -q VIOLATION; then
      f=$(echo "$out" | sed 's/.*replay=\([^ ]*\).*/\1/'); cp "$f" /verif/build/sweeps/isoviol_${p}_${seed}.json 2>/dev/null
    fi
  done
done
echo done >> /verif/build/sweeps/sweep_iso.log
