(* (d), second half, generic part, variant of Proofs.C13.LexMaxGen3 in which the invariant may
   also depend on [start_quote_count], [end_quote_count] (both reset to 0 whenever a token ends)
   and on [at_end] (needed for the quoted literals: the end-of-input flush moves an opening
   quote run into the body state without appending a character; that state is never left):
   from a state invariant [Inv] that depends only on (current_characters, current_token_type,
   state, could_be_sub_expression, start_quote_count, end_quote_count, at_end) and a per-arm
   fact about the token an arm closes ([TM ty text next]) to a statement about every token of
   a successful [lex]. *)
From Coq Require Import NArith List Bool Lia.
From GV Require Import Base.Result Gen.TokenTypes Gen.Tokens Model.Lexer Spec.LexSpec
  Proofs.C13.LexBase Proofs.C13.LexInv Proofs.C13.LexRun Proofs.C13.LexOp.
Import ListNotations.
Local Open Scope N_scope.

(* ================================================================ Part 1 *)
Section GenericQ.
  Variables uni_numeric uni_alnum : N -> bool.
  Notation start_token := (start_token uni_numeric uni_alnum).
  Notation run_arm := (run_arm uni_numeric uni_alnum).
  Notation process_char := (process_char uni_numeric uni_alnum).
  Notation start_new_tail := (start_new_tail uni_numeric uni_alnum).
  Notation internal_next_loop := (internal_next_loop uni_numeric uni_alnum).
  Notation lex_loop := (lex_loop uni_numeric uni_alnum).
  Notation lex := (lex uni_numeric uni_alnum).

  Variable Inv : lexer -> Prop.
  Variable TM : option token_type -> list N -> option N -> Prop.

  (* the next character seen by a token closed while [c] is processed *)
  Definition nx_ok (c : N) (nx : option N) : Prop := nx = None \/ (nx = Some c /\ c <> 0).

  Definition arm_max (l : lexer) (c : N) (ar : arm_result) : Prop :=
    match ar with
    | ArmPanic _ | Early _ => True
    | Arm l1 nt true =>
      (should_create l1 = true -> forall nx, nx_ok c nx -> TM (cur_ty l1) (cur l1) nx) /\
      (should_create l1 = false -> forall nx, TM (cur_ty l1) (cur l1) nx)
    | Arm l1 nt false =>
      result l1 = None ->
      Inv l1 /\ (forall t, nt = Some t -> exists x, hd_error (cur l1) = Some x /\ TM (Some (tok_type t)) (tok_text t) (Some x))
    end.

  Hypothesis Inv_ext : forall l l', cur l = cur l' -> cur_ty l = cur_ty l' -> st l = st l' ->
    could_sub l = could_sub l' -> sqc l = sqc l' -> eqc l = eqc l' -> at_end l = at_end l' -> Inv l -> Inv l'.
  Hypothesis Inv_at_end : forall l, Inv l -> Inv (set_at_end l true).
  Hypothesis Inv_idle : forall l, cur l = [] -> cur_ty l = None -> st l = SNoToken -> could_sub l = false ->
    sqc l = 0 -> eqc l = 0 -> Inv l.
  Hypothesis Inv_start : forall l c, could_sub l = false -> eqc l = 0 -> result (start_token l c) = None -> Inv (start_token l c).

  Lemma advance_cs : forall l c, could_sub (advance l c) = could_sub l.
  Proof. intros l c. unfold advance. destruct (negb (c =? ch_lf)); [reflexivity|]. destruct (st l); reflexivity. Qed.
  Lemma advance_sq : forall l c, sqc (advance l c) = sqc l.
  Proof. intros l c. unfold advance. destruct (negb (c =? ch_lf)); [reflexivity|]. destruct (st l); reflexivity. Qed.
  Lemma advance_eq : forall l c, eqc (advance l c) = eqc l.
  Proof. intros l c. unfold advance. destruct (negb (c =? ch_lf)); [reflexivity|]. destruct (st l); reflexivity. Qed.
  (* [at_end] is only set for the end-of-input flush, whose character is NUL *)
  Hypothesis Inv_arm : forall l c, WF l -> Inv l -> result l = None -> (at_end l = true -> c = 0) ->
    arm_max l c (run_arm l c).

  Lemma start_token_nul_real : forall l, at_end l = false -> result (start_token l 0) <> None.
  Proof.
    intros l H. unfold start_token. cbn [cur set_cur set_cur_ty set_start_row set_start_col].
    replace (current_operator [0]) with (@None (option token_type)) by (vm_compute; reflexivity).
    cbn. rewrite H. cbn. discriminate.
  Qed.

  Lemma tail_max : forall l1 c, result l1 = None -> st l1 <> SNoToken ->
    match start_new_tail l1 None c with
    | TailEarly l2 => result l2 <> None
    | Tail l2 nt2 =>
      result l2 = None ->
      Inv l2 /\
      (forall t, nt2 = Some t -> cur_ty l1 = Some (tok_type t) /\ tok_text t = cur l1) /\
      (should_create l1 = true -> l2 = start_token (reset_state (set_result (set_can_float l1 (negb (blocks_float (cur_ty l1)))) None)) c) /\
      (should_create l1 = false -> cur l2 = [])
    end.
  Proof.
    intros l1 c Hres Hst.
    unfold start_new_tail. cbn [st set_can_float].
    rewrite (lstate_eqb_notoken _ Hst). cbn [negb].
    set (l1' := set_can_float l1 (negb (blocks_float (cur_ty l1)))).
    destruct (can_create_valid_token l1') as [e|] eqn:Ecc.
    - cbn [result set_result].
      fold (reset_state (set_result l1' (Some e))).
      destruct (should_create (reset_state (set_result l1' (Some e)))).
      + intros Hr. destruct (start_token_frame uni_numeric uni_alnum (reset_state (set_result l1' (Some e))) c) as (_ & _ & _ & E2).
        apply E2 in Hr. discriminate.
      + cbn. discriminate.
    - cbn [result set_result cur_ty].
      destruct (cur_ty l1') as [ty|] eqn:Ety; [|cbn; discriminate].
      fold (reset_state (set_result l1' None)).
      set (l3 := reset_state (set_result l1' None)).
      assert (Hsc3 : should_create l3 = should_create l1) by reflexivity.
      rewrite Hsc3. destruct (should_create l1) eqn:Hsc.
      + intros Hr. split; [apply Inv_start; [reflexivity | reflexivity | exact Hr]|]. split; [|split; [reflexivity | discriminate]].
        intros t Ht. inversion Ht; subst. cbn. split; [exact Ety | reflexivity].
      + intros _. split; [apply Inv_idle; reflexivity|]. split; [|split; [discriminate | reflexivity]].
        intros t Ht. inversion Ht; subst. cbn. split; [exact Ety | reflexivity].
  Qed.

  Lemma process_char_max : forall l c l' ot, WF l -> Inv l -> result l = None -> (at_end l = true -> c = 0) ->
    process_char l c = Ok (l', ot) -> result l' = None ->
    Inv l' /\
    (forall t, ot = Some t ->
       (sentinel l c -> TM (Some (tok_type t)) (tok_text t) None) /\
       (~ sentinel l c -> (exists x, hd_error (cur l') = Some x /\ TM (Some (tok_type t)) (tok_text t) (Some x)) \/
                          (cur l' = [] /\ forall nx, TM (Some (tok_type t)) (tok_text t) nx))).
  Proof.
    intros l c l' ot Hwf Hinv Hres Hflush Hpc Hr'.
    pose proof (Inv_arm l c Hwf Hinv Hres Hflush) as Hm.
    unfold process_char in Hpc.
    destruct (run_arm l c) as [l1 nt sn | l1 | site] eqn:Harm; cbn [arm_max] in Hm.
    - destruct sn.
      + assert (Hfacts : result l1 = None /\ nt = None /\ st l1 <> SNoToken /\ at_end l1 = at_end l).
        { destruct (classic_sentinel l c) as [Hs|Hs].
          - destruct Hs as [-> Hae]. pose proof (run_arm_flush uni_numeric uni_alnum l Hwf Hres Hae) as Hf.
            rewrite Harm in Hf. cbn in Hf. destruct Hf as (A & B & C & D & _). repeat split; auto. congruence.
          - pose proof (run_arm_real uni_numeric uni_alnum l c Hwf Hres Hs) as Hf.
            rewrite Harm in Hf. cbn in Hf. destruct Hf as (A & B & C & D & _). repeat split; auto. }
        destruct Hfacts as (Hr1 & Hnt & Hst1 & Hae1). subst nt.
        pose proof (tail_max l1 c Hr1 Hst1) as Ht.
        destruct (start_new_tail l1 None c) as [l2 nt2 | l2]; [|inversion Hpc; subst; congruence].
        inversion Hpc; subst l' ot. clear Hpc.
        destruct (advance_frame l2 c) as (Ec & Es & Er & Eae & _ & Ety & _). rewrite Er in Hr'.
        destruct (Ht Hr') as (Hinv2 & Htok & Hl2 & Hl2f). split.
        * eapply Inv_ext; [| | | | | | |exact Hinv2]; try congruence; symmetry;
            [apply advance_cs | apply advance_sq | apply advance_eq].
        * intros t Ht'. destruct (Htok t Ht') as [Hty Htxt]. rewrite <- Hty, Htxt. rewrite Ec.
          destruct Hm as [Hmt Hmf]. destruct (should_create l1) eqn:Hsc.
          -- specialize (Hmt eq_refl). split.
             ++ intros _. apply Hmt. left. reflexivity.
             ++ intros Hs. left.
                set (l3 := reset_state (set_result (set_can_float l1 (negb (blocks_float (cur_ty l1)))) None)) in *.
                assert (Hs3 : ~ sentinel l3 c).
                { intros [A B]. apply Hs. split; [exact A|]. cbn in B. congruence. }
                rewrite (Hl2 eq_refl) in Hr'.
                destruct (start_token_real uni_numeric uni_alnum _ c Hs3 Hr') as [Hc _].
                rewrite (Hl2 eq_refl), Hc. exists c. split; [reflexivity|]. apply Hmt. right. split; [reflexivity|].
                intros ->. apply (start_token_nul_real l3); [|exact Hr'].
                destruct (at_end l) eqn:Hae; [exfalso; apply Hs; split; auto|]. cbn. congruence.
          -- specialize (Hmf eq_refl). split; [intros _; apply Hmf|].
             intros _. right. split; [apply Hl2f; reflexivity | exact Hmf].
      + inversion Hpc; subst l' ot. clear Hpc.
        destruct (advance_frame l1 c) as (Ec & Es & Er & Eae & _ & Ety & _). rewrite Er in Hr'.
        destruct (Hm Hr') as [Hinv1 Htok]. split.
        * eapply Inv_ext; [| | | | | | |exact Hinv1]; try congruence; symmetry;
            [apply advance_cs | apply advance_sq | apply advance_eq].
        * intros t Ht. subst nt. rewrite Ec. split.
          -- intros [-> Hae]. exfalso.
             pose proof (run_arm_flush uni_numeric uni_alnum l Hwf Hres Hae) as Hf.
             rewrite Harm in Hf. cbn in Hf. destruct Hf as [_ Hf]. destruct (Hf Hr') as [Hf' _]. discriminate.
          -- intros _. left. apply Htok. reflexivity.
    - inversion Hpc; subst. clear Hpc.
      exfalso. destruct (classic_sentinel l c) as [Hs|Hs].
      + destruct Hs as [-> Hae]. pose proof (run_arm_flush uni_numeric uni_alnum l Hwf Hres Hae) as Hf.
        rewrite Harm in Hf. cbn in Hf. destruct Hf. congruence.
      + pose proof (run_arm_real uni_numeric uni_alnum l c Hwf Hres Hs) as Hf.
        rewrite Harm in Hf. cbn in Hf. destruct Hf. congruence.
    - discriminate.
  Qed.

  (* ------------------------------------------------------------ the whole run *)
  Definition tokmax (t : token) (rest : list N) : Prop :=
    TM (Some (tok_type t)) (tok_text t) (hd_error rest).

  Lemma hd_error_app_ne : forall (a b : list N), a <> [] -> hd_error (a ++ b) = hd_error a.
  Proof. intros [|x a] b H; [congruence | reflexivity]. Qed.

  Lemma internal_next_loop_max : forall s l l' s' ot, WF l -> Inv l -> result l = None -> at_end l = false ->
    internal_next_loop l s = Ok (l', s', ot) -> result l' = None ->
    (at_end l' = false -> Inv l') /\
    match ot with
    | Some t => tokmax t (cur l' ++ s')
    | None => True
    end.
  Proof.
    induction s as [|c rest IH]; intros l l' s' ot Hwf Hinv Hres Hae Hrun Hr'.
    - cbn [internal_next_loop] in Hrun.
      assert (Hwf0 : WF (set_at_end l true)) by (apply WF_set_at_end; exact Hwf).
      assert (Hinv0 : Inv (set_at_end l true)) by (apply Inv_at_end; exact Hinv).
      destruct (process_char_flush uni_numeric uni_alnum (set_at_end l true) Hwf0 Hres eq_refl)
        as (l1 & ot1 & Hpc & Hae1 & Hspec).
      change ch_nul with 0 in Hrun. rewrite Hpc in Hrun. destruct ot1 as [t|].
      + inversion Hrun; subst l' s' ot. split; [intros; congruence|].
        destruct (Hspec Hr') as (_ & _ & Hc & _).
        destruct (process_char_max (set_at_end l true) 0 l1 (Some t) Hwf0 Hinv0 Hres (fun _ => eq_refl) Hpc Hr') as [_ Htok].
        destruct (Htok t eq_refl) as [Hsent _].
        unfold tokmax. rewrite Hc. cbn. apply Hsent. split; reflexivity.
      + inversion Hrun; subst s' ot. split; [|exact I].
        intros Hf. exfalso. revert Hf.
        destruct ((0 <? byte_len (cur l1)) && negb (is_err (result l1))); cbn; congruence.
    - cbn [internal_next_loop] in Hrun.
      assert (Hs : ~ sentinel l c) by (intros [_ H]; congruence).
      destruct (process_char_real uni_numeric uni_alnum l c Hwf Hres Hs) as (l1 & ot1 & Hpc & Hae1 & Hspec).
      rewrite Hpc in Hrun. destruct ot1 as [t|].
      + inversion Hrun; subst l' s' ot.
        destruct (process_char_max l c l1 (Some t) Hwf Hinv Hres ltac:(intros Hx; congruence) Hpc Hr') as [Hw Htok].
        split; [intros _; exact Hw|].
        destruct (Htok t eq_refl) as [_ Hreal]. unfold tokmax.
        destruct (Hreal Hs) as [(x & Hx & H)|[Hc H]].
        * destruct (cur l1) as [|y cl] eqn:Ec; [discriminate|].
          cbn [hd_error app] in *. inversion Hx; subst. exact H.
        * apply H.
      + destruct (result l1) eqn:Hr1; cbn [is_err] in Hrun.
        * inversion Hrun; subst. congruence.
        * destruct (Hspec eq_refl) as (Hwf1 & _ & _).
          destruct (process_char_max l c l1 None Hwf Hinv Hres ltac:(intros Hx; congruence) Hpc Hr1) as [Hw _].
          eapply (IH l1); eauto; congruence.
  Qed.

  Fixpoint max_toks (ts : list token) : Prop :=
    match ts with
    | [] => True
    | t :: r => tokmax t (texts r) /\ max_toks r
    end.

  Lemma lex_loop_max : forall fuel s l acc ts, WF l -> Inv l -> result l = None -> at_end l = false ->
    lex_loop fuel l s acc = LOk ts ->
    exists post, ts = acc ++ post /\ texts post = cur l ++ s /\ max_toks post.
  Proof.
    induction fuel as [|f IH]; intros s l acc ts Hwf Hinv Hres Hae Hrun; [discriminate|].
    cbn [Lexer.lex_loop] in Hrun. unfold internal_next in Hrun. rewrite Hres in Hrun. cbn [is_err] in Hrun.
    destruct (internal_next_loop_spec uni_numeric uni_alnum s l Hwf Hres Hae) as (l1 & s1 & ot & Hnext & Hlen & Hok).
    rewrite Hnext in Hrun. destruct ot as [t|].
    - destruct (result l1) eqn:Hr1; [discriminate|].
      destruct (Hok eq_refl) as (Hne & Hcat & Hwf1 & Hcase).
      destruct (internal_next_loop_max s l l1 s1 (Some t) Hwf Hinv Hres Hae Hnext Hr1) as [Hw1 Hcut].
      destruct Hcase as [[Hae1 _]|(Hae1 & Hs1 & Hst1 & Hc1)].
      + destruct (IH s1 l1 (acc ++ [t]) ts Hwf1 (Hw1 Hae1) Hr1 Hae1 Hrun) as (post1 & E1 & E2 & E3).
        exists (t :: post1). split; [rewrite E1, <- app_assoc; reflexivity|].
        split.
        * change (t :: post1) with ([t] ++ post1). rewrite texts_app, texts_single, E2. exact Hcat.
        * cbn [max_toks]. split; [rewrite E2; exact Hcut | exact E3].
      + subst s1. destruct f as [|f']; [discriminate|].
        rewrite (lex_loop_after_flush uni_numeric uni_alnum f' l1 (acc ++ [t]) Hwf1 Hr1 Hae1 Hst1) in Hrun.
        inversion Hrun; subst ts. exists [t]. split; [reflexivity|].
        rewrite Hc1, !app_nil_r in Hcat, Hcut. split; [rewrite texts_single; exact Hcat|].
        cbn [max_toks]. split; [exact Hcut | exact I].
    - destruct (result l1) eqn:Hr1; [discriminate|]. inversion Hrun; subst ts.
      exists []. rewrite app_nil_r. split; [reflexivity|]. split; [|exact I].
      symmetry. exact (Hok eq_refl).
  Qed.

  Lemma max_toks_split : forall pre t post, max_toks (pre ++ t :: post) -> tokmax t (texts post).
  Proof.
    induction pre as [|x pre IH]; intros t post H; cbn [app max_toks] in H.
    - exact (proj1 H).
    - apply IH. exact (proj2 H).
  Qed.

  Theorem lex_tokens_max : forall s ts,
    lex s = Ok ts ->
    forall pre t post, ts = pre ++ t :: post ->
      TM (Some (tok_type t)) (tok_text t) (hd_error (texts post)).
  Proof.
    intros s ts H. unfold Lexer.lex in H.
    destruct (lex_run uni_numeric uni_alnum s) as [ts'| | |] eqn:Hrun; try discriminate.
    inversion H; subst ts'. unfold lex_run in Hrun.
    assert (Hinit : Inv init_lexer) by (apply Inv_idle; reflexivity).
    destruct (lex_loop_max _ s init_lexer [] ts WF_init Hinit eq_refl eq_refl Hrun) as (post & E1 & _ & E3).
    cbn [app] in E1. subst post.
    intros pre t post E. subst ts. exact (max_toks_split pre t post E3).
  Qed.
End GenericQ.
