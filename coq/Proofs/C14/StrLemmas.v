(* List / string lemmas for the literal model. *)
From Coq Require Import ZArith NArith List Bool Lia.
From GV Require Import Base.Result Model.Literals Spec.LitDenote.
Import ListNotations.
Local Open Scope N_scope.

Lemma utf8_len_pos : forall c, 1 <= utf8_len c.
Proof.
  intros c. unfold utf8_len.
  destruct (c <? 128); [lia|]. destruct (c <? 2048); [lia|]. destruct (c <? 65536); lia.
Qed.

Lemma utf8_len_ascii : forall c, c < 128 -> utf8_len c = 1.
Proof. intros c H. unfold utf8_len. apply N.ltb_lt in H. rewrite H. reflexivity. Qed.

Lemma str_len_app : forall a b, str_len (a ++ b) = str_len a + str_len b.
Proof. induction a as [|c a IH]; intros b; cbn [str_len app]; [reflexivity|]. rewrite IH. lia. Qed.

Lemma str_len_repeat_ascii : forall c n, c < 128 -> str_len (repeat c n) = N.of_nat n.
Proof.
  intros c n Hc. induction n as [|n IH]; [reflexivity|].
  cbn [repeat str_len]. rewrite IH, (utf8_len_ascii c Hc). lia.
Qed.

Lemma str_len_ascii : forall s, Forall (fun c => c < 128) s -> str_len s = N.of_nat (length s).
Proof.
  induction s as [|c s IH]; intros H; [reflexivity|].
  inversion H as [|? ? Hc Hs]; subst. cbn [str_len length]. rewrite (IH Hs), (utf8_len_ascii c Hc). lia.
Qed.

Lemma str_len_nonempty : forall c s, 1 <= str_len (c :: s).
Proof. intros c s. cbn [str_len]. pose proof (utf8_len_pos c). lia. Qed.

(* ---- split_at_first ---- *)
Lemma split_at_first_app : forall x a b,
  forallb (fun c => negb (c =? x)) a = true -> split_at_first x (a ++ x :: b) = Some (a, b).
Proof.
  intros x a b. induction a as [|c a IH]; intros H; cbn [app split_at_first].
  - rewrite N.eqb_refl. reflexivity.
  - cbn [forallb] in H. apply andb_true_iff in H as [Hc Ha]. apply negb_true_iff in Hc. rewrite Hc.
    rewrite (IH Ha). reflexivity.
Qed.

Lemma split_at_first_none : forall x s,
  forallb (fun c => negb (c =? x)) s = true -> split_at_first x s = None.
Proof.
  intros x s. induction s as [|c s IH]; intros H; cbn [split_at_first]; [reflexivity|].
  cbn [forallb] in H. apply andb_true_iff in H as [Hc Hs]. apply negb_true_iff in Hc. rewrite Hc, (IH Hs). reflexivity.
Qed.

(* whatever the split, a first character that is not the separator is the first character of the prefix *)
Lemma split_at_first_head : forall x c t a b,
  (c =? x) = false -> split_at_first x (c :: t) = Some (a, b) -> exists a', a = c :: a'.
Proof.
  intros x c t a b Hc H. cbn [split_at_first] in H. rewrite Hc in H.
  destruct (split_at_first x t) as [[a0 b0]|]; [|discriminate]. inversion H; subst. eexists; reflexivity.
Qed.

(* ---- remove_char / strip_seps ---- *)
Lemma remove_char_filter : forall x s, remove_char x s = filter (fun c => negb (c =? x)) s.
Proof.
  intros x s. induction s as [|c s IH]; [reflexivity|]. cbn [remove_char filter].
  destruct (c =? x); cbn [negb]; rewrite IH; reflexivity.
Qed.

Lemma remove_us_strip : forall s, remove_char ch_us s = strip_seps s.
Proof. intros s. apply remove_char_filter. Qed.

Lemma filter_id : forall (f : N -> bool) s, forallb f s = true -> filter f s = s.
Proof.
  intros f s. induction s as [|c s IH]; intros H; [reflexivity|].
  cbn [forallb] in H. apply andb_true_iff in H as [Hc Hs]. cbn [filter]. rewrite Hc, (IH Hs). reflexivity.
Qed.

(* ---- count_leading ---- *)
Lemma count_leading_repeat : forall q n rest,
  (match rest with c :: _ => negb (c =? q) | [] => true end) = true ->
  count_leading q (repeat q n ++ rest) = N.of_nat n.
Proof.
  intros q n rest Hr. induction n as [|n IH].
  - cbn [repeat app]. destruct rest as [|c r]; [reflexivity|]. cbn [count_leading].
    apply negb_true_iff in Hr. rewrite Hr. reflexivity.
  - cbn [repeat app count_leading]. rewrite N.eqb_refl, IH. lia.
Qed.

Lemma count_leading_all : forall q n, count_leading q (repeat q n) = N.of_nat n.
Proof.
  intros q n. induction n as [|n IH]; [reflexivity|].
  cbn [repeat count_leading]. rewrite N.eqb_refl, IH. lia.
Qed.

(* ---- take / skip ---- *)
Lemma skip_take_middle : forall (a b c : str),
  take_chars (N.of_nat (length b)) (skip_chars (N.of_nat (length a)) (a ++ b ++ c)) = b.
Proof.
  intros a b c. unfold take_chars, skip_chars. rewrite !Nat2N.id.
  rewrite skipn_app, skipn_all, Nat.sub_diag. cbn [skipn app].
  rewrite firstn_app, firstn_all, Nat.sub_diag. cbn [firstn]. apply app_nil_r.
Qed.

(* ---- byte slicing ---- *)
Lemma drop_bytes_app : forall a t, drop_bytes (a ++ t) (str_len a) = Some t.
Proof.
  induction a as [|c a IH]; intros t.
  - cbn [app str_len]. destruct t; reflexivity.
  - cbn [app str_len drop_bytes]. pose proof (utf8_len_pos c) as Hp.
    replace (utf8_len c + str_len a =? 0) with false by (symmetry; apply N.eqb_neq; lia).
    replace (utf8_len c <=? utf8_len c + str_len a) with true by (symmetry; apply N.leb_le; lia).
    replace (utf8_len c + str_len a - utf8_len c) with (str_len a) by lia. apply IH.
Qed.

Lemma take_bytes_app : forall a t, take_bytes (a ++ t) (str_len a) = Some a.
Proof.
  induction a as [|c a IH]; intros t.
  - cbn [app str_len]. destruct t; reflexivity.
  - cbn [app str_len take_bytes]. pose proof (utf8_len_pos c) as Hp.
    replace (utf8_len c + str_len a =? 0) with false by (symmetry; apply N.eqb_neq; lia).
    replace (utf8_len c <=? utf8_len c + str_len a) with true by (symmetry; apply N.leb_le; lia).
    replace (utf8_len c + str_len a - utf8_len c) with (str_len a) by lia. rewrite IH. reflexivity.
Qed.

Lemma slice_bytes_middle : forall a b c,
  slice_bytes (a ++ b ++ c) (str_len a) (str_len a + str_len b) = Ok b.
Proof.
  intros a b c. unfold slice_bytes.
  replace (str_len a + str_len b <? str_len a) with false by (symmetry; apply N.ltb_ge; lia).
  rewrite drop_bytes_app. replace (str_len a + str_len b - str_len a) with (str_len b) by lia.
  rewrite take_bytes_app. reflexivity.
Qed.
