(* C01 end to end on the operator fragment: the builder model succeeds on the
   parsed printed tokens (BuildOk.v: wherever the tree compiler succeeds, so does
   the worklist model of build()), hence produces the AST compiler's program
   (WlAgrees.v), hence -- with the forward simulation of Proofs/C01 -- the program
   the PARSER and BUILDER models make of the printed text computes what the
   reference evaluator says.  No bound on the size of the program. *)
From Coq Require Import ZArith NArith List Bool Arith Lia.
From GV Require Import Base.Result Base.Host Gen.Instr Model.Num Model.Value
  Model.Parser Model.BuilderWL Model.Machine Model.Compile Model.CompileExpr Model.CompileWL
  Spec.Ast Spec.Printer Spec.Eval Spec.Fragment
  Proofs.C01.MachineFacts Proofs.C01.Stages Proofs.C01.Main Proofs.C01.StageThms
  Proofs.C01.EndToEnd.CompileBase Proofs.C01.EndToEnd.WlAgrees Proofs.C01.EndToEnd.BuildOk
  Proofs.C01.EndToEnd.Facts.
Import ListNotations.

Theorem wl_agrees_fragment_proof : forall sym_hash e,
  frag_e2e e = true -> printable e = true ->
  wl_program sym_hash e = Ok (compile_prog sym_hash e, 0).
Proof.
  intros sym_hash e F P. apply (wl_agrees_if_build_ok sym_hash e F P).
  intros ns root t c0 _ Ht Hl Hc. exact (build_ok ns empty_init lit_all root t c0 Ht Hl Hc).
Qed.

Theorem full_fragment_proof : forall sym_hash hstate host, declines_defer hstate host ->
  forall e vin h n v h' t,
  frag_e2e e = true ->
  printable e = true -> known_K1 e = false -> known_K2 e = false -> labels_ok e = true ->
  eval_prog sym_hash hstate host n e vin h = ODone v (h', t) ->
  reaches_built sym_hash hstate host e vin h v h' t.
Proof.
  intros sym_hash hstate host Hd e vin h n v h' t F P K1 K2 L E.
  eapply all_programs_built; eauto. apply wl_agrees_fragment_proof; assumption.
Qed.

(* on the fragment the K2 class is vacuous *)
Theorem full_fragment_plain_proof : forall sym_hash hstate host, declines_defer hstate host ->
  forall e vin h n v h' t,
  frag_e2e e = true -> printable e = true -> known_K1 e = false -> labels_ok e = true ->
  eval_prog sym_hash hstate host n e vin h = ODone v (h', t) ->
  reaches_built sym_hash hstate host e vin h v h' t.
Proof.
  intros sym_hash hstate host Hd e vin h n v h' t F P K1 L E.
  eapply full_fragment_proof; eauto. apply (frag_no_K2 LV). exact F.
Qed.

(* ... and without nested expressions (levels 0-3) so is the label condition *)
Theorem full_fragment_operators_proof : forall sym_hash hstate host, declines_defer hstate host ->
  forall e vin h n v h' t,
  efrag 3 e = true -> printable e = true -> known_K1 e = false ->
  eval_prog sym_hash hstate host n e vin h = ODone v (h', t) ->
  reaches_built sym_hash hstate host e vin h v h' t.
Proof.
  intros sym_hash hstate host Hd e vin h n v h' t F P K1 E.
  eapply full_fragment_plain_proof; eauto; [apply (efrag_mono 3 LV); [unfold LV; lia|exact F]|apply frag3_labels_ok; exact F].
Qed.
