(* (b) continued: every kind of loop iteration that occurs in an operator expression --
   whitespace, value and prefix operator and opening bracket (each with and without the
   implicit list), suffix operator, closing bracket -- unfolded from Model.Parser.step;
   finite facts about suffix / prefix operator tokens and the list definition. *)
From Coq Require Import List Arith Bool NArith Lia.
From GV Require Import Base.Result Gen.TokenTypes Gen.Defs Model.Parser Spec.RefTable Spec.Pratt Spec.Chains
  Proofs.C02.Denote Proofs.C02.Invariant Proofs.C02.Steps Proofs.C02.Struct.
Import ListNotations.

Lemma forbidden_ws p c : forbidden p S_Whitespace c = false.
Proof. destruct p; reflexivity. Qed.

(* ---- whitespace ---- *)
Lemma step_ws_unfold ntoks i st ug :
  under_group_of st = Ok ug -> adj_ok (nodes st) (last_left st) ->
  step ntoks i TT_Whitespace st =
    do cfl <- space_list_check st ug;
    Ok (mkState (nodes st) (next_parent st)
                (match last_left st with
                 | Some k => Some k
                 | None => match nodes st with [] => None | _ :: _ => Some (length (nodes st)) end
                 end)
                cfl (Some i) None (group_stack st) (current_group st) S_Whitespace (prev_sig st) true (se_prev st)).
Proof.
  intros Hug Hadj.
  destruct st as [ns np ll cfl lt nll gs cg ps psig sep sep_prev]. unfold under_group_of in Hug. fields_in_all.
  unfold step. fields. rewrite Hug. cbn [bind]. rewrite (adj_simpl ns ll ug ps psig Hadj). fields.
  cbn [get_definition]. fields. rewrite forbidden_ws. cbn [negb andb]. fields.
  destruct (space_list_check _ ug) as [c| | |]; cbn [bind]; reflexivity.
Qed.

(* ---- suffix operator ---- *)
Lemma step_suffix_unfold ntoks i tok st ug d :
  get_definition tok = (d, S_UnarySuffix) ->
  definition_eqb d D_Drop = false -> definition_eqb d D_Identifier = false ->
  under_group_of st = Ok ug -> next_last_left st = None -> adj_ok (nodes st) (last_left st) ->
  forbidden (prev_sec st) S_UnarySuffix (check_for_list st) = false ->
  separated st && forbidden_separated (prev_sig st) S_UnarySuffix (check_for_list st) = false ->
  step ntoks i tok st =
    do r2 <- parse_token (length (nodes st)) d (last_left st) (nodes st) ug false;
    let '(ns2, parent, tl) := r2 in
    Ok (mkState (ns2 ++ [mkNode d S_UnarySuffix parent tl None (Some i)])
                (Some (length (nodes st))) (Some (length (nodes st))) false (Some i) None
                (group_stack st) (current_group st) S_UnarySuffix S_UnarySuffix false (se_prev st)).
Proof.
  intros Hg Hdrop Hid Hug Hnll Hadj Hforb Hsep.
  destruct st as [ns np ll cfl lt nll gs cg ps psig sep sep_prev]. unfold under_group_of in Hug. fields_in_all.
  subst nll. unfold step. fields. rewrite Hug. cbn [bind]. rewrite (adj_simpl ns ll ug ps psig Hadj). fields.
  rewrite Hg. fields. rewrite Hforb. cbn [negb andb] in *. rewrite Hsep. fields.
  destruct (parse_token (length ns) d ll ns ug false) as [[[ns2 parent] tl]| | |]; cbn [bind]; try reflexivity.
  fields. rewrite Hdrop, Hid. rewrite app_last_match. reflexivity.
Qed.

(* ---- prefix operator, no list pending ---- *)
Lemma step_prefix_unfold ntoks i tok st ug d :
  get_definition tok = (d, S_UnaryPrefix) ->
  definition_eqb d D_Drop = false -> definition_eqb d D_Identifier = false ->
  under_group_of st = Ok ug -> next_last_left st = None -> check_for_list st = false ->
  adj_ok (nodes st) (last_left st) ->
  forbidden (prev_sec st) S_UnaryPrefix false = false ->
  separated st && forbidden_separated (prev_sig st) S_UnaryPrefix false = false ->
  step ntoks i tok st =
    Ok (mkState (nodes st ++ [mkNode d S_UnaryPrefix (next_parent st) None
                                (if Nat.leb ntoks (i + 1) then None else Some (length (nodes st) + 1)) (Some i)])
                (Some (length (nodes st))) (Some (length (nodes st))) false (Some i) None
                (group_stack st) (current_group st) S_UnaryPrefix S_UnaryPrefix false (se_prev st)).
Proof.
  intros Hg Hdrop Hid Hug Hnll Hcfl Hadj Hforb Hsep.
  destruct st as [ns np ll cfl lt nll gs cg ps psig sep sep_prev]. unfold under_group_of in Hug. fields_in_all.
  subst nll cfl. unfold step. fields. rewrite Hug. cbn [bind]. rewrite (adj_simpl ns ll ug ps psig Hadj). fields.
  rewrite Hg. fields. rewrite Hforb. cbn [negb andb] in *. rewrite Hsep. fields.
  rewrite Hdrop, Hid. rewrite app_last_match. reflexivity.
Qed.

(* ---- value with the implicit list pending ---- *)
Lemma step_value_list_unfold ntoks i tok st ug d sec :
  get_definition tok = (d, sec) -> is_atom_sec sec = true -> definition_eqb d D_Drop = false ->
  under_group_of st = Ok ug -> check_for_list st = true ->
  adj_ok (nodes st) (last_left st) ->
  forbidden (prev_sec st) sec true = false ->
  separated st && forbidden_separated (prev_sig st) sec true = false ->
  step ntoks i tok st =
    do ns <- make_list_node (length (nodes st)) (length (nodes st) + 1) st ug;
    do r2 <- parse_token (length (nodes st) + 1) d (Some (length (nodes st))) ns ug false;
    let '(ns2, parent, tl) := r2 in
    Ok (mkState (ns2 ++ [mkNode (atom_def d parent ns2) sec parent tl None (Some i)])
                (next_parent st) (Some (length ns)) false (Some i) None
                (group_stack st) (current_group st) sec sec false (se_prev st)).
Proof.
  intros Hg Hs Hdrop Hug Hcfl Hadj Hforb Hsep.
  destruct st as [ns np ll cfl lt nll gs cg ps psig sep sep_prev]. unfold under_group_of in Hug. fields_in_all.
  subst cfl. unfold step. fields. rewrite Hug. cbn [bind]. rewrite (adj_simpl ns ll ug ps psig Hadj). fields.
  rewrite Hg. fields. rewrite Hforb.
  destruct sec; try discriminate; cbn [negb andb] in *; rewrite Hsep; fields;
  (destruct (make_list_node _ _ _ ug) as [nsl| | |]; cbn [bind]; try reflexivity);
  (destruct (parse_token _ d _ nsl ug false) as [[[ns2 parent] tl]| | |]; cbn [bind]; try reflexivity);
  fields; rewrite Hdrop; reflexivity.
Qed.

(* ---- prefix operator with the implicit list pending ---- *)
Lemma step_prefix_list_unfold ntoks i tok st ug d :
  get_definition tok = (d, S_UnaryPrefix) ->
  definition_eqb d D_Drop = false -> definition_eqb d D_Identifier = false ->
  under_group_of st = Ok ug -> check_for_list st = true ->
  adj_ok (nodes st) (last_left st) ->
  forbidden (prev_sec st) S_UnaryPrefix true = false ->
  separated st && forbidden_separated (prev_sig st) S_UnaryPrefix true = false ->
  step ntoks i tok st =
    do ns <- make_list_node (length (nodes st)) (length (nodes st) + 1) st ug;
    Ok (mkState (ns ++ [mkNode d S_UnaryPrefix (Some (length (nodes st))) None
                          (Some (length (nodes st) + 1 + 1)) (Some i)])
                (Some (length (nodes st) + 1)) (Some (length ns)) false (Some i) None
                (group_stack st) (current_group st) S_UnaryPrefix S_UnaryPrefix false (se_prev st)).
Proof.
  intros Hg Hdrop Hid Hug Hcfl Hadj Hforb Hsep.
  destruct st as [ns np ll cfl lt nll gs cg ps psig sep sep_prev]. unfold under_group_of in Hug. fields_in_all.
  subst cfl. unfold step. fields. rewrite Hug. cbn [bind]. rewrite (adj_simpl ns ll ug ps psig Hadj). fields.
  rewrite Hg. fields. rewrite Hforb. cbn [negb andb] in *. rewrite Hsep. fields.
  destruct (make_list_node _ _ _ ug) as [nsl| | |]; cbn [bind]; try reflexivity.
  fields. rewrite Hdrop, Hid. reflexivity.
Qed.

(* ---- opening bracket, no list pending ---- *)
Lemma step_open_unfold ntoks i st ug b :
  under_group_of st = Ok ug -> next_last_left st = None -> check_for_list st = false ->
  adj_ok (nodes st) (last_left st) ->
  forbidden (prev_sec st) S_StartGrouping false = false ->
  separated st && forbidden_separated (prev_sig st) S_StartGrouping false = false ->
  step ntoks i (open_tok b) st =
    Ok (mkState (nodes st ++ [mkNode (bdef b) S_StartGrouping (next_parent st) None
                                (if Nat.leb ntoks (i + 1) then None else Some (length (nodes st) + 1)) (Some i)])
                (Some (length (nodes st))) (Some (length (nodes st))) false (Some i) None
                (group_stack st ++ [(length (nodes st), false)]) (Some (length (group_stack st)))
                S_StartGrouping S_StartGrouping false (se_prev st)).
Proof.
  intros Hug Hnll Hcfl Hadj Hforb Hsep.
  destruct st as [ns np ll cfl lt nll gs cg ps psig sep sep_prev]. unfold under_group_of in Hug. fields_in_all.
  subst nll cfl. unfold step. fields. rewrite Hug. cbn [bind]. rewrite (adj_simpl ns ll ug ps psig Hadj). fields.
  destruct b; cbn [get_definition open_tok bdef]; fields; rewrite Hforb; cbn [negb andb] in *; rewrite Hsep; fields;
  cbn [definition_eqb definition_index N.eqb Pos.eqb]; rewrite app_last_match; reflexivity.
Qed.

(* ---- opening bracket with the implicit list pending ---- *)
Lemma step_open_list_unfold ntoks i st ug b :
  under_group_of st = Ok ug -> check_for_list st = true ->
  adj_ok (nodes st) (last_left st) ->
  forbidden (prev_sec st) S_StartGrouping true = false ->
  separated st && forbidden_separated (prev_sig st) S_StartGrouping true = false ->
  step ntoks i (open_tok b) st =
    do ns <- make_list_node (length (nodes st)) (length (nodes st) + 1) st ug;
    Ok (mkState (ns ++ [mkNode (bdef b) S_StartGrouping (Some (length (nodes st))) None
                          (Some (length (nodes st) + 1 + 1)) (Some i)])
                (Some (length (nodes st) + 1)) (Some (length (nodes st) + 1)) false (Some i) None
                (group_stack st ++ [(length (nodes st) + 1, false)]) (Some (length (group_stack st)))
                S_StartGrouping S_StartGrouping false (se_prev st)).
Proof.
  intros Hug Hcfl Hadj Hforb Hsep.
  destruct st as [ns np ll cfl lt nll gs cg ps psig sep sep_prev]. unfold under_group_of in Hug. fields_in_all.
  subst cfl. unfold step. fields. rewrite Hug. cbn [bind]. rewrite (adj_simpl ns ll ug ps psig Hadj). fields.
  destruct b; cbn [get_definition open_tok bdef]; fields; rewrite Hforb; cbn [negb andb] in *; rewrite Hsep; fields;
  destruct (make_list_node _ _ _ ug) as [nsl| | |]; cbn [bind]; reflexivity.
Qed.

(* ---- closing bracket after a completed operand ---- *)
Lemma step_close_unfold ntoks i st ug b gs' g nlc sgn l ln :
  under_group_of st = Ok ug -> adj_ok (nodes st) (last_left st) ->
  forbidden (prev_sec st) S_EndGrouping (check_for_list st) = false ->
  separated st && forbidden_separated (prev_sig st) S_EndGrouping (check_for_list st) = false ->
  removelast_pair (group_stack st) = Some (gs', (g, nlc)) ->
  nth_error (nodes st) g = Some sgn -> n_def sgn = bdef b ->
  last_left st = Some l -> nth_error (nodes st) l = Some ln -> calm_def (n_def ln) = true ->
  opt_nat_eqb (n_right ln) (Some (length (nodes st))) = false ->
  step ntoks i (close_tok b) st =
    Ok (mkState (nodes st) (next_parent st) (Some g) nlc (Some i) None gs'
                (match gs' with [] => None | _ :: _ => Some (length gs' - 1) end)
                S_EndGrouping S_EndGrouping false (se_prev st)).
Proof.
  intros Hug Hadj Hforb Hsep Hrl Hsgn Hsd Hll Hln Hcalm Hright.
  destruct (calm_facts _ Hcalm) as (C1 & C2 & C3 & C4).
  destruct st as [ns np ll cfl lt nll gs cg ps psig sep sep_prev]. unfold under_group_of in Hug. fields_in_all.
  subst ll. unfold step. fields. rewrite Hug. cbn [bind].
  rewrite (adj_simpl ns (Some l) ug ps psig Hadj). fields.
  destruct b; cbn [get_definition close_tok bdef] in *; fields; rewrite Hforb; cbn [negb andb] in *; rewrite Hsep; fields;
  rewrite Hrl, Hsgn, Hsd; cbn [expected_end token_type_eqb token_type_index N.eqb Pos.eqb negb];
  rewrite Hln, Hright, C2; rewrite !andb_false_r; cbn [orb];
  rewrite (upd_id ns l (fun _ => ln) ln Hln eq_refl); rewrite C3, C4; cbn [orb andb bind];
  fields; reflexivity.
Qed.

(* ---- finite facts about suffix and prefix operator tokens and the list definition ---- *)
Definition op_def_ok (d : definition) (rtl : bool) : bool :=
  negb (definition_eqb d D_SideEffect) &&
  match priority d, ref_rank d with
  | Some my, Some p =>
    negb (walk_stop my 10 rtl) && negb (walk_stop my 20 rtl) && N.ltb p INF &&
    forallb (fun d' => implb (frameable d') (cmp_ok d my rtl d')) all_definition
  | _, _ => false
  end.

Lemma op_def_facts d rtl : op_def_ok d rtl = true -> exists my p, op_facts d rtl my p.
Proof.
  unfold op_def_ok. intros H. apply andb_true_iff in H. destruct H as [H1 H2].
  destruct (priority d) as [my|] eqn:Ep; [|discriminate H2].
  destruct (ref_rank d) as [p|] eqn:Er; [|discriminate H2].
  apply andb_true_iff in H2. destruct H2 as [H2 H4]. apply andb_true_iff in H2. destruct H2 as [H2 H3].
  apply andb_true_iff in H2. destruct H2 as [H2 H2'].
  exists my, p. constructor.
  - apply negb_true_iff. exact H1.
  - exact Ep.
  - exact Er.
  - apply negb_true_iff. exact H2.
  - apply negb_true_iff. exact H2'.
  - apply N.ltb_lt. exact H3.
  - rewrite forallb_forall in H4. intros d' Hd'. specialize (H4 d' (all_definitions_in d')).
    rewrite Hd' in H4. exact H4.
Qed.

Lemma list_def_ok : op_def_ok D_List false = true /\ frameable D_List = true.
Proof. vm_compute. split; reflexivity. Qed.

Definition suffix_tok_ok (t : token_type) : bool :=
  negb (is_suffix_tok t) ||
  (let '(d, sec) := get_definition t in
   definition_eqb d (ref_def t) && secondary_eqb sec S_UnarySuffix &&
   negb (definition_eqb d D_Drop) && negb (definition_eqb d D_Identifier) && op_def_ok d false && plain_def d &&
   match ref_rank d with Some p => N.ltb p ROUND_LIMIT | None => false end).

Lemma suffix_toks_ok : forallb suffix_tok_ok all_token_type = true.
Proof. vm_compute. reflexivity. Qed.

Lemma secondary_eqb_eq a b : secondary_eqb a b = true -> a = b.
Proof. destruct a; destruct b; intros H; try reflexivity; vm_compute in H; discriminate H. Qed.

Lemma suffix_tok_facts t : is_suffix_tok t = true ->
  get_definition t = (ref_def t, S_UnarySuffix) /\
  definition_eqb (ref_def t) D_Drop = false /\ definition_eqb (ref_def t) D_Identifier = false /\
  plain_def (ref_def t) = true /\
  exists my p, op_facts (ref_def t) false my p /\ (p < ROUND_LIMIT)%N.
Proof.
  intros Hs. pose proof suffix_toks_ok as F. rewrite forallb_forall in F.
  specialize (F t (all_tokens_in t)). unfold suffix_tok_ok in F. rewrite Hs in F.
  change (negb true || ?x) with x in F.
  destruct (get_definition t) as [d sec] eqn:Eg.
  apply andb_true_iff in F. destruct F as [F F7].
  apply andb_true_iff in F. destruct F as [F F6].
  apply andb_true_iff in F. destruct F as [F F5].
  apply andb_true_iff in F. destruct F as [F F4].
  apply andb_true_iff in F. destruct F as [F F3].
  apply andb_true_iff in F. destruct F as [F1 F2].
  apply definition_eqb_eq in F1. subst d. apply secondary_eqb_eq in F2. subst sec.
  split; [reflexivity|]. split; [apply negb_true_iff; exact F3|]. split; [apply negb_true_iff; exact F4|].
  split; [exact F6|]. destruct (op_def_facts _ _ F5) as (my & p & OF). exists my, p. split; [exact OF|].
  rewrite (of_rank _ _ _ _ OF) in F7. apply N.ltb_lt. exact F7.
Qed.

Definition prefix_tok_ok (t : token_type) : bool :=
  negb (is_prefix_tok t) ||
  (let '(d, sec) := get_definition t in
   definition_eqb d (ref_def t) && secondary_eqb sec S_UnaryPrefix &&
   negb (definition_eqb d D_Drop) && negb (definition_eqb d D_Identifier) && frameable d &&
   match ref_rank d with Some p => N.ltb p ROUND_LIMIT | None => false end).

Lemma prefix_toks_ok : forallb prefix_tok_ok all_token_type = true.
Proof. vm_compute. reflexivity. Qed.

Lemma prefix_tok_facts t : is_prefix_tok t = true ->
  get_definition t = (ref_def t, S_UnaryPrefix) /\
  definition_eqb (ref_def t) D_Drop = false /\ definition_eqb (ref_def t) D_Identifier = false /\
  frameable (ref_def t) = true /\ exists p, ref_rank (ref_def t) = Some p /\ (p < ROUND_LIMIT)%N.
Proof.
  intros Hs. pose proof prefix_toks_ok as F. rewrite forallb_forall in F.
  specialize (F t (all_tokens_in t)). unfold prefix_tok_ok in F. rewrite Hs in F.
  change (negb true || ?x) with x in F.
  destruct (get_definition t) as [d sec] eqn:Eg.
  apply andb_true_iff in F. destruct F as [F F6].
  apply andb_true_iff in F. destruct F as [F F5].
  apply andb_true_iff in F. destruct F as [F F4].
  apply andb_true_iff in F. destruct F as [F F3].
  apply andb_true_iff in F. destruct F as [F1 F2].
  apply definition_eqb_eq in F1. subst d. apply secondary_eqb_eq in F2. subst sec.
  split; [reflexivity|]. split; [apply negb_true_iff; exact F3|]. split; [apply negb_true_iff; exact F4|].
  split; [exact F5|]. destruct (ref_rank (ref_def t)) as [p|]; [|discriminate F6].
  exists p. split; [reflexivity|apply N.ltb_lt; exact F6].
Qed.

(* what an operator frame's definition is not: value-like, a group, a side effect *)
Definition frame_def_ok2 (d : definition) : bool :=
  implb (frameable d)
    (negb (is_value_like d) && negb (definition_eqb d D_Group) && negb (definition_eqb d D_NestedExpression)
     && negb (definition_eqb d D_SideEffect)).

Lemma frame_defs_ok2 : forallb frame_def_ok2 all_definition = true.
Proof. vm_compute. reflexivity. Qed.

Lemma frame_def_facts2 d : frameable d = true ->
  is_value_like d = false /\ definition_eqb d D_Group = false /\
  definition_eqb d D_NestedExpression = false /\ definition_eqb d D_SideEffect = false.
Proof.
  intros H. pose proof frame_defs_ok2 as F. rewrite forallb_forall in F. specialize (F d (all_definitions_in d)).
  unfold frame_def_ok2 in F. rewrite H in F. cbn [implb] in F.
  apply andb_true_iff in F. destruct F as [F F4]. apply andb_true_iff in F. destruct F as [F F3].
  apply andb_true_iff in F. destruct F as [F1 F2].
  repeat split; apply negb_true_iff; assumption.
Qed.

Lemma prio10_value_like d : priority d = Some 10%N -> is_value_like d = true.
Proof. destruct d; intros H; try reflexivity; vm_compute in H; discriminate H. Qed.

(* ---- setup_space_list_check, isolated: the only three facts the loop invariant needs
   (the only proofs in Proofs/C02 that unfold [space_list_check]) ---- *)
Lemma slc_none st ug : last_left st = None -> space_list_check st ug = Ok (check_for_list st).
Proof. intros H. unfold space_list_check. rewrite H. reflexivity. Qed.

(* last_left is a completed operand: a value, a suffix operator node, or a closed bracket *)
Lemma slc_operand st ug l ln :
  last_left st = Some l -> nth_error (nodes st) l = Some ln ->
  definition_eqb (n_def ln) D_SideEffect = false ->
  (is_value_like (n_def ln) = true \/ n_sec ln = S_UnarySuffix \/
   (exists b, n_def ln = bdef b /\ opt_nat_eqb (Some l) ug = false)) ->
  space_list_check st ug = Ok true.
Proof.
  intros Hll Hln Hse H. unfold space_list_check. rewrite Hll, Hln, Hse. cbn [andb bind].
  destruct H as [H|[H|[b [H1 H2]]]].
  - rewrite H. reflexivity.
  - rewrite H. cbn [secondary_eqb secondary_index N.eqb Pos.eqb]. rewrite orb_true_r. reflexivity.
  - rewrite H1, H2. destruct b; reflexivity.
Qed.

(* last_left is the node of an open frame (operator or open bracket): nothing changes *)
Lemma slc_frame st ug l ln :
  last_left st = Some l -> nth_error (nodes st) l = Some ln -> check_for_list st = false ->
  is_value_like (n_def ln) = false -> secondary_eqb (n_sec ln) S_UnarySuffix = false ->
  definition_eqb (n_def ln) D_SideEffect = false ->
  (definition_eqb (n_def ln) D_Group || definition_eqb (n_def ln) D_NestedExpression)
    && negb (opt_nat_eqb (Some l) ug) = false ->
  space_list_check st ug = Ok false.
Proof.
  intros Hll Hln Hcfl Hv Hs Hse Hg. unfold space_list_check. rewrite Hll, Hln, Hse. cbn [andb bind].
  rewrite Hcfl, Hv, Hs, Hg. reflexivity.
Qed.

(* ---- the expression separator `;` after a completed operand, not inside a round group
   (top level or directly inside { }): a binary operator ---- *)
Definition group_lookup (st : pstate) : res (definition * nat) :=
  match current_group st with
  | None => Ok (D_Drop, 0)
  | Some g =>
    match nth_error (group_stack st) g with
    | None => impl_err
    | Some (gidx, _) =>
      match nth_error (nodes st) gidx with
      | None => impl_err
      | Some gn => Ok (n_def gn, gidx)
      end
    end
  end.

Lemma step_sep_unfold ntoks i st ug ing gix l ln :
  under_group_of st = Ok ug -> next_last_left st = None -> adj_ok (nodes st) (last_left st) ->
  forbidden (prev_sec st) S_Subexpression (check_for_list st) = false ->
  separated st && forbidden_separated (prev_sig st) S_Subexpression (check_for_list st) = false ->
  group_lookup st = Ok (ing, gix) -> definition_eqb ing D_Group = false ->
  definition_eqb ing D_NestedExpression && Nat.eqb gix l = false ->
  last_left st = Some l -> nth_error (nodes st) l = Some ln -> calm_def (n_def ln) = true ->
  secondary_eqb (n_sec ln) S_Subexpression = false ->
  step ntoks i TT_ExpressionSeparator st =
    do r2 <- parse_token (length (nodes st)) D_ExpressionSeparator (Some l) (nodes st) ug false;
    let '(ns2, parent, tl) := r2 in
    Ok (mkState (ns2 ++ [mkNode D_ExpressionSeparator S_Subexpression parent tl
                           (if Nat.leb ntoks (i + 1) then None else Some (length (nodes st) + 1)) (Some i)])
                (Some (length (nodes st))) (Some (length (nodes st))) false (Some i) None
                (group_stack st) (current_group st) S_Subexpression S_Subexpression false (se_prev st)).
Proof.
  intros Hug Hnll Hadj Hforb Hsep Hgl Hng Hstart Hll Hln Hcalm Hsec.
  destruct (calm_facts _ Hcalm) as (C1 & C2 & C3 & C4).
  destruct st as [ns np ll cfl lt nll gs cg ps psig sep sep_prev]. unfold under_group_of in Hug. unfold group_lookup in Hgl.
  fields_in_all. subst ll nll. unfold step. fields. rewrite Hug. cbn [bind].
  rewrite (adj_simpl ns (Some l) ug ps psig Hadj). fields.
  cbn [get_definition]. fields. rewrite Hforb. cbn [negb andb] in *. rewrite Hsep. fields.
  rewrite Hgl. cbn [bind]. rewrite Hng. rewrite Hln, C2.
  rewrite (upd_id ns l (fun _ => ln) ln Hln eq_refl). cbn [bind]. rewrite Hsec, Hstart. cbn [orb].
  destruct (parse_token (length ns) D_ExpressionSeparator (Some l) ns ug false) as [[[ns2 parent] tl]| | |]; cbn [bind]; try reflexivity.
  fields. cbn [definition_eqb definition_index N.eqb Pos.eqb]. rewrite app_last_match. reflexivity.
Qed.

(* finite facts about the separator *)
Lemma sep_tok_is t : sep_tok t = true -> t = TT_ExpressionSeparator.
Proof. destruct t; intros H; try discriminate H; reflexivity. Qed.

Lemma sep_def_ok : op_def_ok D_ExpressionSeparator false = true /\ frameable D_ExpressionSeparator = true.
Proof. vm_compute. split; reflexivity. Qed.
