(* The inductive step of the simulation, outcome ORestart: when the evaluator
   restarts the enclosing body (a `^~` was executed), the machine arrives at
   the first instruction of that body with the new `$`, whatever operands were
   pending still on the register stack above the ones it started with. *)
From Coq Require Import ZArith NArith List Bool Arith Lia.
From GV Require Import Base.Result Base.Host Gen.Instr Gen.Exec Model.Num Model.Value Model.Machine
  Model.CompileExpr Spec.Ast Spec.Eval
  Proofs.C01.MachineFacts Proofs.C01.Sizes Proofs.C01.Placement Proofs.C01.Labels Proofs.C01.OpRefine Proofs.C01.Fragment
  Proofs.C01.Steps Proofs.C01.Sim Proofs.C01.NoRestart Proofs.C01.SimDone.
Import ListNotations.

Section SimRestart.
Variable sym_hash : list N -> N.
Variable hstate : Type.
Variable host : hstate -> host_call -> hstate * option val.
Hypothesis Hdef : declines_defer hstate host.
Variable pbodies : list (N * expr).
Variable P : program.

Notation St := (mkSt hstate).
Notation star := (star hstate host P).
Notation C := (code P).
Notation J := (jt P).
Notation eval := (eval sym_hash hstate host pbodies).
Notation eval_items := (eval_items sym_hash hstate host pbodies).
Notation eval_chain := (eval_chain sym_hash hstate host pbodies).
Notation apply_val := (apply_val sym_hash hstate host pbodies).
Notation placed := (lplaced sym_hash C J).
Notation placedC := (lplacedC sym_hash C J).
Notation est := (st hstate).

Variable n : nat.
Variable cont pcont : nat.
Hypothesis Hcj : nth_error J cont = Some pcont.
Hypothesis Hcp : pcont < length C.

Hypothesis IHd : forall m, m <= n -> forall e vin (s : est) v s',
  eval m e vin s = ODone v s' ->
  frag e = true -> shape_ok e = true -> forall b, seq_ok b e = true ->
  forall pc j ob jb sg vs fs mt,
  placed cont None e pc j ob jb -> pc + si (sizes None e) < length C -> observable mt = snd s ->
  exists vin' mt',
    star (St pc sg (vin :: vs) fs (fst s) mt) (St (pc + si (sizes None e)) (v :: sg) (vin' :: vs) fs (fst s') mt') /\
    observable mt' = snd s' /\ (is_seq e = false -> vin' = vin).
Hypothesis IHid : forall m, m <= n -> forall k e vin (s : est) items s',
  eval_items m k e vin s = ODone items s' ->
  frag e = true -> shape_ok e = true -> seq_ok false e = true ->
  forall pc j ob jb sg vs fs mt,
  placed cont (Some k) e pc j ob jb -> pc + si (sizes (Some k) e) < length C -> observable mt = snd s ->
  exists mt',
    star (St pc sg (vin :: vs) fs (fst s) mt)
         (St (pc + si (sizes (Some k) e)) (rev items ++ sg) (vin :: vs) fs (fst s') mt') /\
    observable mt' = snd s' /\ length items = leaves k e.
Hypothesis IHcd : forall m, m <= n -> forall e vin (s : est) o s',
  eval_chain m e vin s = ODone o s' ->
  lchain e = true -> frag e = true -> shape_okC true e = true -> seq_ok false e = true ->
  forall pc j aob ajb ob jb jj pjoin sg vs fs mt,
  placedC true cont None e pc j aob ajb ob jb jj ->
  nth_error J jj = Some pjoin -> pjoin < length C -> pc + ci (csizes e) < length C -> observable mt = snd s ->
  exists mt', observable mt' = snd s' /\
    match o with
    | None => star (St pc sg (vin :: vs) fs (fst s) mt) (St (pc + ci (csizes e)) sg (vin :: vs) fs (fst s') mt')
    | Some v => star (St pc sg (vin :: vs) fs (fst s) mt) (St pjoin (v :: sg) (vin :: vs) fs (fst s') mt')
    end.

Definition Restarted (pc : nat) (sg : list val) (vin : val) (vs : list val) fs (s : est) mt (v : val) (s' : est) : Prop :=
  exists junk mt',
    star (St pc sg (vin :: vs) fs (fst s) mt) (St pcont (junk ++ sg) (v :: vs) fs (fst s') mt') /\
    observable mt' = snd s'.

Hypothesis IHr : forall m, m <= n -> forall e vin (s : est) v s',
  eval m e vin s = ORestart v s' ->
  frag e = true -> shape_ok e = true -> forall b, seq_ok b e = true ->
  forall pc j ob jb sg vs fs mt,
  placed cont None e pc j ob jb -> pc + si (sizes None e) < length C -> observable mt = snd s ->
  Restarted pc sg vin vs fs s mt v s'.
Hypothesis IHir : forall m, m <= n -> forall k e vin (s : est) v s',
  eval_items m k e vin s = ORestart v s' ->
  frag e = true -> shape_ok e = true -> seq_ok false e = true ->
  forall pc j ob jb sg vs fs mt,
  placed cont (Some k) e pc j ob jb -> pc + si (sizes (Some k) e) < length C -> observable mt = snd s ->
  Restarted pc sg vin vs fs s mt v s'.
Hypothesis IHcr : forall m, m <= n -> forall e vin (s : est) v s',
  eval_chain m e vin s = ORestart v s' ->
  lchain e = true -> frag e = true -> shape_okC true e = true -> seq_ok false e = true ->
  forall pc j aob ajb ob jb jj pjoin sg vs fs mt,
  placedC true cont None e pc j aob ajb ob jb jj ->
  nth_error J jj = Some pjoin -> pjoin < length C -> pc + ci (csizes e) < length C -> observable mt = snd s ->
  Restarted pc sg vin vs fs s mt v s'.

Let IHe := IHd n (le_n n).
Let IHre := IHr n (le_n n).

Ltac and2 H a b := apply andb_prop in H; destruct H as [a b].
Ltac and3 H a b c := apply andb_prop in H; destruct H as [H c]; apply andb_prop in H; destruct H as [a b].
Ltac and4 H a b c d := apply andb_prop in H; destruct H as [H d]; and3 H a b c.
Ltac inv_r H a s1 E := apply obind_restart in H; destruct H as [H | (a & s1 & E & H)].

(* the junk of a restart after [pre] had been pushed *)
Lemma restarted_after : forall pc0 pc1 sg pre vin vs fs (s s1 : est) mt mt1 v s',
  star (St pc0 sg (vin :: vs) fs (fst s) mt) (St pc1 (pre ++ sg) (vin :: vs) fs (fst s1) mt1) ->
  Restarted pc1 (pre ++ sg) vin vs fs s1 mt1 v s' ->
  Restarted pc0 sg vin vs fs s mt v s'.
Proof.
  intros pc0 pc1 sg pre vin vs fs s s1 mt mt1 v s' H1 (junk & mt' & H2 & Ho).
  exists (junk ++ pre), mt'. split; auto. rewrite <- app_assoc. eapply star_trans; eauto.
Qed.

Definition Goal_restart (e : expr) : Prop :=
  forall vin (s : est) v s',
  eval (S n) e vin s = ORestart v s' ->
  frag e = true -> shape_ok e = true ->
  forall b, seq_ok b e = true ->
  forall pc j ob jb sg vs fs mt,
  placed cont None e pc j ob jb ->
  pc + si (sizes None e) < length C ->
  observable mt = snd s ->
  Restarted pc sg vin vs fs s mt v s'.

Notation nth_lt := SimDone.nth_lt.
Notation start_lt := (SimDone.placed_start_lt sym_hash P).

(* ---- unary operators (and `~~`) ---- *)
Lemma rs_un : forall o x, Goal_restart (EUn o x).
Proof.
  intros o x vin s v s' H Hf Hsh b Hsq pc j ob jb sg vs fs mt Hp Hl Ho.
  cbn [frag shape_okC seq_ok] in *.
  destruct (lplaced_EUn sym_hash C J cont None o x pc j ob jb Hp) as (Px & Hn).
  assert (Hx : eval n x vin s = ORestart v s').
  { destruct o; cbn [Eval.eval] in H; inv_r H a s1 E; auto;
      try (destruct (prim_unop _ a); discriminate).
    exfalso. eapply apply_no_restart; exact H. }
  apply (IHre x vin s v s' Hx Hf Hsh false Hsq pc j ob jb sg vs fs mt Px (nth_lt _ _ _ _ Hn) Ho).
Qed.

(* ---- binary operators, the left operand first ---- *)
Lemma rs_bin_lr : forall o l r, right_first o = false -> Goal_restart (EBin o l r).
Proof.
  intros o l r Hrf vin s v s' H Hf Hsh b Hsq pc j ob jb sg vs fs mt Hp Hl Ho.
  cbn [frag shape_okC seq_ok] in *. and2 Hf Hfl Hfr. and2 Hsh Hshl Hshr. and2 Hsq Hsql Hsqr.
  destruct (lplaced_EBin_lr sym_hash C J cont None o l r pc j ob jb Hrf Hp) as (Pl & Pr & Hn).
  assert (Hl1 : pc + si (sizes None l) < length C) by (apply nth_lt in Hn; lia).
  assert (Hcases : eval n l vin s = ORestart v s' \/
                   exists vl s1, eval n l vin s = ODone vl s1 /\ eval n r vin s1 = ORestart v s').
  { destruct o; try discriminate; cbn [Eval.eval] in H; inv_r H vl s1 El; auto;
      inv_r H vr s2 Er; eauto;
      try (unfold lift in H; destruct (prim_binop _ _ _) as [[?|] ?]; discriminate).
    exfalso. eapply apply_no_restart; exact H. }
  destruct Hcases as [Hx | (vl & s1 & El & Er)].
  - apply (IHre l vin s v s' Hx Hfl Hshl false Hsql pc j _ _ sg vs fs mt Pl Hl1 Ho).
  - destruct (IHe l vin s vl s1 El Hfl Hshl false Hsql pc j _ _ sg vs fs mt Pl Hl1 Ho)
      as (vin1 & mt1 & St1 & Ho1 & Hv1).
    rewrite (Hv1 (seq_ok_false_noseq _ Hsql)) in St1.
    apply (restarted_after pc _ sg [vl] vin vs fs s s1 mt mt1 v s' St1).
    apply (IHre r vin s1 v s' Er Hfr Hshr false Hsqr _ _ ob jb (vl :: sg) vs fs mt1 Pr (nth_lt _ _ _ _ Hn) Ho1).
Qed.

(* ---- pair and apply-to: the right operand first ---- *)
Lemma rs_bin_rl : forall o l r, right_first o = true -> Goal_restart (EBin o l r).
Proof.
  intros o l r Hrf vin s v s' H Hf Hsh b Hsq pc j ob jb sg vs fs mt Hp Hl Ho.
  cbn [frag shape_okC seq_ok] in *. and2 Hf Hfl Hfr. and2 Hsh Hshl Hshr. and2 Hsq Hsql Hsqr.
  destruct (lplaced_EBin_rl sym_hash C J cont None o l r pc j ob jb Hrf Hp) as (Pr & Pl & Hn).
  assert (Hl1 : pc + si (sizes None r) < length C) by (apply nth_lt in Hn; lia).
  assert (Hcases : eval n r vin s = ORestart v s' \/
                   exists vr s1, eval n r vin s = ODone vr s1 /\ eval n l vin s1 = ORestart v s').
  { destruct o; try discriminate; cbn [Eval.eval] in H; inv_r H vr s1 Er; auto;
      inv_r H vl s2 El; eauto; try discriminate.
    exfalso. eapply apply_no_restart; exact H. }
  destruct Hcases as [Hx | (vr & s1 & Er & El)].
  - apply (IHre r vin s v s' Hx Hfr Hshr false Hsqr pc j _ _ sg vs fs mt Pr Hl1 Ho).
  - destruct (IHe r vin s vr s1 Er Hfr Hshr false Hsqr pc j _ _ sg vs fs mt Pr Hl1 Ho)
      as (vin1 & mt1 & St1 & Ho1 & Hv1).
    rewrite (Hv1 (seq_ok_false_noseq _ Hsqr)) in St1.
    apply (restarted_after pc _ sg [vr] vin vs fs s s1 mt mt1 v s' St1).
    apply (IHre l vin s1 v s' El Hfl Hshl false Hsql _ _ ob jb (vr :: sg) vs fs mt1 Pl (nth_lt _ _ _ _ Hn) Ho1).
Qed.

(* ---- group ---- *)
Lemma rs_group : forall x, Goal_restart (EGroup x).
Proof.
  intros x vin s v s' H Hf Hsh b Hsq pc j ob jb sg vs fs mt Hp Hl Ho.
  cbn [frag shape_okC seq_ok] in *. cbn [Eval.eval] in H.
  pose proof (lplaced_EGroup sym_hash C J cont None x pc j ob jb Hp) as Px.
  apply (IHre x vin s v s' H Hf Hsh false Hsq pc j ob jb sg vs fs mt Px Hl Ho).
Qed.

(* ---- `^~` itself ---- *)
Lemma rs_reapply : forall x, Goal_restart (EReapply x).
Proof.
  intros x vin s v s' H Hf Hsh b Hsq pc j ob jb sg vs fs mt Hp Hl Ho.
  cbn [frag shape_okC seq_ok] in *.
  destruct (lplaced_EReapply sym_hash C J cont None x pc j ob jb Hp) as (Px & Hn1 & Hn2).
  cbn [Eval.eval] in H. inv_r H vx s1 Ex.
  - apply (IHre x vin s v s' H Hf Hsh false Hsq pc j ob jb sg vs fs mt Px (nth_lt _ _ _ _ Hn1) Ho).
  - injection H as <- <-.
    destruct (IHe x vin s vx s1 Ex Hf Hsh false Hsq pc j ob jb sg vs fs mt Px (nth_lt _ _ _ _ Hn1) Ho)
      as (vin1 & mt1 & St1 & Ho1 & Hv1).
    exists [], mt1. split; auto. cbn [app].
    eapply star_trans; [exact St1|].
    eapply star_step.
    + apply step_update_value; eauto. apply nth_lt in Hn2. lia.
    + apply star_one. replace (S (pc + si (sizes None x))) with (pc + si (sizes None x) + 1) by lia.
      eapply step_jump_to; eauto.
Qed.

(* ---- sub-expression sequence ---- *)
Lemma rs_seq : forall sp l r, Goal_restart (ESeq sp l r).
Proof.
  intros sp l r vin s v s' H Hf Hsh b Hsq pc j ob jb sg vs fs mt Hp Hl Ho.
  cbn [frag shape_okC seq_ok] in *. and2 Hf Hfl Hfr. and2 Hsh Hshl Hshr. and3 Hsq Hb Hsql Hsqr.
  destruct (lplaced_ESeq sym_hash C J cont None sp l r pc j ob jb Hp) as (Pl & Pr & Hn).
  assert (Hsz : si (sizes None (ESeq sp l r)) = si (sizes None l) + 1 + si (sizes None r)) by reflexivity.
  rewrite Hsz in *.
  cbn [Eval.eval] in H. inv_r H vl s1 El.
  - apply (IHre l vin s v s' H Hfl Hshl true Hsql pc j _ _ sg vs fs mt Pl (nth_lt _ _ _ _ Hn) Ho).
  - destruct (IHe l vin s vl s1 El Hfl Hshl true Hsql pc j _ _ sg vs fs mt Pl (nth_lt _ _ _ _ Hn) Ho)
      as (vin1 & mt1 & St1 & Ho1 & Hv1).
    assert (Hs2 : Machine.step hstate host P (St (pc + si (sizes None l)) (vl :: sg) (vin1 :: vs) fs (fst s1) mt1) =
                  SRun hstate (St (S (pc + si (sizes None l))) sg (vl :: vs) fs (fst s1) mt1)).
    { apply step_update_value; auto. lia. }
    replace (pc + (si (sizes None l) + 1 + si (sizes None r))) with (pc + si (sizes None l) + 1 + si (sizes None r)) in * by lia.
    destruct (IHre r vl s1 v s' H Hfr Hshr true Hsqr _ _ ob jb sg vs fs mt1 Pr Hl Ho1) as (junk & mt2 & St2 & Ho2).
    exists junk, mt2. split; auto.
    eapply star_trans; [exact St1|]. eapply star_step; [exact Hs2|].
    replace (S (pc + si (sizes None l))) with (pc + si (sizes None l) + 1) by lia. exact St2.
Qed.

(* ---- side-effect block: only the atom could restart (it cannot); the block has no `^~` ---- *)
Lemma rs_side : forall a sd, Goal_restart (ESide a sd).
Proof.
  intros a sd vin s v s' H Hf Hsh b Hsq pc j ob jb sg vs fs mt Hp Hl Ho.
  cbn [frag shape_okC seq_ok] in *. and3 Hf Hfa Hfs Hnr. and2 Hsh Hsha Hshs. and2 Hsq Hsqa Hsqs.
  destruct (lplaced_ESide sym_hash C J cont None a sd pc j ob jb Hp) as (Pa & Ps & Hn1 & Hn2).
  apply negb_true_iff in Hnr.
  cbn [Eval.eval] in H. inv_r H va s1 Ea.
  - apply (IHre a vin s v s' H Hfa Hsha false Hsqa pc j _ _ sg vs fs mt Pa (nth_lt _ _ _ _ Hn1) Ho).
  - exfalso. inv_r H vsd s2 Es; [|discriminate].
    destruct (no_restart sym_hash hstate host pbodies n) as (NR & _).
    eapply NR; eauto.
Qed.

(* ---- && and || ---- *)
Lemma rs_logical : forall (is_and : bool) l r, Goal_restart (if is_and then EAnd l r else EOr l r).
Proof.
  intros is_and l r vin s v s' H Hf Hsh b Hsq pc j ob jb sg vs fs mt Hp Hl Ho.
  assert (Hf' : frag l = true /\ frag r = true) by (destruct is_and; cbn [frag] in Hf; apply andb_prop in Hf; exact Hf).
  assert (Hsh' : shape_ok l = true /\ shape_ok r = true) by (destruct is_and; cbn [shape_okC] in Hsh; apply andb_prop in Hsh; exact Hsh).
  assert (Hsq' : seq_ok false l = true /\ seq_ok false r = true) by (destruct is_and; cbn [seq_ok] in Hsq; apply andb_prop in Hsq; exact Hsq).
  destruct Hf' as [Hfl Hfr]. destruct Hsh' as [Hshl Hshr]. destruct Hsq' as [Hsql Hsqr].
  destruct (lplaced_logical sym_hash C J is_and cont None l r pc j ob jb Hp) as (Pl & Pr & Hn & Hj1 & Hj2 & Htail).
  assert (Hsz : si (sizes None (if is_and then EAnd l r else EOr l r)) = si (sizes None l) + 1)
    by (destruct is_and; reflexivity).
  rewrite Hsz in *.
  assert (Hcases : eval n l vin s = ORestart v s' \/
            exists vl s1, eval n l vin s = ODone vl s1 /\ Bool.eqb (truthy vl) is_and = true /\
                          eval n r vin s1 = ORestart v s').
  { destruct is_and; cbn [Eval.eval] in H; inv_r H vl s1 El; auto; right; exists vl, s1;
      destruct (truthy vl); try discriminate; inv_r H vr s2 Er; try discriminate; auto. }
  destruct Hcases as [Hx | (vl & s1 & El & Htr & Er)].
  - apply (IHre l vin s v s' Hx Hfl Hshl false Hsql pc j _ _ sg vs fs mt Pl (nth_lt _ _ _ _ Hn) Ho).
  - destruct (IHe l vin s vl s1 El Hfl Hshl false Hsql pc j _ _ sg vs fs mt Pl (nth_lt _ _ _ _ Hn) Ho)
      as (vin1 & mt1 & St1 & Ho1 & Hv1).
    rewrite (Hv1 (seq_ok_false_noseq _ Hsql)) in St1.
    replace (pc + (si (sizes None l) + 1)) with (S (pc + si (sizes None l))) in * by lia.
    pose proof (start_lt _ _ _ _ _ _ _ Pr) as Hob.
    assert (Hstep : Machine.step hstate host P (St (pc + si (sizes None l)) (vl :: sg) (vin :: vs) fs (fst s1) mt1) =
            SRun hstate (St ob sg (vin :: vs) fs (fst s1) mt1)).
    { destruct is_and.
      - rewrite (step_and hstate host P _ _ ob vl sg (vin :: vs) fs (fst s1) mt1 Hn Hj1 Hob Hl).
        destruct (truthy vl); [reflexivity | discriminate].
      - rewrite (step_or hstate host P _ _ ob vl sg (vin :: vs) fs (fst s1) mt1 Hn Hj1 Hob Hl).
        destruct (truthy vl); [discriminate | reflexivity]. }
    assert (Hlr : ob + si (sizes None r) < length C).
    { unfold logical_tail in Htail. apply code_at_cons in Htail. destruct Htail as [T1 _].
      apply nth_lt in T1. exact T1. }
    destruct (IHre r vin s1 v s' Er Hfr Hshr false Hsqr ob jb _ _ sg vs fs mt1 Pr Hlr Ho1) as (junk & mt2 & St2 & Ho2).
    exists junk, mt2. split; auto.
    eapply star_trans; [exact St1|]. eapply star_step; [exact Hstep | exact St2].
Qed.

(* ---- a conditional on its own ---- *)
Lemma rs_cond : forall neg c a, Goal_restart (ECond neg c a).
Proof.
  intros neg c a vin s v s' H Hf Hsh b Hsq pc j ob jb sg vs fs mt Hp Hl Ho.
  cbn [frag shape_okC seq_ok] in *. and2 Hf Hfc Hfa. and2 Hsh Hshc Hsha. and2 Hsq Hsqc Hsqa.
  destruct (lplaced_ECond sym_hash C J cont None neg c a pc j ob jb Hp) as (Pc & Pa & Hn1 & Hn2 & Hj1 & Hj2 & Hn3).
  cbn [Eval.eval] in H. inv_r H vc s1 Ec.
  - apply (IHre c vin s v s' H Hfc Hshc false Hsqc pc j _ _ sg vs fs mt Pc (nth_lt _ _ _ _ Hn1) Ho).
  - destruct (IHe c vin s vc s1 Ec Hfc Hshc false Hsqc pc j _ _ sg vs fs mt Pc (nth_lt _ _ _ _ Hn1) Ho)
      as (vin1 & mt1 & St1 & Ho1 & Hv1).
    rewrite (Hv1 (seq_ok_false_noseq _ Hsqc)) in St1.
    pose proof (start_lt _ _ _ _ _ _ _ Pa) as Hob.
    assert (Hstep : Machine.step hstate host P (St (pc + si (sizes None c)) (vc :: sg) (vin :: vs) fs (fst s1) mt1) =
            SRun hstate (St (if cond_holds neg vc then ob else S (pc + si (sizes None c))) sg (vin :: vs) fs (fst s1) mt1)).
    { apply step_jump_if with (j := j + sji (sizes None c)); auto. apply nth_lt in Hn2. lia. }
    destruct (cond_holds neg vc); [|discriminate].
    destruct (IHre a vin s1 v s' H Hfa Hsha false Hsqa ob jb _ _ sg vs fs mt1 Pa (nth_lt _ _ _ _ Hn3) Ho1)
      as (junk & mt2 & St2 & Ho2).
    exists junk, mt2. split; auto.
    eapply star_trans; [exact St1|]. eapply star_step; [exact Hstep | exact St2].
Qed.

(* ---- lists ---- *)
Lemma rs_list : forall k l r, Goal_restart (EList k l r).
Proof.
  intros k l r vin s v s' H Hf Hsh b Hsq pc j ob jb sg vs fs mt Hp Hl Ho.
  cbn [Eval.eval] in H. inv_r H items s1 Ei; [|discriminate].
  destruct (lplaced_EList sym_hash C J cont None k l r pc j ob jb Hp) as (_ & _ & Hmk).
  specialize (Hmk eq_refl).
  pose proof (lplaced_list_ctx sym_hash C J _ _ _ _ _ _ _ _ Hp) as Pk.
  assert (Hsz2 : si (sizes (Some k) (EList k l r)) = si (sizes (Some k) l) + si (sizes (Some k) r)).
  { unfold sizes. cbn [sizesC in_list to_sz of_sz si ci]. rewrite same_kind_refl. lia. }
  assert (Hsq' : seq_ok false (EList k l r) = true) by (cbn [seq_ok] in *; exact Hsq).
  assert (Hl2 : pc + si (sizes (Some k) (EList k l r)) < length C) by (rewrite Hsz2; apply nth_lt in Hmk; lia).
  apply (IHir n (le_n n) k (EList k l r) vin s v s' H Hf Hsh Hsq' pc j ob jb sg vs fs mt Pk Hl2 Ho).
Qed.

(* ---- list items ---- *)
Lemma rs_items : forall k e vin (s : est) v s',
  eval_items (S n) k e vin s = ORestart v s' ->
  frag e = true -> shape_ok e = true -> seq_ok false e = true ->
  forall pc j ob jb sg vs fs mt,
  placed cont (Some k) e pc j ob jb -> pc + si (sizes (Some k) e) < length C -> observable mt = snd s ->
  Restarted pc sg vin vs fs s mt v s'.
Proof.
  intros k e vin s v s' H Hf Hsh Hsq pc j ob jb sg vs fs mt Hp Hl Ho.
  destruct (is_list_of k e) eqn:Hlist.
  - destruct e; try discriminate.
    assert (k0 = k) by (destruct k, k0; cbn in Hlist; auto; discriminate). subst k0.
    cbn [frag shape_okC seq_ok] in *. and2 Hf Hfl Hfr. and3 Hsh Hnl Hshl Hshr. and2 Hsq Hsql Hsqr.
    apply negb_true_iff in Hnl.
    destruct (lplaced_EList sym_hash C J cont (Some k) k e1 e2 pc j ob jb Hp) as (Pl & Pr & _).
    assert (Hsz : si (sizes (Some k) (EList k e1 e2)) = si (sizes (Some k) e1) + si (sizes (Some k) e2)).
    { unfold sizes. cbn [sizesC in_list to_sz of_sz si ci]. rewrite same_kind_refl. lia. }
    rewrite Hsz in *.
    pose proof (lplaced_lk sym_hash C J _ _ _ _ _ _ _ Hnl Pr) as Pr'.
    rewrite (sizes_lk k e2 Hnl) in *.
    assert (Hl1 : pc + si (sizes (Some k) e1) < length C).
    { pose proof (start_lt _ _ _ _ _ _ _ Pr'). lia. }
    cbn [Eval.eval_items] in H.
    assert (Hk : match k, k with Space, Space | Comma, Comma => true | _, _ => false end = true) by (destruct k; reflexivity).
    rewrite Hk in H. inv_r H ls s1 El.
    + (* the left part restarts *)
      destruct (is_list_of k e1) eqn:Hl1k.
      * apply (IHir n (le_n n) k e1 vin s v s' H Hfl Hshl Hsql pc j _ _ sg vs fs mt Pl Hl1 Ho).
      * inv_r H v1 s0 E1; [|discriminate].
        pose proof (lplaced_lk sym_hash C J _ _ _ _ _ _ _ Hl1k Pl) as Pl'.
        rewrite (sizes_lk k e1 Hl1k) in *.
        apply (IHre e1 vin s v s' H Hfl Hshl false Hsql pc j _ _ sg vs fs mt Pl' Hl1 Ho).
    + (* the left part is done, the last item restarts *)
      inv_r H vr s2 Er; [|discriminate].
      assert (Hleft : exists mt1, star (St pc sg (vin :: vs) fs (fst s) mt)
                                    (St (pc + si (sizes (Some k) e1)) (rev ls ++ sg) (vin :: vs) fs (fst s1) mt1) /\
                                  observable mt1 = snd s1).
      { destruct (is_list_of k e1) eqn:Hl1k.
        - destruct (IHid n (le_n n) k e1 vin s ls s1 El Hfl Hshl Hsql pc j _ _ sg vs fs mt Pl Hl1 Ho) as (mt1 & A & B & _).
          eauto.
        - apply obind_done in El. destruct El as (v1 & s0 & E1 & El). injection El as <- ->.
          pose proof (lplaced_lk sym_hash C J _ _ _ _ _ _ _ Hl1k Pl) as Pl'.
          rewrite (sizes_lk k e1 Hl1k) in *.
          destruct (IHe e1 vin s v1 s1 E1 Hfl Hshl false Hsql pc j _ _ sg vs fs mt Pl' Hl1 Ho)
            as (vin1 & mt1 & St1 & Ho1 & Hv1).
          rewrite (Hv1 (seq_ok_false_noseq _ Hsql)) in St1. exists mt1. split; auto. }
      destruct Hleft as (mt1 & St1 & Ho1).
      rewrite Nat.add_assoc in Hl.
      apply (restarted_after pc _ sg (rev ls) vin vs fs s s1 mt mt1 v s' St1).
      apply (IHre e2 vin s1 v s' H Hfr Hshr false Hsqr _ _ ob jb (rev ls ++ sg) vs fs mt1 Pr' Hl Ho1).
  - assert (Hev : eval n e vin s = ORestart v s').
    { destruct e; cbn [Eval.eval_items] in H;
        try (inv_r H v1 s1 E1; [exact H | discriminate]).
      destruct k, k0; cbn in Hlist; try discriminate; (inv_r H v1 s1 E1; [exact H | discriminate]). }
    pose proof (lplaced_lk sym_hash C J _ _ _ _ _ _ _ Hlist Hp) as Hp'.
    rewrite (sizes_lk k e Hlist) in *.
    apply (IHre e vin s v s' Hev Hf Hsh false Hsq pc j ob jb sg vs fs mt Hp' Hl Ho).
Qed.

(* ---- else-chains ---- *)
Notation cstart_lt := (SimDone.placedC_start_lt sym_hash P pcont Hcp).

Lemma rs_chain : forall e vin (s : est) v s',
  eval_chain (S n) e vin s = ORestart v s' ->
  lchain e = true -> frag e = true -> shape_okC true e = true -> seq_ok false e = true ->
  forall pc j aob ajb ob jb jj pjoin sg vs fs mt,
  placedC true cont None e pc j aob ajb ob jb jj ->
  nth_error J jj = Some pjoin -> pjoin < length C -> pc + ci (csizes e) < length C -> observable mt = snd s ->
  Restarted pc sg vin vs fs s mt v s'.
Proof.
  intros e vin s v s' H Hlc Hf Hsh Hsq pc j aob ajb ob jb jj pjoin sg vs fs mt Hp Hj Hpj Hl Ho.
  destruct (lchain_cond_or_else e Hlc) as [(neg & c & a & ->) | (l & r & -> & Hll & Hcr)].
  - cbn [frag shape_okC seq_ok] in *. and2 Hf Hfc Hfa. and2 Hsh Hshc Hsha. and2 Hsq Hsqc Hsqa.
    destruct (lplacedC_ECond sym_hash C J cont None neg c a pc j aob ajb ob jb jj Hp) as (Pc & Pa & Hn1 & Hj1 & Hn2).
    assert (Hsz : ci (csizes (ECond neg c a)) = si (sizes None c) + 1) by reflexivity.
    rewrite Hsz in *.
    cbn [Eval.eval_chain] in H. inv_r H vc s1 Ec.
    + apply (IHre c vin s v s' H Hfc Hshc false Hsqc pc j _ _ sg vs fs mt Pc (nth_lt _ _ _ _ Hn1) Ho).
    + destruct (IHe c vin s vc s1 Ec Hfc Hshc false Hsqc pc j _ _ sg vs fs mt Pc (nth_lt _ _ _ _ Hn1) Ho)
        as (vin1 & mt1 & St1 & Ho1 & Hv1).
      rewrite (Hv1 (seq_ok_false_noseq _ Hsqc)) in St1.
      pose proof (start_lt _ _ _ _ _ _ _ Pa) as Hob.
      replace (pc + (si (sizes None c) + 1)) with (S (pc + si (sizes None c))) in * by lia.
      assert (Hstep : Machine.step hstate host P (St (pc + si (sizes None c)) (vc :: sg) (vin :: vs) fs (fst s1) mt1) =
              SRun hstate (St (if cond_holds neg vc then aob else S (pc + si (sizes None c))) sg (vin :: vs) fs (fst s1) mt1)).
      { apply step_jump_if with (j := j + sji (sizes None c)); auto. }
      destruct (cond_holds neg vc); [|discriminate].
      inv_r H va s2 Ea; [|discriminate].
      destruct (IHre a vin s1 v s' H Hfa Hsha false Hsqa aob ajb _ _ sg vs fs mt1 Pa (nth_lt _ _ _ _ Hn2) Ho1)
        as (junk & mt2 & St2 & Ho2).
      exists junk, mt2. split; auto.
      eapply star_trans; [exact St1|]. eapply star_step; [exact Hstep | exact St2].
  - cbn [frag shape_okC seq_ok] in *. and2 Hf Hfl Hfr. and2 Hsh Hshl Hshr. and2 Hsq Hsql Hsqr.
    destruct (lplacedC_EElse sym_hash C J cont None l r pc j aob ajb ob jb jj Hp) as (Pl & Pr).
    assert (Hsz : ci (csizes (EElse l r)) = ci (csizes l) + ci (csizes r)) by reflexivity.
    rewrite Hsz in *.
    assert (Hlr : lchain r = true) by (destruct r; try discriminate; reflexivity).
    pose proof (cstart_lt _ _ _ _ _ _ _ _ _ Pr) as Hl1.
    cbn [Eval.eval_chain] in H. inv_r H ol s1 El.
    + apply (IHcr n (le_n n) l vin s v s' H Hll Hfl Hshl Hsql pc j _ _ _ _ jj pjoin sg vs fs mt Pl Hj Hpj Hl1 Ho).
    + destruct ol as [x|]; [discriminate|].
      destruct (IHcd n (le_n n) l vin s None s1 El Hll Hfl Hshl Hsql pc j _ _ _ _ jj pjoin sg vs fs mt Pl Hj Hpj Hl1 Ho)
        as (mt1 & Ho1 & Hres).
      rewrite Nat.add_assoc in Hl.
      destruct (IHcr n (le_n n) r vin s1 v s' H Hlr Hfr Hshr Hsqr _ _ aob ajb ob jb jj pjoin sg vs fs mt1 Pr Hj Hpj Hl Ho1)
        as (junk & mt2 & St2 & Ho2).
      exists junk, mt2. split; auto. eapply star_trans; [exact Hres | exact St2].
Qed.

(* ---- the head of an else-chain ---- *)
Lemma rs_else : forall l r, Goal_restart (EElse l r).
Proof.
  intros l r vin s v s' H Hf Hsh b Hsq pc j ob jb sg vs fs mt Hp Hl Ho.
  cbn [frag shape_okC seq_ok] in *. and2 Hf Hfl Hfr. and4 Hsh Hll Hpr Hshl Hshr. and2 Hsq Hsql Hsqr.
  destruct (lplaced_EElse_head sym_hash C J cont None l r pc j ob jb Hp) as (Pl & Pr & Hjj).
  assert (Hsz : si (sizes None (EElse l r)) = ci (csizes l) + ci (csizes r)) by reflexivity.
  rewrite Hsz in *.
  pose proof (lchain_cn P pcont Hcp l Hll) as Hcn.
  assert (Hj : nth_error J (j + cji (csizes l) + cji (csizes r)) = Some (pc + ci (csizes l) + ci (csizes r))) by (apply Hjj; lia).
  assert (Hpl : is_cond r = false /\ is_else r = false).
  { unfold plain in Hpr. apply andb_prop in Hpr. destruct Hpr as [A B].
    apply negb_true_iff in A. apply negb_true_iff in B. auto. }
  destruct Hpl as [Hnc Hne].
  pose proof (lplacedC_plain_item sym_hash C J cont r _ _ _ _ _ _ _ Hnc Hne Pr) as Pr'.
  assert (Hcr : ci (csizes r) = si (sizes None r)).
  { unfold csizes, sizes. rewrite (sizesC_plain_item r None Hnc Hne). reflexivity. }
  rewrite Nat.add_assoc in Hl.
  cbn [Eval.eval] in H. inv_r H o s1 Ech; [|destruct o; discriminate].
  destruct n as [|n1]; [discriminate|].
  cbn [Eval.eval_chain] in H. inv_r H ol s2 El.
  - assert (Hl1 : pc + ci (csizes l) < length C) by (pose proof (start_lt _ _ _ _ _ _ _ Pr'); lia).
    apply (IHcr n1 (le_S _ _ (le_n n1)) l vin s v s' H Hll Hfl Hshl Hsql pc j _ _ _ _ _ _ sg vs fs mt Pl Hj Hl Hl1 Ho).
  - destruct ol as [x|]; [discriminate|].
    assert (Hl1 : pc + ci (csizes l) < length C) by (pose proof (start_lt _ _ _ _ _ _ _ Pr'); lia).
    destruct (IHcd n1 (le_S _ _ (le_n n1)) l vin s None s2 El Hll Hfl Hshl Hsql pc j _ _ _ _ _ _ sg vs fs mt Pl Hj Hl Hl1 Ho)
      as (mt1 & Ho1 & Hres).
    destruct n1 as [|n2]; [discriminate|].
    assert (Er : eval n2 r vin s2 = ORestart v s').
    { destruct r; try discriminate; cbn [Eval.eval_chain] in H;
        (inv_r H v1 s3 E1; [exact H | discriminate]). }
    assert (Hle : n2 <= S (S n2)) by lia.
    rewrite Hcr in *.
    destruct (IHr n2 Hle r vin s2 v s' Er Hfr Hshr false Hsqr _ _ _ _ sg vs fs mt1 Pr' Hl Ho1) as (junk & mt2 & St2 & Ho2).
    exists junk, mt2. split; auto. eapply star_trans; [exact Hres | exact St2].
Qed.

(* ---- every construct, outcome ORestart ---- *)
Lemma sim_eval_restart : forall e, Goal_restart e.
Proof.
  intros e. destruct e.
  - intros vin s v s' H. discriminate.
  - intros vin s v s' H. discriminate.
  - intros vin s v s' H. cbn [Eval.eval] in H. unfold resolve_ident in H.
    destruct (by_symbol vin (sym_hash name)); try discriminate.
    destruct (call_host hstate host (HResolve (sym_hash name)) s). discriminate.
  - apply rs_un.
  - destruct (right_first o) eqn:Hrf; [apply rs_bin_rl | apply rs_bin_lr]; auto.
  - apply (rs_logical true).
  - apply (rs_logical false).
  - apply rs_list.
  - apply rs_group.
  - apply rs_cond.
  - apply rs_else.
  - apply rs_seq.
  - apply rs_side.
  - intros vin s v s' H. discriminate.
  - apply rs_reapply.
Qed.

End SimRestart.
