(* (d) the whole program: [Compile.compile] on the parser's tree of the printed
   tokens is [compile_prog], after conversion of the data operands. *)
From Coq Require Import ZArith NArith List Bool Arith Lia.
From GV Require Import Base.Result Base.Host Gen.TokenTypes Gen.Defs Gen.Instr Model.Num Model.Value
  Model.Parser Model.BuilderWL Model.Machine Model.Compile Model.CompileExpr Model.CompileWL
  Spec.RefTable Spec.Pratt Spec.Chains Spec.Ast Spec.Printer Spec.Eval Spec.Fragment
  Proofs.C02.Denote Proofs.C05.InlBase Proofs.Builder.PrattBridge Proofs.C01.Sizes Proofs.C01.SimDone
  Proofs.C01.EndToEnd.PrintItems Proofs.C01.EndToEnd.PrintClimb Proofs.C01.EndToEnd.CompileBase
  Proofs.C01.EndToEnd.CompileSim Proofs.C01.EndToEnd.CompileMain.
Import ListNotations.

Lemma size_img : forall e off t, rep e off t -> Compile.size (img t) = Ast.size e.
Proof.
  induction e; intros off t R; cbn [rep] in R; try contradiction.
  - destruct t; try contradiction. reflexivity.
  - destruct t; try contradiction. reflexivity.
  - destruct t; try contradiction. reflexivity.
  - destruct (is_prefix o); destruct t; try contradiction; destruct R as (_ & _ & R);
      cbn [img Compile.size Ast.size]; rewrite (IHe _ _ R); lia.
  - destruct t; try contradiction. destruct R as (_ & _ & R1 & R2). cbn [img Compile.size Ast.size].
    rewrite (IHe1 _ _ R1), (IHe2 _ _ R2). reflexivity.
  - destruct t; try contradiction. destruct R as (_ & _ & R1 & R2). cbn [img Compile.size Ast.size].
    rewrite (IHe1 _ _ R1), (IHe2 _ _ R2). reflexivity.
  - destruct t; try contradiction. destruct R as (_ & _ & R1 & R2). cbn [img Compile.size Ast.size].
    rewrite (IHe1 _ _ R1), (IHe2 _ _ R2). reflexivity.
  - destruct k; destruct t; try contradiction; destruct R as (_ & _ & R1 & R2); cbn [img Compile.size Ast.size];
      rewrite (IHe1 _ _ R1), (IHe2 _ _ R2); reflexivity.
  - destruct t as [| | | |b ? ? t]; try contradiction. destruct b; try contradiction.
    destruct R as (_ & R). cbn [img Compile.size Ast.size]. rewrite (IHe _ _ R). lia.
  - destruct t; try contradiction. destruct R as (_ & _ & R1 & R2). cbn [img Compile.size Ast.size].
    rewrite (IHe1 _ _ R1), (IHe2 _ _ R2). reflexivity.
  - destruct t; try contradiction. destruct R as (_ & _ & R1 & R2). cbn [img Compile.size Ast.size].
    rewrite (IHe1 _ _ R1), (IHe2 _ _ R2). reflexivity.
  - destruct s; destruct t; try contradiction; destruct R as (_ & _ & R1 & R2); cbn [img Compile.size Ast.size];
      rewrite (IHe1 _ _ R1), (IHe2 _ _ R2); reflexivity.
  - destruct t as [| | | |b ? ? t]; try contradiction. destruct b; try contradiction.
    destruct R as (_ & R). cbn [img Compile.size Ast.size]. rewrite (IHe _ _ R). lia.
  - destruct t; try contradiction. destruct R as (_ & _ & R). cbn [img Compile.size Ast.size]. rewrite (IHe _ _ R). lia.
Qed.

Section Prog.
Variable sym_hash : list N -> N.

Theorem compile_printed e Tn ns :
  efrag LV e = true -> paren_ok e = true -> rep e 0 Tn -> denotes ns None Tn ->
  exists c0,
    Compile.compile empty_init lit_all (img Tn) = Ok (c0, 0) /\
    convert sym_hash (aprint e) ns (cci c0) = Ok (code (compile_prog sym_hash e)) /\
    ccj c0 = jt (compile_prog sym_hash e).
Proof.
  intros F P R D.
  assert (A : at_off (aprint e) 0 e) by (exists [], []; rewrite app_nil_r; split; reflexivity).
  destruct (sim_all sym_hash (aprint e) ns e F P Tn 0 R (ex_intro _ None D) A 0) as [Hs _].
  set (sz0 := sizes None e).
  set (s1 := mkC [] [] [0]).
  destruct (Hs 0 None false s1 (si sz0 + 1) (1 + sji sz0) (fun _ => eq_refl)) as (code & ms & ji0 & ps & I1 & C1 & L1 & B1).
  change (il0 s1) with 0 in *. change (jl0 s1) with 1 in *.
  set (Fp := comp sym_hash 0 None e 0 1 (si sz0 + 1) (1 + sji sz0)) in *.
  destruct (comp_sizes sym_hash e 0 None 0 1 (si sz0 + 1) (1 + sji sz0)) as (Si & So & Sj & Sjo). fold Fp sz0 in Si, So, Sj, Sjo.
  assert (Hn : Forall ne (f_inl Fp)).
  { unfold Fp, CompileExpr.comp. cbn [to_frag f_inl]. eapply no_end_inl. exact F. }
  assert (Hne : code <> []).
  { intros ->. pose proof (conv_length _ _ _ _ _ C1) as Hl0. rewrite Si in Hl0. pose proof (si_pos None e). fold sz0 in H. cbn [length] in Hl0. lia. }
  pose proof (finish_end sym_hash (aprint e) ns s1 code ms ji0 (f_inl Fp) C1 Hn Hne) as Hfin.
  set (s3 := sx s1 (code ++ [(I_EndExpression, ONone)]) (ms ++ [None]) ji0) in *.
  destruct (B1 (Compile.size (img Tn)) s3 [0] []) as (code' & ms' & Hr & Hc').
  - rewrite (size_img _ _ _ R). lia.
  - unfold s3, s1, sx. cbn. rewrite app_nil_r. reflexivity.
  - reflexivity.
  - unfold s3. rewrite il0_sx, app_length, <- (conv_length _ _ _ _ _ C1), Si. cbn. lia.
  - unfold s3. rewrite jl0_sx, L1, Sj. reflexivity.
  - eexists. split; [|split].
    + unfold Compile.compile. change (new_jump (mkC [] [] []) (il empty_init (mkC [] [] []))) with s1.
      change (Compile.plain (i_jump_len empty_init)) with (mkCx 0 (option_map kdef None) false).
      cbn [i_jump_len empty_init]. rewrite I1. cbn [bind]. cbv beta iota. rewrite Hfin.
      fold (run_all (Compile.size (img Tn)) ps s3). rewrite Hr. cbn [bind]. reflexivity.
    + cbn [Compile.ci]. unfold s3, s1, sx. cbn [Compile.ci app]. unfold compile_prog. cbn [Machine.code]. fold sz0 Fp.
      rewrite <- app_assoc. apply conv_app; [exact C1|]. apply conv_app; [reflexivity|exact Hc'].
    + cbn [Compile.cj]. unfold compile_prog. cbn [Machine.jt]. fold sz0 Fp. reflexivity.
Qed.

End Prog.
