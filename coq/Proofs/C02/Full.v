(* The full statement of C02: for EVERY token list, whenever the reference (Spec.Pratt)
   is defined, parse accepts and returns exactly its tree.  The reference is defined only
   on operator expressions (converse direction: a successful precedence climb consumes a
   well-formed item list), possibly surrounded by whitespace (token indices shift by the
   number of tokens trimmed at the front); everything else is C02_operator_expressions. *)
From Coq Require Import List Arith Bool NArith Lia.
From GV Require Import Base.Result Gen.TokenTypes Gen.Defs Model.Parser Spec.RefTable Spec.Pratt Spec.Chains
  Proofs.C02.Spine Proofs.C02.Denote Proofs.C02.Chains Proofs.C02.OpExpr.
Import ListNotations.

(* ---- shifting token indices ---- *)
Definition shift_item (a : nat) (it : item) : item :=
  match it with
  | IValue d i => IValue d (i + a)
  | IPrefix d i => IPrefix d (i + a)
  | ISuffix d i => ISuffix d (i + a)
  | IBinary d k => IBinary d (option_map (fun j => j + a) k)
  | IOpen b i => IOpen b (i + a)
  | IClose b i => IClose b (i + a)
  end.

Lemma items_of_shift a : forall l i prev sp,
  items_of l (i + a) prev sp = option_map (map (shift_item a)) (items_of l i prev sp).
Proof.
  induction l as [|t r IH]; intros i prev sp; [reflexivity|]. cbn [items_of].
  destruct (ref_kind t) eqn:Ek; try reflexivity;
    try (change (S (i + a)) with (S i + a); rewrite IH;
         destruct (items_of r (S i) _ false) as [rest|]; [|reflexivity]; cbn [option_map];
         rewrite map_app; cbn [map shift_item option_map];
         destruct prev as [p|]; [destruct (sp && ends_value_k p && _)|]; reflexivity).
  change (S (i + a)) with (S i + a). apply IH.
Qed.

Definition shift_res (a : nat) (x : rtree * list item) : rtree * list item :=
  (shift_rtree a (fst x), map (shift_item a) (snd x)).

Lemma climb_shift a : forall f q acc its,
  climb f q (option_map (shift_rtree a) acc) (map (shift_item a) its)
  = option_map (shift_res a) (climb f q acc its).
Proof.
  induction f as [|f IH]; intros q acc its; [reflexivity|].
  destruct acc as [lhs|]; cbn [option_map climb].
  - destruct its as [|it r]; [reflexivity|]. cbn [map].
    destruct it as [d k|d k|d k|d k|b k|b k]; cbn [shift_item]; try reflexivity.
    + destruct (inside d q); [|reflexivity].
      change (Some (RSuf d (k + a) (shift_rtree a lhs))) with (option_map (shift_rtree a) (Some (RSuf d k lhs))).
      apply IH.
    + destruct (inside d q); [|reflexivity]. destruct (ref_rank d) as [p|]; [|reflexivity].
      pose proof (IH p None r) as E0. cbn [option_map] in E0. rewrite E0. clear E0.
      destruct (climb f p None r) as [[rhs r']|]; [|reflexivity]. cbn [option_map shift_res fst snd].
      change (Some (RBin d (option_map (fun j => j + a) k) (shift_rtree a lhs) (shift_rtree a rhs)))
        with (option_map (shift_rtree a) (Some (RBin d k lhs rhs))).
      apply IH.
  - destruct its as [|it r]; [reflexivity|]. cbn [map].
    destruct it as [d k|d k|d k|d k|b k|b k]; cbn [shift_item]; try reflexivity.
    + change (Some (RAtom d (k + a))) with (option_map (shift_rtree a) (Some (RAtom d k))). apply IH.
    + destruct (ref_rank d) as [p|]; [|reflexivity].
      pose proof (IH p None r) as E0. cbn [option_map] in E0. rewrite E0. clear E0.
      destruct (climb f p None r) as [[arg r']|]; [|reflexivity]. cbn [option_map shift_res fst snd].
      change (Some (RPre d (k + a) (shift_rtree a arg))) with (option_map (shift_rtree a) (Some (RPre d k arg))).
      apply IH.
    + pose proof (IH (blimit b) None r) as E0. cbn [option_map] in E0. rewrite E0. clear E0.
      destruct (climb f (blimit b) None r) as [[inner [|c r']]|]; try reflexivity. cbn [option_map shift_res fst snd map].
      destruct c as [d0 k0|d0 k0|d0 k0|d0 k0|b0 k0|b0 k0]; cbn [shift_item]; try reflexivity.
      destruct (bkind_eqb b b0); [|reflexivity].
      change (Some (RGroup b (k + a) (shift_rtree a inner))) with (option_map (shift_rtree a) (Some (RGroup b k inner))).
      apply IH.
Qed.

(* ---- the reference is undefined as soon as a token outside the fragment occurs ---- *)
Definition in_fragment (t : token_type) : bool :=
  match ref_kind t with KOther => false | _ => true end.

Lemma items_of_fragment : forall l i prev sp its, items_of l i prev sp = Some its -> forallb in_fragment l = true.
Proof.
  induction l as [|t r IH]; intros i prev sp its H; [reflexivity|]. cbn [items_of] in H. cbn [forallb]. unfold in_fragment at 1.
  destruct (ref_kind t); try discriminate H; cbn [andb];
    try (destruct (items_of r (S i) _ false) as [rest|] eqn:E; [eapply IH; exact E|discriminate H]).
  eapply IH; exact H.
Qed.

(* ---- leading and trailing whitespace ---- *)
Lemma trim_is_space t : in_fragment t = true -> is_trim t = true -> t = TT_Whitespace.
Proof. destruct t; intros H1 H2; try discriminate H1; try discriminate H2; reflexivity. Qed.

Lemma items_of_sp_irrelevant l i sp : items_of l i None sp = items_of l i None false.
Proof. destruct l as [|t r]; [reflexivity|]. cbn [items_of]. destruct (ref_kind t); reflexivity. Qed.

Lemma drop_while_trim_length l : length (drop_while_trim l) <= length l.
Proof. induction l as [|t r IH]; [simpl; lia|]. cbn [drop_while_trim]. destruct (is_trim t); simpl; lia. Qed.

Lemma drop_while_trim_fragment l : forallb in_fragment l = true -> forallb in_fragment (drop_while_trim l) = true.
Proof.
  induction l as [|t r IH]; [auto|]. cbn [drop_while_trim forallb]. intros H.
  apply andb_true_iff in H. destruct H as [H1 H2]. destruct (is_trim t); [auto|]. cbn [forallb]. rewrite H1, H2. reflexivity.
Qed.

Lemma items_of_drop_front : forall l i sp, forallb in_fragment l = true ->
  items_of l i None sp
  = items_of (drop_while_trim l) (i + (length l - length (drop_while_trim l))) None false.
Proof.
  induction l as [|t r IH]; intros i sp H.
  - reflexivity.
  - cbn [forallb] in H. apply andb_true_iff in H. destruct H as [H1 H2]. cbn [drop_while_trim].
    destruct (is_trim t) eqn:E.
    + rewrite (trim_is_space t H1 E). cbn [items_of ref_kind]. rewrite (IH (S i) true H2).
      pose proof (drop_while_trim_length r) as L. f_equal. cbn [length]. lia.
    + rewrite Nat.sub_diag, Nat.add_0_r. apply items_of_sp_irrelevant.
Qed.

Lemma items_of_snoc_space : forall l i prev sp, items_of (l ++ [TT_Whitespace]) i prev sp = items_of l i prev sp.
Proof.
  induction l as [|t r IH]; intros i prev sp; [reflexivity|]. cbn [app items_of].
  destruct (ref_kind t); try reflexivity; rewrite IH; reflexivity.
Qed.

Definition strip_back (l : list token_type) : list token_type := rev (drop_while_trim (rev l)).

Lemma strip_back_snoc l x : strip_back (l ++ [x]) = if is_trim x then strip_back l else l ++ [x].
Proof.
  unfold strip_back. rewrite rev_app_distr. cbn [rev app drop_while_trim]. destruct (is_trim x); [reflexivity|].
  change (x :: rev l) with ([x] ++ rev l). rewrite rev_app_distr, rev_involutive. reflexivity.
Qed.

Lemma items_of_strip_back : forall l i prev sp, forallb in_fragment l = true ->
  items_of (strip_back l) i prev sp = items_of l i prev sp.
Proof.
  induction l as [|x l IH] using rev_ind; intros i prev sp H; [reflexivity|].
  rewrite forallb_app in H. apply andb_true_iff in H. destruct H as [H1 H2]. cbn [forallb] in H2.
  apply andb_true_iff in H2. destruct H2 as [H2 _].
  rewrite strip_back_snoc. destruct (is_trim x) eqn:E; [|reflexivity].
  rewrite (trim_is_space x H2 E), items_of_snoc_space. apply IH. exact H1.
Qed.

Lemma drop_while_trim_head l : match drop_while_trim l with [] => True | t :: _ => is_trim t = false end.
Proof. induction l as [|t r IH]; [exact I|]. cbn [drop_while_trim]. destruct (is_trim t) eqn:E; [exact IH|exact E]. Qed.

Lemma strip_back_last l : strip_back l = [] \/ exists r0 x, strip_back l = r0 ++ [x] /\ is_trim x = false.
Proof.
  unfold strip_back. pose proof (drop_while_trim_head (rev l)) as H.
  destruct (drop_while_trim (rev l)) as [|y ys]; [left; reflexivity|right].
  exists (rev ys), y. split; [reflexivity|exact H].
Qed.

Lemma strip_back_prefix : forall l, exists sfx, l = strip_back l ++ sfx.
Proof.
  induction l as [|x l IH] using rev_ind; [exists []; reflexivity|].
  rewrite strip_back_snoc. destruct (is_trim x).
  - destruct IH as [sfx E]. exists (sfx ++ [x]). rewrite app_assoc, <- E. reflexivity.
  - exists []. rewrite app_nil_r. reflexivity.
Qed.

(* ---- a successful climb consumes a well-formed item list ---- *)
Definition round_top (D : list bkind) : bool := match D with BRound :: _ => true | _ => false end.
Definition sep_okb (d : definition) (D : list bkind) : bool := negb (is_sep_def d && round_top D).

Fixpoint wf_items (its : list item) (after : bool) (depth : list bkind) : bool :=
  match its with
  | [] => after && match depth with [] => true | _ => false end
  | it :: r =>
    match it with
    | IValue _ _ => negb after && wf_items r true depth
    | IPrefix _ _ => negb after && wf_items r false depth
    | IOpen b _ => negb after && wf_items r false (b :: depth)
    | IBinary d _ => after && sep_okb d depth && wf_items r false depth
    | ISuffix _ _ => after && wf_items r true depth
    | IClose b _ => after && match depth with b' :: d => bkind_eqb b' b && wf_items r true d | [] => false end
    end
  end.

Definition is_some {A} (o : option A) : bool := match o with Some _ => true | None => false end.

(* prefix operators bind tighter than the separator *)
Definition pre_small (it : item) : bool :=
  match it with
  | IPrefix d _ => match ref_rank d with Some p => N.leb p ROUND_LIMIT | None => true end
  | _ => true
  end.

Lemma climb_rest_forall (P : item -> bool) : forall f q acc its t rest,
  climb f q acc its = Some (t, rest) -> forallb P its = true -> forallb P rest = true.
Proof.
  induction f as [|f IH]; intros q acc its t rest H HP; [discriminate|].
  destruct acc as [lhs|]; cbn [climb] in H.
  - destruct its as [|it r]; [injection H as <- <-; exact HP|].
    assert (HPr : forallb P r = true) by (cbn [forallb] in HP; apply andb_true_iff in HP; apply HP).
    destruct it as [d k|d k|d k|d k|b k|b k]; try (injection H as <- <-; exact HP).
    + destruct (inside d q); [|injection H as <- <-; exact HP]. exact (IH _ _ _ _ _ H HPr).
    + destruct (inside d q); [|injection H as <- <-; exact HP].
      destruct (ref_rank d) as [p|]; [|discriminate].
      destruct (climb f p None r) as [[rhs r']|] eqn:E1; [|discriminate].
      exact (IH _ _ _ _ _ H (IH _ _ _ _ _ E1 HPr)).
  - destruct its as [|it r]; [discriminate|].
    assert (HPr : forallb P r = true) by (cbn [forallb] in HP; apply andb_true_iff in HP; apply HP).
    destruct it as [d k|d k|d k|d k|b k|b k]; try discriminate.
    + exact (IH _ _ _ _ _ H HPr).
    + destruct (ref_rank d) as [p|]; [|discriminate].
      destruct (climb f p None r) as [[arg r']|] eqn:E1; [|discriminate].
      exact (IH _ _ _ _ _ H (IH _ _ _ _ _ E1 HPr)).
    + destruct (climb f (blimit b) None r) as [[inner [|c r']]|] eqn:E1; try discriminate.
      destruct c as [d0 k0|d0 k0|d0 k0|d0 k0|b0 k0|b0 k0]; try discriminate.
      destruct (bkind_eqb b b0); [|discriminate H].
      pose proof (IH _ _ _ _ _ E1 HPr) as HP1. cbn [forallb] in HP1. apply andb_true_iff in HP1.
      exact (IH _ _ _ _ _ H (proj2 HP1)).
Qed.

Definition qok (q : N) (D : list bkind) : Prop := round_top D = true -> (q <= ROUND_LIMIT)%N.

Lemma inside_le d q p : inside d q = true -> ref_rank d = Some p -> (p <= q)%N.
Proof.
  unfold inside. intros H E. rewrite E in H. apply orb_true_iff in H. destruct H as [H|H].
  - apply N.ltb_lt in H. apply N.lt_le_incl. exact H.
  - apply andb_true_iff in H. destruct H as [H _]. apply N.eqb_eq in H. subst q. apply N.le_refl.
Qed.

Lemma sep_not_inside d q D : qok q D -> inside d q = true -> sep_okb d D = true.
Proof.
  intros Hq Hi. unfold sep_okb. destruct (is_sep_def d) eqn:Es; [|reflexivity]. cbn [andb].
  destruct (round_top D) eqn:Er; [|reflexivity]. exfalso. specialize (Hq Er).
  assert (d = D_ExpressionSeparator) by (destruct d; try discriminate Es; reflexivity). subst d.
  pose proof (inside_le _ _ 990%N Hi eq_refl) as L. unfold ROUND_LIMIT in Hq.
  apply (N.le_trans _ _ _ L) in Hq. apply Hq. reflexivity.
Qed.

Lemma climb_wf : forall f q acc its t rest,
  climb f q acc its = Some (t, rest) -> forallb pre_small its = true ->
  forall D, qok q D -> wf_items rest true D = true -> wf_items its (is_some acc) D = true.
Proof.
  induction f as [|f IH]; intros q acc its t rest H HP D Hq Hr; [discriminate|].
  destruct acc as [lhs|]; cbn [climb is_some] in *.
  - destruct its as [|it r]; [injection H as <- <-; exact Hr|].
    assert (HPr : forallb pre_small r = true) by (cbn [forallb] in HP; apply andb_true_iff in HP; apply HP).
    destruct it as [d k|d k|d k|d k|b k|b k]; try (injection H as <- <-; exact Hr).
    + destruct (inside d q); [|injection H as <- <-; exact Hr].
      cbn [wf_items andb]. exact (IH _ _ _ _ _ H HPr D Hq Hr).
    + destruct (inside d q) eqn:Ei; [|injection H as <- <-; exact Hr].
      destruct (ref_rank d) as [p|] eqn:Ep; [|discriminate].
      destruct (climb f p None r) as [[rhs r']|] eqn:E1; [|discriminate].
      cbn [wf_items andb]. rewrite (sep_not_inside d q D Hq Ei). cbn [andb].
      apply (IH _ _ _ _ _ E1 HPr D).
      * intros Hrt. eapply N.le_trans; [exact (inside_le _ _ _ Ei Ep)|exact (Hq Hrt)].
      * exact (IH _ _ _ _ _ H (climb_rest_forall _ _ _ _ _ _ _ E1 HPr) D Hq Hr).
  - destruct its as [|it r]; [discriminate|].
    assert (HPr : forallb pre_small r = true) by (cbn [forallb] in HP; apply andb_true_iff in HP; apply HP).
    destruct it as [d k|d k|d k|d k|b k|b k]; try discriminate.
    + cbn [wf_items negb andb]. exact (IH _ _ _ _ _ H HPr D Hq Hr).
    + destruct (ref_rank d) as [p|] eqn:Ep; [|discriminate].
      destruct (climb f p None r) as [[arg r']|] eqn:E1; [|discriminate].
      cbn [wf_items negb andb]. apply (IH _ _ _ _ _ E1 HPr D).
      * intros _. cbn [forallb pre_small] in HP. rewrite Ep in HP. apply andb_true_iff in HP. apply N.leb_le. apply HP.
      * exact (IH _ _ _ _ _ H (climb_rest_forall _ _ _ _ _ _ _ E1 HPr) D Hq Hr).
    + destruct (climb f (blimit b) None r) as [[inner [|c r']]|] eqn:E1; try discriminate.
      destruct c as [d0 k0|d0 k0|d0 k0|d0 k0|b0 k0|b0 k0]; try discriminate.
      destruct (bkind_eqb b b0) eqn:Eb; [|discriminate H].
      cbn [wf_items negb andb]. apply (IH _ _ _ _ _ E1 HPr (b :: D)).
      * intros Hrt. destruct b; [apply N.le_refl|discriminate Hrt].
      * cbn [wf_items andb]. rewrite Eb. cbn [andb].
        pose proof (climb_rest_forall _ _ _ _ _ _ _ E1 HPr) as HP1. cbn [forallb] in HP1. apply andb_true_iff in HP1.
        exact (IH _ _ _ _ _ H (proj2 HP1) D Hq Hr).
Qed.

Lemma tok_pre_small t : match ref_kind t with
                         | KPrefix => match ref_rank (ref_def t) with Some p => N.leb p ROUND_LIMIT | None => true end
                         | _ => true end = true.
Proof. destruct t; reflexivity. Qed.

Lemma items_of_pre_small : forall l i prev sp its, items_of l i prev sp = Some its -> forallb pre_small its = true.
Proof.
  induction l as [|t r IH]; intros i prev sp its H; [injection H as <-; reflexivity|].
  cbn [items_of] in H. pose proof (tok_pre_small t) as Ht.
  assert (Hlead : forallb pre_small
                    (match prev with
                     | Some p => if sp && ends_value_k p && starts_value_k (ref_kind t) then [IBinary D_List None] else []
                     | None => [] end) = true).
  { destruct prev as [p|]; [|reflexivity]. destruct (sp && ends_value_k p && _); reflexivity. }
  destruct (ref_kind t) eqn:Ek; try discriminate H; try (eapply IH; exact H);
    (destruct (items_of r (S i) _ false) as [rest|] eqn:E; [|discriminate H]; injection H as <-;
     cbn [starts_value_k] in Hlead; rewrite forallb_app, Hlead; cbn [forallb andb]; rewrite (IH _ _ _ _ E), andb_true_r;
     first [reflexivity | exact Ht]).
Qed.

(* ---- a well-formed item list comes from a well-formed token list ---- *)
Fixpoint opexpr_loose (toks : list token_type) (after spaced : bool) (depth : list bkind) : bool :=
  match toks with
  | [] => after && match depth with [] => true | _ => false end
  | t :: r =>
    match ref_kind t with
    | KSpace => opexpr_loose r after true depth
    | KValue => (negb after || spaced) && opexpr_loose r true false depth
    | KPrefix => (negb after || spaced) && opexpr_loose r false false depth
    | KOpen b => (negb after || spaced) && opexpr_loose r false false (b :: depth)
    | KBinary => after && negb (sep_tok t && match depth with BRound :: _ => true | _ => false end)
                 && opexpr_loose r false false depth
    | KSuffix => after && opexpr_loose r true false depth
    | KClose b => after && match depth with b' :: d => bkind_eqb b' b && opexpr_loose r true false d | [] => false end
    | KOther => false
    end
  end.

Lemma lead_eq after prev sp k : prev_ok after prev ->
  match prev with
  | Some p => if sp && ends_value_k p && starts_value_k k then [IBinary D_List None] else []
  | None => []
  end = if after && sp && starts_value_k k then [IBinary D_List None] else [].
Proof.
  intros H. destruct prev as [p|]; simpl in H.
  - rewrite H. destruct after, sp; reflexivity.
  - subst after. reflexivity.
Qed.

Lemma items_tokens_wf : forall toks i prev sp its after depth,
  items_of toks i prev sp = Some its -> prev_ok after prev -> wf_items its after depth = true ->
  opexpr_loose toks after sp depth = true.
Proof.
  induction toks as [|t r IH]; intros i prev sp its after depth H Hp Hw.
  - injection H as <-. exact Hw.
  - cbn [items_of] in H. cbn [opexpr_loose].
    destruct (ref_kind t) eqn:Ek; try discriminate H.
    + (* value *)
      destruct (items_of r (S i) (Some KValue) false) as [rest|] eqn:E; [|discriminate H]. injection H as <-.
      pose proof (lead_eq after prev sp KValue Hp) as Hl; cbn [starts_value_k] in Hl; rewrite Hl in Hw; clear Hl.
      destruct after, sp; cbn [andb app wf_items negb orb] in Hw |- *; try discriminate Hw;
        (eapply IH; [exact E|reflexivity|exact Hw]).
    + (* binary *)
      destruct (items_of r (S i) (Some KBinary) false) as [rest|] eqn:E; [|discriminate H]. injection H as <-.
      pose proof (lead_eq after prev sp KBinary Hp) as Hl; cbn [starts_value_k] in Hl; rewrite Hl in Hw; clear Hl.
      rewrite andb_false_r in Hw. cbn [app wf_items] in Hw. apply andb_true_iff in Hw. destruct Hw as [Hw0 Hw].
      apply andb_true_iff in Hw0. destruct Hw0 as [-> Hsk]. unfold sep_okb, round_top in Hsk.
      unfold sep_tok. rewrite Ek, Hsk. cbn [andb]. eapply IH; [exact E|reflexivity|exact Hw].
    + (* prefix *)
      destruct (items_of r (S i) (Some KPrefix) false) as [rest|] eqn:E; [|discriminate H]. injection H as <-.
      pose proof (lead_eq after prev sp KPrefix Hp) as Hl; cbn [starts_value_k] in Hl; rewrite Hl in Hw; clear Hl.
      destruct after, sp; cbn [andb app wf_items negb orb] in Hw |- *; try discriminate Hw;
        (eapply IH; [exact E|reflexivity|exact Hw]).
    + (* suffix *)
      destruct (items_of r (S i) (Some KSuffix) false) as [rest|] eqn:E; [|discriminate H]. injection H as <-.
      pose proof (lead_eq after prev sp KSuffix Hp) as Hl; cbn [starts_value_k] in Hl; rewrite Hl in Hw; clear Hl.
      rewrite andb_false_r in Hw. cbn [app wf_items] in Hw. apply andb_true_iff in Hw. destruct Hw as [-> Hw].
      cbn [andb]. eapply IH; [exact E|reflexivity|exact Hw].
    + (* open *)
      destruct (items_of r (S i) (Some (KOpen b)) false) as [rest|] eqn:E; [|discriminate H]. injection H as <-.
      pose proof (lead_eq after prev sp (KOpen b) Hp) as Hl; cbn [starts_value_k] in Hl; rewrite Hl in Hw; clear Hl.
      destruct after, sp; cbn [andb app wf_items negb orb] in Hw |- *; try discriminate Hw;
        (eapply IH; [exact E|reflexivity|exact Hw]).
    + (* close *)
      destruct (items_of r (S i) (Some (KClose b)) false) as [rest|] eqn:E; [|discriminate H]. injection H as <-.
      pose proof (lead_eq after prev sp (KClose b) Hp) as Hl; cbn [starts_value_k] in Hl; rewrite Hl in Hw; clear Hl.
      rewrite andb_false_r in Hw. cbn [app wf_items] in Hw. apply andb_true_iff in Hw. destruct Hw as [-> Hw].
      cbn [andb]. destruct depth as [|b' d]; [discriminate Hw|]. apply andb_true_iff in Hw. destruct Hw as [Hb Hw].
      rewrite Hb. cbn [andb]. eapply IH; [exact E|reflexivity|exact Hw].
    + (* whitespace *)
      eapply IH; [exact H|exact Hp|exact Hw].
Qed.

Lemma space_is_trim t : is_space_tok t = true -> is_trim t = true.
Proof. destruct t; intros H; try discriminate H; reflexivity. Qed.

Lemma opexpr_strict : forall toks after sp depth,
  opexpr_loose toks after sp depth = true ->
  (toks = [] -> sp = false) ->
  (forall r0 x, toks = r0 ++ [x] -> is_trim x = false) ->
  opexpr_from toks after sp depth = true.
Proof.
  induction toks as [|t r IH]; intros after sp depth H Hnil Hlast.
  - cbn [opexpr_loose opexpr_from] in *. rewrite (Hnil eq_refl). cbn [negb]. rewrite andb_true_r. exact H.
  - assert (Hlast' : forall r0 x, r = r0 ++ [x] -> is_trim x = false).
    { intros r0 x E. apply (Hlast (t :: r0) x). rewrite E. reflexivity. }
    assert (Hsp : r = [] -> is_space_tok t = false).
    { intros ->. destruct (is_space_tok t) eqn:E; [|reflexivity].
      pose proof (space_is_trim t E) as X. rewrite (Hlast [] t eq_refl) in X. discriminate X. }
    cbn [opexpr_loose opexpr_from] in *. unfold is_space_tok in Hsp.
    destruct (ref_kind t) eqn:Ek; try discriminate H.
    + apply andb_true_iff in H. destruct H as [-> H]. cbn [andb]. apply IH; auto.
    + apply andb_true_iff in H. destruct H as [-> H]. cbn [andb]. apply IH; auto.
    + apply andb_true_iff in H. destruct H as [-> H]. cbn [andb]. apply IH; auto.
    + apply andb_true_iff in H. destruct H as [-> H]. cbn [andb]. apply IH; auto.
    + apply andb_true_iff in H. destruct H as [-> H]. cbn [andb]. apply IH; auto.
    + apply andb_true_iff in H. destruct H as [-> H]. cbn [andb]. destruct depth; [discriminate H|].
      apply andb_true_iff in H. destruct H as [-> H]. cbn [andb]. apply IH; auto.
    + apply IH; auto.
Qed.

(* ---- the full statement ---- *)
(* whenever the reference is defined: the trimmed token list is an operator expression,
   and the reference tree is that of the trimmed list with shifted token indices *)
Lemma pratt_trimmed (toks : list token_type) T :
  pratt toks = Some T ->
  exists T0, operator_expression (snd (trim_tokens toks)) = true /\
             pratt (snd (trim_tokens toks)) = Some T0 /\
             T = shift_rtree (fst (trim_tokens toks)) T0.
Proof.
  intros Hpr.
  unfold pratt in Hpr. destruct (items_of toks 0 None false) as [its|] eqn:Hits; [|discriminate].
  destruct (climb (4 * length its + 8) INF None its) as [[T1 [|c rc]]|] eqn:Hcl; try discriminate.
  injection Hpr as ->.
  pose proof (items_of_fragment _ _ _ _ _ Hits) as Hfrag.
  set (l1 := drop_while_trim toks). set (a := length toks - length l1). set (mid := strip_back l1).
  assert (Htrim : trim_tokens toks = (a, mid)) by reflexivity. rewrite Htrim. cbn [fst snd].
  pose proof (drop_while_trim_fragment _ Hfrag) as Hfrag1. fold l1 in Hfrag1.
  assert (Hmid : items_of mid a None false = Some its).
  { unfold mid. rewrite (items_of_strip_back l1 a None false Hfrag1).
    rewrite (items_of_drop_front toks 0 false Hfrag) in Hits. exact Hits. }
  change a with (0 + a) in Hmid. rewrite items_of_shift in Hmid.
  destruct (items_of mid 0 None false) as [its0|] eqn:Hits0; [|discriminate Hmid].
  cbn [option_map] in Hmid. injection Hmid as <-.
  pose proof (climb_shift a (4 * length (map (shift_item a) its0) + 8) INF None its0) as Ecs.
  cbn [option_map] in Ecs. rewrite Ecs in Hcl. clear Ecs. rewrite map_length in Hcl.
  destruct (climb (4 * length its0 + 8) INF None its0) as [[T0 r0]|] eqn:Hcl0; [|discriminate Hcl].
  cbn [option_map shift_res fst snd] in Hcl. injection Hcl as <- Hr0.
  destruct r0; [|discriminate Hr0].
  pose proof (climb_wf _ _ _ _ _ _ Hcl0 (items_of_pre_small _ _ _ _ _ Hits0) [] (fun H => ltac:(discriminate H)) eq_refl) as Hwf. cbn [is_some] in Hwf.
  pose proof (items_tokens_wf mid 0 None false its0 false [] Hits0 eq_refl Hwf) as Hloose.
  assert (Hne : mid <> []).
  { intros E. rewrite E in Hits0. injection Hits0 as <-. discriminate Hwf. }
  exists T0. split; [|split; [|reflexivity]].
  - destruct (strip_back_last l1) as [E|(r1 & x & E & Hx)]; [fold mid in E; congruence|]. fold mid in E.
    destruct mid as [|v rest] eqn:Em; [congruence|]. unfold operator_expression.
    apply andb_true_iff. split.
    + destruct (strip_back_prefix l1) as [sfx Es]. fold mid in Es. rewrite Em in Es.
      pose proof (drop_while_trim_head toks) as Hh. fold l1 in Hh. rewrite Es in Hh. cbn [app] in Hh.
      apply negb_true_iff. destruct (is_space_tok v) eqn:Ev; [|reflexivity].
      rewrite (space_is_trim v Ev) in Hh. discriminate Hh.
    + apply opexpr_strict; [exact Hloose|discriminate|].
      intros r2 y Ey. rewrite E in Ey. apply app_inj_tail in Ey. destruct Ey as [_ <-]. exact Hx.
  - unfold pratt. rewrite Hits0, Hcl0. reflexivity.
Qed.

(* ... and parse returns the index-carrying tree of the trimmed list *)
Lemma pratt_parse (toks : list token_type) T :
  pratt toks = Some T ->
  exists Tn ns its,
    items_of (snd (trim_tokens toks)) 0 None false = Some its /\ Forall item_ranked its /\
    spine_insert its = Some Tn /\
    parse toks = Ok (nid Tn, ns) /\ denotes ns None Tn /\ ordered Tn /\ lo Tn = 0 /\
    (forall j, j < length ns -> has_id Tn j) /\
    T = shift_rtree (fst (trim_tokens toks)) (erase Tn).
Proof.
  intros Hpr. destruct (pratt_trimmed toks T Hpr) as (T0 & Hop & Hpr0 & ->).
  destruct (opexpr_parse_strong _ Hop) as (Tn & ns & its & Hitems & Hrk & Hins & Hp & DT & OT & LoT & CovT).
  exists Tn, ns, its. repeat split; try assumption.
  f_equal. unfold pratt in Hpr0. rewrite Hitems in Hpr0.
  rewrite (spine_insert_climb _ Tn _ Hrk Hins) in Hpr0 by lia. injection Hpr0 as <-. reflexivity.
Qed.

Theorem c02_full (toks : list token_type) : c02_agree toks = true.
Proof.
  unfold c02_agree. destruct (pratt toks) as [T|] eqn:Hpr; [|reflexivity].
  destruct (pratt_parse toks T Hpr) as (Tn & ns & its & _ & _ & _ & Hp & DT & OT & _ & _ & ->).
  rewrite Hp.
  pose proof (ordered_size Tn OT) as Hsz.
  assert (Hhi : hi Tn < length ns) by (eapply denotes_lt; [exact DT|apply has_id_hi]).
  rewrite (tree_of_denotes_off ns _ Tn None _ DT) by lia.
  apply rtree_eqb_refl.
Qed.
