(* Source text of an AST.  The printer produces the TOKENS of the text (type
   and spelling, white space included); the text is their concatenation.
   Operator spellings come from Gen/Tokens.v and priorities from Gen/Defs.v
   (both regenerated from the Rust source on every check), so the printer
   follows the operator table the implementation has now.

   Parentheses: the printer itself never adds any.  [paren_ok e] says that
   every operand of e binds tightly enough to stand where it stands;
   [parenthesize e] wraps exactly the operands that do not in an EGroup
   (minimal parentheses); [full_paren e] wraps every operand that can be
   wrapped without changing what the program means. *)
From Coq Require Import ZArith NArith List Bool.
From GV Require Import Gen.TokenTypes Gen.Tokens Gen.Defs Spec.Ast.
Import ListNotations.

Definition ptok : Type := (token_type * list N)%type.

(* ---- spellings ---- *)
Definition spelling (t : token_type) : list N :=
  match find (fun p => token_type_eqb (snd p) t) operator_spellings with
  | Some (s, _) => s
  | None => []
  end.
Definition op_tok (t : token_type) : ptok := (t, spelling t).
Definition ws : ptok := (TT_Whitespace, [32%N]).
Definition blank_line : ptok := (TT_Subexpression, [10%N; 10%N]).

(* decimal digits of n, most significant first *)
Fixpoint digits_fuel (fuel : nat) (n : N) (acc : list N) : list N :=
  match fuel with
  | O => acc
  | S f =>
      let d := (48 + n mod 10)%N in
      let q := (n / 10)%N in
      if (q =? 0)%N then d :: acc else digits_fuel f q (d :: acc)
  end.
Definition digits (n : N) : list N := digits_fuel (S (N.to_nat (N.log2 n))) n [].

Fixpoint pad_left_aux (z : nat) (l : list N) : list N :=
  match z with O => l | S z' => 48%N :: pad_left_aux z' l end.

Definition float_text (m : N) (k : nat) : list N :=
  let p := (10 ^ N.of_nat k)%N in
  digits (m / p) ++ [46%N] ++ pad_left_aux (k - length (digits (m mod p))) (digits (m mod p)).

Definition lit_tok (l : lit) : ptok :=
  match l with
  | LInt n => (TT_Number, digits n)
  | LFloat m k => (TT_Number, float_text m k)
  | LStr cs => (TT_CharList, [34%N] ++ cs ++ [34%N])
  | LSym name => (TT_Symbol, 58%N :: name)
  | LProp name => (TT_Identifier, name)
  | LUnit => op_tok TT_UnitLiteral
  | LTrue => op_tok TT_True
  | LFalse => op_tok TT_False
  end.

Definition unop_tt (o : unop) : token_type :=
  match o with
  | UAbs => TT_AbsoluteValue | UNeg => TT_Opposite | UBitNot => TT_BitwiseNot
  | UNot => TT_Not | UTis => TT_Tis | ULeft => TT_LeftInternal
  | URight => TT_RightInternal | ULen => TT_LengthInternal | UEmptyApply => TT_EmptyApply
  end.
Definition binop_tt (o : binop) : token_type :=
  match o with
  | BAdd => TT_PlusSign | BSub => TT_Subtraction | BMul => TT_MultiplicationSign
  | BDiv => TT_Division | BIntDiv => TT_IntegerDivision | BPow => TT_ExponentialSign
  | BRem => TT_Remainder
  | BBitAnd => TT_BitwiseAnd | BBitOr => TT_BitwiseOr | BBitXor => TT_BitwiseXor
  | BShl => TT_BitwiseLeftShift | BShr => TT_BitwiseRightShift
  | BLt => TT_LessThan | BLe => TT_LessThanOrEqual | BGt => TT_GreaterThan | BGe => TT_GreaterThanOrEqual
  | BEq => TT_Equality | BNe => TT_Inequality
  | BXor => TT_Xor | BPair => TT_Pair | BAccess => TT_Period
  | BApply => TT_Apply | BApplyTo => TT_ApplyTo
  end.
Definition cond_tt (neg : bool) : token_type := if neg then TT_JumpIfFalse else TT_JumpIfTrue.

(* ---- the tokens of an expression ----
   [aprint] also says which literal a token spells (the builder turns exactly
   these tokens into data operands); [print] forgets that. *)
Definition atok : Type := (ptok * option lit)%type.
Definition plain (t : ptok) : atok := (t, None).
Definition aop (t : token_type) : atok := plain (op_tok t).
Definition aws : atok := plain ws.

Fixpoint aprint (e : expr) : list atok :=
  match e with
  | ELit l => [(lit_tok l, Some l)]
  | EValue => [aop TT_Value]
  | EIdent name => [((TT_Identifier, name), Some (LProp name))]
  | EUn o x =>
      if is_prefix o then aop (unop_tt o) :: aws :: aprint x
      else aprint x ++ [aws; aop (unop_tt o)]
  | EBin o l r => aprint l ++ [aws; aop (binop_tt o); aws] ++ aprint r
  | EAnd l r => aprint l ++ [aws; aop TT_And; aws] ++ aprint r
  | EOr l r => aprint l ++ [aws; aop TT_Or; aws] ++ aprint r
  | EList Space l r => aprint l ++ [aws] ++ aprint r
  | EList Comma l r => aprint l ++ [aws; aop TT_Comma; aws] ++ aprint r
  | EGroup x => aop TT_StartGroup :: aprint x ++ [aop TT_EndGroup]
  | ECond neg c a => aprint c ++ [aws; aop (cond_tt neg); aws] ++ aprint a
  | EElse l r => aprint l ++ [aws; aop TT_ElseJump; aws] ++ aprint r
  | ESeq Semi l r => aprint l ++ [aws; aop TT_ExpressionSeparator; aws] ++ aprint r
  | ESeq Blank l r => aprint l ++ [plain blank_line] ++ aprint r
  | ESide a s => aprint a ++ [aws; aop TT_StartSideEffect] ++ aprint s ++ [aop TT_EndSideEffect]
  | ENested _ b => aop TT_StartExpression :: aws :: aprint b ++ [aws; aop TT_EndExpression]
  | EReapply x => aop TT_Reapply :: aws :: aprint x
  end.

Definition print (e : expr) : list ptok := map fst (aprint e).

Definition text_of (toks : list ptok) : list N := flat_map snd toks.
Definition print_text (e : expr) : list N := text_of (print e).

(* ---- priorities (from the generated table) ---- *)
Definition head_tt (e : expr) : option token_type :=
  match e with
  | ELit l => Some (fst (lit_tok l))
  | EValue => Some TT_Value
  | EIdent _ => Some TT_Identifier
  | EUn o _ => Some (unop_tt o)
  | EBin o _ _ => Some (binop_tt o)
  | EAnd _ _ => Some TT_And
  | EOr _ _ => Some TT_Or
  | EList Space _ _ => None                 (* the list node the parser makes up: D_List *)
  | EList Comma _ _ => Some TT_Comma
  | EGroup _ => Some TT_StartGroup
  | ECond neg _ _ => Some (cond_tt neg)
  | EElse _ _ => Some TT_ElseJump
  | ESeq Semi _ _ => Some TT_ExpressionSeparator
  | ESeq Blank _ _ => Some TT_Subexpression
  | ESide a _ => Some TT_Value              (* an atom carrying a block: binds like the atom *)
  | ENested _ _ => Some TT_StartExpression
  | EReapply _ => Some TT_Reapply
  end.
Definition def_of (e : expr) : definition :=
  match head_tt e with
  | Some t => fst (get_definition t)
  | None => D_List
  end.
Definition prio (e : expr) : N :=
  match priority (def_of e) with Some p => p | None => 0%N end.

Definition is_prefix_expr (e : expr) : bool :=
  match e with
  | EUn o _ => is_prefix o
  | EReapply _ => true
  | _ => false
  end.

(* may [c] stand, without parentheses, as the operand of ... *)
Definition ok_left_ltr (p : N) (c : expr) : bool := (prio c <=? p)%N.
Definition ok_right_ltr (p : N) (c : expr) : bool := (prio c <? p)%N.
Definition ok_left_rtl (p : N) (c : expr) : bool := (prio c <? p)%N.
Definition ok_right_rtl (p : N) (c : expr) : bool := (prio c <=? p)%N.
Definition ok_prefix (p : N) (c : expr) : bool :=
  (prio c <? p)%N || ((prio c =? p)%N && is_prefix_expr c).
Definition ok_suffix (p : N) (c : expr) : bool := (prio c <=? p)%N.

Definition is_rtl (e : expr) : bool := match e with EBin BPair _ _ => true | _ => false end.

(* the two operands of a binary node, if it is one *)
Definition ok_children (e : expr) : bool :=
  let p := prio e in
  match e with
  | EUn o x => if is_prefix o then ok_prefix p x else ok_suffix p x
  | EReapply x => ok_prefix p x
  | EBin BPair l r => ok_left_rtl p l && ok_right_rtl p r
  | EBin _ l r | EAnd l r | EOr l r | EList _ l r | ECond _ l r | EElse l r | ESeq _ l r =>
      ok_left_ltr p l && ok_right_ltr p r
  | _ => true
  end.

Fixpoint paren_ok (e : expr) : bool :=
  ok_children e &&
  match e with
  | ELit _ | EValue | EIdent _ => true
  | EUn _ x | EGroup x | ENested _ x | EReapply x => paren_ok x
  | EBin _ l r | EAnd l r | EOr l r | EList _ l r | ECond _ l r | EElse l r | ESeq _ l r | ESide l r =>
      paren_ok l && paren_ok r
  end.

(* a program the printer prints faithfully *)
Definition printable (e : expr) : bool := wf_prog e && paren_ok e.

(* ---- inserting the parentheses that are needed, and no others ---- *)
Definition wrap (ok : bool) (c : expr) : expr := if ok then c else EGroup c.

Fixpoint parenthesize (e : expr) : expr :=
  match e with
  | ELit _ | EValue | EIdent _ => e
  | EUn o x =>
      let x' := parenthesize x in
      let p := prio e in
      EUn o (wrap (if is_prefix o then ok_prefix p x' else ok_suffix p x') x')
  | EReapply x =>
      let x' := parenthesize x in EReapply (wrap (ok_prefix (prio e) x') x')
  | EBin BPair l r =>
      let l' := parenthesize l in let r' := parenthesize r in let p := prio e in
      EBin BPair (wrap (ok_left_rtl p l') l') (wrap (ok_right_rtl p r') r')
  | EBin o l r =>
      let l' := parenthesize l in let r' := parenthesize r in let p := prio e in
      EBin o (wrap (ok_left_ltr p l') l') (wrap (ok_right_ltr p r') r')
  | EAnd l r =>
      let l' := parenthesize l in let r' := parenthesize r in let p := prio e in
      EAnd (wrap (ok_left_ltr p l') l') (wrap (ok_right_ltr p r') r')
  | EOr l r =>
      let l' := parenthesize l in let r' := parenthesize r in let p := prio e in
      EOr (wrap (ok_left_ltr p l') l') (wrap (ok_right_ltr p r') r')
  | EList k l r =>
      let l' := parenthesize l in let r' := parenthesize r in let p := prio e in
      EList k (wrap (ok_left_ltr p l') l') (wrap (ok_right_ltr p r') r')
  | ECond n l r =>
      let l' := parenthesize l in let r' := parenthesize r in let p := prio e in
      ECond n (wrap (ok_left_ltr p l') l') (wrap (ok_right_ltr p r') r')
  | EElse l r =>
      let l' := parenthesize l in let r' := parenthesize r in let p := prio e in
      EElse (wrap (ok_left_ltr p l') l') (wrap (ok_right_ltr p r') r')
  | ESeq s l r => ESeq s (parenthesize l) (parenthesize r)   (* a sequence cannot be grouped *)
  | EGroup x => EGroup (parenthesize x)
  | ESide a s => ESide a (parenthesize s)
  | ENested lbl b => ENested lbl (parenthesize b)
  end.

(* ---- the fully parenthesised variant: every operand of an operator, a
   conditional or a list that is not an atom already is grouped, except where a
   group would change the meaning: the left operand of a list of the same
   kind (a group starts a new list) and the items of an else-chain. ---- *)
Definition grp (c : expr) : expr :=
  match c with
  | ELit _ | EValue | EIdent _ | EGroup _ | ENested _ _ | ESide _ _ => c
  | _ => EGroup c
  end.

Fixpoint full_paren (e : expr) : expr :=
  match e with
  | ELit _ | EValue | EIdent _ => e
  | EUn o x => EUn o (grp (full_paren x))
  | EReapply x => EReapply (grp (full_paren x))
  | EBin o l r => EBin o (grp (full_paren l)) (grp (full_paren r))
  | EAnd l r => EAnd (grp (full_paren l)) (grp (full_paren r))
  | EOr l r => EOr (grp (full_paren l)) (grp (full_paren r))
  | EList k l r =>
      EList k (if is_list_of k l then full_paren l else grp (full_paren l)) (grp (full_paren r))
  | ECond n c a => ECond n (grp (full_paren c)) (grp (full_paren a))
  | EElse l r =>
      EElse (full_paren l) (if is_cond r then full_paren r else grp (full_paren r))
  | ESeq s l r => ESeq s (full_paren l) (full_paren r)
  | EGroup x => EGroup (full_paren x)
  | ESide a s => ESide a (full_paren s)
  | ENested lbl b => ENested lbl (full_paren b)
  end.
