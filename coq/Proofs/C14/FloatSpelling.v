(* Every finite positive binary64 has a decimal-fraction spelling that
   evaluates back to it: m * 2^e is the decimal number n / 10^k of
   Spec.LitDenote.dyadic_decimal, its digits parse to (n, -k), and the
   correctly rounded conversion of a representable number is that number. *)
From Coq Require Import ZArith NArith List Bool Lia Reals Psatz SpecFloat.
From Flocq Require Import Core IEEE754.BinarySingleNaN IEEE754.Binary IEEE754.Bits.
From GV Require Import Base.Result Model.Num Model.Literals Spec.LitDenote
  Proofs.C14.StrLemmas Proofs.C14.Digits Proofs.C14.ByteList Proofs.C14.DecFloat Proofs.C14.FloatLiteral.
Import ListNotations.
Local Open Scope N_scope.

(* ---- fixed-width digits ---- *)
Lemma fixed_digits_shape : forall k v acc, fixed_digits k v acc = fixed_digits k v [] ++ acc.
Proof.
  induction k as [|k IH]; intros v acc; [reflexivity|].
  cbn [fixed_digits]. rewrite IH. rewrite (IH (v / 10) [digit_char (v mod 10)]).
  rewrite <- app_assoc. reflexivity.
Qed.

Lemma fixed_digits_step : forall k v,
  fixed_digits (S k) v [] = fixed_digits k (v / 10) [] ++ [digit_char (v mod 10)].
Proof. intros k v. cbn [fixed_digits]. apply fixed_digits_shape. Qed.

Lemma fixed_digits_length : forall k v, length (fixed_digits k v []) = k.
Proof.
  induction k as [|k IH]; intros v; [reflexivity|].
  rewrite fixed_digits_step, app_length, IH. cbn [length]. lia.
Qed.

Lemma fixed_digits_valid : forall k v, forallb (is_digit_of 10) (fixed_digits k v []) = true.
Proof.
  induction k as [|k IH]; intros v; [reflexivity|].
  rewrite fixed_digits_step, forallb_app, IH. cbn [forallb].
  rewrite digit_char_is_digit; [reflexivity | apply N.mod_lt; lia | lia].
Qed.

Lemma fixed_digits_value : forall k v a,
  fold_left (radix_step 10) (fixed_digits k v []) a = a * 10 ^ N.of_nat k + v mod 10 ^ N.of_nat k.
Proof.
  induction k as [|k IH]; intros v a.
  - cbn [fixed_digits fold_left]. change (10 ^ N.of_nat 0) with 1. rewrite N.mod_1_r. lia.
  - rewrite fixed_digits_step, fold_left_app. cbn [fold_left]. rewrite IH.
    unfold radix_step. rewrite digit_value_char by (assert (v mod 10 < 10) by (apply N.mod_lt; lia); lia).
    rewrite Nat2N.inj_succ, N.pow_succ_r'.
    rewrite (N.mod_mul_r v 10 (10 ^ N.of_nat k)) by (try apply N.pow_nonzero; lia). lia.
Qed.

Lemma dyadic_digits_value : forall n k,
  radix_value 10 (dec_string (n / 10 ^ N.of_nat k) ++ fixed_digits k (n mod 10 ^ N.of_nat k) []) = n.
Proof.
  intros n k. unfold radix_value. rewrite fold_left_app.
  change (fold_left (radix_step 10) (dec_string (n / 10 ^ N.of_nat k)) 0)
    with (radix_value 10 (digits_of 10 (n / 10 ^ N.of_nat k))).
  rewrite digits_of_value by lia. rewrite fixed_digits_value.
  assert (Hp : 10 ^ N.of_nat k <> 0) by (apply N.pow_nonzero; lia).
  rewrite N.mod_mod by exact Hp. rewrite N.mul_comm. symmetry. apply N.div_mod. exact Hp.
Qed.

(* ---- the decimal number is the dyadic one ---- *)
Local Open Scope Z_scope.

Lemma dyadic_decimal_real : forall m e,
  let '(n, k) := dyadic_decimal m e in
  exists p, n = Npos p /\ (1 <= k)%nat /\
    dec_real false p (- Z.of_nat k) = F2R (Float radix2 (Zpos m) e).
Proof.
  intros m e. unfold dyadic_decimal. destruct (0 <=? e) eqn:E.
  - apply Z.leb_le in E.
    assert (Hn : (N.pos m * 2 ^ Z.to_N e * 10)%N = Z.to_N (Zpos m * 2 ^ e * 10)).
    { rewrite !Z2N.inj_mul, Z2N.inj_pow by (try apply Z.mul_nonneg_nonneg; try apply Z.pow_nonneg; lia). reflexivity. }
    assert (Hpos : 0 < Zpos m * 2 ^ e * 10) by (apply Z.mul_pos_pos; [apply Z.mul_pos_pos; [lia | apply Z.pow_pos_nonneg; lia] | lia]).
    destruct (Zpos m * 2 ^ e * 10) as [|p|p] eqn:Ep; try lia.
    exists p. split; [rewrite Hn; reflexivity|]. split; [lia|].
    unfold dec_real. change (0 <=? - Z.of_nat 1) with false. cbv iota.
    change (- - Z.of_nat 1) with 1. change (10 ^ 1) with 10. cbn [cond_Zopp].
    rewrite <- Ep. unfold F2R. cbn [Fnum Fexp]. rewrite <- (IZR_Zpower radix2 e) by exact E.
    change (Zpower radix2 e) with (2 ^ e). rewrite !mult_IZR. field.
  - apply Z.leb_gt in E. set (k := - e) in *. assert (Hk : 0 < k) by (unfold k; lia).
    assert (Hn : (N.pos m * 5 ^ Z.to_N k)%N = Z.to_N (Zpos m * 5 ^ k)).
    { rewrite Z2N.inj_mul, Z2N.inj_pow by (try apply Z.pow_nonneg; lia). reflexivity. }
    assert (Hpos : 0 < Zpos m * 5 ^ k) by (apply Z.mul_pos_pos; [lia | apply Z.pow_pos_nonneg; lia]).
    destruct (Zpos m * 5 ^ k) as [|p|p] eqn:Ep; try lia.
    exists p. split; [rewrite Hn; reflexivity|]. split; [lia|].
    unfold dec_real. rewrite Z2Nat.id by lia.
    replace (0 <=? - k) with false by (symmetry; apply Z.leb_gt; lia).
    rewrite Z.opp_involutive. cbn [cond_Zopp]. rewrite <- Ep.
    unfold F2R. cbn [Fnum Fexp]. replace e with (- k) by (unfold k; lia).
    rewrite bpow_opp. rewrite <- (IZR_Zpower radix2 k) by lia. change (Zpower radix2 k) with (2 ^ k).
    replace (10 ^ k) with (2 ^ k * 5 ^ k) by (rewrite <- Z.pow_mul_l; reflexivity).
    rewrite !mult_IZR.
    assert (H2 : IZR (2 ^ k) <> 0%R) by (apply IZR_neq; apply Z.pow_nonzero; lia).
    assert (H5 : IZR (5 ^ k) <> 0%R) by (apply IZR_neq; apply Z.pow_nonzero; lia).
    field. split; assumption.
Qed.

Theorem float_spelling_roundtrip : forall m e (H : SpecFloat.bounded 53 1024 m e = true),
  parse_simple_number parse_f64 (spell_dyadic m e) = Ok (Flt (Binary.B754_finite 53 1024 false m e H)).
Proof.
  intros m e H. set (f := Binary.B754_finite 53 1024 false m e H).
  unfold spell_dyadic. pose proof (dyadic_decimal_real m e) as Hd.
  destruct (dyadic_decimal m e) as [n k]. destruct Hd as [p [Hn [Hk Hreal]]].
  (* the text is read as (n, -k) *)
  rewrite float_literal_value.
  2:{ apply digits_of_valid; lia. }
  2:{ apply fixed_digits_valid. }
  rewrite dyadic_digits_value, fixed_digits_length, Hn.
  (* and converted to the nearest binary64, which is f itself *)
  pose proof (f64_of_decimal_total false p (- Z.of_nat k)) as Hc. cbv zeta in Hc.
  rewrite Hreal in Hc. change (F2R (Float radix2 (Zpos m) e)) with (Binary.B2R 53 1024 f) in Hc.
  assert (Hr : rnd64 (Binary.B2R 53 1024 f) = Binary.B2R 53 1024 f).
  { unfold rnd64. apply round_generic; [apply valid_rnd_N | apply Binary.generic_format_B2R]. }
  rewrite Hr in Hc. rewrite Rlt_bool_true in Hc by (apply Binary.abs_B2R_lt_emax; reflexivity).
  destruct Hc as [HB HF].
  set (g := f64_of_decimal false (N.pos p) (- Z.of_nat k)) in *.
  assert (Hpos : (0 < Binary.B2R 53 1024 f)%R) by (unfold f; cbn [Binary.B2R cond_Zopp]; apply F2R_gt_0; reflexivity).
  assert (Hg : Binary.is_finite_strict 53 1024 g = true).
  { destruct g; try discriminate HF; [|reflexivity]. cbn [Binary.B2R] in HB. lra. }
  rewrite (Binary.B2R_inj 53 1024 g f Hg eq_refl HB). reflexivity.
Qed.

(* +0.0 *)
Lemma zero_spelling : parse_simple_number parse_f64 [48%N; 46%N; 48%N] = Ok (Flt (Binary.B754_zero 53 1024 false)).
Proof. reflexivity. Qed.
