(* Inserting one annotation (or comment-line) token between two tokens of an ACCEPTED
   program, whether or not there is whitespace in that gap: still accepted, same tree.
   (One direction only: `5 []()` is a composition error but `5 []@a()` is accepted --
   after the end of a side-effect block an annotation acts like whitespace.) *)
From Coq Require Import List Arith Bool NArith Lia.
From GV Require Import Base.Result Gen.TokenTypes Gen.Defs Model.Parser Spec.Layout Spec.LayoutSim
  Proofs.C18.StepParts Proofs.C18.Sim Proofs.C18.Final Proofs.C18.Trim Proofs.C18.Detour
  Proofs.C18.Settled Proofs.C18.Main.
Import ListNotations.

(* ---- the arms read neither prev_sec nor separated ---- *)
Definition blur (st : pstate) (x : secondary) (y : bool) (z : option nat) : pstate :=
  mkState (nodes st) (next_parent st) (last_left st) (check_for_list st) z (next_last_left st)
          (group_stack st) (current_group st) x (prev_sig st) y (se_prev st).

Lemma step_arm_blur cid ar tok d sec st x y ug t :
  step_arm cid ar tok d sec (blur st x y (last_token st)) ug t = step_arm cid ar tok d sec st ug t.
Proof. destruct sec; reflexivity. Qed.

Lemma erase_blur st x y z : erase (blur st x y z) = blur (erase st) (norm_sec x) y (last_token (erase st)).
Proof. reflexivity. Qed.

Lemma erase_tok_idem s : erase_tok (erase_tok s) = erase_tok s.
Proof.
  unfold erase_tok. cbn [nodes next_parent last_left check_for_list last_token next_last_left
    group_stack current_group prev_sec prev_sig separated se_prev]. rewrite map_strip_idem. reflexivity.
Qed.

Lemma step_arm_blur_E1 cid ar tok d sec st x y z ug t :
  rmap E1 (step_arm cid ar tok d sec (blur st x y z) ug t) = rmap E1 (step_arm cid ar tok d sec st ug t).
Proof.
  assert (H : forall S, rmap E1 (step_arm cid ar tok d sec S ug t) =
                        rmap E1 (step_arm cid ar tok d sec (erase S) ug t)).
  { intros S. rewrite step_arm_erase. destruct (step_arm cid ar tok d sec S ug t) as [[s inf]| | |]; try reflexivity.
    cbn [rmap bind]. unfold E1. cbn [fst snd]. rewrite erase_tok_idem. reflexivity. }
  rewrite (H (blur st x y z)), (H st), erase_blur, step_arm_blur. reflexivity.
Qed.

(* ---- what the arms write into prev_sec / prev_sig / separated ---- *)
Lemma step_finish_tail i sec cid r :
  prev_sec (step_finish i sec cid r) = prev_sec (fst r) /\
  prev_sig (step_finish i sec cid r) = prev_sig (fst r) /\
  separated (step_finish i sec cid r) = separated (fst r).
Proof. repeat split. Qed.

Ltac arm_crunch :=
  repeat match goal with
  | |- Ok _ = Ok _ -> _ => let H := fresh in intros H; injection H as <-; cbn [fst prev_sec prev_sig separated]; repeat split
  | |- Err _ = Ok _ -> _ => discriminate
  | |- impl_err = Ok _ -> _ => discriminate
  | |- Panic _ = Ok _ -> _ => discriminate
  | |- OutOfFuel = Ok _ -> _ => discriminate
  | |- bind ?x _ = Ok _ -> _ => destruct x as [?| | |]; cbn [bind]
  | |- (let '(_, _) := ?x in _) = Ok _ -> _ => destruct x
  | |- (if ?c then _ else _) = Ok _ -> _ => destruct c
  | |- match ?x with _ => _ end = Ok _ -> _ => destruct x
  end.

Lemma step_arm_tail cid ar tok d sec st ug t r :
  step_arm cid ar tok d sec st ug t = Ok r ->
  prev_sec (fst r) = t_prev t /\ prev_sig (fst r) = t_sig t /\ separated (fst r) = t_sep t.
Proof.
  revert r. intros r.
  destruct sec; cbn [step_arm];
    unfold arm_ws, arm_annot, arm_value, arm_binary, arm_prefix, arm_suffix, arm_startgroup, arm_startse,
           arm_end, arm_subexpr; arm_crunch.
Qed.

Lemma new_tail_sep sec st : t_sep (new_tail sec st) = false -> t_prev (new_tail sec st) = t_sig (new_tail sec st).
Proof.
  unfold new_tail. destruct sec; cbn [is_trivia_sec t_sep t_prev t_sig]; try discriminate; try reflexivity.
  destruct (se_prev st); cbn [t_sep]; discriminate.
Qed.

(* step_inv with the two composition guards *)
Lemma step_inv_guards n i tok st0 st' : step n i tok st0 = Ok st' ->
  exists ug ll ps pg r,
    under_group_of st0 = Ok ug /\ adjust3_of st0 ug = Ok (ll, ps, pg) /\
    forbidden ps (snd (get_definition tok)) (check_for_list st0) = false /\
    negb (is_trivia_sec (snd (get_definition tok))) && separated st0
      && forbidden_separated pg (snd (get_definition tok)) (check_for_list st0) = false /\
    step_arm (length (nodes st0)) (if Nat.leb n (i + 1) then None else Some (length (nodes st0) + 1)) tok
             (fst (get_definition tok)) (snd (get_definition tok)) (adjusted st0 ll ps pg) ug
             (new_tail (snd (get_definition tok)) (adjusted st0 ll ps pg)) = Ok r /\
    st' = step_finish i (snd (get_definition tok)) (length (nodes st0)) r.
Proof.
  rewrite step_decomp.
  destruct (under_group_of st0) as [ug| | |] eqn:Hug; cbn [bind]; try discriminate.
  destruct (adjust3_of st0 ug) as [[[ll ps] pg]| | |] eqn:Ha; cbn [bind]; try discriminate.
  unfold step_main.
  change (prev_sec (adjusted st0 ll ps pg)) with ps. change (prev_sig (adjusted st0 ll ps pg)) with pg.
  change (check_for_list (adjusted st0 ll ps pg)) with (check_for_list st0).
  change (separated (adjusted st0 ll ps pg)) with (separated st0).
  destruct (forbidden ps _ _) eqn:G1; [discriminate|].
  destruct (_ && _ && _) eqn:G2; [discriminate|].
  destruct (step_arm _ _ tok _ _ _ ug _) as [r| | |] eqn:Ea; cbn [bind]; try discriminate.
  rewrite step_finish_res_eq. intros H. injection H as <-.
  exists ug, ll, ps, pg, r. repeat (split; [first [reflexivity|assumption]|]). reflexivity.
Qed.

(* after any step: separated is only unset while prev_sec is the last significant one *)
Lemma step_sep_inv n i tok st0 st' : step n i tok st0 = Ok st' ->
  separated st' = false -> prev_sec st' = prev_sig st'.
Proof.
  intros Hs. destruct (step_inv _ _ _ _ _ Hs) as (ug & ll & ps & pg & r & _ & _ & Harm & ->).
  destruct (step_arm_tail _ _ _ _ _ _ _ _ _ Harm) as (H1 & H2 & H3).
  destruct (step_finish_tail i (snd (get_definition tok)) (length (nodes st0)) r) as (F1 & F2 & F3).
  rewrite F1, F2, F3, H1, H2, H3. apply new_tail_sep.
Qed.

Definition sep_inv (st : pstate) : Prop := separated st = false -> prev_sec st = prev_sig st.

Lemma run_steps_last_inv n : forall pre i st st',
  run_steps n i pre st = Ok st' -> pre <> [] -> next_last_left st' = None /\ sep_inv st'.
Proof.
  induction pre as [|t r IH]; intros i st st' H Hne; [congruence|].
  cbn [run_steps] in H. destruct (step n i t st) as [s1| | |] eqn:Es; cbn [bind] in H; try discriminate H.
  destruct r as [|t2 r].
  - cbn [run_steps] in H. injection H as <-. split.
    + destruct (step_inv _ _ _ _ _ Es) as (ug & ll & ps & pg & rr & _ & _ & _ & ->). reflexivity.
    + exact (step_sep_inv _ _ _ _ _ Es).
  - apply (IH (S i) s1 st' H). discriminate.
Qed.

(* ---- the step after an inserted annotation ---- *)
Lemma forbidden_annot_prev c b : forbidden S_Annotation c b = false.
Proof. destruct c; reflexivity. Qed.

Lemma annot_sec a : is_annotation_tok a = true ->
  snd (get_definition a) = S_Annotation /\ is_trivia_tok a = true /\ is_ws_tok a = false.
Proof. destruct a; try discriminate; intros _; repeat split. Qed.

Lemma step_after_annotation n i n' i' a Y st0 sY :
  is_annotation_tok a = true -> is_trivia_tok Y = false ->
  adjust_settled st0 = true -> next_last_left st0 = None -> sep_inv st0 ->
  Nat.leb n (S i + 1) = Nat.leb n' (i' + 1) ->
  step n' i' Y st0 = Ok sY ->
  exists sY', (do s1 <- step n i a st0; step n (S i) Y s1) = Ok sY' /\ erase sY' = erase sY.
Proof.
  intros Ha HY Hs Hnll Hsep Hflag Hstep.
  destruct (annot_sec a Ha) as (Hsa & Hta & Hwa).
  destruct (step_inv_guards _ _ _ _ _ Hstep) as (ug & ll & ps & pg & r & Hug & Hadj & G1 & G2 & Harm & ->).
  destruct (settled_SF st0 ug ll ps pg Hs Hug Hadj) as [HSF [-> ->]].
  pose proof (adjust3_SF _ _ HSF) as Hb.
  change (last_left (with_ll st0 ll)) with ll in Hb.
  change (prev_sec (with_ll st0 ll)) with (prev_sec st0) in Hb.
  change (prev_sig (with_ll st0 ll)) with (prev_sig st0) in Hb.
  rewrite (step_adjust_first n i a st0 ug ll _ _ Hug Hadj Hb).
  rewrite (step_trivia_SF n i a _ ug Hta HSF). unfold K. rewrite Hwa, Hsa. cbn [bind].
  set (s1 := retriv (with_ll st0 ll) (check_for_list (with_ll st0 ll)) i S_Annotation).
  assert (HSF1 : SF s1 ug) by (apply SF_retriv; exact HSF).
  rewrite step_decomp. change (under_group_of s1) with (under_group_of st0). rewrite Hug. cbn [bind].
  rewrite (adjust3_SF _ _ HSF1). cbn [bind].
  change (last_left s1) with ll. change (prev_sec s1) with S_Annotation. change (prev_sig s1) with (prev_sig st0).
  unfold step_main.
  set (A0 := adjusted st0 ll (prev_sec st0) (prev_sig st0)) in *.
  assert (HA : adjusted s1 ll S_Annotation (prev_sig st0) = blur A0 S_Annotation true (Some i)).
  { unfold adjusted, blur, A0, s1, retriv, with_ll, adjusted.
    cbn [nodes next_parent last_left check_for_list last_token next_last_left group_stack current_group
         prev_sec prev_sig separated se_prev]. rewrite Hnll. reflexivity. }
  rewrite HA.
  change (length (nodes s1)) with (length (nodes st0)).
  change (prev_sec (blur A0 S_Annotation true (Some i))) with S_Annotation.
  rewrite forbidden_annot_prev.
  change (separated (blur A0 S_Annotation true (Some i))) with true.
  change (prev_sig (blur A0 S_Annotation true (Some i))) with (prev_sig st0).
  change (check_for_list (blur A0 S_Annotation true (Some i))) with (check_for_list st0).
  change (new_tail (snd (get_definition Y)) (blur A0 S_Annotation true (Some i)))
    with (new_tail (snd (get_definition Y)) A0).
  assert (HYs : is_trivia_sec (snd (get_definition Y)) = false).
  { unfold is_trivia_tok in HY. destruct (snd (get_definition Y)); try discriminate HY; reflexivity. }
  rewrite HYs in *. cbn [negb andb] in G2 |- *.
  assert (G3 : forbidden_separated (prev_sig st0) (snd (get_definition Y)) (check_for_list st0) = false).
  { destruct (separated st0) eqn:Es; [exact G2|].
    unfold forbidden_separated. rewrite <- (Hsep Es), G1. destruct (_ && _ && _); reflexivity. }
  rewrite G3. rewrite Hflag.
  pose proof (step_arm_blur_E1 (length (nodes st0))
                (if Nat.leb n' (i' + 1) then None else Some (length (nodes st0) + 1)) Y
                (fst (get_definition Y)) (snd (get_definition Y)) A0 S_Annotation true (Some i) ug
                (new_tail (snd (get_definition Y)) A0)) as HE.
  rewrite Harm in HE.
  destruct (step_arm _ _ Y _ _ (blur A0 S_Annotation true (Some i)) ug _) as [r1| | |]; try discriminate HE.
  cbn [rmap bind] in HE. apply Ok_inj in HE.
  cbn [bind]. rewrite step_finish_res_eq. eexists. split; [reflexivity|].
  rewrite <- (step_finish_erase (S i) (S i) _ _ r1), HE. apply step_finish_erase.
Qed.

Ltac flags :=
  rewrite ?app_length in *; cbn [length] in *;
  match goal with |- Nat.leb ?a ?b = Nat.leb ?c ?d =>
    destruct (Nat.leb_spec a b), (Nat.leb_spec c d); try reflexivity; lia end.

(* ---- the theorem ---- *)
Theorem annotation_insert pre post a t :
  has_sig pre = true -> has_sig post = true -> settled_after (drop_while_trim pre) ->
  is_annotation_tok a = true ->
  parse_tree (pre ++ post) = Some t -> parse_tree (pre ++ [a] ++ post) = Some t.
Proof.
  intros Hp Hq Hs Ha.
  destruct (annot_sec a Ha) as (Hsa & Hta & Hwa).
  pose proof (trim_middle pre [] post Hp Hq) as T0. cbn [app] in T0.
  rewrite !parse_tree_eq. unfold parse. rewrite T0, (trim_middle pre [a] post Hp Hq).
  set (P := drop_while_trim pre) in *. set (Q := trim_back post).
  assert (HP : P <> []) by (apply drop_while_trim_sig_nonnil, Hp).
  assert (HQ : Q <> []).
  { unfold Q, trim_back. intros HQ. apply (f_equal (@rev _)) in HQ. rewrite rev_involutive in HQ. cbn [rev] in HQ.
    apply (drop_while_trim_sig_nonnil (rev post)); [rewrite has_sig_rev; exact Hq|exact HQ]. }
  assert (Hne : forall x, P ++ x <> []) by (intros x Hx; apply app_eq_nil in Hx; destruct Hx; congruence).
  rewrite !parse_trimmed_decomp by apply Hne.
  rewrite !run_steps_app.
  rewrite (run_prefix_state_after P Q HQ).
  rewrite (run_prefix_state_after P ([a] ++ Q)) by discriminate.
  unfold settled_after in Hs. unfold state_after in *.
  destruct (run_steps (S (length P)) 0 P init_state) as [s0| | |] eqn:E0; cbn [bind]; try discriminate.
  destruct (run_steps_last_inv _ _ _ _ _ E0 HP) as [Hnll Hsep].
  destruct Q as [|Y Q']; [congruence|].
  intros Horig. rewrite <- Horig. symmetry. apply finish_congr.
  destruct (is_trivia_tok Y) eqn:EY.
  - (* the annotation joins a trivia run *)
    change ([a] ++ Y :: Q') with ([a; Y] ++ Q'). change (Y :: Q') with ([Y] ++ Q').
    rewrite !run_steps_app. apply res_eq_bind.
    + apply trivia_runs_from_state; [exact Hs| | |].
      * cbn [trivia_run forallb]. rewrite EY. reflexivity.
      * cbn [trivia_run forallb]. rewrite Hta, EY. reflexivity.
      * cbn [has_ws existsb]. rewrite Hwa. reflexivity.
    + intros s s' Hss. apply run_steps_congr; [exact Hss|]. intros k Hk.
      flags.
  - (* between two significant tokens, or after trivia *)
    cbn [app run_steps].
    destruct (step (length (P ++ Y :: Q')) (0 + length P) Y s0) as [sY| | |] eqn:EsY.
    2-4: (cbn [app run_steps] in Horig; rewrite EsY in Horig; cbn [bind tree_of_result] in Horig; discriminate Horig).
    destruct (step_after_annotation (length (P ++ a :: Y :: Q')) (0 + length P)
                (length (P ++ Y :: Q')) (0 + length P) a Y s0 sY Ha EY Hs Hnll Hsep) as (sY' & Hrun & He).
    + flags.
    + exact EsY.
    + cbn [bind] in Hrun.
      destruct (step (length (P ++ a :: Y :: Q')) (0 + length P) a s0) as [s1| | |]; cbn [bind] in Hrun |- *;
        try discriminate Hrun.
      rewrite Hrun. cbn [bind].
      apply run_steps_congr; [symmetry; exact He|]. intros k Hk.
      flags.
Qed.

Corollary annotation_insert_unless_block_end pre post a t :
  has_sig pre = true -> has_sig post = true -> not_after_block_end pre = true ->
  is_annotation_tok a = true ->
  parse_tree (pre ++ post) = Some t -> parse_tree (pre ++ [a] ++ post) = Some t.
Proof.
  intros Hp Hq Hn. apply annotation_insert; [exact Hp|exact Hq|].
  apply settled_unless_block_end. unfold not_after_block_end in *. rewrite last_sig_drop. exact Hn.
Qed.
