(* C02  Precedence, associativity and grouping follow the operator table.
   Only statements, [exact] and [Print Assumptions] live here. *)
From Coq Require Import List Arith Bool NArith.
From GV Require Import Base.Result Gen.TokenTypes Gen.Defs Model.Parser Spec.RefTable Spec.Pratt Spec.Chains
  Proofs.C02.Table Proofs.C02.Triples Proofs.C02.Chains Proofs.C02.OpExpr Proofs.C02.Full.
Import ListNotations.

(* (a) the priority map extracted from parser.rs orders every pair of definitions as
   the pinned reference table does, registers the same definitions, and every token
   type has the pinned definition / kind / associativity class *)
Theorem C02_table_order : forall (d1 d2 : definition) a b x y,
  priority d1 = Some a -> priority d2 = Some b -> ref_rank d1 = Some x -> ref_rank d2 = Some y ->
  N.compare a b = N.compare x y.
Proof. exact table_order_agrees. Qed.
Print Assumptions C02_table_order.

Theorem C02_table_domain : forall d : definition,
  (exists a, priority d = Some a) <-> (exists x, ref_rank d = Some x).
Proof. exact table_same_domain. Qed.
Print Assumptions C02_table_domain.

Theorem C02_token_classes : forallb token_agrees all_token_type = true.
Proof. exact tokens_agree_all. Qed.
Print Assumptions C02_token_classes.

(* (b) every expression with at most three operators around atomic operands, without
   and with whitespace around binary operators: the reference accepts it and parse
   returns exactly the tree the pinned table dictates (bound = the property's own) *)
Theorem C02_pairs_triples_upto_3_operators : forall (ops tight spaced : list token_type),
  length ops <= 3 -> (forall o, In o ops -> In o op_alphabet) ->
  render ops false false = Some tight -> render ops false true = Some spaced ->
  (exists t, pratt tight = Some t) /\ c02_agree tight = true /\ c02_agree spaced = true.
Proof. exact c02_pairs_triples. Qed.
Print Assumptions C02_pairs_triples_upto_3_operators.

(* brackets override: both groupings of every ordered pair of operators *)
Theorem C02_brackets_override : forall (o1 o2 : token_type) (toks : list token_type),
  In toks (grouped_variants o1 o2) -> (exists t, pratt toks = Some t) /\ c02_agree toks = true.
Proof. exact c02_brackets_override. Qed.
Print Assumptions C02_brackets_override.

(* (c) the unbounded statement (proved at the end of this file as C02_full, through the
   refinement of the parent-linked node array to a stack of right-spine frames) *)
Definition C02_full_statement : Prop := forall toks : list token_type, c02_agree toks = true.

(* non-vacuity and what the reference means on concrete inputs *)
Example C02_ex_precedence :
  pratt [TT_Number; TT_PlusSign; TT_Number; TT_MultiplicationSign; TT_Number]
  = Some (RBin D_Addition (Some 1) (RAtom D_Number 0)
            (RBin D_MultiplicationSign (Some 3) (RAtom D_Number 2) (RAtom D_Number 4))) /\
  pratt [TT_Number; TT_Pair; TT_Number; TT_Pair; TT_Number]
  = Some (RBin D_Pair (Some 1) (RAtom D_Number 0) (RBin D_Pair (Some 3) (RAtom D_Number 2) (RAtom D_Number 4))) /\
  pratt [TT_Number; TT_Subtraction; TT_Number; TT_Subtraction; TT_Number]
  = Some (RBin D_Subtraction (Some 3) (RBin D_Subtraction (Some 1) (RAtom D_Number 0) (RAtom D_Number 2)) (RAtom D_Number 4)).
Proof. vm_compute. repeat split; reflexivity. Qed.

Example C02_ex_coverage : N.leb 100000 (N.of_nat rendered_count) = true.
Proof. vm_compute. reflexivity. Qed.

(* (d) UNBOUNDED: binary chains of any length.  For every token list
   v0 o1 v1 ... on vn  (n arbitrary) whose vi are value tokens and whose oi are binary
   operator tokens of the table -- EVERY binary operator token, of any rank and either
   associativity; no operator is excluded -- parse accepts and returns exactly the tree
   the pinned table dictates.  Proved by induction over the chain (spine invariant of the
   parser state, Proofs/C02/{Invariant,Steps,Chains}.v; spine insertion = precedence
   climbing, Proofs/C02/Spine.v), not by enumeration. *)
Theorem C02_binary_chains : forall toks : list token_type,
  binary_chain toks = true -> c02_agree toks = true.
Proof. exact c02_binary_chains. Qed.
Print Assumptions C02_binary_chains.

(* which operators the chains range over: all 39 binary operator tokens (the 38 operators and
   the expression separator `;`, the loosest of all), among them the
   ordinary arithmetic / comparison / logic operators, the right-to-left pair, and also the
   comma list, the conditional forms, access and the apply forms *)
Example C02_chain_operators :
  forallb is_binary_tok
    [TT_PlusSign; TT_Subtraction; TT_MultiplicationSign; TT_Division; TT_IntegerDivision; TT_Remainder;
     TT_ExponentialSign; TT_Pair; TT_LessThan; TT_LessThanOrEqual; TT_GreaterThan; TT_GreaterThanOrEqual;
     TT_Equality; TT_Inequality; TT_TypeEqual; TT_And; TT_Or; TT_Xor;
     TT_BitwiseAnd; TT_BitwiseOr; TT_BitwiseXor; TT_BitwiseLeftShift; TT_BitwiseRightShift;
     TT_Range; TT_StartExclusiveRange; TT_EndExclusiveRange; TT_ExclusiveRange; TT_Concatenation; TT_TypeCast;
     TT_Comma; TT_JumpIfTrue; TT_JumpIfFalse; TT_ElseJump; TT_Period;
     TT_Apply; TT_ApplyTo; TT_PartialApply; TT_InfixIdentifier; TT_ExpressionSeparator] = true /\
  length (filter is_binary_tok all_token_type) = 39 /\
  length (filter is_value_tok all_token_type) = 9.
Proof. vm_compute. repeat split; reflexivity. Qed.

(* a concrete chain with 8 operators of mixed rank and associativity satisfies the
   hypothesis, and the tree the theorem speaks about is the expected one:
     a = 1 + 2 * 3 ** x - 4 = b < 5 && c
   parses as  (a = (((1 + (2 * (3 ** x))) - 4) = b)) ... with `=` grouping to the right *)
Definition C02_sample_chain : list token_type :=
  [TT_Identifier; TT_Pair; TT_Number; TT_PlusSign; TT_Number; TT_MultiplicationSign; TT_Number;
   TT_ExponentialSign; TT_Identifier; TT_Subtraction; TT_Number; TT_Pair; TT_Identifier;
   TT_LessThan; TT_Number; TT_And; TT_Identifier].

Example C02_ex_chain_hypothesis : binary_chain C02_sample_chain = true.
Proof. vm_compute. reflexivity. Qed.

Example C02_ex_chain_tree :
  pratt C02_sample_chain =
  Some (RBin D_And (Some 15)
          (RBin D_LessThan (Some 13)
             (RBin D_Pair (Some 1) (RAtom D_Identifier 0)
                (RBin D_Pair (Some 11)
                   (RBin D_Subtraction (Some 9)
                      (RBin D_Addition (Some 3) (RAtom D_Number 2)
                         (RBin D_MultiplicationSign (Some 5) (RAtom D_Number 4)
                            (RBin D_ExponentialSign (Some 7) (RAtom D_Number 6) (RAtom D_Identifier 8))))
                      (RAtom D_Number 10))
                   (RAtom D_Identifier 12)))
             (RAtom D_Number 14))
          (RAtom D_Identifier 16)).
Proof. vm_compute. reflexivity. Qed.

(* the comparison behind c02_agree is discriminating: the same operators grouped the
   other way are a different tree, and a tree with a wrong token index is rejected *)
Example C02_ex_discriminating :
  rtree_eqb (RBin D_Addition (Some 1) (RAtom D_Number 0)
               (RBin D_MultiplicationSign (Some 3) (RAtom D_Number 2) (RAtom D_Number 4)))
            (RBin D_MultiplicationSign (Some 3)
               (RBin D_Addition (Some 1) (RAtom D_Number 0) (RAtom D_Number 2)) (RAtom D_Number 4)) = false /\
  rtree_eqb (RBin D_Pair (Some 1) (RAtom D_Number 0) (RBin D_Pair (Some 3) (RAtom D_Number 2) (RAtom D_Number 4)))
            (RBin D_Pair (Some 3) (RBin D_Pair (Some 1) (RAtom D_Number 0) (RAtom D_Number 2)) (RAtom D_Number 4)) = false /\
  rtree_eqb (RBin D_Addition (Some 1) (RAtom D_Number 0) (RAtom D_Number 2))
            (RBin D_Addition (Some 1) (RAtom D_Number 0) (RAtom D_Number 3)) = false /\
  (* and c02_agree itself fails on a node array that is not the dictated tree: parse of
     `1 + 2 * 3` read against the reference of `1 * 2 + 3` *)
  (match parse [TT_Number; TT_PlusSign; TT_Number; TT_MultiplicationSign; TT_Number],
         pratt [TT_Number; TT_MultiplicationSign; TT_Number; TT_PlusSign; TT_Number] with
   | Ok (root, ns), Some t =>
       match tree_of (2 * length ns + 2) ns 0 root with Some t' => rtree_eqb t t' | None => false end
   | _, _ => true
   end) = false.
Proof. vm_compute. repeat split; reflexivity. Qed.

(* (e) UNBOUNDED: operator expressions of any length, with brackets nested to any depth.
   For every token list over value tokens (9), prefix operators (9 tokens), suffix
   operators (4), binary operators (38), round brackets `( )`, nested-expression brackets
   `{ }` and whitespace that has the shape
   of an expression ([operator_expression]: operand := prefix* (value | "(" expr ")" | "{" expr "}")
   suffix*; operands joined by binary operators or, across whitespace, by the implicit
   space list; whitespace allowed between any two tokens, also just inside brackets; no
   leading/trailing whitespace) parse accepts and returns exactly the tree the pinned
   table dictates: prefix operators group right-to-left and take the operand built under
   their own rank, suffix operators close what binds tighter, the implicit list sits at
   its table position (220) and is NOT created around a binary operator written with
   spaces, and brackets override precedence and associativity (an open bracket is never
   closed by an operator; the closing bracket closes everything opened inside).
   This subsumes (d). *)
Theorem C02_operator_expressions : forall toks : list token_type,
  operator_expression toks = true -> c02_agree toks = true.
Proof. exact c02_operator_expressions. Qed.
Print Assumptions C02_operator_expressions.

Theorem C02_binary_chains_are_operator_expressions : forall toks : list token_type,
  binary_chain toks = true -> operator_expression toks = true.
Proof. exact binary_chain_opexpr. Qed.
Print Assumptions C02_binary_chains_are_operator_expressions.

(*   -x.y 1~~ * 2 = a b + ?? -3 .|      (19 tokens, 10 operators incl. two implicit lists) *)
Definition C02_sample_expression : list token_type :=
  [TT_Opposite; TT_Identifier; TT_Period; TT_Identifier; TT_Whitespace; TT_Number; TT_EmptyApply;
   TT_Whitespace; TT_MultiplicationSign; TT_Whitespace; TT_Number; TT_Pair; TT_Identifier; TT_Whitespace;
   TT_Identifier; TT_PlusSign; TT_Tis; TT_Opposite; TT_Number; TT_LengthInternal].

Example C02_ex_expression_hypothesis : operator_expression C02_sample_expression = true.
Proof. vm_compute. reflexivity. Qed.

Example C02_ex_expression_tree :
  pratt C02_sample_expression =
  Some (RBin D_List None
          (RBin D_List None
             (RPre D_Opposite 0 (RBin D_Access (Some 2) (RAtom D_Identifier 1) (RAtom D_Identifier 3)))
             (RBin D_Pair (Some 11)
                (RBin D_MultiplicationSign (Some 8) (RSuf D_EmptyApply 6 (RAtom D_Number 5)) (RAtom D_Number 10))
                (RAtom D_Identifier 12)))
          (RBin D_Addition (Some 15) (RAtom D_Identifier 14)
             (RPre D_Tis 16 (RPre D_Opposite 17 (RSuf D_AccessLengthInternal 19 (RAtom D_Number 18)))))).
Proof. vm_compute. reflexivity. Qed.

(* the hypothesis is a real restriction: juxtaposed values, a dangling operator, trailing
   whitespace and a prefix operator glued to a preceding value are not operator expressions *)
Example C02_ex_expression_rejects :
  operator_expression [TT_Number; TT_Number] = false /\
  operator_expression [TT_Number; TT_PlusSign] = false /\
  operator_expression [TT_Number; TT_Whitespace] = false /\
  operator_expression [TT_Number; TT_Opposite; TT_Number] = false /\
  operator_expression [TT_Number; TT_Whitespace; TT_Opposite; TT_Number] = true.
Proof. vm_compute. repeat split; reflexivity. Qed.

(*   (a + b) * -(c = (d e))~~ (1)     brackets nested three deep, whitespace inside *)
Definition C02_sample_bracketed : list token_type :=
  [TT_StartGroup; TT_Identifier; TT_Whitespace; TT_PlusSign; TT_Whitespace; TT_Identifier; TT_EndGroup;
   TT_MultiplicationSign; TT_Opposite; TT_StartGroup; TT_Identifier; TT_Pair; TT_StartGroup; TT_Identifier;
   TT_Whitespace; TT_Identifier; TT_EndGroup; TT_EndGroup; TT_EmptyApply;
   TT_Whitespace; TT_StartGroup; TT_Number; TT_EndGroup].

Example C02_ex_bracketed_hypothesis : operator_expression C02_sample_bracketed = true.
Proof. vm_compute. reflexivity. Qed.

Example C02_ex_bracketed_tree :
  pratt C02_sample_bracketed =
  Some (RBin D_List None
          (RBin D_MultiplicationSign (Some 7)
             (RGroup BRound 0 (RBin D_Addition (Some 3) (RAtom D_Identifier 1) (RAtom D_Identifier 5)))
             (RPre D_Opposite 8
                (RSuf D_EmptyApply 18
                   (RGroup BRound 9
                      (RBin D_Pair (Some 11) (RAtom D_Identifier 10)
                         (RGroup BRound 12 (RBin D_List None (RAtom D_Identifier 13) (RAtom D_Identifier 15))))))))
          (RGroup BRound 20 (RAtom D_Number 21))).
Proof. vm_compute. reflexivity. Qed.

Example C02_ex_bracketed_rejects :
  operator_expression [TT_StartGroup; TT_Number] = false /\
  operator_expression [TT_Number; TT_EndGroup] = false /\
  operator_expression [TT_StartGroup; TT_EndGroup] = false /\
  operator_expression [TT_Number; TT_StartGroup; TT_Number; TT_EndGroup] = false /\
  operator_expression [TT_StartGroup; TT_Number; TT_EndGroup] = true.
Proof. vm_compute. repeat split; reflexivity. Qed.

(* curly brackets: `{ a + 1 } ~ 5  { (b) c }` -- nested expressions are in the domain like
   groups; the tree says which kind of bracket it was; mismatched kinds are not expressions *)
Definition C02_sample_curly : list token_type :=
  [TT_StartExpression; TT_Identifier; TT_Whitespace; TT_PlusSign; TT_Whitespace; TT_Number; TT_EndExpression;
   TT_Whitespace; TT_ApplyTo; TT_Whitespace; TT_Number; TT_Whitespace;
   TT_StartExpression; TT_StartGroup; TT_Identifier; TT_EndGroup; TT_Whitespace; TT_Identifier; TT_EndExpression].

Example C02_ex_curly :
  operator_expression C02_sample_curly = true /\
  pratt C02_sample_curly =
  Some (RBin D_ApplyTo (Some 8)
          (RGroup BCurly 0 (RBin D_Addition (Some 3) (RAtom D_Identifier 1) (RAtom D_Number 5)))
          (RBin D_List None (RAtom D_Number 10)
             (RGroup BCurly 12 (RBin D_List None (RGroup BRound 13 (RAtom D_Identifier 14)) (RAtom D_Identifier 17))))) /\
  operator_expression [TT_StartGroup; TT_Number; TT_EndExpression] = false /\
  pratt [TT_StartGroup; TT_Number; TT_EndExpression] = None /\
  pratt [TT_StartExpression; TT_StartGroup; TT_Number; TT_EndExpression; TT_EndGroup] = None /\
  operator_expression [TT_StartExpression; TT_Number; TT_EndExpression] = true.
Proof. vm_compute. repeat split; reflexivity. Qed.

(* the expression separator `;`: the loosest binary operator at top level and directly inside
   { } -- `{ a + 1 ; -b } ~ 5 ; c` -- but not an operator directly inside round brackets (there
   the parser treats it as whitespace, so the reference is undefined), nor leading / trailing /
   doubled *)
Example C02_ex_separator :
  operator_expression [TT_StartExpression; TT_Identifier; TT_PlusSign; TT_Number; TT_ExpressionSeparator;
                       TT_Opposite; TT_Identifier; TT_EndExpression; TT_Whitespace; TT_ApplyTo; TT_Whitespace; TT_Number;
                       TT_ExpressionSeparator; TT_Identifier] = true /\
  pratt [TT_StartExpression; TT_Identifier; TT_PlusSign; TT_Number; TT_ExpressionSeparator;
         TT_Opposite; TT_Identifier; TT_EndExpression; TT_Whitespace; TT_ApplyTo; TT_Whitespace; TT_Number;
         TT_ExpressionSeparator; TT_Identifier] =
  Some (RBin D_ExpressionSeparator (Some 12)
          (RBin D_ApplyTo (Some 9)
             (RGroup BCurly 0
                (RBin D_ExpressionSeparator (Some 4)
                   (RBin D_Addition (Some 2) (RAtom D_Identifier 1) (RAtom D_Number 3))
                   (RPre D_Opposite 5 (RAtom D_Identifier 6))))
             (RAtom D_Number 11))
          (RAtom D_Identifier 13)) /\
  pratt [TT_StartGroup; TT_Number; TT_ExpressionSeparator; TT_Number; TT_EndGroup] = None /\
  operator_expression [TT_StartGroup; TT_Number; TT_ExpressionSeparator; TT_Number; TT_EndGroup] = false /\
  pratt [TT_StartGroup; TT_StartExpression; TT_Number; TT_ExpressionSeparator; TT_Number; TT_EndExpression; TT_EndGroup] <> None /\
  pratt [TT_Number; TT_ExpressionSeparator] = None /\
  pratt [TT_Number; TT_ExpressionSeparator; TT_ExpressionSeparator; TT_Number] = None.
Proof. vm_compute. repeat split; try reflexivity; discriminate. Qed.

(* (f) THE FULL STATEMENT, for every token list whatsoever: whenever the reference
   precedence-climbing parser over the pinned table is defined on [toks] (it is defined
   exactly on the operator expressions of (e), possibly surrounded by whitespace; any token
   outside the fragment -- side-effect brackets, separators, annotations, unknown; also
   mismatched or empty brackets --
   makes it undefined), parse accepts [toks] and returns exactly the reference tree, token
   positions included.  No bound on length, nesting depth or number of operators.
   Proof: Proofs/C02/Full.v -- a successful climb consumes a well-formed item list
   (converse direction), a well-formed item list comes from a well-formed token list,
   trimming shifts token indices by the number of tokens cut at the front; then (e). *)
Theorem C02_full : C02_full_statement.
Proof. exact c02_full. Qed.
Print Assumptions C02_full.

(* the reference is defined on the samples above (so C02_full is not vacuous on them), also
   with surrounding whitespace, and undefined on non-expressions *)
Example C02_ex_full_nonvacuous :
  (match pratt C02_sample_chain with Some _ => true | None => false end) = true /\
  (match pratt C02_sample_expression with Some _ => true | None => false end) = true /\
  (match pratt C02_sample_bracketed with Some _ => true | None => false end) = true /\
  pratt [TT_Whitespace; TT_Number; TT_PlusSign; TT_Number; TT_Whitespace]
    = Some (RBin D_Addition (Some 2) (RAtom D_Number 1) (RAtom D_Number 3)) /\
  pratt [TT_Number; TT_PlusSign] = None /\
  pratt [TT_StartSideEffect; TT_Number; TT_EndSideEffect] = None.
Proof. vm_compute. repeat split; reflexivity. Qed.

(* (g) what C02_full does not say: nothing about token lists on which the reference is
   undefined -- side effects [ ], blank-line separators, `;` inside ( ) or leading / trailing /
   doubled, annotations, empty { } (for
   those the bounded theorems (b) and the differential runs of the check remain the
   evidence), and nothing about what parse does with non-expressions (that is C03/C04). *)
