(* What C11 means, independent of the worklist algorithm: two values are equal
   iff they have the same canonical form, where
   * a number is compared numerically (an i32 and a binary64 by value; NaN
     equals nothing),
   * a character is the one-element char list of it, a byte the one-element
     byte list,
   * a pair is the pair of its components' forms,
   * a list is the sequence of its items' forms, and a concatenation is the
     flat sequence of its items: the items of its left operand followed by
     those of its right operand, where an operand that is a concatenation is
     flattened in turn, an operand that is a list contributes its items, and
     any other operand is one item.
   C11's domain: unit, booleans, numbers, chars, bytes, symbols, symbol
   lists, char lists, byte lists, pairs, lists, concatenations (hereditarily).
   Type, expression and external values get forms too (the model covers
   them); ranges, slices, partials and custom values do not ([COut]). *)
From Coq Require Import ZArith NArith List Bool.
From GV Require Import Gen.Instr Model.Num Model.Value.
Import ListNotations.

Inductive cval : Type :=
| CUnit | CTrue | CFalse
| CNum (n : num)
| CSym (s : N)
| CSymList (l : list sympart)
| CChars (l : list N)
| CBytes (l : list N)
| CPair (a b : cval)
| CSeq (items : list cval)
| CType (t : data_type)
| CExpr (n : N)
| CExternal (n : N)
| COut.

(* (canonical form, contribution as an operand of a concatenation) *)
Fixpoint canon2 (v : val) : cval * list cval :=
  match v with
  | VList items => let cs := map (fun i => fst (canon2 i)) items in (CSeq cs, cs)
  | VConcat a b => let s := snd (canon2 a) ++ snd (canon2 b) in (CSeq s, s)
  | VPair a b => let c := CPair (fst (canon2 a)) (fst (canon2 b)) in (c, [c])
  | VUnit => (CUnit, [CUnit]) | VTrue => (CTrue, [CTrue]) | VFalse => (CFalse, [CFalse])
  | VNum n => (CNum n, [CNum n])
  | VChar c => (CChars [c], [CChars [c]])
  | VByte b => (CBytes [b], [CBytes [b]])
  | VSym s => (CSym s, [CSym s])
  | VSymList l => (CSymList l, [CSymList l])
  | VChars l => (CChars l, [CChars l])
  | VBytes l => (CBytes l, [CBytes l])
  | VType t => (CType t, [CType t])
  | VExpr n => (CExpr n, [CExpr n])
  | VExternal n => (CExternal n, [CExternal n])
  | VRange _ _ | VSlice _ _ | VPartial _ _ | VCustom => (COut, [COut])
  end.
Definition canon (v : val) : cval := fst (canon2 v).

Fixpoint list_eqb {A : Type} (eqA : A -> A -> bool) (l r : list A) : bool :=
  match l, r with
  | [], [] => true
  | x :: l', y :: r' => eqA x y && list_eqb eqA l' r'
  | _, _ => false
  end.

Definition sympart_eqb (a b : sympart) : bool :=
  match a, b with
  | SPSym x, SPSym y => (x =? y)%N
  | SPNum x, SPNum y => num_eq x y
  | _, _ => false
  end.

Fixpoint ceq (a b : cval) : bool :=
  match a, b with
  | CUnit, CUnit | CTrue, CTrue | CFalse, CFalse => true
  | CNum x, CNum y => num_eq x y
  | CSym x, CSym y => (x =? y)%N
  | CSymList x, CSymList y => list_eqb sympart_eqb x y
  | CChars x, CChars y => list_eqb N.eqb x y
  | CBytes x, CBytes y => list_eqb N.eqb x y
  | CPair a1 a2, CPair b1 b2 => ceq a1 b1 && ceq a2 b2
  | CSeq xs, CSeq ys =>
      (fix go (xs ys : list cval) : bool :=
         match xs, ys with
         | [], [] => true
         | x :: xs', y :: ys' => ceq x y && go xs' ys'
         | _, _ => false
         end) xs ys
  | CType x, CType y => data_type_eqb x y
  | CExpr x, CExpr y => (x =? y)%N
  | CExternal x, CExternal y => (x =? y)%N
  | _, _ => false
  end.

Definition struct_eq (a b : val) : bool := ceq (canon a) (canon b).

(* ---- the property's domain, NaN-freeness, well-formed numbers ---- *)
Definition sympart_ok (P : num -> Prop) (p : sympart) : Prop :=
  match p with SPSym _ => True | SPNum n => P n end.

Fixpoint val_all (P : num -> Prop) (strict : bool) (v : val) : Prop :=
  match v with
  | VUnit | VTrue | VFalse | VChar _ | VByte _ | VSym _ | VChars _ | VBytes _ => True
  | VNum n => P n
  | VSymList l => Forall (sympart_ok P) l
  | VPair a b | VConcat a b => val_all P strict a /\ val_all P strict b
  | VList items => (fix all (l : list val) : Prop := match l with [] => True | x :: l' => val_all P strict x /\ all l' end) items
  | VType _ | VExpr _ | VExternal _ => if strict then False else True
  | VPartial a b => if strict then False else val_all P strict a /\ val_all P strict b
  | VCustom => if strict then False else True
  | VRange _ _ | VSlice _ _ => False
  end.

Definition num_in_range (n : num) : Prop := match n with Int z => in_i32 z = true | Flt _ => True end.
Definition num_not_nan (n : num) : Prop := match n with Flt f => f64_is_nan f = false | Int _ => True end.

(* what the model covers: every value without a range or slice inside, numbers in range *)
Definition modelled (v : val) : Prop := val_all num_in_range false v.
(* C11's domain *)
Definition in_domain (v : val) : Prop := val_all num_in_range true v.
Definition nan_free (v : val) : Prop := val_all num_not_nan false v.
(* in the domain, numbers in range and not NaN: where reflexivity is claimed *)
Definition domain_nan_free (v : val) : Prop := val_all (fun n => num_in_range n /\ num_not_nan n) true v.
