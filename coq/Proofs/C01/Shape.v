(* The hypotheses of the simulation theorem follow from what the full statement
   assumes: a program of the grammar printed with minimal parentheses
   (Spec.Printer.printable) outside the known-finding class C01-K1 has the
   shapes the proof uses. *)
From Coq Require Import ZArith NArith List Bool Arith Lia.
From GV Require Import Gen.TokenTypes Gen.Defs Spec.Ast Spec.Printer Proofs.C01.Fragment Proofs.C01.Stages.
Import ListNotations.

Lemma prio_list : forall k l r l' r', prio (EList k l r) = prio (EList k l' r').
Proof. destruct k; reflexivity. Qed.
Lemma prio_else : forall l r l' r', prio (EElse l r) = prio (EElse l' r').
Proof. reflexivity. Qed.

(* the left spine of a well-formed chain consists of conditionals *)
Lemma wf_lchain : forall l b, wf b l = true -> (is_cond l || is_else l) = true ->
  match l with EElse _ lr => is_cond lr | _ => true end = true -> lchain l = true.
Proof.
  induction l; intros b Hw Hc Hm; try discriminate; cbn [lchain]; auto.
  cbn [wf] in Hw. repeat (apply andb_prop in Hw; destruct Hw as [Hw ?]).
  rewrite (IHl1 false), Hm; auto.
Qed.

Lemma shape_of_printable_gen : forall e b ic,
  wf b e = true -> paren_ok e = true -> known_K1C ic e = false ->
  (ic = true -> lchain e = true) ->
  shape_okC ic e = true.
Proof.
  induction e; intros b ic Hw Hp Hk Hic; cbn [shape_okC]; auto;
    cbn [paren_ok] in Hp; apply andb_prop in Hp; destruct Hp as [Hoc Hp].
  - (* EUn *) cbn [wf known_K1C] in *. eapply IHe; eauto. intros; discriminate.
  - (* EBin *)
    cbn [known_K1C] in Hk. apply orb_false_elim in Hk. destruct Hk as [Hk1 Hk2].
    apply andb_prop in Hp. destruct Hp as [Hp1 Hp2].
    assert (Hw12 : wf false e1 = true /\ (wf false e2 = true \/ exists n, e2 = ELit (LProp n))).
    { cbn [wf] in Hw. destruct o;
        try (apply andb_prop in Hw; destruct Hw; split; [assumption | left; assumption]).
      destruct e2; try (apply andb_prop in Hw; destruct Hw; split; [assumption | left; assumption]); try discriminate.
      destruct l; try (apply andb_prop in Hw; destruct Hw; split; [assumption | left; assumption]).
      apply andb_prop in Hw; destruct Hw. split; [assumption | right; eauto]. }
    destruct Hw12 as [Hw1 [Hw2 | [nm ->]]].
    + rewrite (IHe1 false false), (IHe2 false false); auto; intros; discriminate.
    + rewrite (IHe1 false false); auto; intros; discriminate.
  - (* EAnd *) cbn [wf known_K1C] in *. apply orb_false_elim in Hk. destruct Hk. apply andb_prop in Hw. destruct Hw.
    apply andb_prop in Hp. destruct Hp. rewrite (IHe1 false false), (IHe2 false false); auto; intros; discriminate.
  - (* EOr *) cbn [wf known_K1C] in *. apply orb_false_elim in Hk. destruct Hk. apply andb_prop in Hw. destruct Hw.
    apply andb_prop in Hp. destruct Hp. rewrite (IHe1 false false), (IHe2 false false); auto; intros; discriminate.
  - (* EList *) cbn [wf known_K1C] in *. apply orb_false_elim in Hk. destruct Hk. apply andb_prop in Hw. destruct Hw.
    apply andb_prop in Hp. destruct Hp. rewrite (IHe1 false false), (IHe2 false false); auto; try (intros; discriminate).
    rewrite andb_true_r.
    (* the right operand binds strictly tighter than the list: it is not a list of that kind *)
    cbn [ok_children] in Hoc. apply andb_prop in Hoc. destruct Hoc as [_ Hr]. unfold ok_right_ltr in Hr.
    destruct e2; cbn [is_list_of negb]; auto. destruct k, k0; cbn [is_list_of negb]; auto.
    all: try (rewrite (prio_list Space e2_1 e2_2 e1 (EList Space e2_1 e2_2)) in Hr; apply N.ltb_lt in Hr; lia).
    all: try (rewrite (prio_list Comma e2_1 e2_2 e1 (EList Comma e2_1 e2_2)) in Hr; apply N.ltb_lt in Hr; lia).
  - (* EGroup *) cbn [wf known_K1C] in *. eapply IHe; eauto. intros; discriminate.
  - (* ECond *) cbn [wf known_K1C] in *. apply orb_false_elim in Hk. destruct Hk. apply andb_prop in Hw. destruct Hw.
    apply andb_prop in Hp. destruct Hp. rewrite (IHe1 false false), (IHe2 false false); auto; intros; discriminate.
  - (* EElse *)
    apply andb_prop in Hp. destruct Hp as [Hp1 Hp2].
    cbn [wf] in Hw. repeat (apply andb_prop in Hw; destruct Hw as [Hw ?]).
    destruct ic; cbn [known_K1C] in Hk.
    + apply orb_false_elim in Hk. destruct Hk as [Hk1 Hk2].
      specialize (Hic eq_refl). cbn [lchain] in Hic. apply andb_prop in Hic. destruct Hic as [Hl Hc].
      rewrite (IHe1 false true), (IHe2 false true); auto.
      intros _. destruct e2; try discriminate; reflexivity.
    + apply orb_false_elim in Hk. destruct Hk as [Hk Hk2]. apply orb_false_elim in Hk. destruct Hk as [Hkc Hk1].
      assert (Hl : lchain e1 = true) by (eapply wf_lchain; eauto).
      rewrite Hl.
      assert (Hpl : plain e2 = true).
      { unfold plain. rewrite Hkc. cbn [negb andb].
        cbn [ok_children] in Hoc. apply andb_prop in Hoc. destruct Hoc as [_ Hr]. unfold ok_right_ltr in Hr.
        destruct e2; cbn [is_else negb]; auto.
        all: try (rewrite (prio_else e2_1 e2_2 e1 (EElse e2_1 e2_2)) in Hr; apply N.ltb_lt in Hr; lia). }
      rewrite Hpl. cbn [andb].
      rewrite (IHe2 false false); auto; try (intros; discriminate). rewrite andb_true_r.
      eapply (IHe1 false true); eauto.
  - (* ESeq *) cbn [wf known_K1C] in *. apply orb_false_elim in Hk. destruct Hk.
    repeat (apply andb_prop in Hw; destruct Hw as [Hw ?]).
    apply andb_prop in Hp. destruct Hp. rewrite (IHe1 true false), (IHe2 true false); auto; intros; discriminate.
  - (* ESide *) cbn [wf known_K1C] in *. apply orb_false_elim in Hk. destruct Hk.
    repeat (apply andb_prop in Hw; destruct Hw as [Hw ?]).
    apply andb_prop in Hp. destruct Hp. rewrite (IHe1 false false), (IHe2 true false); auto; intros; discriminate.
  - (* ENested *) cbn [wf known_K1C] in *. eapply IHe; eauto. intros; discriminate.
  - (* EReapply *) cbn [wf known_K1C] in *. eapply IHe; eauto. intros; discriminate.
Qed.

Lemma shape_of_printable : forall e, printable e = true -> known_K1 e = false -> shape_ok e = true.
Proof.
  intros e Hp Hk. unfold known_K1 in Hk. unfold printable, wf_prog in Hp.
  apply andb_prop in Hp. destruct Hp as [Hw Hpa]. apply andb_prop in Hw. destruct Hw as [Hw _].
  eapply shape_of_printable_gen; eauto. intros; discriminate.
Qed.

Lemma seq_of_printable : forall e, printable e = true -> seq_ok true e = true.
Proof.
  intros e Hp. unfold printable, wf_prog in Hp.
  apply andb_prop in Hp. destruct Hp as [Hw _]. apply andb_prop in Hw. destruct Hw as [Hw _].
  apply wf_seq_ok; auto.
Qed.
