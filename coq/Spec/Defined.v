(* What C08 quantifies over: which (operation, left type, right type) triples the
   language defines a result for.

   PINNED BY HAND (round 1) from the operand pairs the operations of
   runtime/src/runtime/*.rs list and act on, read against the trait
   documentation of GarnishData::defer_op ("called during any operation where
   the types given don't have defined functionality") -- /repo/docs has no type
   table.  This file does not mention the generated dispatch tables: that the
   code's arms agree with it is what Proofs/C08 shows.

   Reading notes (ambiguities resolved toward the unchanged code):
   * comparisons, equality, type tests, pair / list / concatenation / partial
     construction and the logical operators accept every type ([defined] = true;
     e.g. `<` on unrelated types is False, C12);
   * one-operand operations have no right operand: [defined i l _] ignores it;
   * `~#` (ApplyType) is defined on the type the right operand DENOTES when it
     is a Type value (`5 ~# Char`), on its own type otherwise;
   * Access with a symbol is a key lookup: defined on the values that can hold
     associations (pair, list, concatenation, slice) and NOT on char lists, byte
     lists and ranges, although the unchanged `access` listed those three pairs
     (it then failed with the 'unsupported types' error; fixed in ea4d24d);
   * the four range constructors are defined on two numbers only (the unchanged
     code yielded unit without asking the host; fixed in dc28e31). *)
From Coq Require Import List Bool.
From GV Require Import Gen.Instr.
Import ListNotations.

Definition is_in (t : data_type) (l : list data_type) : bool := existsb (data_type_eqb t) l.
Definition is_number (t : data_type) : bool := data_type_eqb t T_Number.

(* how many operands an operation takes from the register stack, for the
   operations C08 ranges over and the total ones the matrix also runs;
   None: not an operation over operand types *)
Definition operands (i : instruction) : option nat :=
  match i with
  | I_Add | I_Subtract | I_Multiply | I_Divide | I_IntegerDivide | I_Power | I_Remainder
  | I_BitwiseAnd | I_BitwiseOr | I_BitwiseXor | I_BitwiseShiftLeft | I_BitwiseShiftRight
  | I_Access | I_Apply | I_ApplyType
  | I_MakeRange | I_MakeStartExclusiveRange | I_MakeEndExclusiveRange | I_MakeExclusiveRange
  | I_Equal | I_NotEqual | I_TypeEqual
  | I_LessThan | I_LessThanOrEqual | I_GreaterThan | I_GreaterThanOrEqual
  | I_MakePair | I_Concat | I_PartialApply | I_Xor => Some 2
  | I_Opposite | I_AbsoluteValue | I_BitwiseNot
  | I_AccessLeftInternal | I_AccessRightInternal | I_AccessLengthInternal
  | I_EmptyApply | I_TypeOf | I_Not | I_Tis | I_And | I_Or | I_JumpIfTrue | I_JumpIfFalse => Some 1
  | _ => None
  end.

(* symbols, symbol lists and numbers join into a symbol list: `a.b`, `a.1` *)
Definition joins_to_path (l r : data_type) : bool :=
  is_in l [T_Symbol; T_SymbolList; T_Number] && is_in r [T_Symbol; T_SymbolList; T_Number]
  && negb (is_number l && is_number r).

Definition access_defined (l r : data_type) : bool :=
  joins_to_path l r
  || (is_in l [T_Pair; T_List; T_CharList; T_ByteList; T_Range; T_Concatenation; T_Slice] && is_number r)
  || (is_in l [T_Pair; T_List; T_Concatenation; T_Slice] && data_type_eqb r T_Symbol).

Definition apply_defined (l r : data_type) : bool :=
  is_in l [T_Expression; T_External; T_Partial]
  || (is_in l [T_Symbol; T_SymbolList] && is_in r [T_Symbol; T_SymbolList]
      && negb (data_type_eqb l T_Symbol && data_type_eqb r T_Symbol))
  || (is_in l [T_Range; T_Slice] && data_type_eqb r T_Range)
  || (is_in l [T_SymbolList; T_List; T_Pair] && is_number r)
  || (is_in l [T_Pair; T_List] && data_type_eqb r T_Symbol)
  || (data_type_eqb l T_List && data_type_eqb r T_SymbolList)
  || (is_in l [T_List; T_Concatenation; T_CharList; T_ByteList; T_SymbolList] && data_type_eqb r T_Range).

(* [r]: the target type *)
Definition cast_defined (l r : data_type) : bool :=
  data_type_eqb l r
  || (data_type_eqb l T_CharList && is_number r)
  || is_in r [T_CharList; T_ByteList; T_Symbol]
  || (is_in l [T_Number; T_Char; T_Byte] && is_in r [T_Number; T_Char; T_Byte])
  || (data_type_eqb l T_CharList && data_type_eqb r T_Char)
  || (is_in l [T_SymbolList; T_Range; T_CharList; T_ByteList; T_Concatenation; T_Slice] && data_type_eqb r T_List)
  || data_type_eqb l T_Unit
  || is_in r [T_True; T_False].

(* for one-operand operations the second type is ignored *)
Definition defined (i : instruction) (l r : data_type) : bool :=
  match i with
  | I_Add | I_Subtract | I_Multiply | I_Divide | I_IntegerDivide | I_Power | I_Remainder
  | I_BitwiseAnd | I_BitwiseOr | I_BitwiseXor | I_BitwiseShiftLeft | I_BitwiseShiftRight
  | I_MakeRange | I_MakeStartExclusiveRange | I_MakeEndExclusiveRange | I_MakeExclusiveRange =>
      is_number l && is_number r
  | I_Opposite | I_AbsoluteValue | I_BitwiseNot => is_number l
  | I_Access => access_defined l r
  | I_Apply => apply_defined l r
  | I_EmptyApply => is_in l [T_Expression; T_External; T_Partial]
  | I_ApplyType => cast_defined l r
  | I_AccessLeftInternal | I_AccessRightInternal => is_in l [T_Pair; T_Range; T_Slice; T_Concatenation]
  | I_AccessLengthInternal => is_in l [T_Pair; T_List; T_CharList; T_ByteList; T_Range; T_Slice; T_Concatenation]
  | _ => true
  end.
