(* Executable transliteration of compiler/src/parse/parser.rs: parse_token,
   parse_value_like, setup_space_list_check, check_composition (table in
   Gen.Defs), trim_tokens and the main loop of parse().  Tables (definitions,
   priorities, adjacency matrix) come from Gen.Defs, regenerated from the Rust
   on every run.  Node and token indices are [nat]; a node's lex token is the
   index of its token in the trimmed token list.  No proofs in this file. *)
From Coq Require Import List Arith Bool NArith.
From GV Require Import Base.Result Gen.TokenTypes Gen.Defs.
Import ListNotations.

(* error classes *)
Definition E_composition : N := 1%N.
Definition E_unmatched_group : N := 2%N.
Definition E_unclosed_group : N := 3%N.
Definition E_implementation : N := 4%N.
Definition E_group_mismatch : N := 5%N.
Definition E_missing_operand : N := 6%N.
Definition E_malformed : N := 7%N.

Record pnode : Type := mkNode {
  n_def : definition;
  n_sec : secondary;
  n_parent : option nat;
  n_left : option nat;
  n_right : option nat;
  n_tok : option nat   (* None: LexerToken::empty() *)
}.

Definition set_parent (p : option nat) (n : pnode) : pnode :=
  mkNode (n_def n) (n_sec n) p (n_left n) (n_right n) (n_tok n).
Definition set_right (r : option nat) (n : pnode) : pnode :=
  mkNode (n_def n) (n_sec n) (n_parent n) (n_left n) r (n_tok n).

Fixpoint upd {A} (l : list A) (i : nat) (f : A -> A) : option (list A) :=
  match l, i with
  | [], _ => None
  | x :: r, O => Some (f x :: r)
  | x :: r, S j => match upd r j f with Some r' => Some (x :: r') | None => None end
  end.

Definition opt_nat_eqb (a b : option nat) : bool :=
  match a, b with
  | None, None => true
  | Some x, Some y => Nat.eqb x y
  | _, _ => false
  end.

Definition impl_err {A} : res A := Err E_implementation.

Definition prio_of (d : definition) : res N :=
  match priority d with Some p => Ok p | None => impl_err end.

(* the parent-chain walk of parse_token; [fuel] only makes the recursion
   structural: the [count > nodes.len()] guard ends the loop first *)
Fixpoint walk (fuel : nat) (nodes : list pnode) (id : nat) (my : N) (is_side_effect : bool) (rtl : bool) (under_group : option nat)
         (current_left true_left : option nat) (count : nat) : res (option nat * option nat) :=
  match fuel with
  | O => OutOfFuel
  | S fuel' =>
    match current_left with
    | None => Ok (None, true_left)
    | Some li =>
      match nth_error nodes li with
      | None => impl_err
      | Some n =>
        do their <- prio_of (n_def n);
        let is_our_group := is_group_like (n_def n) &&
             match under_group with None => false | Some g => Nat.eqb g li end in
        let completed_suffix := secondary_eqb (n_sec n) S_UnarySuffix && negb is_side_effect in
        let closed_group := is_side_effect && negb is_our_group &&
                            (definition_eqb (n_def n) D_Group || definition_eqb (n_def n) D_NestedExpression) in
        let stop := negb completed_suffix && negb closed_group && (N.ltb my their || (N.eqb my their && rtl)) in
        if stop || is_our_group then Ok (Some li, true_left)
        else if opt_nat_eqb (n_right n) (Some id) then Err E_missing_operand
        else
          let count' := S count in
          if Nat.ltb (length nodes) count' then impl_err
          else walk fuel' nodes id my is_side_effect rtl under_group (n_parent n) (Some li) count'
      end
    end
  end.

(* parse_token: returns (nodes', parent, true_left); the caller keeps
   [definition] and [right]; *check_for_list = false is done by the caller *)
Definition parse_token (id : nat) (d : definition) (left : option nat) (nodes : list pnode)
           (under_group : option nat) (rtl : bool) : res (list pnode * option nat * option nat) :=
  do my <- prio_of d;
  do w <- walk (S (S (length nodes))) nodes id my (definition_eqb d D_SideEffect) rtl under_group left left 0;
  let '(parent, true_left) := w in
  let true_left := if opt_nat_eqb parent true_left then None else true_left in
  do nodes1 <- match true_left with
               | None => Ok nodes
               | Some ix => match upd nodes ix (set_parent (Some id)) with
                            | Some l => Ok l | None => impl_err end
               end;
  match parent with
  | None => Ok (nodes1, parent, true_left)
  | Some ix =>
    match nth_error nodes1 ix with
    | None => impl_err
    | Some pn =>
      let old_right := n_right pn in
      match upd nodes1 ix (set_right (Some id)) with
      | None => impl_err
      | Some nodes2 =>
        match old_right with
        | None => Ok (nodes2, parent, true_left)
        | Some r =>
          match upd nodes2 r (set_parent (Some id)) with
          | None => Ok (nodes2, parent, true_left)
          | Some nodes3 => Ok (nodes3, parent, Some r)
          end
        end
      end
    end
  end.

Record pstate : Type := mkState {
  nodes : list pnode;
  next_parent : option nat;
  last_left : option nat;
  check_for_list : bool;
  last_token : option nat;
  next_last_left : option nat;
  group_stack : list (nat * bool);
  current_group : option nat;
  prev_sec : secondary;
  prev_sig : secondary;      (* previous_significant_def *)
  separated : bool;
  se_prev : list secondary   (* side_effect_previous_defs, head = innermost *)
}.

Definition init_state : pstate :=
  mkState [] None None false None None [] None S_None S_None false [].

(* result of the per-token match: (definition, parent, left, right) *)
Definition info : Type := (definition * option nat * option nat * option nat)%type.
Definition drop_info : info := (D_Drop, None, None, None).

(* list node synthesised before a value / prefix / group *)
Definition make_list_node (current_id our_id : nat) (st : pstate) (under_group : option nat) : res (list pnode) :=
  do r <- parse_token current_id D_List (last_left st) (nodes st) under_group false;
  let '(nodes1, parent, tl) := r in
  Ok (nodes1 ++ [mkNode D_List S_StartGrouping parent tl (Some our_id) (last_token st)]).

(* block_has_operand: the chain of left operands of a side effect block, through side
   effect blocks, ends in an operand that is not one; [fuel] only makes the recursion
   structural: the [count > nodes.len()] guard ends the loop first *)
Fixpoint block_has_operand (fuel : nat) (nodes : list pnode) (n : pnode) (count : nat) : res bool :=
  match fuel with
  | O => OutOfFuel
  | S fuel' =>
    match n_left n with
    | None => Ok false
    | Some l =>
      match nth_error nodes l with
      | None => impl_err
      | Some ln =>
        if negb (definition_eqb (n_def ln) D_SideEffect) then Ok true
        else
          let count' := S count in
          if Nat.ltb (length nodes) count' then impl_err
          else block_has_operand fuel' nodes ln count'
      end
    end
  end.

(* setup_space_list_check: returns the new check_for_list *)
Definition space_list_check (st : pstate) (under_group : option nat) : res bool :=
  match last_left st with
  | None => Ok (check_for_list st)
  | Some l =>
    match nth_error (nodes st) l with
    | None => impl_err
    | Some ln =>
      let is_value := is_value_like (n_def ln) in
      let is_group_value := (definition_eqb (n_def ln) D_Group || definition_eqb (n_def ln) D_NestedExpression)
                            && negb (opt_nat_eqb (last_left st) under_group) in
      let is_suffix_value := secondary_eqb (n_sec ln) S_UnarySuffix in
      do is_block_value <-
        (if definition_eqb (n_def ln) D_SideEffect && negb (opt_nat_eqb (last_left st) under_group)
         then block_has_operand (S (length (nodes st))) (nodes st) ln 0
         else Ok false);
      Ok (if is_value || is_group_value || is_suffix_value || is_block_value then true else check_for_list st)
    end
  end.

Definition with_nodes (st : pstate) (ns : list pnode) : pstate :=
  mkState ns (next_parent st) (last_left st) (check_for_list st) (last_token st)
          (next_last_left st) (group_stack st) (current_group st) (prev_sec st) (prev_sig st) (separated st) (se_prev st).

(* check_separated_composition *)
Definition ends_value (s : secondary) : bool :=
  match s with S_Value | S_Identifier | S_EndGrouping | S_UnarySuffix => true | _ => false end.
Definition starts_value (s : secondary) : bool :=
  match s with S_Value | S_Identifier | S_StartGrouping | S_UnaryPrefix => true | _ => false end.
Definition forbidden_separated (previous current : secondary) (check_for_list : bool) : bool :=
  if ends_value previous && starts_value current && check_for_list then false
  else forbidden previous current check_for_list.

Definition expected_end (d : definition) : option token_type :=
  match d with
  | D_Group => Some TT_EndGroup
  | D_NestedExpression => Some TT_EndExpression
  | D_SideEffect => Some TT_EndSideEffect
  | _ => None
  end.

Fixpoint removelast_pair {A} (l : list A) : option (list A * A) :=
  match l with
  | [] => None
  | [x] => Some ([], x)
  | x :: r => match removelast_pair r with Some (r', y) => Some (x :: r', y) | None => None end
  end.

(* one iteration of the main loop; [i] index of the token in the trimmed list,
   [ntoks] their number *)
Definition step (ntoks : nat) (i : nat) (tok : token_type) (st0 : pstate) : res pstate :=
  let current_id := length (nodes st0) in
  do under_group <- match current_group st0 with
                    | None => Ok None
                    | Some c => match nth_error (group_stack st0) c with
                                | None => impl_err
                                | Some (g, _) => Ok (Some g)
                                end
                    end;
  (* last_left adjustment after a finished side effect *)
  do adj <- match last_left st0 with
            | None => Ok (last_left st0, prev_sec st0, prev_sig st0)
            | Some li =>
              match nth_error (nodes st0) li with
              | None => impl_err
              | Some n =>
                if definition_eqb (n_def n) D_SideEffect
                   && negb (opt_nat_eqb (last_left st0) under_group)
                   && match n_parent n with Some _ => true | None => false end
                   && match n_left n with None => true | Some _ => false end
                then
                  Ok (n_parent n, prev_sec st0, prev_sig st0)
                else Ok (last_left st0, prev_sec st0, prev_sig st0)
              end
            end;
  let '(ll, psec, psig) := adj in
  let st := mkState (nodes st0) (next_parent st0) ll (check_for_list st0) (last_token st0)
                    (next_last_left st0) (group_stack st0) (current_group st0) psec psig (separated st0) (se_prev st0) in
  let assumed_right := if Nat.leb ntoks (i + 1) then None else Some (current_id + 1) in
  let '(definition, sec) := get_definition tok in
  if forbidden (prev_sec st) sec (check_for_list st) then Err E_composition else
  let trivia := match sec with S_Whitespace | S_Annotation => true | _ => false end in
  if negb trivia && separated st && forbidden_separated (prev_sig st) sec (check_for_list st) then Err E_composition else
  let '(new_sig, new_sep, new_se) :=
    if trivia then (prev_sig st, true, se_prev st)
    else match sec with
         | S_StartSideEffect => (sec, false, prev_sig st :: se_prev st)
         | S_EndSideEffect => match se_prev st with
                              | p :: r => (p, true, r)
                              | [] => (S_None, true, [])
                              end
         | _ => (sec, false, se_prev st)
         end in
  let new_prev := match sec with S_EndSideEffect => new_sig | _ => sec end in
  (* result: (state with updated fields except the final push/last_left, info) *)
  do r <-
    match sec with
    | S_None => impl_err
    | S_Whitespace =>
        do cfl <- space_list_check st under_group;
        Ok (mkState (nodes st) (next_parent st) (last_left st) cfl (last_token st)
                    (last_left st) (group_stack st) (current_group st) new_prev new_sig new_sep new_se, drop_info)
    | S_Annotation =>
        Ok (mkState (nodes st) (next_parent st) (last_left st) (check_for_list st) (last_token st)
                    (last_left st) (group_stack st) (current_group st) new_prev new_sig new_sep new_se, (definition, None, None, None))
    | S_Identifier | S_Value =>
        if check_for_list st then
          let our_id := current_id + 1 in
          do ns <- make_list_node current_id our_id st under_group;
          let nll := Some (length ns) in
          do r2 <- parse_token our_id definition (Some current_id) ns under_group false;
          let '(ns2, parent, tl) := r2 in
          Ok (mkState ns2 (next_parent st) (last_left st) false (last_token st)
                      nll (group_stack st) (current_group st) new_prev new_sig new_sep new_se, (definition, parent, tl, None))
        else
          do r2 <- parse_token current_id definition (last_left st) (nodes st) under_group false;
          let '(ns2, parent, tl) := r2 in
          Ok (mkState ns2 (next_parent st) (last_left st) false (last_token st)
                      (next_last_left st) (group_stack st) (current_group st) new_prev new_sig new_sep new_se, (definition, parent, tl, None))
    | S_BinaryRightToLeft =>
        do r2 <- parse_token current_id definition (last_left st) (nodes st) under_group true;
        let '(ns2, parent, tl) := r2 in
        Ok (mkState ns2 (Some current_id) (last_left st) false (last_token st)
                    (next_last_left st) (group_stack st) (current_group st) new_prev new_sig new_sep new_se, (definition, parent, tl, assumed_right))
    | S_BinaryLeftToRight | S_OptionalBinaryLeftToRight =>
        do r2 <- parse_token current_id definition (last_left st) (nodes st) under_group false;
        let '(ns2, parent, tl) := r2 in
        Ok (mkState ns2 (Some current_id) (last_left st) false (last_token st)
                    (next_last_left st) (group_stack st) (current_group st) new_prev new_sig new_sep new_se, (definition, parent, tl, assumed_right))
    | S_UnaryPrefix =>
        if check_for_list st then
          let our_id := current_id + 1 in
          do ns <- make_list_node current_id our_id st under_group;
          Ok (mkState ns (Some our_id) (last_left st) false (last_token st)
                      (Some (length ns)) (group_stack st) (current_group st) new_prev new_sig new_sep new_se,
              (definition, Some current_id, None, Some (our_id + 1)))
        else
          Ok (mkState (nodes st) (Some current_id) (last_left st) (check_for_list st) (last_token st)
                      (next_last_left st) (group_stack st) (current_group st) new_prev new_sig new_sep new_se,
              (definition, next_parent st, None, assumed_right))
    | S_UnarySuffix =>
        do r2 <- parse_token current_id definition (last_left st) (nodes st) under_group false;
        let '(ns2, parent, tl) := r2 in
        Ok (mkState ns2 (Some current_id) (last_left st) false (last_token st)
                    (next_last_left st) (group_stack st) (current_group st) new_prev new_sig new_sep new_se, (definition, parent, tl, None))
    | S_StartGrouping =>
        let cg := Some (length (group_stack st)) in
        if check_for_list st then
          let our_id := current_id + 1 in
          do ns <- make_list_node current_id our_id st under_group;
          (* check_for_list is false after parse_token *)
          Ok (mkState ns (Some our_id) (last_left st) false (last_token st)
                      (Some our_id) (group_stack st ++ [(our_id, false)]) cg new_prev new_sig new_sep new_se,
              (definition, Some current_id, None, Some (our_id + 1)))
        else
          Ok (mkState (nodes st) (Some current_id) (last_left st) (check_for_list st) (last_token st)
                      (next_last_left st) (group_stack st ++ [(current_id, check_for_list st)]) cg new_prev new_sig new_sep new_se,
              (definition, next_parent st, None, assumed_right))
    | S_StartSideEffect =>
        let group_info := (current_id, check_for_list st) in
        do r2 <- parse_token current_id definition (last_left st) (nodes st) under_group false;
        let '(ns2, parent, tl) := r2 in
        Ok (mkState ns2 (Some current_id) (last_left st) false (last_token st)
                    (next_last_left st) (group_stack st ++ [group_info]) (Some (length (group_stack st))) new_prev new_sig new_sep new_se,
            (definition, parent, tl, assumed_right))
    | S_EndGrouping | S_EndSideEffect =>
        match removelast_pair (group_stack st) with
        | None => Err E_unmatched_group
        | Some (gs', (gleft, need_list_check)) =>
          match nth_error (nodes st) gleft with
          | None => impl_err
          | Some sgn =>
            match expected_end (n_def sgn) with
            | None => impl_err
            | Some expected =>
              if negb (token_type_eqb tok expected) then Err E_group_mismatch else
              let cg := match gs' with [] => None | _ => Some (length gs' - 1) end in
              (* check last left for optional / the ended group / trailing subexpression *)
              do ns <-
                match last_left st with
                | None => Ok (nodes st)
                | Some l =>
                  match nth_error (nodes st) l with
                  | None => impl_err
                  | Some ln =>
                    let empty_group := Nat.eqb l gleft && opt_nat_eqb (n_right ln) (Some current_id) in
                    let unfilled_optional := secondary_eqb (n_sec ln) S_OptionalBinaryLeftToRight
                                             && opt_nat_eqb (n_right ln) (Some current_id) in
                    let ln1 := if is_optional (n_def ln) || empty_group || unfilled_optional then set_right None ln else ln in
                    match upd (nodes st) l (fun _ => ln1) with
                    | None => impl_err
                    | Some ns1 =>
                      if (definition_eqb (n_def ln1) D_Subexpression || definition_eqb (n_def ln1) D_ExpressionSeparator)
                         && opt_nat_eqb (n_right ln1) (Some current_id)
                      then
                        let new_parent := n_parent ln1 in
                        match n_left ln1 with
                        | None => Ok ns1
                        | Some lf =>
                          match upd ns1 lf (set_parent new_parent) with
                          | None => impl_err
                          | Some ns2 =>
                            match new_parent with
                            | None => Ok ns2
                            | Some p =>
                              match upd ns2 p (set_right (n_left ln1)) with
                              | None => impl_err
                              | Some ns3 => Ok ns3
                              end
                            end
                          end
                        end
                      else Ok ns1
                    end
                  end
                end;
              Ok (mkState ns (next_parent st) (last_left st) need_list_check (last_token st)
                          (Some gleft) gs' cg new_prev new_sig new_sep new_se, drop_info)
            end
          end
        end
    | S_Subexpression =>
        do gi <- match current_group st with
                 | None => Ok (D_Drop, 0)
                 | Some g =>
                   match nth_error (group_stack st) g with
                   | None => impl_err
                   | Some (gidx, _) =>
                     match nth_error (nodes st) gidx with
                     | None => impl_err
                     | Some gn => Ok (n_def gn, gidx)
                     end
                   end
                 end;
        let '(in_group, group_index) := gi in
        if definition_eqb in_group D_Group then
          do cfl <- space_list_check st under_group;
          Ok (mkState (nodes st) (next_parent st) (last_left st) cfl (last_token st)
                      (last_left st) (group_stack st) (current_group st) new_prev new_sig new_sep new_se, drop_info)
        else
          do dr <- match last_left st with
                   | None => Ok (nodes st, false)
                   | Some l =>
                     match nth_error (nodes st) l with
                     | None => impl_err
                     | Some ln =>
                       let ln1 := if is_optional (n_def ln) then set_right None ln else ln in
                       match upd (nodes st) l (fun _ => ln1) with
                       | None => impl_err
                       | Some ns1 =>
                         let left_is_expression_start :=
                             definition_eqb in_group D_NestedExpression && Nat.eqb group_index l in
                         Ok (ns1, secondary_eqb (n_sec ln1) S_Subexpression || left_is_expression_start)
                       end
                     end
                   end;
          let '(ns1, drop) := dr in
          if drop then
            Ok (mkState ns1 (next_parent st) (last_left st) (check_for_list st) (last_token st)
                        (last_left st) (group_stack st) (current_group st) new_prev new_sig new_sep new_se, drop_info)
          else
            do r2 <- parse_token current_id definition (last_left st) ns1 under_group false;
            let '(ns2, parent, tl) := r2 in
            Ok (mkState ns2 (Some current_id) (last_left st) false (last_token st)
                        (next_last_left st) (group_stack st) (current_group st) new_prev new_sig new_sep new_se,
                (definition, parent, tl, assumed_right))
    end;
  let '(st1, inf) := r in
  let '(definition, parent, ileft, iright) := inf in
  let ns :=
    if definition_eqb definition D_Drop then nodes st1
    else
      let definition' :=
        if definition_eqb definition D_Identifier then
          match parent with
          | Some p => match nth_error (nodes st1) p with
                      | Some pn => if definition_eqb (n_def pn) D_Access then D_Property else definition
                      | None => definition end
          | None => definition
          end
        else definition in
      nodes st1 ++ [mkNode definition' sec parent ileft iright (Some i)] in
  let new_last_left :=
    match next_last_left st1 with
    | Some k => Some k
    | None => match ns with [] => None | _ => Some current_id end
    end in
  Ok (mkState ns (next_parent st1) new_last_left (check_for_list st1) (Some i)
              None (group_stack st1) (current_group st1) (prev_sec st1) (prev_sig st1) (separated st1) (se_prev st1)).

Fixpoint run_steps (ntoks : nat) (i : nat) (toks : list token_type) (st : pstate) : res pstate :=
  match toks with
  | [] => Ok st
  | t :: rest => do st' <- step ntoks i t st; run_steps ntoks (S i) rest st'
  end.

Definition is_trim (t : token_type) : bool :=
  token_type_eqb t TT_Whitespace || token_type_eqb t TT_Subexpression
  || token_type_eqb t TT_Annotation || token_type_eqb t TT_LineAnnotation.

Fixpoint drop_while_trim (l : list token_type) : list token_type :=
  match l with
  | [] => []
  | t :: r => if is_trim t then drop_while_trim r else l
  end.

(* trim_tokens; also returns how many tokens were cut at the front *)
Definition trim_tokens (l : list token_type) : nat * list token_type :=
  let l1 := drop_while_trim l in
  (length l - length l1, rev (drop_while_trim (rev l1))).

Fixpoint find_root (fuel : nat) (ns : list pnode) (root : nat) (n : pnode) (count : nat) : res nat :=
  match fuel with
  | O => OutOfFuel
  | S fuel' =>
    match n_parent n with
    | None => Ok root
    | Some i =>
      match nth_error ns i with
      | None => impl_err
      | Some p =>
        let count' := S count in
        if Nat.ltb (length ns) count' then impl_err
        else find_root fuel' ns i p count'
      end
    end
  end.

(* validate_tree: the node links form a tree *)
Definition visit_child (ns : list pnode) (visited : list bool) (stack : list nat) (i : nat) (c : option nat)
  : res (list bool * list nat) :=
  match c with
  | None => Ok (visited, stack)
  | Some k =>
    match nth_error ns k, nth_error visited k with
    | Some cn, Some false =>
      if opt_nat_eqb (n_parent cn) (Some i) then
        match upd visited k (fun _ => true) with
        | Some v' => Ok (v', k :: stack)
        | None => Err E_malformed
        end
      else Err E_malformed
    | _, _ => Err E_malformed
    end
  end.

Fixpoint validate_go (fuel : nat) (ns : list pnode) (visited : list bool) (stack : list nat) : res (list bool) :=
  match fuel with
  | O => OutOfFuel
  | S f =>
    match stack with
    | [] => Ok visited
    | i :: rest =>
      let '(l, r) := match nth_error ns i with Some n => (n_left n, n_right n) | None => (None, None) end in
      do a <- visit_child ns visited rest i l;
      let '(v1, st1) := a in
      do b <- visit_child ns v1 st1 i r;
      let '(v2, st2) := b in
      validate_go f ns v2 st2
    end
  end.

Fixpoint unvisited_ok (ns : list pnode) (visited : list bool) : bool :=
  match ns, visited with
  | n :: r, v :: vr =>
    (v || definition_eqb (n_def n) D_Subexpression || definition_eqb (n_def n) D_ExpressionSeparator)
    && unvisited_ok r vr
  | _, _ => true
  end.

Definition validate_tree (ns : list pnode) (root : nat) : res unit :=
  match upd (map (fun _ => false) ns) root (fun _ => true) with
  | None => Err E_malformed
  | Some v0 =>
    do v <- validate_go (S (S (length ns))) ns v0 [root];
    if unvisited_ok ns v then Ok tt else Err E_malformed
  end.

Definition parse_trimmed (toks : list token_type) : res (nat * list pnode) :=
  match toks with
  | [] => Ok (0, [])
  | _ =>
    do st <- run_steps (length toks) 0 toks init_state;
    if forbidden (prev_sec st) S_None (check_for_list st) then Err E_composition else
    if separated st && forbidden_separated (prev_sig st) S_None (check_for_list st) then Err E_composition else
    match group_stack st with
    | _ :: _ => Err E_unclosed_group
    | [] =>
      let ns := map (fun n => match n_right n with
                              | Some r => if Nat.leb (length (nodes st)) r then set_right None n else n
                              | None => n end) (nodes st) in
      match ns with
      | [] => Ok (0, [])
      | n0 :: _ => do root <- find_root (S (S (length ns))) ns 0 n0 0;
                   do _ <- validate_tree ns root; Ok (root, ns)
      end
    end
  end.

Definition parse (toks : list token_type) : res (nat * list pnode) :=
  parse_trimmed (snd (trim_tokens toks)).
