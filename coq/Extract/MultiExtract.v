(* Extraction for the C20 correspondence: parser and worklist-builder models
   run with the initial table lengths the harness reports, the tree compiler,
   relocation / frame checks and the C05 / C06 checkers (ExtrOcamlBasic only). *)
Require Import ExtrOcamlBasic.
From Coq Require Import List NArith ZArith.
From GV Require Import Base.Result Gen.TokenTypes Gen.Defs Gen.Instr Model.Parser Model.BuilderWL
  Model.Compile Spec.WfCode Spec.Depth Spec.Reloc.
Cd "../build/ocaml".
Extraction "multi_model.ml" parse trim_tokens build build_fuel empty_init all_token_type all_instruction
  definition_index secondary_index instruction_index token_type_index Z.of_N N.of_nat N.to_nat
  compile_nodes same_code tree_of wf_report code_of_build
  prog_of_build infer_depths relocated own_code elides_across.
Cd "../../coq".
