(* Machine-checked witnesses: the two known-finding classes of C01 are real
   (the faithful model violates the statement on them), and the theorems'
   hypotheses are met by concrete non-trivial programs. *)
From Coq Require Import ZArith NArith List Bool Arith.
From GV Require Import Base.Result Base.Host Gen.Instr Model.Num Model.Value Model.Machine
  Model.CompileExpr Spec.Ast Spec.Printer Spec.Eval Proofs.C01.Fragment Proofs.C01.Stages Proofs.C01.Main Proofs.C01.Bounded.
Import ListNotations.

(* a host that declines everything *)
Definition nohost (h : unit) (c : host_call) : unit * option val := (h, None).

(* $! ?> 1 |> $! ?> 2 *)
Definition k1_witness : expr :=
  EElse (ECond false (ELit LFalse) (ELit (LInt 1))) (ECond false (ELit LFalse) (ELit (LInt 2))).

Definition machine_result (e : expr) (vin : val) (fuel : nat) : option (N + val) :=
  match initial unit (compile_prog sh e) 0 vin tt with
  | None => None
  | Some s0 =>
      match run unit nohost fuel (compile_prog sh e) s0 with
      | REnd _ s _ => match current_value unit s with Some v => Some (inr v) | None => None end
      | RErr _ c _ => Some (inl c)
      | RFuel _ _ => None
      end
  end.

Lemma K1_refuted :
  known_K1 k1_witness = true /\
  eval_prog sh unit nohost 10 k1_witness (VNum (Int 9)) tt = ODone (VNum (Int 9)) (tt, []) /\
  machine_result k1_witness (VNum (Int 9)) 100 = Some (inl E_noreg).
Proof. vm_compute. repeat split; reflexivity. Qed.

(* ({ 1 [$ < 1 ?> ^~ 5] } <~ 0) + $ *)
Definition k2_witness : expr :=
  EBin BAdd
    (EGroup (EBin BApply
       (ENested 1 (ESide (ELit (LInt 1)) (ECond false (EBin BLt EValue (ELit (LInt 1))) (EReapply (ELit (LInt 5))))))
       (ELit (LInt 0))))
    EValue.

Lemma K2_refuted :
  known_K2 k2_witness = true /\
  eval_prog sh unit nohost 50 k2_witness (VNum (Int 100)) tt = ODone (VNum (Int 101)) (tt, []) /\
  machine_result k2_witness (VNum (Int 100)) 200 = Some (inr (VNum (Int 1))).
Proof. vm_compute. repeat split; reflexivity. Qed.

(* non-vacuity: a program of the stage-3 fragment using every kind of construct,
   with an identifier resolved by the host *)
Definition host9 (h : nat) (c : host_call) : nat * option val :=
  match c with
  | HResolve _ => (S h, Some (VNum (Int 9)))
  | HApply _ _ => (S h, None)
  | HDefer _ _ _ => (h, None)
  end.

(* (a < 10 && $? ?> 1 2 |> 3) ; $ . 0 = (:k = $ [a]) *)
Definition demo : expr :=
  ESeq Semi
    (EElse (ECond false (EAnd (EBin BLt (EIdent [97%N]) (ELit (LInt 10))) (ELit LTrue))
                  (EList Space (ELit (LInt 1)) (ELit (LInt 2))))
           (ELit (LInt 3)))
    (EBin BPair (EBin BAccess EValue (ELit (LInt 0)))
                (EGroup (EBin BPair (ELit (LSym [107%N])) (ESide EValue (EIdent [97%N]))))).

Example demo_in_fragment : frag3 demo = true /\ shape_ok demo = true /\ seq_ok true demo = true /\
  known_K1 demo = false /\ known_K2 demo = false.
Proof. vm_compute. repeat split; reflexivity. Qed.

Example demo_evaluates :
  exists v h t, eval_prog sh nat host9 30 demo VUnit 0 = ODone v (h, t) /\ length t = 2 /\ h = 2 /\
    v = VPair (VNum (Int 1)) (VPair (VSym (sh [107%N])) (VList [VNum (Int 1); VNum (Int 2)])).
Proof. eexists; eexists; eexists. vm_compute. repeat split; reflexivity. Qed.

(* stage 4: { $ < 3 ?> ^~ $ + 1 |> $ = a } <~ 0  -- a loop through `^~`, an identifier inside the body;
   the nested expression is labelled with the jump-table index of its body *)
Definition demo4 : expr :=
  EBin BApply
    (ENested 1 (EElse (ECond false (EBin BLt EValue (ELit (LInt 3))) (EReapply (EBin BAdd EValue (ELit (LInt 1)))))
                      (EBin BPair EValue (EIdent [97%N]))))
    (ELit (LInt 0)).

Example demo4_in_fragment :
  Spec.Printer.printable demo4 = true /\ known_K1 demo4 = false /\ known_K2 demo4 = false /\
  Proofs.C01.Main.labels_ok demo4 = true /\ frag3 demo4 = false.
Proof. vm_compute. repeat split; reflexivity. Qed.

Example demo4_evaluates :
  exists h t, eval_prog sh nat host9 40 demo4 VUnit 0 = ODone (VPair (VNum (Int 3)) (VNum (Int 9))) (h, t) /\ length t = 1.
Proof. eexists; eexists. vm_compute. split; reflexivity. Qed.
