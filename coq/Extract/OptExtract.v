(* Extraction of the compaction/clone model and of the read-back spec for the
   correspondence check (C19).  ExtrOcamlBasic only; nat/N/Z/positive stay Coq
   datatypes.  No Extract Constant. *)
Require Import ExtrOcamlBasic.
From Coq Require Import NArith ZArith List.
From GV Require Import Model.Optimize Spec.HeapIso.
Cd "../build/ocaml".
Extraction "opt_model.ml" optimize clone_data create_index_stack clone_index_stack cursor
  read_any read_tree regs_of vals_of frames_of symbol_index assoc_entries assoc_search.
Cd "../../coq".
