//! store: C15 harness.  Runs operation histories on BasicGarnishData / SimpleGarnishData
//! and reads everything back through the public getters.
//!
//! Case line:   <impl> <profile> <dump> | <op> ; <op> ; ...
//!   impl     B | S
//!   profile  (B) six comma separated block settings  <initial>/<max or ->/<F|M><n>
//!            in the order instruction, jump table, symbol table, expression symbols, data, custom;
//!            `default` = BasicGarnishData::new;   (S) `-`
//!   dump     a (after every step) | e (after the last step) | <K> (every K-th step and the last)
//!   ops      I <instr#> <data|->   push_instruction          J <n>        push_to_jump_table
//!            JM <idx> <n>          *get_from_jump_table_mut   Y <name>     parse_add_symbol
//!            E <symhex> <n>        push_to_expression_symbol_block (B)     C  push custom
//!            U | T | F             add_unit/true/false        N <num>      add_number
//!            TY <type#>  CH <cphex>  BY <hex>  SY <hex>  EX <n>  XT <n>    add_type/char/byte/symbol/expression/external
//!            P|CC|RG|SL|PT <a> <b> add_pair/concatenation/range/slice/partial
//!            W <cps>               text: B add_string, S start/add_to/end_char_list
//!            BL <bytes>            bytes: B add_byte_slice, S start/add_to/end_byte_list
//!            LS <n>  LA <list> <item>  LE <list>              start_list/add_to_list/end_list
//!            RP <a> RQ  VP <a> VQ  VS <a>  FP <n> FQ  IC <n>  register/value/frame stacks, cursor
//!   an address argument is a decimal number or @k = the numeric result of step k (0-based)
//! Output:  <case>\t<results> # <step>:<dump> ; ...\t<oracle>
//!   result  a<n> value address | h<n> handle | x<n> index | ok | none | some<n> | err | NA | PANIC | -
//!   oracle  h<k>:<hex> the intern-table hash of the constant added at step k (S);  s<k>:<hex> symbol value of the name
#[path = "../storeview.rs"]
mod storeview;

use garnish_lang_simple_data::{
    symbol_value, BasicGarnishData, NoCustom, NoOpCompanion, ReallocationStrategy, SimpleData, SimpleGarnishData, SimpleNumber, StorageSettings,
};
use garnish_lang_traits::{GarnishData, GarnishDataType};
use garnish_verif_harness::*;
use std::collections::hash_map::DefaultHasher;
use std::hash::{Hash, Hasher};
use storeview::*;

type Basic = BasicGarnishData<(), NoOpCompanion>;
type Simple = SimpleGarnishData<NoCustom>;

enum Store {
    B(Basic),
    S(Simple),
}

fn cache_hash(v: &SimpleData) -> u64 {
    let mut h = DefaultHasher::new();
    v.hash(&mut h);
    v.get_data_type().hash(&mut h);
    h.finish()
}

fn parse_settings(s: &str) -> StorageSettings {
    let p: Vec<&str> = s.split('/').collect();
    let init: usize = p[0].parse().expect("init");
    let max: usize = if p[1] == "-" { usize::MAX } else { p[1].parse().expect("max") };
    let n: usize = p[2][1..].parse().expect("strategy arg");
    let st = match p[2].as_bytes()[0] {
        b'F' => ReallocationStrategy::FixedSize(n),
        b'M' => ReallocationStrategy::Multiplicative(n),
        _ => panic!("bad strategy"),
    };
    StorageSettings::new(init, max, st)
}

fn make_store(imp: &str, profile: &str) -> Result<Store, ()> {
    match imp {
        "S" => Ok(Store::S(SimpleGarnishData::new())),
        "B" => {
            if profile == "default" {
                return BasicGarnishData::new(NoOpCompanion::new()).map(Store::B).map_err(|_| ());
            }
            let s: Vec<StorageSettings> = profile.split(',').map(parse_settings).collect();
            assert_eq!(s.len(), 6);
            BasicGarnishData::new_with_settings(s[0].clone(), s[1].clone(), s[2].clone(), s[3].clone(), s[4].clone(), s[5].clone(), NoOpCompanion::new())
                .map(Store::B)
                .map_err(|_| ())
        }
        _ => panic!("bad impl"),
    }
}

struct Ctx {
    results: Vec<Option<usize>>,
    kinds: Vec<u8>,
    syms: Vec<(u64, String)>,
    esyms: Vec<u64>,
    oracle: Vec<String>,
}

impl Ctx {
    fn arg(&self, s: &str) -> usize {
        if let Some(k) = s.strip_prefix('@') {
            let k: usize = k.parse().expect("step ref");
            self.results.get(k).cloned().flatten().unwrap_or(0)
        } else {
            s.parse().expect("address")
        }
    }
}

enum R {
    Addr(usize),
    Handle(usize),
    Index(usize),
    Ok,
    NoneR,
    SomeR(usize),
    Err,
    NA,
}

fn ra<E>(r: Result<usize, E>) -> R {
    match r {
        Ok(a) => R::Addr(a),
        Err(_) => R::Err,
    }
}
fn ru<E>(r: Result<(), E>) -> R {
    match r {
        Ok(()) => R::Ok,
        Err(_) => R::Err,
    }
}
fn ro<E>(r: Result<Option<usize>, E>) -> R {
    match r {
        Ok(Some(a)) => R::SomeR(a),
        Ok(None) => R::NoneR,
        Err(_) => R::Err,
    }
}

/// operations that exist on the GarnishData trait
fn trait_op<D>(d: &mut D, cx: &mut Ctx, step: usize, t: &[&str], simple: bool) -> Option<R>
where
    D: GarnishData<Size = usize, Number = SimpleNumber, Char = char, Byte = u8, Symbol = u64>,
{
    fn intern_to(oracle: &mut Vec<String>, simple: bool, step: usize, v: SimpleData) {
        if simple {
            oracle.push(format!("h{}:{:x}", step, cache_hash(&v)));
        }
    }
    Some(match t[0] {
        "I" => {
            let data = if t[2] == "-" { None } else { Some(cx.arg(t[2])) };
            match d.push_instruction(instr_of(t[1].parse().expect("instr")), data) {
                Ok(i) => R::Index(i),
                Err(_) => R::Err,
            }
        }
        "J" => ru(d.push_to_jump_table(cx.arg(t[1]))),
        "JM" => {
            let v = cx.arg(t[2]);
            match d.get_from_jump_table_mut(cx.arg(t[1])) {
                Some(p) => {
                    *p = v;
                    R::Ok
                }
                None => R::NoneR,
            }
        }
        "Y" => {
            let sym = symbol_value(t[1].trim_matches(':'));
            if simple {
                cx.oracle.push(format!("h{}:{:x}", step, cache_hash(&SimpleData::Symbol(sym))));
            }
            let r = d.parse_add_symbol(t[1]);
            if !cx.syms.iter().any(|(s, _)| *s == sym) {
                cx.syms.push((sym, t[1].to_string()));
            }
            ra(r)
        }
        "U" => ra(d.add_unit()),
        "T" => ra(d.add_true()),
        "F" => ra(d.add_false()),
        "N" => {
            let n = parse_num(t[1]);
            intern_to(&mut cx.oracle, simple, step, SimpleData::Number(n));
            ra(d.add_number(n))
        }
        "TY" => {
            let ty = type_of(t[1].parse().expect("type"));
            intern_to(&mut cx.oracle, simple, step, SimpleData::Type(ty));
            ra(d.add_type(ty))
        }
        "CH" => {
            let c = char::from_u32(u32::from_str_radix(t[1], 16).expect("hex")).expect("char");
            intern_to(&mut cx.oracle, simple, step, SimpleData::Char(c));
            ra(d.add_char(c))
        }
        "BY" => {
            let b = u8::from_str_radix(t[1], 16).expect("hex");
            intern_to(&mut cx.oracle, simple, step, SimpleData::Byte(b));
            ra(d.add_byte(b))
        }
        "SY" => {
            let s = u64::from_str_radix(t[1], 16).expect("hex");
            intern_to(&mut cx.oracle, simple, step, SimpleData::Symbol(s));
            ra(d.add_symbol(s))
        }
        "EX" => {
            let n = cx.arg(t[1]);
            intern_to(&mut cx.oracle, simple, step, SimpleData::Expression(n));
            ra(d.add_expression(n))
        }
        "XT" => {
            let n = cx.arg(t[1]);
            intern_to(&mut cx.oracle, simple, step, SimpleData::External(n));
            ra(d.add_external(n))
        }
        "P" => ra(d.add_pair((cx.arg(t[1]), cx.arg(t[2])))),
        "CC" => ra(d.add_concatenation(cx.arg(t[1]), cx.arg(t[2]))),
        "RG" => ra(d.add_range(cx.arg(t[1]), cx.arg(t[2]))),
        "SL" => ra(d.add_slice(cx.arg(t[1]), cx.arg(t[2]))),
        "PT" => ra(d.add_partial(cx.arg(t[1]), cx.arg(t[2]))),
        "LS" => match d.start_list(cx.arg(t[1])) {
            Ok(a) => R::Handle(a),
            Err(_) => R::Err,
        },
        "LA" => match d.add_to_list(cx.arg(t[1]), cx.arg(t[2])) {
            Ok(a) => R::Handle(a),
            Err(_) => R::Err,
        },
        "LE" => ra(d.end_list(cx.arg(t[1]))),
        "RP" => ru(d.push_register(cx.arg(t[1]))),
        "RQ" => ro(d.pop_register()),
        "VP" => ru(d.push_value_stack(cx.arg(t[1]))),
        "VQ" => match d.pop_value_stack() {
            Some(a) => R::SomeR(a),
            None => R::NoneR,
        },
        "VS" => {
            let v = cx.arg(t[1]);
            match d.get_current_value_mut() {
                Some(p) => {
                    *p = v;
                    R::Ok
                }
                None => R::NoneR,
            }
        }
        "FP" => ru(d.push_frame(cx.arg(t[1]))),
        "FQ" => ro(d.pop_frame()),
        "IC" => ru(d.set_instruction_cursor(cx.arg(t[1]))),
        _ => return None,
    })
}

fn text_of(s: &str) -> String {
    parse_dotted_hex(s).into_iter().map(|c| char::from_u32(c as u32).expect("char")).collect()
}

fn run_op(st: &mut Store, cx: &mut Ctx, step: usize, t: &[&str]) -> R {
    match st {
        Store::B(d) => {
            if let Some(r) = trait_op(d, cx, step, t, false) {
                return r;
            }
            match t[0] {
                "E" => ru(d.push_to_expression_symbol_block(u64::from_str_radix(t[1], 16).expect("hex"), cx.arg(t[2])).map(|_| {
                    let s = u64::from_str_radix(t[1], 16).unwrap();
                    if !cx.esyms.contains(&s) {
                        cx.esyms.push(s);
                    }
                })),
                "C" => match d.push_to_custom_data_block(()) {
                    Ok(i) => R::Index(i),
                    Err(_) => R::Err,
                },
                "W" => ra(d.add_string(&text_of(t[1]))),
                "BL" => {
                    let b: Vec<u8> = parse_dotted_hex(t[1]).into_iter().map(|x| x as u8).collect();
                    ra(d.add_byte_slice(&b))
                }
                o => panic!("bad op {}", o),
            }
        }
        Store::S(d) => {
            if let Some(r) = trait_op(d, cx, step, t, true) {
                return r;
            }
            match t[0] {
                "E" => R::NA,
                "C" => ra(d.add_custom(NoCustom {})),
                "W" => {
                    let s = text_of(t[1]);
                    cx.oracle.push(format!("h{}:{:x}", step, cache_hash(&SimpleData::CharList(s.clone()))));
                    let r = d.start_char_list().and_then(|_| {
                        for c in s.chars() {
                            d.add_to_char_list(c)?;
                        }
                        d.end_char_list()
                    });
                    ra(r)
                }
                "BL" => {
                    let b: Vec<u8> = parse_dotted_hex(t[1]).into_iter().map(|x| x as u8).collect();
                    cx.oracle.push(format!("h{}:{:x}", step, cache_hash(&SimpleData::ByteList(b.clone()))));
                    let r = d.start_byte_list().and_then(|_| {
                        for x in b.iter() {
                            d.add_to_byte_list(*x)?;
                        }
                        d.end_byte_list()
                    });
                    ra(r)
                }
                o => panic!("bad op {}", o),
            }
        }
    }
}

const TREE_DEPTH: usize = 4;

fn common_dump<D>(d: &D, cx: &Ctx) -> String
where
    D: GarnishData<Size = usize, Number = SimpleNumber, Char = char, Byte = u8, Symbol = u64>,
{
    let ins: Vec<String> = (0..d.get_instruction_len())
        .map(|i| match d.get_instruction(i) {
            Some((ins, Some(x))) => format!("{}/{}", ins as usize, x),
            Some((ins, None)) => format!("{}/-", ins as usize),
            None => "?".to_string(),
        })
        .collect();
    let jt: Vec<String> = (0..d.get_jump_table_len())
        .map(|i| match d.get_from_jump_table(i) {
            Some(x) => format!("{}", x),
            None => "?".to_string(),
        })
        .collect();
    let cur = match d.get_current_value() {
        Some(x) => format!("{}", x),
        None => "-".to_string(),
    };
    let trees: Vec<String> = cx
        .results
        .iter()
        .enumerate()
        .filter(|(k, r)| r.is_some() && cx.kinds[*k] == b'a')
        .map(|(k, r)| format!("{}:{}", k, tree(d, r.unwrap(), TREE_DEPTH)))
        .collect();
    format!("I=[{}] J=[{}] V={} IC={} T=[{}]", ins.join(","), jt.join(","), cur, d.get_instruction_cursor(), trees.join(";"))
}

fn dump(st: &Store, cx: &Ctx) -> String {
    match st {
        Store::B(d) => {
            let regs: Vec<String> = (0..d.get_register_len())
                .map(|i| match d.get_register(i) {
                    Some(x) => format!("{}", x),
                    None => "?".to_string(),
                })
                .collect();
            // value chain and frame chain: pop a copy
            let mut c = d.clone();
            let mut vs = vec![];
            while let Some(v) = c.pop_value_stack() {
                vs.push(format!("{}", v));
                if vs.len() > 100000 {
                    break;
                }
            }
            let mut c = d.clone();
            let mut fs = vec![];
            loop {
                match c.pop_frame() {
                    Ok(Some(r)) => fs.push(format!("{}/{}", r, c.get_register_len())),
                    Ok(None) => break,
                    Err(_) => {
                        fs.push("err".to_string());
                        break;
                    }
                }
                if fs.len() > 100000 {
                    break;
                }
            }
            let ys: Vec<String> = cx
                .syms
                .iter()
                .map(|(s, _)| match catch(|| d.get_symbol_string(*s)) {
                    Ok(Ok(Some(n))) => format!("{:x}:{}", s, n),
                    Ok(Ok(None)) => format!("{:x}:None", s),
                    Ok(Err(_)) => format!("{:x}:Err", s),
                    Err(_) => format!("{:x}:PANIC", s),
                })
                .collect();
            let es: Vec<String> = cx
                .esyms
                .iter()
                .map(|s| match d.get_symbol_expression(*s) {
                    Ok(Some(n)) => format!("{:x}:{}", s, n),
                    Ok(None) => format!("{:x}:None", s),
                    Err(_) => format!("{:x}:Err", s),
                })
                .collect();
            let n_custom = d.custom_data_size();
            let some_custom = (0..n_custom).filter(|i| d.get_from_custom_data_block(*i).is_some()).count();
            let bl: Vec<String> = d.verif_block_layout().iter().map(|(s, c, z)| format!("{}.{}.{}", s, c, z)).collect();
            let mut heap: Vec<String> = vec![];
            let mut run = 0usize;
            for c in d.verif_heap() {
                let s = basic_cell(c);
                if s == "_" {
                    run += 1;
                } else {
                    if run > 0 {
                        heap.push(format!("_*{}", run));
                        run = 0;
                    }
                    heap.push(s);
                }
            }
            if run > 0 {
                heap.push(format!("_*{}", run));
            }
            let (hv, hr, hf) = d.verif_heads();
            let o = |x: Option<usize>| x.map(|v| format!("{}", v)).unwrap_or("-".to_string());
            format!(
                "{} R=[{}] VS=[{}] FS=[{}] Y=[{}] E=[{}] C={}/{} DL={} BL={} HD={}/{}/{} H={}",
                common_dump(d, cx),
                regs.join(","),
                vs.join(","),
                fs.join(","),
                ys.join(","),
                es.join(","),
                n_custom,
                some_custom,
                d.get_data_len(),
                bl.join(","),
                o(hv),
                o(hr),
                o(hf),
                heap.join(",")
            )
        }
        Store::S(d) => {
            let regs: Vec<String> = (0..d.get_register_len())
                .map(|i| match d.get_register(i) {
                    Some(x) => match d.get_raw_data(x) {
                        Some(SimpleData::StackFrame(f)) => format!("F{}", f.return_addr()),
                        _ => format!("{}", x),
                    },
                    None => "?".to_string(),
                })
                .collect();
            let mut vs: Vec<String> = (0..d.get_value_stack_len())
                .map(|i| match d.get_value(i) {
                    Some(x) => format!("{}", x),
                    None => "?".to_string(),
                })
                .collect();
            vs.reverse();
            let mut c = d.clone();
            let mut fs = vec![];
            loop {
                match c.pop_frame() {
                    Ok(Some(r)) => fs.push(format!("{}/{}", r, c.get_register_len())),
                    Ok(None) => break,
                    Err(_) => {
                        fs.push("err".to_string());
                        break;
                    }
                }
                if fs.len() > 100000 {
                    break;
                }
            }
            let ys: Vec<String> = cx
                .syms
                .iter()
                .map(|(s, _)| match d.get_symbols().get(s) {
                    Some(n) => format!("{:x}:{}", s, n),
                    None => format!("{:x}:None", s),
                })
                .collect();
            let n_custom = (0..d.get_data_len()).filter(|i| matches!(d.get_raw_data(*i), Some(SimpleData::Custom(_)))).count();
            let cells: Vec<String> = (0..d.get_data_len()).map(|i| simple_cell(&d.get_raw_data(i).unwrap())).collect();
            format!(
                "{} R=[{}] VS=[{}] FS=[{}] Y=[{}] E=[] C={}/{} DL={} D={}",
                common_dump(d, cx),
                regs.join(","),
                vs.join(","),
                fs.join(","),
                ys.join(","),
                n_custom,
                n_custom,
                d.get_data_len(),
                cells.join(",")
            )
        }
    }
}

fn main() {
    quiet_panics();
    for_each_line(|line| {
        let (head, ops) = match line.split_once(" | ") {
            Some((h, o)) => (h, o),
            None => (line.trim_end_matches(" |"), ""),
        };
        let hp: Vec<&str> = head.split(' ').collect();
        let ops: Vec<Vec<&str>> = ops.split(" ; ").filter(|s| !s.is_empty()).map(|o| o.split(' ').collect()).collect();
        let every: usize = match hp[2] {
            "a" => 1,
            "e" => 0,
            k => k.parse().expect("dump mode"),
        };
        let mut cx = Ctx { results: vec![], kinds: vec![], syms: vec![], esyms: vec![], oracle: vec![] };
        let mut st = match catch(|| make_store(hp[0], hp[1])) {
            Ok(Ok(s)) => s,
            Ok(Err(())) => return format!("{}\tNEWERR\t-", line),
            Err(()) => return format!("{}\tNEWPANIC\t-", line),
        };
        // the symbol values of every name in the history (also of steps that are never reached)
        for (k, op) in ops.iter().enumerate() {
            if op[0] == "Y" {
                cx.oracle.push(format!("s{}:{:x}", k, symbol_value(op[1].trim_matches(':'))));
            }
        }
        let mut res: Vec<String> = vec![];
        let mut dumps: Vec<String> = vec![];
        let mut dead = false;
        for (k, op) in ops.iter().enumerate() {
            if dead {
                res.push("-".to_string());
                cx.results.push(None);
                cx.kinds.push(b'-');
                continue;
            }
            let r = catch(|| run_op(&mut st, &mut cx, k, op));
            let (txt, num, kind) = match r {
                Err(()) => {
                    dead = true;
                    ("PANIC".to_string(), None, b'-')
                }
                Ok(R::Addr(a)) => (format!("a{}", a), Some(a), b'a'),
                Ok(R::Handle(a)) => (format!("h{}", a), Some(a), b'h'),
                Ok(R::Index(a)) => (format!("x{}", a), Some(a), b'x'),
                Ok(R::Ok) => ("ok".to_string(), None, b'-'),
                Ok(R::NoneR) => ("none".to_string(), None, b'-'),
                Ok(R::SomeR(a)) => (format!("some{}", a), Some(a), b's'),
                Ok(R::Err) => ("err".to_string(), None, b'-'),
                Ok(R::NA) => ("NA".to_string(), None, b'-'),
            };
            res.push(txt);
            cx.results.push(num);
            cx.kinds.push(kind);
            let last = k + 1 == ops.len();
            if !dead && (last || (every > 0 && (k + 1) % every == 0)) {
                match catch(|| dump(&st, &cx)) {
                    Ok(d) => dumps.push(format!("{}:{}", k, d)),
                    Err(()) => dumps.push(format!("{}:DUMPPANIC", k)),
                }
            }
        }
        if ops.is_empty() {
            match catch(|| dump(&st, &cx)) {
                Ok(d) => dumps.push(format!("-:{}", d)),
                Err(()) => dumps.push("-:DUMPPANIC".to_string()),
            }
        }
        let oracle = if cx.oracle.is_empty() { "-".to_string() } else { cx.oracle.join(" ") };
        format!("{}\t{} # {}\t{}", line, res.join(" "), dumps.join(" ; "), oracle)
    });
}

#[allow(dead_code)]
fn _unused(_: GarnishDataType) {}
