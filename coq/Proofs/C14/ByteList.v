(* Byte-list literals: the text form denotes the bytes its items list; the
   numeric form reads back every byte vector. *)
From Coq Require Import ZArith NArith List Bool Lia.
From Flocq Require Import IEEE754.Binary IEEE754.Bits.
From GV Require Import Base.Result Model.Num Model.Literals Spec.LitDenote
  Proofs.C14.StrLemmas Proofs.C14.Digits Proofs.C14.Number.
Import ListNotations.
Local Open Scope N_scope.

Lemma dec_digit_range : forall c, is_digit_of 10 c = true -> 48 <= c /\ c <= 57.
Proof.
  intros c H. unfold is_digit_of, digit_value in H.
  destruct ((48 <=? c) && (c <=? 57)) eqn:E1.
  { apply andb_true_iff in E1 as [A B]. apply N.leb_le in A, B. lia. }
  destruct ((97 <=? c) && (c <=? 122)) eqn:E2.
  { apply andb_true_iff in E2 as [A B]. apply N.leb_le in A, B. apply N.ltb_lt in H. lia. }
  destruct ((65 <=? c) && (c <=? 90)) eqn:E3.
  { apply andb_true_iff in E3 as [A B]. apply N.leb_le in A, B. apply N.ltb_lt in H. lia. }
  discriminate.
Qed.

Lemma dec_string_digits : forall n, forallb (is_digit_of 10) (dec_string n) = true.
Proof.
  intros n. assert (H2 : 2 <= 10) by lia. assert (H36 : 10 <= 36) by lia.
  destruct (valid_digits_inv _ _ (digits_of_valid 10 n H2 H36)) as [c [t [_ [_ H]]]]. exact H.
Qed.

Lemma dec_string_head : forall n, exists c t, dec_string n = c :: t /\ 48 <= c /\ c <= 57.
Proof.
  intros n. assert (H2 : 2 <= 10) by lia. assert (H36 : 10 <= 36) by lia.
  destruct (valid_digits_inv _ _ (digits_of_valid 10 n H2 H36)) as [c [t [Heq [Hc _]]]].
  exists c, t. split; [exact Heq|]. apply dec_digit_range. exact Hc.
Qed.

Lemma digits_ascii : forall ds, forallb (is_digit_of 10) ds = true -> Forall (fun c => c < 128) ds.
Proof.
  induction ds as [|c ds IH]; intros H; [constructor|].
  cbn [forallb] in H. apply andb_true_iff in H as [Hc Hs]. constructor; [|apply IH, Hs].
  pose proof (dec_digit_range c Hc). lia.
Qed.

Section ByteList.
  Variable pf : str -> option binary64.
  Variable un : N -> bool.

  (* ---- text form ---- *)
  Lemma byte_loop_item : forall i r out, wf_bitem i = true ->
    byte_text_loop (render_bitem i ++ r) out false = byte_text_loop r (out ++ [denote_bitem i]) false.
  Proof.
    intros i r out Hwf. destruct i as [c|e].
    - cbn [wf_bitem] in Hwf. apply negb_true_iff in Hwf.
      cbn [render_bitem app byte_text_loop denote_bitem]. change ch_bslash with 92. rewrite Hwf. reflexivity.
    - destruct e; reflexivity.
  Qed.

  Lemma byte_loop_items : forall items r out, forallb wf_bitem items = true ->
    byte_text_loop (render_bitems items ++ r) out false = byte_text_loop r (out ++ denote_bitems items) false.
  Proof.
    induction items as [|i items IH]; intros r out H.
    - cbn [render_bitems flat_map denote_bitems map app]. rewrite app_nil_r. reflexivity.
    - cbn [forallb] in H. apply andb_true_iff in H as [Hi Hs].
      unfold render_bitems. cbn [flat_map]. fold (render_bitems items).
      rewrite <- app_assoc. rewrite (byte_loop_item i _ out Hi).
      rewrite (IH r _ Hs). cbn [denote_bitems map]. rewrite <- app_assoc. reflexivity.
  Qed.

  Lemma render_bitem_nonempty : forall i, exists c t, render_bitem i = c :: t.
  Proof. intros [c|e]; cbn [render_bitem]; eexists; eexists; reflexivity. Qed.

  (* shared front end: q quotes, a body that does not start with a quote *)
  Lemma byte_list_front : forall nq body, body <> [] -> body_ok 39 body = true ->
    parse_byte_list pf un (repeat 39 nq ++ body ++ repeat 39 nq) =
    if 2 <=? N.of_nat nq then
      do b <- slice_bytes (repeat 39 nq ++ body ++ repeat 39 nq) (N.of_nat nq) (N.of_nat nq + str_len body) ;
      parse_byte_list_numbers pf un b
    else byte_text_loop body [] false.
  Proof.
    intros nq body Hne Hbody. destruct body as [|b0 bt]; [congruence|]. clear Hne.
    set (body := b0 :: bt) in *. cbn [body_ok] in Hbody.
    unfold parse_byte_list. change ch_apos with 39.
    rewrite (count_leading_repeat 39 nq (body ++ repeat 39 nq)) by exact Hbody.
    assert (Hlen : str_len (repeat 39 nq ++ body ++ repeat 39 nq) = N.of_nat nq + str_len body + N.of_nat nq).
    { rewrite !str_len_app, !str_len_repeat_ascii by lia. lia. }
    assert (Hbl : 1 <= str_len body) by apply str_len_nonempty.
    rewrite Hlen.
    replace (N.of_nat nq =? N.of_nat nq + str_len body + N.of_nat nq) with false by (symmetry; apply N.eqb_neq; lia).
    assert (Hcc : chars_count (repeat 39 nq ++ body ++ repeat 39 nq) = N.of_nat nq * 2 + N.of_nat (length body)).
    { unfold chars_count. rewrite !app_length, !repeat_length. lia. }
    rewrite Hcc.
    replace (N.of_nat nq * 2 + N.of_nat (length body) <? N.of_nat nq * 2) with false by (symmetry; apply N.ltb_ge; lia).
    replace (N.of_nat nq * 2 + N.of_nat (length body) - N.of_nat nq * 2) with (N.of_nat (length body)) by lia.
    replace (N.of_nat nq + str_len body + N.of_nat nq - N.of_nat nq) with (N.of_nat nq + str_len body) by lia.
    destruct (2 <=? N.of_nat nq); [reflexivity|].
    replace (skip_chars (N.of_nat nq) (repeat 39 nq ++ body ++ repeat 39 nq))
      with (skip_chars (N.of_nat (length (repeat 39 nq))) (repeat 39 nq ++ body ++ repeat 39 nq))
      by (rewrite repeat_length; reflexivity).
    rewrite skip_take_middle. reflexivity.
  Qed.

  Lemma slice_middle_quotes : forall nq b,
    slice_bytes (repeat 39 nq ++ b ++ repeat 39 nq) (N.of_nat nq) (N.of_nat nq + str_len b) = Ok b.
  Proof.
    intros nq b. pose proof (slice_bytes_middle (repeat 39 nq) b (repeat 39 nq)) as H.
    rewrite str_len_repeat_ascii in H by lia. exact H.
  Qed.

  Lemma all_quotes_empty : forall n, parse_byte_list pf un (repeat 39 n) = Ok [].
  Proof.
    intros n. unfold parse_byte_list. change ch_apos with 39.
    rewrite count_leading_all, str_len_repeat_ascii by lia. rewrite N.eqb_refl. reflexivity.
  Qed.

  Theorem byte_text_literal_denotes : forall items,
    forallb wf_bitem items = true -> body_ok 39 (render_bitems items) = true ->
    parse_byte_list pf un (byte_text_literal items) = Ok (denote_bitems items).
  Proof.
    intros items Hwf Hbody. unfold byte_text_literal.
    destruct items as [|i items].
    - exact (all_quotes_empty 2).
    - change (39 :: render_bitems (i :: items) ++ [39]) with (repeat 39 1 ++ render_bitems (i :: items) ++ repeat 39 1).
      rewrite byte_list_front.
      + change (2 <=? N.of_nat 1) with false. cbv iota.
        rewrite <- (app_nil_r (render_bitems (i :: items))). rewrite (byte_loop_items (i :: items) [] [] Hwf). reflexivity.
      + unfold render_bitems. cbn [flat_map]. destruct (render_bitem_nonempty i) as [c [t ->]]. discriminate.
      + exact Hbody.
  Qed.

  Lemma bitem_of_byte_cases : forall b, b < 256 ->
    wf_bitem (bitem_of_byte b) = true /\ denote_bitem (bitem_of_byte b) = b /\
    (b <> 39 -> body_ok 39 (render_bitem (bitem_of_byte b)) = true).
  Proof.
    intros b Hb. unfold bitem_of_byte.
    destruct (b =? 10) eqn:E10. { apply N.eqb_eq in E10. subst. repeat split; reflexivity. }
    destruct (b =? 9) eqn:E9. { apply N.eqb_eq in E9. subst. repeat split; reflexivity. }
    destruct (b =? 13) eqn:E13. { apply N.eqb_eq in E13. subst. repeat split; reflexivity. }
    destruct (b =? 0) eqn:E0. { apply N.eqb_eq in E0. subst. repeat split; reflexivity. }
    destruct (b =? 92) eqn:E92. { apply N.eqb_eq in E92. subst. repeat split; reflexivity. }
    destruct (b =? 39) eqn:E39. { apply N.eqb_eq in E39. subst. repeat split; try reflexivity. }
    repeat split.
    - cbn [wf_bitem]. rewrite E92. reflexivity.
    - cbn [denote_bitem]. apply N.mod_small. exact Hb.
    - intros _. cbn [render_bitem body_ok]. rewrite E39. reflexivity.
  Qed.

  (* a byte vector whose first byte is not the apostrophe has a text spelling *)
  Theorem bytes_text_roundtrip : forall bs, Forall (fun b => b < 256) bs ->
    (match bs with b :: _ => b <> 39 | [] => True end) ->
    parse_byte_list pf un (spell_bytes_text bs) = Ok bs.
  Proof.
    intros bs Hall Hfirst. unfold spell_bytes_text.
    assert (Hwf : forallb wf_bitem (map bitem_of_byte bs) = true).
    { clear Hfirst. induction Hall as [|b bs Hb Hbs IH]; [reflexivity|]. cbn [map forallb].
      destruct (bitem_of_byte_cases b Hb) as [H _]. rewrite H. exact IH. }
    assert (Hden : denote_bitems (map bitem_of_byte bs) = bs).
    { clear Hfirst Hwf. induction Hall as [|b bs Hb Hbs IH]; [reflexivity|]. cbn [map denote_bitems].
      destruct (bitem_of_byte_cases b Hb) as [_ [H _]]. rewrite H.
      fold (denote_bitems (map bitem_of_byte bs)). rewrite IH. reflexivity. }
    rewrite byte_text_literal_denotes; [rewrite Hden; reflexivity | exact Hwf |].
    destruct bs as [|b bs]; [reflexivity|]. cbn [map]. unfold render_bitems. cbn [flat_map].
    inversion Hall; subst. destruct (bitem_of_byte_cases b H1) as [_ [_ H]].
    specialize (H Hfirst). destruct (render_bitem_nonempty (bitem_of_byte b)) as [x [t Hx]]. rewrite Hx in *. exact H.
  Qed.

  (* ---- numeric form ---- *)
  Lemma numbers_collect : forall ds cur rest out, forallb (is_digit_of 10) ds = true ->
    byte_numbers_loop pf un (ds ++ rest) cur out = byte_numbers_loop pf un rest (cur ++ ds) out.
  Proof.
    induction ds as [|c ds IH]; intros cur rest out H.
    - rewrite app_nil_r. reflexivity.
    - cbn [forallb] in H. apply andb_true_iff in H as [Hc Hs].
      pose proof (dec_digit_range c Hc) as [Hlo Hhi].
      cbn [app byte_numbers_loop]. unfold is_numeric.
      replace (c <? 128) with true by (symmetry; apply N.ltb_lt; lia).
      replace ((48 <=? c) && (c <=? 57)) with true by (symmetry; apply andb_true_iff; split; apply N.leb_le; lia).
      cbn [orb]. rewrite (IH (cur ++ [c]) rest out Hs). rewrite <- app_assoc. reflexivity.
  Qed.

  Lemma numbers_step : forall b rest out, b <= 255 ->
    byte_numbers_loop pf un (32 :: rest) (dec_string b) out = byte_numbers_loop pf un rest [] (out ++ [b]).
  Proof.
    intros b rest out Hb. destruct (dec_string_head b) as [c [t [Heq _]]].
    cbn [byte_numbers_loop]. unfold is_numeric. change (32 <? 128) with true. cbv iota.
    change ((48 <=? 32) && (32 <=? 57)) with false. change (32 =? ch_us) with false. cbn [orb].
    change (32 =? ch_space) with true. rewrite Heq. cbn [negb andb]. rewrite <- Heq.
    rewrite (decimal_plain pf b) by (unfold i32_max_N; lia). cbn [bind].
    replace ((Z.of_N b <? 0)%Z || (255 <? Z.of_N b)%Z) with false.
    - rewrite N2Z.id. reflexivity.
    - symmetry. apply orb_false_iff. split; [apply Z.ltb_ge | apply Z.ltb_ge]; lia.
  Qed.

  Lemma numbers_loop : forall bs b out, b <= 255 -> Forall (fun x => x <= 255) bs ->
    byte_numbers_loop pf un (dec_string b ++ flat_map (fun x => 32 :: dec_string x) bs ++ [32]) [] out =
    Ok (out ++ b :: bs).
  Proof.
    induction bs as [|b' bs IH]; intros b out Hb Hbs.
    - cbn [flat_map app]. rewrite (numbers_collect (dec_string b) [] [32] out (dec_string_digits b)).
      cbn [app]. rewrite (numbers_step b [] out Hb). reflexivity.
    - inversion Hbs as [|? ? Hb' Hbs']; subst.
      rewrite (numbers_collect (dec_string b) [] _ out (dec_string_digits b)).
      cbn [flat_map app]. rewrite <- !app_assoc. cbn [app].
      rewrite (numbers_step b _ out Hb). rewrite (IH b' (out ++ [b]) Hb' Hbs').
      rewrite <- app_assoc. reflexivity.
  Qed.

  Lemma byte_numbers_body : forall b bs,
    exists c t, spell_byte_numbers (b :: bs) = c :: t /\ 48 <= c /\ c <= 57.
  Proof.
    intros b bs. cbn [spell_byte_numbers]. destruct (dec_string_head b) as [c [t [Heq Hr]]].
    rewrite Heq. exists c, (t ++ flat_map (fun x => 32 :: dec_string x) bs). split; [reflexivity|exact Hr].
  Qed.

  Theorem byte_numbers_roundtrip : forall q bs, 2 <= q -> bs <> [] -> Forall (fun b => b <= 255) bs ->
    parse_byte_list pf un (spell_bytes q bs) = Ok bs.
  Proof.
    intros q bs Hq Hne Hall. destruct bs as [|b bs]; [congruence|]. clear Hne.
    inversion Hall as [|? ? Hb Hbs]; subst.
    unfold spell_bytes, quotes. set (nq := N.to_nat q).
    assert (Hnq : N.of_nat nq = q) by (unfold nq; apply N2Nat.id).
    destruct (byte_numbers_body b bs) as [c [t [Hbody [Hlo Hhi]]]].
    rewrite byte_list_front.
    - replace (2 <=? N.of_nat nq) with true by (symmetry; apply N.leb_le; rewrite Hnq; exact Hq).
      rewrite slice_middle_quotes. cbn [bind].
      unfold parse_byte_list_numbers. cbn [spell_byte_numbers]. rewrite <- app_assoc.
      change [ch_space] with [32]. rewrite (numbers_loop bs b [] Hb Hbs). reflexivity.
    - rewrite Hbody. discriminate.
    - rewrite Hbody. cbn [body_ok]. apply negb_true_iff. apply N.eqb_neq. lia.
  Qed.

  Theorem empty_bytes_spelling : forall q, parse_byte_list pf un (spell_bytes q []) = Ok [].
  Proof.
    intros q. unfold spell_bytes, quotes. cbn [spell_byte_numbers app]. rewrite <- repeat_app. apply all_quotes_empty.
  Qed.
End ByteList.
