"""C18 Layout that carries no meaning does not change the result."""
import collections, os, re
import vplib
from vplib import Verdict
from props import pipefmt, pipecheck, gen_programs

PID = "C18"
MANIFEST_ENTRY = {
 "level_claimed": {"category": "proof", "text": "Theorems in coq/Properties/C18.v over the transliterated parser (whose input is the list of token TYPES, so no token text can matter). UNBOUNDED (induction over the main loop, every token list, whole alphabet, no side condition on where in the program the rewrite happens): the parser state modulo token indices is preserved by every step (C18_step_ignores_token_indices); whitespace, blank-line separators, annotations and comment lines at either end of the program are ignored (C18_trim_ends); between the same tokens or at either end, any two non-empty runs of whitespace / annotation / comment-line tokens that both contain a whitespace token (or both contain none) give the same acceptance and the same tree (C18_trivia_runs_full) -- so an annotation or comment line next to whitespace is invisible (C18_annotation_next_to_whitespace_full) and any number of adjacent whitespace tokens behaves as one (C18_whitespace_repetition_full); an annotation or comment line inserted anywhere in an ACCEPTED program, with or without whitespace in that gap, leaves it accepted with the same tree (C18_annotation_insert_full; one direction only, the converse is false in the model and in the parser: `5 [](1)` is rejected, `5 []@a(1)` accepted). These rest on a parser-state invariant proved for every step (C18_settled_always). Two parser defects found by these proofs were repaired (annotations at either end shielded a blank-line separator from trimming; whitespace after two adjacent side-effect blocks became the list operator) and are kept as regression Examples. STILL BOUNDED (vm_compute enumeration, at most three non-trivia tokens over the representative alphabet; C18_full_statement stated, not proved): any two accepted whitespace spellings (adding / removing whitespace where both are accepted) give the same tree, equal ACCEPTANCE for an annotation in a gap without whitespace, and parentheses around a complete operand add only group nodes -- outside known finding C18-K1 (a parenthesised operand or prefix operator right after a side-effect block that has no operand before it is rejected as malformed; witness Example C18_K1_parens_after_operandless_block_refuted, classifier block_then_group). The parser model is tied to parser.rs by the regenerated tables and node-for-node comparison. At source level the check applies every rewrite of the property (widen / remove whitespace where the token sequence is unchanged, trailing whitespace before a line break, annotations, comment lines, a comment or annotation next to a blank line at the very start / end, parentheses around an operand, an inert side-effect block) at every applicable position of generated programs (including runs of adjacent side-effect blocks followed by whitespace) and compares the real parse trees modulo trivia and groups and the real final values on both data implementations. UNBOUNDED on the operator fragment through the C02 reference parser (C18_parse_tree_is_reference_image, C18_same_items_same_tree_operator_expressions, C18_whitespace_where_allowed_operator_expressions, C18_parens_operator_expressions): where the reference is defined the parse tree is its image under a map ignoring token indices, so a whitespace token may be added or removed in any gap that is not between the end of a value and the start of one, and round brackets around a whole operator expression of any length without the separator `;` (hypothesis no_separators; inside round brackets `;` is whitespace by design), around any value token inside one (C18_parens_around_value_operator_expressions; except an identifier directly after `.`, where `a.b` and `a.(b)` differ by design) or around an already bracketed sub-expression without `;` (C18_parens_around_group_operator_expressions) change the tree only by group nodes.", "design_ref": "DESIGN.md section 8 C18"},
 "level_note": "Trusted: Coq kernel (vm_compute), translator, harness binaries pipeline and exec. Result half for parentheses, proved (unbounded): on the tree compiler that is proved equal to the builder model a Group node emits nothing - C18_group_nodes_emit_nothing: inserting a Group above any sub-tree that is not a list its parent flattens and not a conditional / else link under a conditional parent leaves entry, instruction list (with operands) and jump table unchanged; each excluded case is shown necessary by a computed counterexample (C18_group_side_condition_*_necessary); C18_group_nodes_emit_nothing_renamed extends it to any number of such groups plus node renaming. End to end: C18_parens_whole_same_code_partial (round brackets around a whole operator expression of any length: both spellings are accepted and, whenever the builder model succeeds on both, instruction streams, jump tables and entry are equal with every data operand made from the same source token, so every machine run is identical); C18_parens_same_code_from_reference_trees gives the same for any two token lists whose reference trees differ only by brackets around value tokens or groups. Whitespace / annotation rewrites give identical trees, so their result invariance is immediate. Partial: brackets around a single value token / an existing group are reduced to computing their reference trees exactly (C18_parens_same_code_full_statement stays a Definition for clauses (b), (c)); build success is a hypothesis on both sides; metadata is not compared; the result-invariance of adding / removing an inert side-effect block is checked on the implementation only (metamorphic). No axioms.",
 "technique": "Coq proof (simulation modulo token indices and a parser-state invariant over the parser model, unbounded, for whitespace / annotation / comment-line rewrites; vm_compute bounded enumeration for the other clauses) + metamorphic differential testing of the implementation"}
TRUSTED = vplib.BASE_TRUSTED + ["harness/src/bin/exec.rs (final values read back through the GarnishData getters)"]

ATOMS = ["5", "0", "10", "3.5", "a", "b", ":sym", "()", "$", "$?", "$!", '"s"']
BIN = ["+", "-", "*", "/", "//", "%", "**", "&", "|", "^", "<<", ">>", "&&", "||", "^^", "==", "!=", "<", "<=", ">", ">=",
       "=", "..", "<>", ",", "#="]
PRE = ["--", "++", "!!", "??", "#"]
SUF = ["._", ".|"]


# a program is a tree: a node is a list of parts; a part is (text, kind) or a nested node
# (a Python list) that is a complete operand.  kind: atom | op | ws | lsep | sep | open | close
def gen(rng, depth):
    """returns a node (list of parts)"""
    if depth <= 0 or rng.random() < 0.2:
        return [(rng.choice(ATOMS), "atom")]
    k = rng.random()
    if k < 0.40:
        return [gen(rng, depth - 1), (" ", "ws"), (rng.choice(BIN), "op"), (" ", "ws"), gen(rng, depth - 1)]
    if k < 0.48:
        return [(rng.choice(PRE), "op"), gen(rng, depth - 1)]
    if k < 0.54:
        return [gen(rng, depth - 1), (rng.choice(SUF), "op")]
    if k < 0.64:
        return [("(", "open"), gen(rng, depth - 1), (")", "close")]
    if k < 0.73:
        out = [gen(rng, depth - 2)]
        for _ in range(rng.randint(1, 2)):
            out += [(" ", "lsep"), gen(rng, depth - 2)]   # the whitespace IS the list operator
        return out
    if k < 0.80:
        return [gen(rng, depth - 1), (" ", "ws"), (rng.choice(["?>", "!>"]), "op"), (" ", "ws"), gen(rng, depth - 1),
                (" ", "ws"), ("|>", "op"), (" ", "ws"), gen(rng, depth - 2)]
    if k < 0.86:
        return [gen(rng, depth - 1), ("\n\n", "sep"), gen(rng, depth - 1)]
    if k < 0.90:
        # two or three adjacent side-effect blocks, then whitespace, then an operand, all inside a group:
        # at the start of a group the blocks have no operand of their own, so the whitespace is plain layout
        # (after an operand - e.g. as a later item of a space list - the blocks would attach to it and the
        # whitespace would be the list operator, which no rewrite may remove)
        out = []
        for j in range(rng.randint(2, 3)):
            if j and rng.random() < 0.4:
                out.append((" ", "ws"))
            out.append([("[", "open"), gen(rng, depth - 2), ("]", "close")])
        return [("(", "open")] + out + [(" ", "ws"), gen(rng, depth - 1), (")", "close")]
    if k < 0.96:
        # nested expression, possibly with a multi-line body, applied
        body = [gen(rng, depth - 2)]
        for _ in range(rng.randint(0, 2)):
            body += [("\n\n", "sep"), gen(rng, depth - 2)]
        ne = [("{", "open")] + body + [("}", "close")]
        tail = rng.choice([[("~~", "op")], [(" ", "ws"), ("<~", "op"), (" ", "ws"), (rng.choice(ATOMS), "atom")], []])
        return [ne] + tail
    if k < 0.975:
        # a bounded re-apply loop; the arm holding `^~` is marked as a complete operand, so that the
        # parentheses rewrite wraps it (which expression a re-apply restarts must not depend on brackets)
        n = rng.choice(["2", "3", "10"])
        arm = [("", "omark"), ("^~", "op"), (" ", "ws"), ("$", "atom"), (" ", "ws"), ("-", "op"), (" ", "ws"), ("1", "atom")]
        other = [("(", "open"), gen(rng, depth - 2), (")", "close")] if rng.random() < 0.5 else [("", "omark"), ("$", "atom")]
        body = [("$", "atom"), (" ", "ws"), (">", "op"), (" ", "ws"), ("0", "atom"), (" ", "ws"), ("?>", "op"), (" ", "ws"), arm,
                (" ", "ws"), ("|>", "op"), (" ", "ws"), other]
        if rng.random() < 0.4:
            body = [("$", "atom"), (" ", "ws"), ("<", "op"), (" ", "ws"), ("0", "atom"), (" ", "ws"), ("||", "op"), (" ", "ws"),
                    [("", "omark"), ("(", "open"), body, (")", "close")]]
        return [(n, "atom"), (" ", "ws"), ("~>", "op"), (" ", "ws"), [("{", "open")] + body + [("}", "close")]]
    return [gen(rng, depth - 1), (" ", "ws"), ("[", "open"), gen(rng, depth - 2), ("\n\n", "sep"), gen(rng, depth - 2), ("]", "close")]


def with_line_breaks(node, rng, p=0.12):
    """some of the plain spaces become single line breaks (a single newline is whitespace, not a separator)"""
    out = []
    for part in node:
        if isinstance(part, list):
            out.append(with_line_breaks(part, rng, p))
        elif part[1] in ("ws", "lsep") and part[0] == " " and rng.random() < p:
            out.append(("\n", part[1]))
        else:
            out.append(part)
    return out


def text(node):
    return "".join(text(p) if isinstance(p, list) else p[0] for p in node)


def positions(node, path=()):
    """yield (path, part) for every part, depth first"""
    for i, p in enumerate(node):
        yield path + (i,), p
        if isinstance(p, list):
            yield from positions(p, path + (i,))


def replace_at(node, path, new_parts):
    """copy of node with the part at path replaced by the list new_parts (spliced)"""
    i = path[0]
    if len(path) == 1:
        return node[:i] + new_parts + node[i + 1:]
    return node[:i] + [replace_at(node[i], path[1:], new_parts)] + node[i + 1:]


def is_operand(part):
    """a complete operand that may be wrapped in parentheses: an atom, a parenthesised group or a `{ }` nested expression"""
    if not isinstance(part, list):
        return part[1] == "atom"
    first = part[0]
    if (not isinstance(first, list)) and first[1] == "omark":
        return True
    return (not isinstance(first, list)) and first[1] == "open" and first[0] in ("(", "{") and len(part) >= 2 and \
        (not isinstance(part[-1], list)) and part[-1][1] == "close"


def rewrites(node, rng):
    """all single applications of the rewrites, as (name, new tree)"""
    out = []
    for path, p in positions(node):
        if isinstance(p, list):
            if is_operand(p):
                out.append(("parens", replace_at(node, path, [[("(", "open"), p, (")", "close")]])))
            continue
        t, k = p
        if k in ("ws", "lsep") and "\n" in t:
            out.append(("trailing_ws_line", replace_at(node, path, [(rng.choice([" ", "\t", "  \t"]) + t, k)])))
            out.append(("indent_next_line", replace_at(node, path, [(t + rng.choice([" ", "\t", "    "]), k)])))
        if k in ("ws", "lsep"):
            out.append(("widen", replace_at(node, path, [(rng.choice(["  ", " \t", "\t", "   "]), k)])))
            out.append(("annotation", replace_at(node, path, [(" @note ", k)])))
        if k == "ws":
            out.append(("remove_ws", replace_at(node, path, [])))
        if k == "sep":
            out.append(("trailing_ws", replace_at(node, path, [(rng.choice([" ", "\t", "  \t"]) + t, "sep")])))
            out.append(("blank_line_ws", replace_at(node, path, [("\n" + rng.choice([" ", "\t", "\t ", " \t", "  "]) + "\n", "sep")])))
            out.append(("comment_line", replace_at(node, path, [(t + "@@ a comment\n", "sep")])))
        if k == "atom":
            out.append(("parens", replace_at(node, path, [[("(", "open"), p, (")", "close")]])))
            out.append(("side_effect", replace_at(node, path, [p, (" ", "ws"), ("[0]", "atom")])))
            # a block whose body is a sequence (its separators update the block's private copy of `$`, nothing else)
            out.append(("side_effect_seq", replace_at(node, path, [p, (" ", "ws"), (rng.choice(["[1 ; 2]", "[ 1\n\n2 ]", "[$ ; 7 ; 8]"]), "atom")])))
    # a comment / annotation next to a blank line at either end of the program
    out.append(("leading_comment_blank", [("@@ header" + rng.choice(["\n\n\n", "\n\n\n\n", "\n \n\n"]), "ws")] + node))
    out.append(("leading_annotation_blank", [("@note" + rng.choice(["\n\n", " \n\n", "\n\n\n"]), "ws")] + node))
    out.append(("trailing_comment_blank", node + [(rng.choice(["\n\n", "\n\n\n", " \n\n"]) + "@@ footer", "ws")]))
    out.append(("trailing_annotation_blank", node + [(rng.choice(["\n\n", "\n\n "]) + "@note" + rng.choice(["", " ", "\n"]), "ws")]))
    out.append(("leading_comment", [("@@ first line\n", "ws")] + node))
    out.append(("trailing_comment", node + [(" @@ last", "ws")]))
    out.append(("trailing_space", node + [("  ", "ws")]))
    return out


VALUE_DEFS = ("Number", "CharList", "ByteList", "Identifier", "Property", "Symbol", "Unit", "Value", "True", "False")


def shape(parsed, defs, strip_side_effects=False):
    """parse tree modulo trivia (no token indices), modulo group nodes, and modulo HOW side-effect
    blocks are attached to the operand they follow (right child of a value node, or a node that took
    the operand over as its left child, chained either way): an operand followed by blocks reads
    `After(operand,[body1],[body2],..)`"""
    nodes = parsed["nodes"]
    if not nodes:
        return "empty"

    def split(i, depth):
        """(core shape or None, [block bodies]) of the subtree at i"""
        if i is None:
            return "-", []
        if depth > 4 * len(nodes) + 4 or not (0 <= i < len(nodes)):
            return "?", []
        n = nodes[i]
        d = defs[n["def"]]
        if d == "Group" and n["left"] is None:
            return split(n["right"], depth + 1)
        if d == "Property":
            d = "Identifier"
        if d == "SideEffect":
            core, blocks = split(n["left"], depth + 1) if n["left"] is not None else (None, [])
            return core, blocks + [go(n["right"], depth + 1)]
        r = n["right"]
        if d in VALUE_DEFS and r is not None and 0 <= r < len(nodes) and defs[nodes[r]["def"]] == "SideEffect":
            c2, blocks = split(r, depth + 1)
            if c2 is None:
                return "%s(%s,-)" % (d, go(n["left"], depth + 1)), blocks
        return "%s(%s,%s)" % (d, go(n["left"], depth + 1), go(n["right"], depth + 1)), []

    def go(i, depth=0):
        core, blocks = split(i, depth)
        if not blocks:
            return core
        return "After(%s,%s)" % (core if core is not None else "nothing", ",".join("[%s]" % b for b in blocks))
    return go(parsed["root"])


def significant(orc, tts):
    toks = [int(x) for x in orc.split(";")[0][5:].split(",") if x] if orc.startswith("toks=") else []
    return [t for t in toks if tts[t] not in ("Whitespace", "Annotation", "LineAnnotation")]


def strip_end_separators(sig, tts):
    """drop blank-line separator tokens at either end (they are trimmed before parsing)"""
    a, b = 0, len(sig)
    while a < b and tts[sig[a]] == "Subexpression":
        a += 1
    while b > a and tts[sig[b - 1]] == "Subexpression":
        b -= 1
    return sig[a:b]


OPERAND_END = {"Number", "Identifier", "CharList", "ByteList", "Symbol", "UnitLiteral", "Value", "True", "False",
               "ExpressionTerminator", "Unknown", "EndGroup", "EndExpression", "EmptyApply", "RightInternal",
               "LengthInternal", "SuffixIdentifier"}
OPENS_OPERAND = {"StartGroup", "StartExpression", "AbsoluteValue", "Opposite", "BitwiseNot", "Not", "Tis", "TypeOf",
                 "Reapply", "LeftInternal", "PrefixIdentifier"}
TRIVIA = {"Whitespace", "Annotation", "LineAnnotation"}


def block_then_group(orc, tts):
    """classifier of C18-K1: `]` of a side-effect block, trivia, then `(` / `{` / a prefix operator, where the run
    of adjacent blocks that ends at this `]` is not preceded by an operand"""
    toks = [tts[int(x)] for x in orc.split(";")[0][5:].split(",") if x] if orc.startswith("toks=") else []

    def back(i):
        i -= 1
        while i >= 0 and toks[i] in TRIVIA:
            i -= 1
        return i
    for i, t in enumerate(toks):
        if t not in OPENS_OPERAND:
            continue
        j = back(i)
        if j < 0 or toks[j] != "EndSideEffect":
            continue
        while j >= 0 and toks[j] == "EndSideEffect":
            depth = 0
            while j >= 0:
                if toks[j] == "EndSideEffect":
                    depth += 1
                elif toks[j] == "StartSideEffect":
                    depth -= 1
                    if depth == 0:
                        break
                j -= 1
            if j < 0:
                break
            j = back(j)
        if j < 0 or toks[j] not in OPERAND_END:
            return True
    return False


def run(tier, seed):
    v = Verdict(PID, tier, seed)
    v.assumptions = ["a rewrite is applicable when the original program is accepted and, for whitespace removal, the sequence of non-trivia tokens is unchanged",
                     "the side-effect rewrite adds ` [0]` after an atom; results are compared as structural value trees on both data implementations"]
    sy = vplib.sync(["tokentypes", "defs", "instr"])
    for k, e in sy["errors"].items():
        v.tie_failure("sync %s: %s" % (k, e))
    pr = vplib.prove(PID, ["Proofs/C18", "Spec/Layout.v"], extra_targets=["Extract/PipeExtract.vo"])
    for f in pr["failures"]:
        v.tie_failure("prove: " + f)
    v.coverage.update(vplib.proof_coverage(pr, "make -C coq Properties/C18.vo; coqc Properties/C18.v; tools/props/c18.py", TRUSTED))
    names = pipefmt.load_names()
    tts, defs, secs, ins = names
    listed = {f["id"] for f in vplib.findings_for(PID)}
    exe, drv = pipecheck.build_runners(v)
    okx, outx = vplib.cargo_build("debug", bins=["exec"])
    xexe = vplib.private_copy(vplib.harness_bin("exec")) if okx else None
    if not okx:
        v.tie_failure("exec harness build failed: " + outx[-400:])
    stats = collections.Counter()
    samples, evaluations, distinct = [], 0, set()
    rng = vplib.rng_for(seed, "C18")
    broken = bool(v.tie_failures)
    nprog = 6000 if (tier == "thorough" or broken) else 700
    if exe and xexe:
        progs = [with_line_breaks(gen(rng, rng.randint(1, 4)), rng) if i % 3 == 0 else gen(rng, rng.randint(1, 4)) for i in range(nprog)]
        variants = []   # (prog index, rewrite name, text)
        for pi, pcs in enumerate(progs):
            for name, new in rewrites(pcs, rng):
                variants.append((pi, name, text(new)))
        base_cases = ["S " + gen_programs.hexcp(text(p)) for p in progs]
        var_cases = ["S " + gen_programs.hexcp(t) for _, _, t in variants]
        impl_b, model_b, err = pipecheck.run(exe, drv, base_cases)
        impl_v, model_v, err2 = pipecheck.run(exe, drv, var_cases)
        for e in (err, err2):
            if e:
                v.tie_failure("correspondence run: " + e)
        xb = vplib.run_lines([xexe], "\n".join("E %s|U|-|" % c[2:] for c in base_cases) + "\n", timeout=1200)[1]
        xv = vplib.run_lines([xexe], "\n".join("E %s|U|-|" % c[2:] for c in var_cases) + "\n", timeout=2400)[1]
        if impl_b and impl_v and len(xb) == len(base_cases) and len(xv) == len(var_cases):
            evaluations = len(base_cases) + len(var_cases)
            # model correspondence on everything
            ndiff = 0
            for impl, model in ((impl_b, model_b), (impl_v, model_v)):
                if model is None:
                    continue
                for l, m in zip(impl, model):
                    if not pipecheck.same_modulo_literals(l.split("\t")[1], m.split("\t")[1]):
                        ndiff += 1
                        if ndiff <= 3:
                            v.tie_failure("correspondence: %s impl=%s model=%s" % (pipecheck.describe(l.split("\t")[0], names), l.split("\t")[1][:160], m.split("\t")[1][:160]))
            stats["model_disagreements"] = ndiff
            base = []
            for l, x in zip(impl_b, xb):
                case, res, orc = l.split("\t")
                p = pipefmt.parse_result(res)
                run_res = re.search(r" S=(.*?) X=", x.split("\t")[1] + " X=")
                base.append((p, orc, run_res.group(1) if run_res else None, x.split("\t")[1]))
            for (pi, name, txt), l, x in zip(variants, impl_v, xv):
                p0, orc0, run0, xraw0 = base[pi]
                if not ("nodes" in p0 and "instrs" in p0):
                    stats["base_rejected"] += 1
                    continue
                case, res, orc = l.split("\t")
                p1 = pipefmt.parse_result(res)
                xres = x.split("\t")[1]
                m1 = re.search(r" S=(.*?) X=", xres + " X=")
                run1 = m1.group(1) if m1 else None
                # the rewrite must leave the sequence of non-trivia tokens alone, apart from the tokens it adds
                s0, s1 = significant(orc0, tts), significant(orc, tts)
                if name.endswith("_blank"):
                    s0, s1 = strip_end_separators(s0, tts), strip_end_separators(s1, tts)
                extra = {"parens": 2, "side_effect": 3}.get(name, 0)
                if name == "side_effect_seq":
                    extra = len(s1) - len(s0) if len(s1) - len(s0) in (5, 7) else -1
                it = iter(s1)
                if len(s1) != len(s0) + extra or not all(t in it for t in s0):
                    if name in ("remove_ws", "parens", "side_effect", "side_effect_seq"):
                        # gluing characters together can legitimately re-tokenise (`5 . 5` -> `5.5`): rewrite not applicable
                        stats[name + ":not_applicable"] += 1
                        continue
                    # every other rewrite only touches trivia: a different token sequence IS the violation
                    v.violation(component="layout", rewrite=name, input="S " + gen_programs.hexcp(txt),
                                original=text(progs[pi]), rewritten=txt,
                                what=name + ": the sequence of non-trivia tokens changed: %s -> %s" % (
                                    [tts[t] for t in s0][:12], [tts[t] for t in s1][:12]))
                    continue
                stats[name + ":applied"] += 1
                distinct.add(txt)
                what = None
                if not ("nodes" in p1 and "instrs" in p1):
                    what = "the rewritten program is no longer accepted (%s)" % res[:60]
                elif name not in ("side_effect", "side_effect_seq") and shape(p0, defs) != shape(p1, defs):
                    what = "parse tree changed: %s -> %s" % (shape(p0, defs)[:150], shape(p1, defs)[:150])
                else:
                    # final value (and error class) on both data implementations, ignoring step counts
                    def norm(r):
                        return re.sub(r" n=\d+", "", r or "") if r else r
                    if norm(run0) != norm(run1) or ("X=same" in xraw0) != ("X=same" in xres):
                        what = "result changed: %s -> %s" % (run0, run1)
                if what:
                    fid = None
                    if "no longer accepted" in what and " P=ERR7" in res and block_then_group(orc, tts):
                        fid = "C18-K1"
                    if fid and fid in listed:
                        v.known_hit(fid, "%r -> %r: %s" % (text(progs[pi]), txt, what))
                    else:
                        v.violation(component="layout", rewrite=name, input="S " + gen_programs.hexcp(txt),
                                    original=text(progs[pi]), rewritten=txt, what=name + ": " + what)
                if len(samples) < 8 and stats[name + ":applied"] == 20:
                    samples.append({"rewrite": name, "original": text(progs[pi]), "rewritten": txt, "result": run1})
        else:
            v.tie_failure("harness runs incomplete")
    pipecheck.cleanup(exe, drv, xexe)
    v.coverage.update({
        "evaluations": evaluations, "distinct_nontrivial": len(distinct),
        "rule": "seeded grammar-generated programs x every single application of: widen a whitespace run, remove it (only when the non-trivia token "
                "sequence is unchanged), trailing whitespace before a blank line, annotation in a whitespace gap, comment line after a blank line / first / last, comment or annotation next to a blank line at the very start / end, "
                " parentheses around an atom, ` [0]` side-effect block after an atom, trailing spaces; non-trivial = rewrite applied to an accepted program",
        "samples": samples, "histogram": dict(stats)})
    return v.finish("proof")


def replay(obj):
    print("replay: re-running the quick check (rewrites are regenerated from the seed)")
    return run("quick", obj.get("seed", 0))
