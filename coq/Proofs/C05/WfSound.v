(* The executable checker of Spec/WfCode.v decides the proposition. *)
From Coq Require Import List Arith Bool NArith Lia Setoid.
From GV Require Import Base.Result Gen.Defs Gen.Instr Gen.Exec Model.Parser Model.BuilderWL Spec.WfCode.
Import ListNotations.

Lemma forallb_i_spec : forall A (f : nat -> A -> bool) l k,
  forallb_i f k l = true <-> (forall n x, nth_error l n = Some x -> f (k + n) x = true).
Proof.
  intros A f l. induction l as [|a l IH]; intros k; cbn [forallb_i].
  - split; [intros _ n x H; destruct n; discriminate | reflexivity].
  - rewrite andb_true_iff, IH. split.
    + intros [Ha Hl] n x Hn. destruct n as [|n].
      * cbn in Hn. inversion Hn; subst. rewrite Nat.add_0_r. exact Ha.
      * cbn in Hn. specialize (Hl n x Hn). replace (k + S n) with (S k + n) by lia. exact Hl.
    + intros H. split.
      * specialize (H 0 a eq_refl). rewrite Nat.add_0_r in H. exact H.
      * intros n x Hn. specialize (H (S n) x Hn). replace (S k + n) with (k + S n) by lia. exact H.
Qed.

Lemma forallb_nth : forall A (f : A -> bool) l,
  forallb f l = true <-> (forall n x, nth_error l n = Some x -> f x = true).
Proof.
  intros A f l. rewrite forallb_forall. split.
  - intros H n x Hn. apply H. eapply nth_error_In; eauto.
  - intros H x Hx. apply In_nth_error in Hx. destruct Hx as [n Hn]. eauto.
Qed.

Section Sound.
Variable tree : list pnode.
Variable init : binit.
Variable c : code.

Lemma operands_wf_iff : operands_wf_b tree init c = true <-> operands_wf tree init c.
Proof. unfold operands_wf_b, operands_wf. apply forallb_nth. Qed.

Lemma jumps_wf_iff : jumps_wf_b init c = true <-> jumps_wf init c.
Proof. unfold jumps_wf_b, jumps_wf. rewrite forallb_i_spec. cbn. split; intros H; exact H. Qed.

Lemma body_start_ok_iff : forall io,
  body_start_ok_b init c io = true <->
  (forall j t, body_ref io = Some j -> jump_at init c j = Some t -> ilo init < t ->
     exists p, instr_at init c (t - 1) = Some p /\ is_terminator p = true).
Proof.
  intros io. unfold body_start_ok_b.
  destruct (body_ref io) as [j|]; [|split; [intros _ j t H; discriminate | reflexivity]].
  destruct (jump_at init c j) as [t|] eqn:Hjt.
  2:{ split; [|reflexivity]. intros _ j' t' Hj Hj'. inversion Hj; subst. rewrite Hjt in Hj'. discriminate. }
  destruct (Nat.ltb (ilo init) t) eqn:Hlt.
  - apply Nat.ltb_lt in Hlt.
    destruct (instr_at init c (t - 1)) as [p|] eqn:Hp.
    + split.
      * intros Ht j' t' Hj Hj' _. inversion Hj; subst. rewrite Hjt in Hj'. inversion Hj'; subst.
        exists p. rewrite Hp. auto.
      * intros H. destruct (H j t eq_refl Hjt Hlt) as [p' [Hp' Ht']].
        rewrite Hp in Hp'. inversion Hp'; subst. exact Ht'.
    + split; [discriminate|].
      intros H. destruct (H j t eq_refl Hjt Hlt) as [p' [Hp' _]]. rewrite Hp in Hp'. discriminate.
  - apply Nat.ltb_ge in Hlt. split; [|reflexivity].
    intros _ j' t' Hj Hj' Hlt'. inversion Hj; subst. rewrite Hjt in Hj'. inversion Hj'; subst. lia.
Qed.

Lemma body_starts_wf_iff : body_starts_wf_b init c = true <-> body_starts_wf init c.
Proof.
  unfold body_starts_wf_b, body_starts_wf. rewrite forallb_nth. split.
  - intros H k io j t Hk Hb Hj Hlt. specialize (H k io Hk). rewrite body_start_ok_iff in H. eauto.
  - intros H n io Hn. apply body_start_ok_iff. intros j t Hb Hj Hlt. eauto.
Qed.

Lemma last_wf_iff : last_wf_b c = true <-> last_wf c.
Proof.
  unfold last_wf_b, last_wf.
  destruct (nth_error (k_instrs c) (length (k_instrs c) - 1)) as [io|].
  - split; [intros H io' Hio; inversion Hio; subst; exact H | intros H; apply H; reflexivity].
  - split; [intros _ io H; discriminate | reflexivity].
Qed.

Lemma meta_wf_iff : meta_wf_b tree c = true <-> meta_wf tree c.
Proof.
  unfold meta_wf_b, meta_wf. rewrite andb_true_iff, Nat.eqb_eq, forallb_nth. split.
  - intros [Hl H]. split; [exact Hl|]. intros k n Hk. specialize (H k (Some n) Hk). apply Nat.ltb_lt. exact H.
  - intros [Hl H]. split; [exact Hl|]. intros n [m|] Hn; [|reflexivity]. apply Nat.ltb_lt. eauto.
Qed.

Theorem wf_code_b_iff : wf_code_b tree init c = true <-> wf_code tree init c.
Proof.
  unfold wf_code_b, wf_code. rewrite !andb_true_iff.
  rewrite operands_wf_iff, jumps_wf_iff, body_starts_wf_iff, last_wf_iff, meta_wf_iff. tauto.
Qed.

Corollary wf_code_b_sound : wf_code_b tree init c = true -> wf_code tree init c.
Proof. apply wf_code_b_iff. Qed.
End Sound.
