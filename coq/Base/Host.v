(* The host interface shared by the reference evaluator (Spec/Eval.v) and the
   runtime model (Model/Machine.v): the three extension points of GarnishData
   (resolve, apply, defer_op) as calls on value trees, and traces of them.
   A host is a state transformer  host : hstate -> host_call -> hstate * option val;
   [Some v]: the host handled the call and its result is v (the documented
   contract: it pushed exactly one register), [None]: it declined. *)
From Coq Require Import NArith List.
From GV Require Import Gen.Instr Model.Num Model.Value.

Inductive host_call : Type :=
| HResolve (sym : N)
| HApply (ext : N) (arg : val)
| HDefer (op : instruction) (l : val) (r : option val).   (* r = None: a unary operation *)
Definition trace : Type := list host_call.

Definition is_defer (c : host_call) : bool :=
  match c with HDefer _ _ _ => true | _ => false end.
(* what the properties C01 / C17 observe: resolve and apply calls *)
Definition observable (t : trace) : trace := filter (fun c => negb (is_defer c)) t.
