From Coq Require Import ZArith Bool Lia.
From GV Require Import Model.Num Spec.ExactArith.
Local Open Scope Z_scope.

Lemma in_i32_iff z : in_i32 z = true <-> (-2147483648 <= z <= 2147483647).
Proof. unfold in_i32, i32_min, i32_max. lia. Qed.

Lemma in_i32_false z : in_i32 z = false <-> (z < -2147483648 \/ 2147483647 < z).
Proof. unfold in_i32, i32_min, i32_max. lia. Qed.

Lemma wrap32_id z : in_i32 z = true -> wrap32 z = z.
Proof.
  rewrite in_i32_iff. unfold wrap32. intros H.
  rewrite Z.mod_small by lia. lia.
Qed.

Lemma wrap32_range z : in_i32 (wrap32 z) = true.
Proof.
  rewrite in_i32_iff. unfold wrap32.
  pose proof (Z.mod_pos_bound (z + 2147483648) 4294967296 ltac:(lia)). lia.
Qed.

Lemma quot_abs_le a b : b <> 0 -> Z.abs (Z.quot a b) <= Z.abs a.
Proof.
  intros Hb. rewrite <- Z.quot_abs by assumption.
  destruct (Z.eq_dec a 0) as [->|Ha0]; [rewrite Z.quot_0_l; simpl; lia|].
  destruct (Z.eq_dec (Z.abs b) 1) as [H1|H1].
  - rewrite H1, Z.quot_1_r. lia.
  - apply Z.lt_le_incl. apply Z.quot_lt; lia.
Qed.

Lemma quot_m1 a : Z.quot a (-1) = - a.
Proof. change (-1) with (- (1)). rewrite Z.quot_opp_r, Z.quot_1_r by lia. reflexivity. Qed.

Lemma quot_range a b :
  in_i32 a = true -> b <> 0 -> ~ (a = i32_min /\ b = -1) -> in_i32 (Z.quot a b) = true.
Proof.
  rewrite !in_i32_iff. unfold i32_min. intros Ha Hb Hn.
  pose proof (quot_abs_le a b Hb) as Hs.
  destruct (Z.eq_dec b (-1)) as [->|H1].
  - rewrite quot_m1. lia.
  - destruct (Z.eq_dec a (-2147483648)) as [->|Ha']; [|lia].
    destruct (Z.eq_dec b 1) as [->|H2]; [rewrite Z.quot_1_r; lia|].
    assert (Z.abs (Z.quot (-2147483648) b) < 2147483648); [|lia].
    rewrite <- Z.quot_abs by assumption. apply Z.quot_lt; lia.
Qed.

Lemma quot_min_m1_overflows : in_i32 (Z.quot i32_min (-1)) = false.
Proof. reflexivity. Qed.

Lemma rem_range a b : in_i32 b = true -> b <> 0 -> in_i32 (Z.rem a b) = true.
Proof.
  rewrite !in_i32_iff. intros Hb Hnz.
  pose proof (Z.rem_bound_abs a b Hnz). lia.
Qed.

Lemma pow_overflows a e : 2 <= Z.abs a -> 32 <= e -> in_i32 (a ^ e) = false.
Proof.
  intros Ha He. apply in_i32_false.
  assert (H : 4294967296 <= Z.abs (a ^ e)).
  { rewrite Z.abs_pow. change 4294967296 with (2 ^ 32).
    transitivity (2 ^ e).
    - apply Z.pow_le_mono_r; lia.
    - apply Z.pow_le_mono_l; lia. }
  lia.
Qed.

Lemma pow_m1 e : 0 <= e -> (-1) ^ e = if Z.even e then 1 else -1.
Proof.
  intros He. destruct (Z.even e) eqn:Hev.
  - apply Z.even_spec in Hev. destruct Hev as [k ->].
    rewrite Z.pow_mul_r by lia. change ((-1) ^ 2) with 1. apply Z.pow_1_l. lia.
  - assert (Hodd : Z.odd e = true) by (rewrite <- Z.negb_even, Hev; reflexivity).
    apply Z.odd_spec in Hodd. destruct Hodd as [k ->].
    rewrite Z.pow_add_r, Z.pow_mul_r by lia. change ((-1) ^ 2) with 1.
    rewrite Z.pow_1_l by lia. reflexivity.
Qed.

(* two's-complement range as a statement about the bits above position 31 *)
Lemma in_i32_shiftr z : in_i32 z = true <-> (Z.shiftr z 31 = 0 \/ Z.shiftr z 31 = -1).
Proof.
  rewrite in_i32_iff, Z.shiftr_div_pow2 by lia. change (2 ^ 31) with 2147483648.
  pose proof (Z.div_mod z 2147483648 ltac:(lia)).
  pose proof (Z.mod_pos_bound z 2147483648 ltac:(lia)). lia.
Qed.

Lemma land_range a b : in_i32 a = true -> in_i32 b = true -> in_i32 (Z.land a b) = true.
Proof.
  rewrite !in_i32_shiftr, Z.shiftr_land. intros [-> | ->] [-> | ->]; simpl; auto.
Qed.
Lemma lor_range a b : in_i32 a = true -> in_i32 b = true -> in_i32 (Z.lor a b) = true.
Proof.
  rewrite !in_i32_shiftr, Z.shiftr_lor. intros [-> | ->] [-> | ->]; simpl; auto.
Qed.
Lemma lxor_range a b : in_i32 a = true -> in_i32 b = true -> in_i32 (Z.lxor a b) = true.
Proof.
  rewrite !in_i32_shiftr, Z.shiftr_lxor. intros [-> | ->] [-> | ->]; simpl; auto.
Qed.
Lemma lnot_range a : in_i32 a = true -> in_i32 (Z.lnot a) = true.
Proof. rewrite !in_i32_iff. unfold Z.lnot. lia. Qed.

Lemma shiftr_range a c : 0 <= c -> in_i32 a = true -> in_i32 (Z.shiftr a c) = true.
Proof.
  intros Hc. rewrite !in_i32_shiftr, Z.shiftr_shiftr by lia.
  rewrite Z.add_comm, <- Z.shiftr_shiftr by lia.
  intros [-> | ->].
  - left. apply Z.shiftr_0_l.
  - right. rewrite Z.shiftr_div_pow2 by lia.
    assert (0 < 2 ^ c) by (apply Z.pow_pos_nonneg; lia).
    symmetry. apply Z.div_unique with (r := 2 ^ c - 1); lia.
Qed.

Lemma shift_count_ok_iff c : shift_count_ok c = true <-> 0 <= c <= 31.
Proof. unfold shift_count_ok. lia. Qed.
