(* Extraction of the number model for the correspondence check.
   ExtrOcamlBasic only: bool, option, unit, list, prod, sumbool, sumor become
   OCaml's; positive/N/Z stay Coq datatypes. No Extract Constant. *)
Require Import ExtrOcamlBasic.
From Coq Require Import ZArith.
From Flocq Require Import IEEE754.Binary IEEE754.Bits.
From GV Require Import Model.Num Spec.ExactArith.
Cd "../build/ocaml".
Extraction "num_model.ml" num_binop num_unop num_partial_cmp num_eq
  spec_int_binop_exec spec_int_unop b64_of_bits bits_of_b64 f64_of_i32.
Cd "../../coq".
