(* C12  Ordering comparisons agree with the natural order.
   Only statements, [exact] and [Print Assumptions] live here.
   Model: Model/Compare.v (+ Gen/CmpTable.v regenerated from comparison.rs);
   spec: Spec/NatOrder.v. *)
From Coq Require Import ZArith NArith List Bool Reals.
From Flocq Require Import Core IEEE754.BinarySingleNaN IEEE754.Binary IEEE754.Bits.
From GV Require Import Base.Result Gen.Instr Gen.CmpTable Model.Num Model.Value Model.Compare Spec.NatOrder
  Proofs.C12.Numbers Proofs.C12.Lex Proofs.C12.Operators.
Import ListNotations.

(* numbers: partial_cmp of two Number values (i32 or binary64, mixed, not NaN)
   is the comparison of the extended reals they denote *)
Theorem C12_numbers : forall a b x y, num_wf a -> num_wf b ->
  denote a = Some x -> denote b = Some y ->
  num_partial_cmp a b = Some (xcompare x y).
Proof. exact num_cmp_correct. Qed.
Print Assumptions C12_numbers.

(* lists: cmp_list is the lexicographic order, shorter prefix first ... *)
Theorem C12_lists : forall l r, (Z.of_nat (length l) <= i32_max)%Z ->
  cmp_list l r = Ok (Some (lex_compare l r)).
Proof. exact cmp_list_correct. Qed.
Print Assumptions C12_lists.

(* ... where lex_compare = Lt means: proper prefix, or smaller at the first difference *)
Theorem C12_lex_meaning : forall l r, lex_compare l r = Lt <-> lex_lt l r.
Proof. exact lex_compare_lt_iff. Qed.
Print Assumptions C12_lex_meaning.

(* all four operators, all comparable operands: the pushed value is the truth
   value of the natural order relation *)
Theorem C12_natural_order : forall o l r c, operand_ok l -> operand_ok r ->
  nat_order l r = Some c -> compare_op o l r = Ok (vbool (rel_holds (rel_of o) c)).
Proof. exact compare_op_natural. Qed.
Print Assumptions C12_natural_order.

Theorem C12_equal_is_order_eq : forall l r c, operand_ok l -> operand_ok r ->
  nat_order l r = Some c -> prim_equal l r = Some (match c with Eq => true | _ => false end).
Proof. exact prim_equal_natural. Qed.
Print Assumptions C12_equal_is_order_eq.

(* the order is defined on every same-kind pair without a NaN *)
Theorem C12_order_defined : forall l r, ordered_pair (type_of_val l) (type_of_val r) = true ->
  (forall a b, l = VNum a -> r = VNum b -> is_nan_num a = false /\ is_nan_num b = false) ->
  exists c, nat_order l r = Some c.
Proof. exact nat_order_defined. Qed.
Print Assumptions C12_order_defined.

(* exactly one of a < b, a == b, a > b *)
Theorem C12_trichotomy : forall l r c, operand_ok l -> operand_ok r -> nat_order l r = Some c ->
  exactly_one (compare_op CLt l r = Ok VTrue) (prim_equal l r = Some true) (compare_op CGt l r = Ok VTrue).
Proof. exact trichotomy. Qed.
Print Assumptions C12_trichotomy.

(* a <= b is the negation of a > b (and a >= b of a < b) *)
Theorem C12_le_is_not_gt : forall l r c, operand_ok l -> operand_ok r -> nat_order l r = Some c ->
  exists b, compare_op CGt l r = Ok (vbool b) /\ compare_op CLe l r = Ok (vbool (negb b)).
Proof. exact le_is_not_gt. Qed.
Print Assumptions C12_le_is_not_gt.

Theorem C12_ge_is_not_lt : forall l r c, operand_ok l -> operand_ok r -> nat_order l r = Some c ->
  exists b, compare_op CLt l r = Ok (vbool b) /\ compare_op CGe l r = Ok (vbool (negb b)).
Proof. exact ge_is_not_lt. Qed.
Print Assumptions C12_ge_is_not_lt.

(* a < b iff b > a *)
Theorem C12_lt_iff_gt_swapped : forall l r c, operand_ok l -> operand_ok r -> nat_order l r = Some c ->
  compare_op CLt l r = compare_op CGt r l /\ compare_op CLe l r = compare_op CGe r l.
Proof. exact lt_iff_gt_swapped. Qed.
Print Assumptions C12_lt_iff_gt_swapped.

(* every other combination of operand types (all 21 x 21 pairs except the five
   comparable ones and Slice x Slice): False for all four operators *)
Theorem C12_other : forall o l r,
  ordered_pair (type_of_val l) (type_of_val r) = false ->
  slice_pair (type_of_val l) (type_of_val r) = false ->
  compare_op o l r = Ok VFalse.
Proof. exact other_pairs_false. Qed.
Print Assumptions C12_other.

(* a NaN operand: unit *)
Theorem C12_nan_unit : forall o a b, is_nan_num a = true \/ is_nan_num b = true ->
  compare_op o (VNum a) (VNum b) = Ok VUnit.
Proof. exact nan_gives_unit. Qed.
Print Assumptions C12_nan_unit.

(* never an error: some True / False / unit is pushed *)
Theorem C12_never_fails : forall o l r, operand_ok l -> operand_ok r ->
  slice_pair (type_of_val l) (type_of_val r) = false ->
  exists v, compare_op o l r = Ok v /\ is_cmp_result v.
Proof. exact never_fails. Qed.
Print Assumptions C12_never_fails.

(* two operands popped, one result pushed, the rest of the registers untouched *)
Theorem C12_stack : forall o l r rest v, compare_op o l r = Ok v ->
  exec_compare o (r :: l :: rest) = Ok (v :: rest).
Proof. exact exec_compare_stack. Qed.
Print Assumptions C12_stack.

(* non-vacuity: hypotheses are met and every branch is taken by concrete operands *)
Example C12_ex_lists :
  compare_op CLt (VChars [97; 98]%N) (VChars [97; 98; 233]%N) = Ok VTrue /\
  compare_op CGe (VChars [97; 233]%N) (VChars [97; 98; 98]%N) = Ok VTrue /\
  compare_op CLe (VBytes []) (VBytes []) = Ok VTrue /\
  compare_op CGt (VBytes [255]%N) (VBytes [1; 2]%N) = Ok VTrue /\
  compare_op CLt (VChar 97%N) (VChar 98%N) = Ok VTrue /\
  compare_op CLe (VChars [97]%N) (VChar 97%N) = Ok VFalse /\
  compare_op CGe (VList [VUnit]) (VList [VUnit]) = Ok VFalse /\
  compare_op CLt (VSlice (VChars [97]%N) VUnit) (VSlice (VChars [97]%N) VUnit) = Err E_slice_out_of_scope.
Proof. vm_compute. repeat split; reflexivity. Qed.

Example C12_ex_numbers :
  (* 2147483647 < 2147483647.5 (binary64 0x41DFFFFFFFE00000), i32::MIN = -2147483648.0, 1 vs NaN *)
  compare_op CLt (VNum (Int i32_max)) (VNum (Flt (b64_of_bits 0x41DFFFFFFFE00000))) = Ok VTrue /\
  compare_op CGe (VNum (Int i32_min)) (VNum (Flt (b64_of_bits 0xC1E0000000000000))) = Ok VTrue /\
  compare_op CGt (VNum (Int i32_min)) (VNum (Flt (b64_of_bits 0xC1E0000000000000))) = Ok VFalse /\
  compare_op CLe (VNum (Int 1)) (VNum (Flt (b64_of_bits 0x7FF8000000000000))) = Ok VUnit /\
  compare_op CLt (VNum (Flt (b64_of_bits 0xFFF0000000000000))) (VNum (Int i32_min)) = Ok VTrue.
Proof. vm_compute. repeat split; reflexivity. Qed.

Example C12_ex_order_defined :
  nat_order (VChars [97; 98]%N) (VChars [97]%N) = Some Gt /\
  operand_ok (VChars [97; 98]%N) /\ operand_ok (VNum (Int i32_min)).
Proof. split; [reflexivity|]. split; [vm_compute; discriminate | reflexivity]. Qed.
