(* C19 proofs, part 4: create_index_stack only appends CloneItem cells, the first of which names
   the value it was called for. *)
From Coq Require Import NArith List Bool Arith Lia.
From GV Require Import Base.Result Model.Optimize Spec.HeapIso Proofs.C19.Base Proofs.C19.StoreLemmas
  Proofs.C19.CloneStack.
Import ListNotations.

Definition is_clone_item (c : cell) : Prop := exists a, c = CCloneItem a.

(* [s1] is [s] with CloneItem cells appended *)
Definition ext_ci (s s1 : store) : Prop :=
  same_meta s s1 /\ exists w, cells s1 = cells s ++ w /\ Forall is_clone_item w.

Lemma ext_ci_refl : forall s, ext_ci s s.
Proof. intro s. split; [apply same_meta_refl|]. exists []. rewrite app_nil_r. split; auto. Qed.

Lemma ext_ci_trans : forall s1 s2 s3, ext_ci s1 s2 -> ext_ci s2 s3 -> ext_ci s1 s3.
Proof.
  intros s1 s2 s3 [M1 [w1 [E1 F1]]] [M2 [w2 [E2 F2]]]. split; [eapply same_meta_trans; eauto|].
  exists (w1 ++ w2). rewrite E2, E1, app_assoc. split; auto. apply Forall_app. tauto.
Qed.

Lemma ext_ci_ext : forall s s1, ext_ci s s1 -> ext s s1.
Proof. intros s s1 [M [w [E _]]]. split; eauto. Qed.

Lemma push_ci : forall s a s1, push_ s (CCloneItem a) = Ok s1 -> ext_ci s s1.
Proof.
  intros s a s1 H. apply push__ok in H. destruct H as [E M]. split; auto.
  exists [CCloneItem a]. split; auto. constructor; [eexists; reflexivity|constructor].
Qed.

Lemma push_items_ci : forall l s s1, push_items s l = Ok s1 -> ext_ci s s1.
Proof.
  induction l as [|a l IH]; intros s s1 H; cbn in H.
  - inversion H. apply ext_ci_refl.
  - bind_as H s2. eapply ext_ci_trans; [eapply push_ci; eauto|eauto].
Qed.

Lemma for_range_ci : forall body,
  (forall i s s1, body i s = Ok s1 -> ext_ci s s1) ->
  forall n i s s1, for_range n i body s = Ok s1 -> ext_ci s s1.
Proof.
  intros body Hb. induction n as [|n IH]; intros i s s1 H; cbn in H.
  - inversion H. apply ext_ci_refl.
  - bind_as H s2. eapply ext_ci_trans; eauto.
Qed.

Lemma expand_ci : forall s index c s1, expand s index c = Ok s1 -> ext_ci s s1.
Proof.
  intros s index c s1 H.
  destruct c; cbn [expand] in H; try (inversion H; subst; apply ext_ci_refl);
    try (eapply push_items_ci; exact H).
  - eapply for_range_ci; [|exact H]. intros i x y Hb. cbn beta in Hb. bind_as Hb cc.
    destruct cc; try discriminate Hb. eapply push_ci; eauto.
  - eapply for_range_ci; [|exact H]. intros i x y Hb. cbn beta in Hb. bind_as Hb cc.
    destruct cc; try discriminate Hb.
    + inversion Hb; subst. apply ext_ci_refl.
    + eapply push_ci; eauto.
Qed.

Lemma cis_loop_ci : forall fuel maxit current iterations s s1,
  cis_loop fuel maxit current iterations s = Ok s1 -> ext_ci s s1.
Proof.
  induction fuel as [|f IH]; intros maxit current iterations s s1 H; cbn [cis_loop] in H; try discriminate.
  destruct (current <? cursor s).
  - bind_as H c. destruct c; try discriminate H. bind_as H tgt. bind_as H s2.
    destruct (maxit <? S iterations); try discriminate H.
    eapply ext_ci_trans; [eapply expand_ci; eauto|eauto].
  - inversion H. apply ext_ci_refl.
Qed.

Lemma create_index_stack_spec : forall s from s1 start, create_index_stack s from = Ok (s1, start) ->
  start = length (cells s) /\ ext_ci s s1 /\ nth_error (cells s1) start = Some (CCloneItem from).
Proof.
  intros s from s1 start H. unfold create_index_stack in H. bind_as H pr. destruct pr as [sa st].
  bind_as H sb. inversion H; subst sb st. clear H.
  pose proof (push_ok _ _ _ _ E) as [-> [Ec Hm]].
  assert (H1 : ext_ci s sa).
  { split; auto. exists [CCloneItem from]. split; auto. constructor; [eexists; reflexivity|constructor]. }
  pose proof (cis_loop_ci _ _ _ _ _ _ E0) as H2.
  split; [reflexivity|]. split; [eapply ext_ci_trans; eauto|].
  eapply ext_nth; [apply ext_ci_ext; eauto|]. rewrite Ec. apply nth_error_snoc.
Qed.

Lemma create_stacks_ci : forall roots s s1, create_stacks s roots = Ok s1 -> ext_ci s s1.
Proof.
  unfold create_stacks. induction roots as [|r roots IH]; intros s s1 H; cbn in H.
  - inversion H. apply ext_ci_refl.
  - bind_as H s2. bind_as E pr. destruct pr as [sa st]. inversion E; subst.
    apply create_index_stack_spec in E0. destruct E0 as [_ [Hc _]].
    eapply ext_ci_trans; eauto.
Qed.

(* appended CloneItem cells are invisible to the reader *)
Lemma agree_drop_ci : forall h w, Forall is_clone_item w -> agree (h ++ w) h.
Proof.
  intros h w Hf k c Hk Hn. destruct (Nat.lt_ge_cases k (length h)) as [Hlt|Hge].
  - rewrite nth_error_app1 in Hk by exact Hlt. exact Hk.
  - rewrite nth_error_app2 in Hk by exact Hge. apply nth_error_In in Hk.
    rewrite Forall_forall in Hf. destruct (Hf _ Hk) as [a ->]. exfalso. apply (Hn a). reflexivity.
Qed.

Lemma Reads_drop_ci : forall s s1 a t, ext_ci s s1 -> Reads (cells s1) a t -> Reads (cells s) a t.
Proof.
  intros s s1 a t [_ [w [E F]]] H. rewrite E in H. eapply Reads_agree; eauto. apply agree_drop_ci. exact F.
Qed.
