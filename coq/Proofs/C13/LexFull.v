(* The blank-line clause in the wording of DESIGN.md section 8:
     lex x = Ok tx, tx does not end in a line annotation, pad is spaces/tabs,
     lex (x ++ pad ++ LF LF ++ y) = Ok ts
     ==> a Subexpression token of ts covers the first line feed after pad.
   Needs: lexing a prefix (feed), what "lex x succeeds" says about the state after x
   (clean), and how a clean state handles pad, LF, LF. *)
From Coq Require Import NArith Arith List Bool Lia.
From GV Require Import Base.Result Gen.TokenTypes Gen.Tokens Model.Lexer Spec.LexSpec
  Proofs.C13.LexBase Proofs.C13.LexInv Proofs.C13.LexRun Proofs.C13.LexOp.
Import ListNotations.
Local Open Scope N_scope.

Definition otoks (o : option token) : list token := match o with Some t => [t] | None => [] end.

Lemma texts_otoks : forall o, texts (otoks o) = otext o.
Proof. intros [t|]; [apply texts_single | reflexivity]. Qed.

Section Full.
  Variables uni_numeric uni_alnum : N -> bool.
  Notation process_char := (process_char uni_numeric uni_alnum).
  Notation internal_next_loop := (internal_next_loop uni_numeric uni_alnum).
  Notation internal_next := (internal_next uni_numeric uni_alnum).
  Notation lex_loop := (lex_loop uni_numeric uni_alnum).
  Notation lex_run := (lex_run uni_numeric uni_alnum).
  Notation lex := (lex uni_numeric uni_alnum).
  Notation start_token := (start_token uni_numeric uni_alnum).
  Notation run_arm := (run_arm uni_numeric uni_alnum).

  (* the state and the tokens after consuming the characters of [s] (no end-of-input flush) *)
  Fixpoint feed (l : lexer) (acc : list token) (s : list N) : option (lexer * list token) :=
    match s with
    | [] => Some (l, acc)
    | c :: r =>
      match process_char l c with
      | Ok (l1, ot) => if is_err (result l1) then None else feed l1 (acc ++ otoks ot) r
      | _ => None
      end
    end.

  Lemma feed_app : forall s1 s2 l acc,
    feed l acc (s1 ++ s2) =
    match feed l acc s1 with Some (l1, acc1) => feed l1 acc1 s2 | None => None end.
  Proof.
    induction s1 as [|c s1 IH]; intros s2 l acc; [reflexivity|].
    cbn [app feed]. destruct (process_char l c) as [[l1 ot]| | |]; try reflexivity.
    destruct (is_err (result l1)); [reflexivity | apply IH].
  Qed.

  (* tokens already emitted are never changed *)
  Lemma lex_loop_prefix : forall fuel l s acc ts, lex_loop fuel l s acc = LOk ts -> exists post, ts = acc ++ post.
  Proof.
    induction fuel as [|f IH]; intros l s acc ts H; [discriminate|].
    cbn [lex_loop] in H. destruct (internal_next l s) as [[[l1 s1] [t|]]| | |]; try discriminate.
    - destruct (result l1); [discriminate|]. apply IH in H as [post E]. exists (t :: post).
      rewrite E, <- app_assoc. reflexivity.
    - destruct (result l1); [discriminate|]. inversion H; subst. exists []. rewrite app_nil_r. reflexivity.
  Qed.

  (* a successful run on s1 ++ s2 passes through the state reached after s1 *)
  Lemma lex_loop_feed : forall s1 fuel l s2 acc ts, result l = None ->
    lex_loop fuel l (s1 ++ s2) acc = LOk ts ->
    exists l1 acc1 fuel1, feed l acc s1 = Some (l1, acc1) /\ result l1 = None /\
                          lex_loop fuel1 l1 s2 acc1 = LOk ts.
  Proof.
    induction s1 as [|c s1 IH]; intros fuel l s2 acc ts Hres H.
    - exists l, acc, fuel. cbn. auto.
    - destruct fuel as [|f]; [discriminate|].
      cbn [app lex_loop] in H. unfold internal_next in H. rewrite Hres in H. cbn [is_err internal_next_loop] in H.
      cbn [feed]. destruct (process_char l c) as [[l1 [t|]]| | |] eqn:Hpc; try discriminate.
      + destruct (result l1) eqn:Hr1; [discriminate|]. cbn [is_err otoks].
        apply (IH f l1 s2 (acc ++ [t]) ts Hr1 H).
      + destruct (result l1) eqn:Hr1; cbn [is_err] in H |- *.
        * rewrite Hr1 in H. discriminate.
        * cbn [otoks]. rewrite app_nil_r.
          eapply (IH (S f) l1 s2 acc ts); [exact Hr1|]. cbn [lex_loop]. unfold internal_next. rewrite Hr1. exact H.
  Qed.

  (* invariants along feed *)
  Lemma feed_inv : forall s l acc l1 acc1, WF l -> result l = None -> at_end l = false ->
    feed l acc s = Some (l1, acc1) ->
    WF l1 /\ result l1 = None /\ at_end l1 = false /\
    texts acc1 ++ cur l1 = texts acc ++ cur l ++ s /\ exists mid, acc1 = acc ++ mid.
  Proof.
    induction s as [|c s IH]; intros l acc l1 acc1 Hwf Hres Hae H.
    - inversion H; subst. rewrite app_nil_r. split; [exact Hwf|]. split; [exact Hres|]. split; [exact Hae|].
      split; [reflexivity|]. exists []. rewrite app_nil_r. reflexivity.
    - cbn [feed] in H.
      assert (Hs : ~ sentinel l c) by (intros [_ E]; congruence).
      destruct (process_char_real uni_numeric uni_alnum l c Hwf Hres Hs) as (l2 & ot & Hpc & Hae2 & Hspec).
      rewrite Hpc in H. destruct (result l2) eqn:Hr2; [discriminate|]. cbn [is_err] in H.
      destruct (Hspec eq_refl) as (Hwf2 & Hcat & _).
      destruct (IH l2 (acc ++ otoks ot) l1 acc1 Hwf2 Hr2 (eq_trans Hae2 Hae) H) as (A & B & C & D & (mid & E)).
      split; [exact A|]. split; [exact B|]. split; [exact C|]. split.
      + rewrite D, texts_app, texts_otoks, <- !app_assoc. f_equal.
        rewrite app_assoc, <- Hcat, <- app_assoc. reflexivity.
      + exists (otoks ot ++ mid). rewrite E, <- app_assoc. reflexivity.
  Qed.

  (* ----------------------------------------- a line annotation keeps its type *)
  Definition WFla (l : lexer) : Prop := st l = SLineAnnotation -> cur_ty l = Some TT_LineAnnotation.

  Lemma start_token_not_la : forall l c, st l = SNoToken -> st (start_token l c) <> SLineAnnotation.
  Proof.
    intros l c H. unfold start_token. destruct (current_operator _); repeat break_if; cbn; congruence.
  Qed.

  Lemma run_arm_la : forall l c, WFla l ->
    match run_arm l c with Arm l1 _ false => WFla l1 | Early l1 => result l1 <> None | _ => True end.
  Proof.
    intros l c Hla. unfold run_arm. destruct (st l) eqn:Hst.
    - unfold WFla. intros E. exfalso. revert E. apply start_token_not_la. exact Hst.
    - unfold arm_operator. destruct (current_operator _); repeat break_if; auto; unfold WFla; cbn; congruence.
    - unfold arm_spaces. repeat break_if; auto; unfold WFla; cbn; congruence.
    - unfold arm_subexpression. repeat break_if; auto; unfold WFla; cbn; congruence.
    - unfold arm_number. repeat break_if; auto; unfold WFla; cbn; congruence.
    - unfold arm_float. destruct (is_number_char uni_numeric uni_alnum c); [unfold WFla; cbn; congruence|].
      destruct ((c =? ch_period) && ends_with ch_period (cur l)) eqn:Esplit; [|exact I].
      apply andb_true_iff in Esplit as [Hc _]. apply N.eqb_eq in Hc. subst c.
      destruct (text_col (set_start_row l (text_row l)) =? 0); [exact I|].
      change ch_period with 46.
      change (push (set_start_col (start_token (set_start_row l (text_row l)) 46)
                      (text_col (set_start_row l (text_row l)) - 1)) 46) with (float_split_state uni_numeric uni_alnum l).
      rewrite float_split_state_eq. cbn [cur]. rewrite current_operator_range. unfold WFla. cbn. congruence.
    - unfold arm_identifier. repeat break_if; auto; unfold WFla; cbn; congruence.
    - unfold arm_annotation. repeat break_if; auto; unfold WFla; cbn; congruence.
    - unfold arm_line_annotation. repeat break_if; auto; unfold WFla; cbn; intros; apply Hla; assumption.
    - unfold arm_list. repeat break_if; auto; unfold WFla; cbn; congruence.
    - unfold arm_start_list. repeat break_if; auto; unfold WFla; cbn; congruence.
    - unfold arm_list. repeat break_if; auto; unfold WFla; cbn; congruence.
    - unfold arm_start_list. repeat break_if; auto; unfold WFla; cbn; congruence.
  Qed.

  Lemma tail_st : forall l1 nt c,
    match start_new_tail uni_numeric uni_alnum l1 nt c with
    | Tail l2 _ => st l2 <> SLineAnnotation
    | TailEarly l2 => result l2 <> None
    end.
  Proof.
    intros l1 nt c. unfold start_new_tail.
    set (l1' := set_can_float l1 (negb (blocks_float (cur_ty l1)))).
    assert (G : forall l2, st (if should_create (reset_state l2) then start_token (reset_state l2) c
                               else set_should_create (reset_state l2) true) <> SLineAnnotation).
    { intros l2. destruct (should_create (reset_state l2)).
      - apply start_token_not_la. reflexivity.
      - cbn. discriminate. }
    destruct (negb (lstate_eqb (st l1') SNoToken)).
    - destruct (result (set_result l1' (can_create_valid_token l1'))).
      + exact (G _).
      + destruct (cur_ty (set_result l1' (can_create_valid_token l1'))); [exact (G _) | cbn; discriminate].
    - exact (G _).
  Qed.

  Lemma process_char_la : forall l c l1 ot, WFla l -> process_char l c = Ok (l1, ot) -> result l1 = None -> WFla l1.
  Proof.
    intros l c l1 ot Hla Hpc Hr. pose proof (run_arm_la l c Hla) as Ha. unfold process_char in Hpc.
    destruct (run_arm l c) as [l2 nt sn| l2 | site]; try discriminate.
    - destruct sn.
      + pose proof (tail_st l2 nt c) as Ht.
        destruct (start_new_tail uni_numeric uni_alnum l2 nt c) as [l3 nt3 | l3]; inversion Hpc; subst.
        * intros E. exfalso. apply Ht. destruct (advance_frame l3 c) as (_ & Es & _). congruence.
        * congruence.
      + inversion Hpc; subst. unfold WFla in *. destruct (advance_frame l2 c) as (_ & Es & _ & _ & _ & Ety & _).
        rewrite Es, Ety. exact Ha.
    - inversion Hpc; subst. congruence.
  Qed.

  Lemma app_nonempty : forall (a : list N) c, a ++ [c] <> [].
  Proof. intros [|x a] c; discriminate. Qed.

  Lemma feed_la : forall s l acc l1 acc1, WFla l -> feed l acc s = Some (l1, acc1) -> WFla l1.
  Proof.
    induction s as [|c s IH]; intros l acc l1 acc1 Hla H.
    - inversion H; subst. exact Hla.
    - cbn [feed] in H. destruct (process_char l c) as [[l2 ot]| | |] eqn:Hpc; try discriminate.
      destruct (result l2) eqn:Hr; [discriminate|]. cbn [is_err] in H.
      eapply IH; [|exact H]. eapply process_char_la; eauto.
  Qed.

  (* ------------------------------------ what "lex x succeeds" says about the state *)
  Definition clean (l : lexer) : Prop :=
    match st l with
    | SCharList | SByteList | SLineAnnotation => False
    | SStartCharList | SStartByteList => byte_len (cur l) = 2
    | _ => True
    end.

  Lemma byte_len_pos : forall s, s <> [] -> (0 <? byte_len s) = true.
  Proof.
    intros [|c s] H; [congruence|]. cbn [byte_len]. apply N.ltb_lt. pose proof (utf8_len_pos c). lia.
  Qed.

  (* the flush of an unterminated literal leaves characters behind: Unterminated *)
  Lemma flush_unterminated : forall l, at_end l = true -> cur l <> [] ->
    (st l = SCharList \/ st l = SByteList \/
     ((st l = SStartCharList \/ st l = SStartByteList) /\ byte_len (cur l) <> 2)) ->
    exists l1, process_char l 0 = Ok (l1, None) /\ cur l1 <> [].
  Proof.
    intros l Hae Hne Hst. unfold process_char, run_arm.
    destruct Hst as [E|[E|[[E|E] Hlen]]]; rewrite E.
    - unfold arm_list. cbn -[advance]. eexists. split; [reflexivity|].
      destruct (advance_frame (push (set_eq l 0) 0) 0) as (Ec & _).
      rewrite Ec. cbn. apply app_nonempty.
    - unfold arm_list. cbn -[advance]. eexists. split; [reflexivity|].
      destruct (advance_frame (push (set_eq l 0) 0) 0) as (Ec & _).
      rewrite Ec. cbn. apply app_nonempty.
    - unfold arm_start_list. cbn -[advance]. apply N.eqb_neq in Hlen. rewrite Hlen. cbn -[advance]. rewrite Hae. cbn -[advance].
      eexists. split; [reflexivity|].
      destruct (advance_frame (set_st (set_sq l (byte_len (cur l))) SCharList) 0) as (Ec & _). rewrite Ec. exact Hne.
    - unfold arm_start_list. cbn -[advance]. apply N.eqb_neq in Hlen. rewrite Hlen. cbn -[advance]. rewrite Hae. cbn -[advance].
      eexists. split; [reflexivity|].
      destruct (advance_frame (set_st (set_sq l (byte_len (cur l))) SByteList) 0) as (Ec & _). rewrite Ec. exact Hne.
  Qed.

  (* the flush of a line annotation emits a LineAnnotation token *)
  Lemma flush_line_annotation : forall l l1 ot, WF l -> WFla l -> result l = None -> at_end l = true ->
    st l = SLineAnnotation -> process_char l 0 = Ok (l1, ot) -> result l1 = None ->
    exists t, ot = Some t /\ tok_type t = TT_LineAnnotation.
  Proof.
    intros l l1 ot Hwf Hla Hres Hae Hst Hpc Hr.
    unfold process_char, run_arm in Hpc. rewrite Hst in Hpc. unfold arm_line_annotation in Hpc.
    cbn [N.eqb ch_lf ch_nul] in Hpc. change (0 =? 10) with false in Hpc. change (0 =? 0) with true in Hpc.
    cbn iota in Hpc.
    assert (Hst' : st l <> SNoToken) by congruence.
    assert (Hsc : should_create l = true) by (destruct Hwf as [[_ _ H _ _] _]; exact H).
    pose proof (tail_flush uni_numeric uni_alnum l Hae Hres Hst' Hsc) as Ht1.
    pose proof (tail_op uni_numeric uni_alnum l 0 Hres Hst') as Ht2.
    destruct (start_new_tail uni_numeric uni_alnum l None 0) as [l2 nt2|l2].
    - inversion Hpc; subst l1 ot. destruct (advance_frame l2 0) as (_ & _ & Er & _). rewrite Er in Hr.
      destruct Ht1 as [_ Ht1]. destruct (Ht1 Hr) as (t & E & _). exists t. split; [exact E|].
      destruct (Ht2 Hr) as (_ & Htok & _). destruct (Htok t E) as [Hty _].
      rewrite (Hla Hst) in Hty. inversion Hty. reflexivity.
    - inversion Hpc; subst. destruct Ht1. congruence.
  Qed.

  Definition last_not_line_annotation (tx : list token) : Prop :=
    match rev tx with t :: _ => tok_type t <> TT_LineAnnotation | [] => True end.

  Lemma flush_clean : forall fuel l acc tx, WF l -> WFla l -> result l = None -> at_end l = false ->
    lex_loop fuel l [] acc = LOk tx -> last_not_line_annotation tx -> clean l.
  Proof.
    intros fuel l acc tx Hwf Hla Hres Hae Hrun Hlast.
    destruct fuel as [|f]; [discriminate|].
    cbn [lex_loop] in Hrun. unfold internal_next in Hrun. rewrite Hres in Hrun. cbn [is_err internal_next_loop] in Hrun.
    set (l0 := set_at_end l true) in *.
    assert (Hwf0 : WF l0) by (apply WF_set_at_end; exact Hwf).
    assert (Hne : st l <> SNoToken -> cur l0 <> []) by (destruct Hwf as [[_ H _ _ _] _]; exact H).
    unfold clean. destruct (st l) eqn:Hst; try exact I.
    - (* LineAnnotation *)
      change ch_nul with 0 in Hrun.
      destruct (process_char l0 0) as [[l1 ot]| | |] eqn:Hpc; try discriminate.
      destruct (process_char_flush uni_numeric uni_alnum l0 Hwf0 Hres eq_refl) as (l1' & ot' & Hpc' & Hae1 & Hspec).
      rewrite Hpc in Hpc'. inversion Hpc'; subst l1' ot'. clear Hpc'.
      destruct ot as [t|].
      + destruct (result l1) eqn:Hr1; [discriminate|].
        destruct (flush_line_annotation l0 l1 (Some t) Hwf0 Hla Hres eq_refl Hst Hpc Hr1) as (t' & E & Hty).
        inversion E; subst t'.
        destruct (Hspec eq_refl) as (_ & _ & Hc & Hs1 & Hwf1).
        destruct f as [|f']; [discriminate|].
        rewrite (lex_loop_after_flush uni_numeric uni_alnum f' l1 (acc ++ [t]) Hwf1 Hr1 Hae1 Hs1) in Hrun.
        inversion Hrun; subst tx. unfold last_not_line_annotation in Hlast. rewrite rev_app_distr in Hlast.
        cbn in Hlast. congruence.
      + exfalso.
        destruct (result l1) eqn:Hr1.
        * cbn [is_err negb] in Hrun. rewrite andb_false_r, Hr1 in Hrun. discriminate.
        * destruct (flush_line_annotation l0 l1 None Hwf0 Hla Hres eq_refl Hst Hpc Hr1) as (t' & E & _). discriminate.
    - (* CharList *) exfalso.
      destruct (flush_unterminated l0 eq_refl (Hne ltac:(discriminate)) ltac:(left; exact Hst)) as (l1 & Hpc & Hc).
      change ch_nul with 0 in Hrun. rewrite Hpc in Hrun. rewrite (byte_len_pos _ Hc) in Hrun. cbn [andb] in Hrun.
      destruct (result l1) eqn:Hr1; cbn [is_err negb] in Hrun; [rewrite Hr1 in Hrun|]; discriminate.
    - (* StartCharList *)
      destruct (N.eq_dec (byte_len (cur l)) 2) as [E|E]; [exact E|]. exfalso.
      destruct (flush_unterminated l0 eq_refl (Hne ltac:(discriminate))
                  ltac:(right; right; split; [left; exact Hst | exact E])) as (l1 & Hpc & Hc).
      change ch_nul with 0 in Hrun. rewrite Hpc in Hrun. rewrite (byte_len_pos _ Hc) in Hrun. cbn [andb] in Hrun.
      destruct (result l1) eqn:Hr1; cbn [is_err negb] in Hrun; [rewrite Hr1 in Hrun|]; discriminate.
    - (* ByteList *) exfalso.
      destruct (flush_unterminated l0 eq_refl (Hne ltac:(discriminate)) ltac:(right; left; exact Hst)) as (l1 & Hpc & Hc).
      change ch_nul with 0 in Hrun. rewrite Hpc in Hrun. rewrite (byte_len_pos _ Hc) in Hrun. cbn [andb] in Hrun.
      destruct (result l1) eqn:Hr1; cbn [is_err negb] in Hrun; [rewrite Hr1 in Hrun|]; discriminate.
    - (* StartByteList *)
      destruct (N.eq_dec (byte_len (cur l)) 2) as [E|E]; [exact E|]. exfalso.
      destruct (flush_unterminated l0 eq_refl (Hne ltac:(discriminate))
                  ltac:(right; right; split; [right; exact Hst | exact E])) as (l1 & Hpc & Hc).
      change ch_nul with 0 in Hrun. rewrite Hpc in Hrun. rewrite (byte_len_pos _ Hc) in Hrun. cbn [andb] in Hrun.
      destruct (result l1) eqn:Hr1; cbn [is_err negb] in Hrun; [rewrite Hr1 in Hrun|]; discriminate.
  Qed.

  (* ---------------------------------------------- a token ends and a new one starts *)
  Definition restart_state (l1 : lexer) : lexer :=
    reset_state (set_result (set_can_float l1 (negb (blocks_float (cur_ty l1)))) None).

  Lemma tail_some : forall l1 c, result l1 = None -> st l1 <> SNoToken ->
    match start_new_tail uni_numeric uni_alnum l1 None c with
    | TailEarly l2 => result l2 <> None
    | Tail l2 nt2 =>
      result l2 = None ->
      exists t, nt2 = Some t /\ tok_text t = cur l1 /\ cur_ty l1 = Some (tok_type t) /\
                (should_create l1 = true -> l2 = start_token (restart_state l1) c) /\
                (should_create l1 = false -> l2 = set_should_create (restart_state l1) true)
    end.
  Proof.
    intros l1 c Hres Hst.
    unfold start_new_tail. cbn [st set_can_float].
    rewrite (lstate_eqb_notoken _ Hst). cbn [negb].
    set (l1' := set_can_float l1 (negb (blocks_float (cur_ty l1)))).
    destruct (can_create_valid_token l1') as [e|] eqn:Ecc.
    - cbn [result set_result].
      fold (reset_state (set_result l1' (Some e))).
      destruct (should_create (reset_state (set_result l1' (Some e)))).
      + intros Hr. destruct (start_token_frame uni_numeric uni_alnum (reset_state (set_result l1' (Some e))) c) as (_ & _ & _ & E2).
        apply E2 in Hr. discriminate.
      + cbn. discriminate.
    - cbn [result set_result cur_ty].
      destruct (cur_ty l1') as [ty|] eqn:Ety; [|cbn; discriminate].
      fold (reset_state (set_result l1' None)).
      change (reset_state (set_result l1' None)) with (restart_state l1).
      assert (Hsc3 : should_create (restart_state l1) = should_create l1) by reflexivity.
      rewrite Hsc3. intros Hr. eexists. split; [reflexivity|]. cbn [tok_text tok_type].
      split; [reflexivity|]. split; [exact Ety|].
      destruct (should_create l1); split; intros; try discriminate; reflexivity.
  Qed.

  Lemma start_token_pad : forall l c, c = 32 \/ c = 9 ->
    st (start_token l c) = SSpaces /\ cur (start_token l c) = [c] /\ result (start_token l c) = result l.
  Proof.
    intros l c [->| ->]; unfold start_token; cbn [cur set_cur set_cur_ty set_start_row set_start_col].
    - replace (current_operator [32]) with (@None (option token_type)) by (vm_compute; reflexivity). cbn. auto.
    - replace (current_operator [9]) with (@None (option token_type)) by (vm_compute; reflexivity). cbn. auto.
  Qed.

  Lemma start_token_lf : forall l,
    st (start_token l 10) = SSubexpression /\ cur (start_token l 10) = [10] /\
    result (start_token l 10) = result l /\ could_sub (start_token l 10) = could_sub l.
  Proof.
    intros l. unfold start_token. cbn [cur set_cur set_cur_ty set_start_row set_start_col].
    replace (current_operator [10]) with (@None (option token_type)) by (vm_compute; reflexivity). cbn. auto.
  Qed.

  Definition ender (c : N) : Prop := c = 32 \/ c = 9 \/ c = 10.

  Definition plain_clean (l : lexer) : Prop :=
    st l = SOperator \/ st l = SNumber \/ st l = SFloat \/ st l = SIdentifier \/ st l = SAnnotation \/
    ((st l = SStartCharList \/ st l = SStartByteList) /\ byte_len (cur l) = 2).

  Lemma forallb_snoc_false' : forall (f : N -> bool) a c, f c = false -> forallb f (a ++ [c]) = false.
  Proof. intros f a c H. rewrite forallb_app. cbn. rewrite H. apply andb_false_r. Qed.

  (* a space, tab or line feed ends every token of these kinds and is not consumed by it *)
  Lemma plain_ends : forall l c, ender c -> plain_clean l ->
    exists l1, run_arm l c = Arm l1 None true /\ result l1 = result l /\ st l1 = st l /\ cur l1 = cur l /\
               should_create l1 = should_create l /\ at_end l1 = at_end l.
  Proof.
    intros l c Hc Hp. unfold run_arm.
    assert (Hplain : plain_op_char c = false) by (destruct Hc as [->|[->| ->]]; reflexivity).
    assert (Hid : is_identifier_char uni_alnum c = false) by (destruct Hc as [->|[->| ->]]; reflexivity).
    assert (Hnum : is_numeric uni_numeric c = false) by (destruct Hc as [->|[->| ->]]; reflexivity).
    assert (Hnc : is_number_char uni_numeric uni_alnum c = false) by (destruct Hc as [->|[->| ->]]; reflexivity).
    assert (Hal : is_alphanumeric uni_alnum c || (c =? ch_underscore) = false) by (destruct Hc as [->|[->| ->]]; reflexivity).
    assert (Hper : (c =? ch_period) = false) by (destruct Hc as [->|[->| ->]]; reflexivity).
    assert (Hbt : (c =? ch_backtick) = false) by (destruct Hc as [->|[->| ->]]; reflexivity).
    assert (Hat : (c =? ch_at) = false) by (destruct Hc as [->|[->| ->]]; reflexivity).
    assert (Hdq : (c =? ch_dquote) = false) by (destruct Hc as [->|[->| ->]]; reflexivity).
    assert (Hsq : (c =? ch_squote) = false) by (destruct Hc as [->|[->| ->]]; reflexivity).
    destruct Hp as [E|[E|[E|[E|[E|[[E|E] Hlen]]]]]]; rewrite E.
    - unfold arm_operator.
      rewrite (current_operator_none (cur (push l c)) c); [|cbn; apply in_or_app; right; left; reflexivity | exact Hplain].
      cbn [cur push set_cur]. rewrite (forallb_snoc_false' _ _ _ Hid), andb_false_r.
      rewrite Hnum, andb_false_r. cbn [andb]. eexists. split; [reflexivity|]. auto.
    - unfold arm_number. rewrite Hnc, Hper. cbn [andb]. eexists. split; [reflexivity|]. auto.
    - unfold arm_float. rewrite Hnc, Hper. cbn [andb]. eexists. split; [reflexivity|]. auto.
    - unfold arm_identifier. rewrite Hid, Hbt. eexists. split; [reflexivity|].
      destruct (starts_with ch_colon (cur l) && _); cbn; auto.
    - unfold arm_annotation. rewrite Hat, Hal. cbn [andb]. eexists. split; [reflexivity|]. auto.
    - unfold arm_start_list. rewrite Hdq. cbn [negb]. apply N.eqb_eq in Hlen. rewrite Hlen. cbn [negb andb].
      eexists. split; [reflexivity|]. auto.
    - unfold arm_start_list. rewrite Hsq. cbn [negb]. apply N.eqb_eq in Hlen. rewrite Hlen. cbn [negb andb].
      eexists. split; [reflexivity|]. auto.
  Qed.

  Lemma end_with_tail : forall l l1 c l' ot, run_arm l c = Arm l1 None true -> result l1 = None ->
    st l1 <> SNoToken -> process_char l c = Ok (l', ot) -> result l' = None ->
    exists t, ot = Some t /\ tok_text t = cur l1 /\ cur_ty l1 = Some (tok_type t) /\
      (should_create l1 = true -> l' = advance (start_token (restart_state l1) c) c) /\
      (should_create l1 = false -> l' = advance (set_should_create (restart_state l1) true) c).
  Proof.
    intros l l1 c l' ot Harm Hr1 Hst1 Hpc Hr'. unfold process_char in Hpc. rewrite Harm in Hpc.
    pose proof (tail_some l1 c Hr1 Hst1) as Ht.
    destruct (start_new_tail uni_numeric uni_alnum l1 None c) as [l2 nt2|l2].
    - inversion Hpc; subst l' ot. destruct (advance_frame l2 c) as (_ & _ & Er & _). rewrite Er in Hr'.
      destruct (Ht Hr') as (t & E & Htxt & Hty & Ha & Hb). exists t. split; [exact E|]. split; [exact Htxt|].
      split; [exact Hty|]. split; intros H; [rewrite (Ha H) | rewrite (Hb H)]; reflexivity.
    - inversion Hpc; subst. congruence.
  Qed.

  Lemma WF_cur : forall l, WF l -> st l <> SNoToken -> cur l <> [].
  Proof. intros l [[_ H _ _ _] _]. exact H. Qed.
  Lemma WF_sc : forall l, WF l -> should_create l = true.
  Proof. intros l [[_ _ H _ _] _]. exact H. Qed.
  Lemma WF_nt : forall l, WF l -> st l = SNoToken -> cur l = [].
  Proof. intros l [[H _ _ _ _] _]. exact H. Qed.

  Lemma clean_cases : forall l, clean l ->
    st l = SNoToken \/ st l = SSpaces \/ st l = SSubexpression \/ plain_clean l.
  Proof.
    intros l H. unfold clean in H. unfold plain_clean. destruct (st l) eqn:E; try contradiction; tauto.
  Qed.

  (* a space or a tab from a clean state leads to the Spaces state *)
  Lemma pad_step : forall l c l' ot, clean l -> WF l -> result l = None -> c = 32 \/ c = 9 ->
    process_char l c = Ok (l', ot) -> result l' = None -> st l' = SSpaces.
  Proof.
    intros l c l' ot Hcl Hwf Hres Hc Hpc Hr'.
    destruct (clean_cases l Hcl) as [E|[E|[E|Hp]]].
    - unfold process_char, run_arm in Hpc. rewrite E in Hpc. inversion Hpc; subst.
      destruct (advance_frame (start_token l c) c) as (_ & Es & _). rewrite Es.
      apply (start_token_pad l c Hc).
    - unfold process_char, run_arm in Hpc. rewrite E in Hpc. unfold arm_spaces in Hpc.
      destruct Hc as [-> | ->]; cbn -[advance] in Hpc; inversion Hpc; subst;
        match goal with |- st (advance ?x ?y) = _ => destruct (advance_frame x y) as (_ & Es & _); rewrite Es end;
        cbn; exact E.
    - unfold process_char, run_arm in Hpc. rewrite E in Hpc. unfold arm_subexpression in Hpc.
      destruct Hc as [-> | ->]; cbn -[advance] in Hpc; inversion Hpc; subst;
        match goal with |- st (advance ?x ?y) = _ => destruct (advance_frame x y) as (_ & Es & _); rewrite Es end;
        reflexivity.
    - assert (He : ender c) by (destruct Hc; [left | right; left]; assumption).
      destruct (plain_ends l c He Hp) as (l1 & Harm & A & B & C & D & _).
      assert (Hst1 : st l1 <> SNoToken).
      { rewrite B. destruct Hp as [X|[X|[X|[X|[X|[[X|X] _]]]]]]; rewrite X; discriminate. }
      destruct (end_with_tail l l1 c l' ot Harm (eq_trans A Hres) Hst1 Hpc Hr') as (t & _ & _ & _ & Ha & _).
      rewrite (Ha (eq_trans D (WF_sc l Hwf))).
      match goal with |- st (advance ?x ?y) = _ => destruct (advance_frame x y) as (_ & Es & _); rewrite Es end.
      apply (start_token_pad _ c Hc).
  Qed.

  (* a line feed in the Subexpression state completes a Subexpression token *)
  Lemma sub_lf : forall l l' ot, st l = SSubexpression -> result l = None ->
    process_char l 10 = Ok (l', ot) -> result l' = None ->
    exists t, ot = Some t /\ tok_type t = TT_Subexpression /\ tok_text t = cur l ++ [10].
  Proof.
    intros l l' ot E Hres Hpc Hr'.
    assert (Harm : run_arm l 10 = Arm (set_should_create (wrap_line (set_cur_ty (push l 10) (Some TT_Subexpression))) false) None true).
    { unfold run_arm. rewrite E. reflexivity. }
    destruct (end_with_tail l _ 10 l' ot Harm Hres ltac:(cbn; rewrite E; discriminate) Hpc Hr') as (t & Et & Htxt & Hty & _).
    exists t. split; [exact Et|]. cbn in Hty, Htxt. inversion Hty. split; [reflexivity | exact Htxt].
  Qed.

  (* the first line feed of the blank line, from a clean state *)
  Lemma lf_step : forall l l' ot, clean l -> WF l -> result l = None ->
    process_char l 10 = Ok (l', ot) -> result l' = None ->
    (exists t, ot = Some t /\ tok_type t = TT_Subexpression /\ tok_text t = cur l ++ [10]) \/
    (st l' = SSubexpression /\
     ((ot = None /\ cur l' = cur l ++ [10]) \/
      (exists t', ot = Some t' /\ tok_text t' = cur l /\ cur l' = [10]))).
  Proof.
    intros l l' ot Hcl Hwf Hres Hpc Hr'.
    destruct (clean_cases l Hcl) as [E|[E|[E|Hp]]].
    - right. unfold process_char, run_arm in Hpc. rewrite E in Hpc. inversion Hpc; subst.
      destruct (advance_frame (start_token l 10) 10) as (Ec & Es & _). rewrite Es, Ec.
      destruct (start_token_lf l) as (A & B & _). split; [exact A|]. left. split; [reflexivity|].
      rewrite B, (WF_nt l Hwf E). reflexivity.
    - destruct (could_sub l) eqn:Ecs.
      + left.
        assert (Harm : run_arm l 10 = Arm (set_should_create (push (set_cur_ty (wrap_line l) (Some TT_Subexpression)) 10) false) None true).
        { unfold run_arm. rewrite E. unfold arm_spaces. cbn. rewrite Ecs. reflexivity. }
        destruct (end_with_tail l _ 10 l' ot Harm Hres ltac:(cbn; rewrite E; discriminate) Hpc Hr') as (t & Et & Htxt & Hty & _).
        exists t. split; [exact Et|]. cbn in Hty, Htxt. inversion Hty. split; [reflexivity | exact Htxt].
      + right. unfold process_char, run_arm in Hpc. rewrite E in Hpc. unfold arm_spaces in Hpc. cbn -[advance] in Hpc.
        rewrite Ecs in Hpc. inversion Hpc; subst.
        match goal with |- st (advance ?x ?y) = _ /\ _ => destruct (advance_frame x y) as (Ec & Es & _); rewrite Es, Ec end.
        split; [reflexivity|]. left. split; reflexivity.
    - left. apply (sub_lf l l' ot E Hres Hpc Hr').
    - right.
      destruct (plain_ends l 10 ltac:(right; right; reflexivity) Hp) as (l1 & Harm & A & B & C & D & _).
      assert (Hst1 : st l1 <> SNoToken).
      { rewrite B. destruct Hp as [X|[X|[X|[X|[X|[[X|X] _]]]]]]; rewrite X; discriminate. }
      destruct (end_with_tail l l1 10 l' ot Harm (eq_trans A Hres) Hst1 Hpc Hr') as (t & Et & Htxt & _ & Ha & _).
      rewrite (Ha (eq_trans D (WF_sc l Hwf))).
      match goal with |- st (advance ?x ?y) = _ /\ _ => destruct (advance_frame x y) as (Ec & Es & _); rewrite Es, Ec end.
      destruct (start_token_lf (restart_state l1)) as (P & Q & _). split; [exact P|].
      right. exists t. split; [exact Et|]. split; [congruence | exact Q].
  Qed.

  Lemma is_pad_cases : forall c, is_pad c = true -> c = 32 \/ c = 9.
  Proof. intros c H. unfold is_pad in H. apply orb_true_iff in H as [H|H]; apply N.eqb_eq in H; auto. Qed.

  Lemma feed_pad_clean : forall pad l acc l' acc', clean l -> WF l -> result l = None -> at_end l = false ->
    forallb is_pad pad = true -> feed l acc pad = Some (l', acc') -> clean l'.
  Proof.
    induction pad as [|c pad IH]; intros l acc l' acc' Hcl Hwf Hres Hae Hpad H.
    - inversion H; subst. exact Hcl.
    - cbn [forallb] in Hpad. apply andb_true_iff in Hpad as [Hc Hpad]. apply is_pad_cases in Hc.
      cbn [feed] in H.
      assert (Hs : ~ sentinel l c) by (intros [_ E]; congruence).
      destruct (process_char_real uni_numeric uni_alnum l c Hwf Hres Hs) as (l2 & ot & Hpc & Hae2 & Hspec).
      rewrite Hpc in H. destruct (result l2) eqn:Hr2; [discriminate|]. cbn [is_err] in H.
      destruct (Hspec eq_refl) as (Hwf2 & _ & _).
      assert (Hcl2 : clean l2) by (unfold clean; rewrite (pad_step l c l2 ot Hcl Hwf Hres Hc Hpc Hr2); exact I).
      apply (IH l2 (acc ++ otoks ot) l' acc' Hcl2 Hwf2 Hr2 (eq_trans Hae2 Hae) Hpad H).
  Qed.

  Lemma feed_single : forall l acc c l1 acc1, feed l acc [c] = Some (l1, acc1) ->
    exists ot, process_char l c = Ok (l1, ot) /\ result l1 = None /\ acc1 = acc ++ otoks ot.
  Proof.
    intros l acc c l1 acc1 H. cbn [feed] in H. destruct (process_char l c) as [[l2 ot]| | |]; try discriminate.
    destruct (result l2) eqn:Hr; [discriminate|]. cbn [is_err] in H. inversion H; subst. exists ot. auto.
  Qed.

  Theorem lex_blank_line_full : forall x pad y tx ts,
    lex x = Ok tx -> last_not_line_annotation tx -> forallb is_pad pad = true ->
    lex (x ++ pad ++ [10; 10] ++ y) = Ok ts ->
    exists t, token_at ts (length x + length pad) t /\ tok_type t = TT_Subexpression.
  Proof.
    intros x pad y tx ts Hx Hlast Hpad Hs.
    (* the state after x, from the run on x alone *)
    unfold lex in Hx. destruct (lex_run x) as [tx'| | |] eqn:Hrx; try discriminate. inversion Hx; subst tx'. clear Hx.
    unfold lex_run in Hrx. rewrite <- (app_nil_r x) in Hrx at 2.
    destruct (lex_loop_feed x _ init_lexer [] [] tx eq_refl Hrx) as (lx & ax & f1 & Hfx & Hrlx & Hflush).
    destruct (feed_inv x init_lexer [] lx ax WF_init eq_refl eq_refl Hfx) as (Hwfx & _ & Haex & Hcatx & _).
    assert (Hlax : WFla lx) by (eapply feed_la; [|exact Hfx]; intros E; discriminate).
    pose proof (flush_clean f1 lx ax tx Hwfx Hlax Hrlx Haex Hflush Hlast) as Hclx.
    (* the run on the long input passes through the same state *)
    unfold lex in Hs. destruct (lex_run (x ++ pad ++ [10; 10] ++ y)) as [ts'| | |] eqn:Hrs; try discriminate.
    inversion Hs; subst ts'. clear Hs. unfold lex_run in Hrs.
    destruct (lex_loop_feed x _ init_lexer (pad ++ [10; 10] ++ y) [] ts eq_refl Hrs) as (lx' & ax' & f2 & Hfx' & _ & Hrun2).
    rewrite Hfx in Hfx'. inversion Hfx'; subst lx' ax'. clear Hfx'.
    destruct (lex_loop_feed pad f2 lx ([10; 10] ++ y) ax ts Hrlx Hrun2) as (lp & ap & f3 & Hfp & Hrlp & Hrun3).
    destruct (feed_inv pad lx ax lp ap Hwfx Hrlx Haex Hfp) as (Hwfp & _ & Haep & Hcatp & _).
    pose proof (feed_pad_clean pad lx ax lp ap Hclx Hwfx Hrlx Haex Hpad Hfp) as Hclp.
    assert (Hlen : (length (texts ap) + length (cur lp) = length x + length pad)%nat).
    { rewrite <- !app_length. f_equal. rewrite Hcatp, app_assoc, Hcatx. cbn. reflexivity. }
    (* the first line feed *)
    change ([10; 10] ++ y) with ([10] ++ ([10] ++ y)) in Hrun3.
    destruct (lex_loop_feed [10] f3 lp ([10] ++ y) ap ts Hrlp Hrun3) as (l2 & a2 & f4 & Hf2 & Hrl2 & Hrun4).
    destruct (feed_single lp ap 10 l2 a2 Hf2) as (ot2 & Hpc2 & _ & Ea2).
    destruct (lf_step lp l2 ot2 Hclp Hwfp Hrlp Hpc2 Hrl2) as [(t & Eot & Hty & Htxt)|(Hst2 & Hcase)].
    - (* the Subexpression token is completed by the first line feed *)
      subst ot2. cbn [otoks] in Ea2. destruct (lex_loop_prefix _ _ _ _ _ Hrun4) as (post & Ets).
      exists t. split; [|exact Hty]. exists ap, post. split; [rewrite Ets, Ea2, <- app_assoc; reflexivity|].
      rewrite Htxt, app_length. cbn [length]. lia.
    - (* ... or by the second one *)
      destruct (lex_loop_feed [10] f4 l2 y a2 ts Hrl2 Hrun4) as (l3 & a3 & f5 & Hf3 & Hrl3 & Hrun5).
      destruct (feed_single l2 a2 10 l3 a3 Hf3) as (ot3 & Hpc3 & _ & Ea3).
      destruct (sub_lf l2 l3 ot3 Hst2 Hrl2 Hpc3 Hrl3) as (t & Eot & Hty & Htxt). subst ot3. cbn [otoks] in Ea3.
      destruct (lex_loop_prefix _ _ _ _ _ Hrun5) as (post & Ets).
      exists t. split; [|exact Hty].
      destruct Hcase as [[Eo Hc2]|(t' & Eo & Ht' & Hc2)]; subst ot2; cbn [otoks] in Ea2.
      + rewrite app_nil_r in Ea2. subst a2. exists ap, post. split; [rewrite Ets, Ea3, <- app_assoc; reflexivity|].
        rewrite Htxt, Hc2, !app_length. cbn [length]. lia.
      + exists (ap ++ [t']), post. split; [rewrite Ets, Ea3, Ea2, <- !app_assoc; reflexivity|].
        rewrite texts_app, texts_single, app_length, Ht', Htxt, Hc2. cbn [length app]. lia.
  Qed.
End Full.
