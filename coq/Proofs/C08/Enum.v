(* Finite enumerations of the matrix C08 / C10 quantify over, with completeness
   lemmas, and boolean equality on model outcomes with its soundness.  These
   are what turn a [vm_compute] over [forallb] into a theorem with real
   quantifiers: the domain is 56 instructions x 101 operand abstractions
   (21 types, the four that are looked into x 21 inner types) x 102 (the same
   or no right operand) x 3 host modes. *)
From Coq Require Import NArith List Bool Arith.
From GV Require Import Gen.Instr Gen.Exec Gen.Dispatch Model.OpDispatch.
Import ListNotations.

(* ------------------------------------------------------ generated enums *)
Lemma instruction_nth : forall i, nth_error all_instruction (N.to_nat (instruction_index i)) = Some i.
Proof. intros i; destruct i; reflexivity. Qed.

Lemma all_instruction_complete : forall i, In i all_instruction.
Proof. intros i. eapply nth_error_In. apply instruction_nth. Qed.

Lemma instruction_eqb_eq : forall a b, instruction_eqb a b = true -> a = b.
Proof.
  intros a b H. unfold instruction_eqb in H. apply N.eqb_eq in H.
  pose proof (instruction_nth a) as Ha. pose proof (instruction_nth b) as Hb.
  rewrite H in Ha. rewrite Ha in Hb. now inversion Hb.
Qed.

Lemma data_type_nth : forall t, nth_error all_data_type (N.to_nat (data_type_index t)) = Some t.
Proof. intros t; destruct t; reflexivity. Qed.

Lemma all_data_type_complete : forall t, In t all_data_type.
Proof. intros t. eapply nth_error_In. apply data_type_nth. Qed.

Lemma data_type_eqb_eq : forall a b, data_type_eqb a b = true -> a = b.
Proof.
  intros a b H. unfold data_type_eqb in H. apply N.eqb_eq in H.
  pose proof (data_type_nth a) as Ha. pose proof (data_type_nth b) as Hb.
  rewrite H in Ha. rewrite Ha in Hb. now inversion Hb.
Qed.

Lemma data_type_eqb_refl : forall a, data_type_eqb a a = true.
Proof. intros a. unfold data_type_eqb. apply N.eqb_refl. Qed.

(* ----------------------------------------------------------- host modes *)
Definition all_hosts : list host_mode := [HAbsent; HDecline; HAccept].
Lemma all_hosts_complete : forall h, In h all_hosts.
Proof. intros h; destruct h; simpl; tauto. Qed.

(* -------------------------------------------------------------- operands *)
Definition subs_of (t : data_type) : list data_type :=
  if has_inner t then all_data_type else [T_Invalid].

Definition all_operands : list operand :=
  flat_map (fun t => map (fun s => {| o_ty := t; o_sub := s |}) (subs_of t)) all_data_type.

Lemma all_operands_complete : forall o, wf_operand o = true -> In o all_operands.
Proof.
  intros [t s] Hwf. unfold all_operands. apply in_flat_map. exists t. split.
  - apply all_data_type_complete.
  - apply in_map_iff. exists s. split; [reflexivity|].
    unfold wf_operand in Hwf. cbn [o_ty o_sub] in Hwf. unfold subs_of.
    destruct (has_inner t).
    + apply all_data_type_complete.
    + cbn [orb] in Hwf. apply data_type_eqb_eq in Hwf. subst s. left. reflexivity.
Qed.

Definition all_right_operands : list (option operand) := None :: map Some all_operands.

Definition wf_right (r : option operand) : bool :=
  match r with Some r => wf_operand r | None => true end.

Lemma all_right_operands_complete : forall r, wf_right r = true -> In r all_right_operands.
Proof.
  intros [r|] H; unfold all_right_operands.
  - right. apply in_map. apply all_operands_complete. exact H.
  - left. reflexivity.
Qed.

(* the whole matrix as one boolean *)
Definition for_matrix (check : instruction -> operand -> option operand -> host_mode -> bool) : bool :=
  forallb (fun i => forallb (fun l => forallb (fun r => forallb (fun h => check i l r h) all_hosts)
    all_right_operands) all_operands) all_instruction.

Lemma for_matrix_sound : forall check, for_matrix check = true ->
  forall i l r h, wf_operand l = true -> wf_right r = true -> check i l r h = true.
Proof.
  intros check H i l r h Hl Hr. unfold for_matrix in H.
  rewrite forallb_forall in H. specialize (H i (all_instruction_complete i)).
  rewrite forallb_forall in H. specialize (H l (all_operands_complete l Hl)).
  rewrite forallb_forall in H. specialize (H r (all_right_operands_complete r Hr)).
  rewrite forallb_forall in H. exact (H h (all_hosts_complete h)).
Qed.

(* ---------------------------------------------- equality on outcomes *)
Definition addr_tag_eqb (a b : addr_tag) : bool :=
  match a, b with
  | AtLeft, AtLeft | AtRight, AtRight | AtZero, AtZero | AtUnit, AtUnit => true
  | _, _ => false
  end.
Lemma addr_tag_eqb_eq : forall a b, addr_tag_eqb a b = true -> a = b.
Proof. intros [] []; simpl; congruence. Qed.

Definition call_eqb (a b : call) : bool :=
  instruction_eqb (c_op a) (c_op b) && data_type_eqb (c_lty a) (c_lty b) && addr_tag_eqb (c_la a) (c_la b)
  && data_type_eqb (c_rty a) (c_rty b) && addr_tag_eqb (c_ra a) (c_ra b).
Lemma call_eqb_eq : forall a b, call_eqb a b = true -> a = b.
Proof.
  intros [a1 a2 a3 a4 a5] [b1 b2 b3 b4 b5] H. unfold call_eqb in H. cbn [c_op c_lty c_la c_rty c_ra] in H.
  repeat (apply andb_true_iff in H; destruct H as [H ?]).
  f_equal; auto using instruction_eqb_eq, data_type_eqb_eq, addr_tag_eqb_eq.
Qed.

Fixpoint list_eqb {A} (eqb : A -> A -> bool) (a b : list A) : bool :=
  match a, b with
  | [], [] => true
  | x :: a', y :: b' => eqb x y && list_eqb eqb a' b'
  | _, _ => false
  end.
Lemma list_eqb_eq : forall A (eqb : A -> A -> bool), (forall x y, eqb x y = true -> x = y) ->
  forall a b, list_eqb eqb a b = true -> a = b.
Proof.
  intros A eqb Heq a. induction a as [|x a IH]; intros [|y b] H; simpl in H; try congruence.
  apply andb_true_iff in H. destruct H as [H1 H2]. f_equal; auto.
Qed.

Definition rclass_eqb (a b : rclass) : bool :=
  match a, b with
  | ROk, ROk | RErrUnsupported, RErrUnsupported | RErrOther, RErrOther
  | ROkOrUnsupported, ROkOrUnsupported | RUntyped, RUntyped => true
  | _, _ => false
  end.
Lemma rclass_eqb_eq : forall a b, rclass_eqb a b = true -> a = b.
Proof. intros [] []; simpl; congruence. Qed.

Definition top_eqb (a b : top) : bool :=
  match a, b with
  | TopNone, TopNone | TopUnit, TopUnit | TopAny, TopAny | TopHost, TopHost => true
  | TopBool x, TopBool y => Bool.eqb x y
  | TopIs x, TopIs y => data_type_eqb x y
  | TopOneOf x, TopOneOf y => list_eqb data_type_eqb x y
  | _, _ => false
  end.
Lemma top_eqb_eq : forall a b, top_eqb a b = true -> a = b.
Proof.
  intros [] [] H; simpl in H; try congruence.
  - apply Bool.eqb_prop in H. congruence.
  - apply data_type_eqb_eq in H. congruence.
  - apply (list_eqb_eq _ _ data_type_eqb_eq) in H. congruence.
Qed.

Definition outcome_eqb (a b : outcome) : bool :=
  rclass_eqb (res a) (res b) && Bool.eqb (data_dep a) (data_dep b) && list_eqb call_eqb (calls a) (calls b)
  && Nat.eqb (pops a) (pops b) && Nat.eqb (pushes a) (pushes b) && top_eqb (top_is a) (top_is b)
  && Bool.eqb (jumps a) (jumps b) && Nat.eqb (frames a) (frames b).
Lemma outcome_eqb_eq : forall a b, outcome_eqb a b = true -> a = b.
Proof.
  intros [a1 a2 a3 a4 a5 a6 a7 a8] [b1 b2 b3 b4 b5 b6 b7 b8] H. unfold outcome_eqb in H.
  cbn [res data_dep calls pops pushes top_is jumps frames] in H.
  repeat (apply andb_true_iff in H; destruct H as [H ?]).
  f_equal; auto using rclass_eqb_eq, Bool.eqb_prop, top_eqb_eq, (list_eqb_eq _ _ call_eqb_eq).
  - now apply Nat.eqb_eq.
  - now apply Nat.eqb_eq.
  - now apply Nat.eqb_eq.
Qed.
