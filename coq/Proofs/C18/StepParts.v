(* [Model.Parser.step] cut into named pieces (prelude, guards, one function per
   [secondary] arm, the final push).  The pieces are copies of the text of [step];
   [step_decomp] (proved by conversion) ties them to the model, so nothing here is
   trusted. *)
From Coq Require Import List Arith Bool NArith.
From GV Require Import Base.Result Gen.TokenTypes Gen.Defs Model.Parser Spec.LayoutSim.
Import ListNotations.

(* the four fields every arm writes unchanged into its result *)
Record tail4 : Type := mkTail { t_prev : secondary; t_sig : secondary; t_sep : bool; t_se : list secondary }.

Definition arm_ws (st : pstate) (under_group : option nat) (t : tail4) : res (pstate * info) :=
  do cfl <- space_list_check st under_group;
  Ok (mkState (nodes st) (next_parent st) (last_left st) cfl (last_token st)
              (last_left st) (group_stack st) (current_group st) (t_prev t) (t_sig t) (t_sep t) (t_se t), drop_info).

Definition arm_annot (definition : definition) (st : pstate) (t : tail4) : res (pstate * info) :=
  Ok (mkState (nodes st) (next_parent st) (last_left st) (check_for_list st) (last_token st)
              (last_left st) (group_stack st) (current_group st) (t_prev t) (t_sig t) (t_sep t) (t_se t), (definition, None, None, None)).

Definition arm_value (current_id : nat) (definition : definition) (st : pstate) (under_group : option nat) (t : tail4)
  : res (pstate * info) :=
  if check_for_list st then
    let our_id := current_id + 1 in
    do ns <- make_list_node current_id our_id st under_group;
    let nll := Some (length ns) in
    do r2 <- parse_token our_id definition (Some current_id) ns under_group false;
    let '(ns2, parent, tl) := r2 in
    Ok (mkState ns2 (next_parent st) (last_left st) false (last_token st)
                nll (group_stack st) (current_group st) (t_prev t) (t_sig t) (t_sep t) (t_se t), (definition, parent, tl, None))
  else
    do r2 <- parse_token current_id definition (last_left st) (nodes st) under_group false;
    let '(ns2, parent, tl) := r2 in
    Ok (mkState ns2 (next_parent st) (last_left st) false (last_token st)
                (next_last_left st) (group_stack st) (current_group st) (t_prev t) (t_sig t) (t_sep t) (t_se t), (definition, parent, tl, None)).

Definition arm_binary (rtl : bool) (current_id : nat) (assumed_right : option nat) (definition : definition)
           (st : pstate) (under_group : option nat) (t : tail4) : res (pstate * info) :=
  do r2 <- parse_token current_id definition (last_left st) (nodes st) under_group rtl;
  let '(ns2, parent, tl) := r2 in
  Ok (mkState ns2 (Some current_id) (last_left st) false (last_token st)
              (next_last_left st) (group_stack st) (current_group st) (t_prev t) (t_sig t) (t_sep t) (t_se t), (definition, parent, tl, assumed_right)).

Definition arm_prefix (current_id : nat) (assumed_right : option nat) (definition : definition)
           (st : pstate) (under_group : option nat) (t : tail4) : res (pstate * info) :=
  if check_for_list st then
    let our_id := current_id + 1 in
    do ns <- make_list_node current_id our_id st under_group;
    Ok (mkState ns (Some our_id) (last_left st) false (last_token st)
                (Some (length ns)) (group_stack st) (current_group st) (t_prev t) (t_sig t) (t_sep t) (t_se t),
        (definition, Some current_id, None, Some (our_id + 1)))
  else
    Ok (mkState (nodes st) (Some current_id) (last_left st) (check_for_list st) (last_token st)
                (next_last_left st) (group_stack st) (current_group st) (t_prev t) (t_sig t) (t_sep t) (t_se t),
        (definition, next_parent st, None, assumed_right)).

Definition arm_suffix (current_id : nat) (definition : definition)
           (st : pstate) (under_group : option nat) (t : tail4) : res (pstate * info) :=
  do r2 <- parse_token current_id definition (last_left st) (nodes st) under_group false;
  let '(ns2, parent, tl) := r2 in
  Ok (mkState ns2 (Some current_id) (last_left st) false (last_token st)
              (next_last_left st) (group_stack st) (current_group st) (t_prev t) (t_sig t) (t_sep t) (t_se t), (definition, parent, tl, None)).

Definition arm_startgroup (current_id : nat) (assumed_right : option nat) (definition : definition)
           (st : pstate) (under_group : option nat) (t : tail4) : res (pstate * info) :=
  let cg := Some (length (group_stack st)) in
  if check_for_list st then
    let our_id := current_id + 1 in
    do ns <- make_list_node current_id our_id st under_group;
    Ok (mkState ns (Some our_id) (last_left st) false (last_token st)
                (Some our_id) (group_stack st ++ [(our_id, false)]) cg (t_prev t) (t_sig t) (t_sep t) (t_se t),
        (definition, Some current_id, None, Some (our_id + 1)))
  else
    Ok (mkState (nodes st) (Some current_id) (last_left st) (check_for_list st) (last_token st)
                (next_last_left st) (group_stack st ++ [(current_id, check_for_list st)]) cg (t_prev t) (t_sig t) (t_sep t) (t_se t),
        (definition, next_parent st, None, assumed_right)).

Definition arm_startse (current_id : nat) (assumed_right : option nat) (definition : definition)
           (st : pstate) (under_group : option nat) (t : tail4) : res (pstate * info) :=
  let group_info := (current_id, check_for_list st) in
  do r2 <- parse_token current_id definition (last_left st) (nodes st) under_group false;
  let '(ns2, parent, tl) := r2 in
  Ok (mkState ns2 (Some current_id) (last_left st) false (last_token st)
              (next_last_left st) (group_stack st ++ [group_info]) (Some (length (group_stack st))) (t_prev t) (t_sig t) (t_sep t) (t_se t),
      (definition, parent, tl, assumed_right)).

(* the node surgery of the two End arms: optional / emptied group / trailing subexpression *)
Definition end_fixup (current_id : nat) (st : pstate) (gleft : nat) : res (list pnode) :=
  match last_left st with
  | None => Ok (nodes st)
  | Some l =>
    match nth_error (nodes st) l with
    | None => impl_err
    | Some ln =>
      let empty_group := Nat.eqb l gleft && opt_nat_eqb (n_right ln) (Some current_id) in
      let unfilled_optional := secondary_eqb (n_sec ln) S_OptionalBinaryLeftToRight
                               && opt_nat_eqb (n_right ln) (Some current_id) in
      let ln1 := if is_optional (n_def ln) || empty_group || unfilled_optional then set_right None ln else ln in
      match upd (nodes st) l (fun _ => ln1) with
      | None => impl_err
      | Some ns1 =>
        if (definition_eqb (n_def ln1) D_Subexpression || definition_eqb (n_def ln1) D_ExpressionSeparator)
           && opt_nat_eqb (n_right ln1) (Some current_id)
        then
          let new_parent := n_parent ln1 in
          match n_left ln1 with
          | None => Ok ns1
          | Some lf =>
            match upd ns1 lf (set_parent new_parent) with
            | None => impl_err
            | Some ns2 =>
              match new_parent with
              | None => Ok ns2
              | Some p =>
                match upd ns2 p (set_right (n_left ln1)) with
                | None => impl_err
                | Some ns3 => Ok ns3
                end
              end
            end
          end
        else Ok ns1
      end
    end
  end.

Definition arm_end (current_id : nat) (tok : token_type) (st : pstate) (t : tail4) : res (pstate * info) :=
  match removelast_pair (group_stack st) with
  | None => Err E_unmatched_group
  | Some (gs', (gleft, need_list_check)) =>
    match nth_error (nodes st) gleft with
    | None => impl_err
    | Some sgn =>
      match expected_end (n_def sgn) with
      | None => impl_err
      | Some expected =>
        if negb (token_type_eqb tok expected) then Err E_group_mismatch else
        let cg := match gs' with [] => None | _ => Some (length gs' - 1) end in
        do ns <- end_fixup current_id st gleft;
        Ok (mkState ns (next_parent st) (last_left st) need_list_check (last_token st)
                    (Some gleft) gs' cg (t_prev t) (t_sig t) (t_sep t) (t_se t), drop_info)
      end
    end
  end.

Definition subexpr_group (st : pstate) : res (definition * nat) :=
  match current_group st with
  | None => Ok (D_Drop, 0)
  | Some g =>
    match nth_error (group_stack st) g with
    | None => impl_err
    | Some (gidx, _) =>
      match nth_error (nodes st) gidx with
      | None => impl_err
      | Some gn => Ok (n_def gn, gidx)
      end
    end
  end.

Definition subexpr_drop (st : pstate) (in_group : definition) (group_index : nat) : res (list pnode * bool) :=
  match last_left st with
  | None => Ok (nodes st, false)
  | Some l =>
    match nth_error (nodes st) l with
    | None => impl_err
    | Some ln =>
      let ln1 := if is_optional (n_def ln) then set_right None ln else ln in
      match upd (nodes st) l (fun _ => ln1) with
      | None => impl_err
      | Some ns1 =>
        let left_is_expression_start :=
            definition_eqb in_group D_NestedExpression && Nat.eqb group_index l in
        Ok (ns1, secondary_eqb (n_sec ln1) S_Subexpression || left_is_expression_start)
      end
    end
  end.

Definition arm_subexpr (current_id : nat) (assumed_right : option nat) (definition : definition)
           (st : pstate) (under_group : option nat) (t : tail4) : res (pstate * info) :=
  do gi <- subexpr_group st;
  let '(in_group, group_index) := gi in
  if definition_eqb in_group D_Group then
    do cfl <- space_list_check st under_group;
    Ok (mkState (nodes st) (next_parent st) (last_left st) cfl (last_token st)
                (last_left st) (group_stack st) (current_group st) (t_prev t) (t_sig t) (t_sep t) (t_se t), drop_info)
  else
    do dr <- subexpr_drop st in_group group_index;
    let '(ns1, drop) := dr in
    if drop then
      Ok (mkState ns1 (next_parent st) (last_left st) (check_for_list st) (last_token st)
                  (last_left st) (group_stack st) (current_group st) (t_prev t) (t_sig t) (t_sep t) (t_se t), drop_info)
    else
      do r2 <- parse_token current_id definition (last_left st) ns1 under_group false;
      let '(ns2, parent, tl) := r2 in
      Ok (mkState ns2 (Some current_id) (last_left st) false (last_token st)
                  (next_last_left st) (group_stack st) (current_group st) (t_prev t) (t_sig t) (t_sep t) (t_se t),
          (definition, parent, tl, assumed_right)).

Definition step_arm (current_id : nat) (assumed_right : option nat) (tok : token_type) (definition : definition)
           (sec : secondary) (st : pstate) (under_group : option nat) (t : tail4) : res (pstate * info) :=
  match sec with
  | S_None => impl_err
  | S_Whitespace => arm_ws st under_group t
  | S_Annotation => arm_annot definition st t
  | S_Identifier | S_Value => arm_value current_id definition st under_group t
  | S_BinaryRightToLeft => arm_binary true current_id assumed_right definition st under_group t
  | S_BinaryLeftToRight | S_OptionalBinaryLeftToRight => arm_binary false current_id assumed_right definition st under_group t
  | S_UnaryPrefix => arm_prefix current_id assumed_right definition st under_group t
  | S_UnarySuffix => arm_suffix current_id definition st under_group t
  | S_StartGrouping => arm_startgroup current_id assumed_right definition st under_group t
  | S_StartSideEffect => arm_startse current_id assumed_right definition st under_group t
  | S_EndGrouping | S_EndSideEffect => arm_end current_id tok st t
  | S_Subexpression => arm_subexpr current_id assumed_right definition st under_group t
  end.

(* the final push and the new last_left *)
Definition step_finish_res (i : nat) (sec : secondary) (current_id : nat) (r : pstate * info) : res pstate :=
  let '(st1, inf) := r in
  let '(definition, parent, ileft, iright) := inf in
  let ns :=
    if definition_eqb definition D_Drop then nodes st1
    else
      let definition' :=
        if definition_eqb definition D_Identifier then
          match parent with
          | Some p => match nth_error (nodes st1) p with
                      | Some pn => if definition_eqb (n_def pn) D_Access then D_Property else definition
                      | None => definition end
          | None => definition
          end
        else definition in
      nodes st1 ++ [mkNode definition' sec parent ileft iright (Some i)] in
  let new_last_left :=
    match next_last_left st1 with
    | Some k => Some k
    | None => match ns with [] => None | _ => Some current_id end
    end in
  Ok (mkState ns (next_parent st1) new_last_left (check_for_list st1) (Some i)
              None (group_stack st1) (current_group st1) (prev_sec st1) (prev_sig st1) (separated st1) (se_prev st1)).

Definition pushed_nodes (i : nat) (sec : secondary) (st1 : pstate) (inf : info) : list pnode :=
  let '(definition, parent, ileft, iright) := inf in
  if definition_eqb definition D_Drop then nodes st1
  else
    let definition' :=
      if definition_eqb definition D_Identifier then
        match parent with
        | Some p => match nth_error (nodes st1) p with
                    | Some pn => if definition_eqb (n_def pn) D_Access then D_Property else definition
                    | None => definition end
        | None => definition
        end
      else definition in
    nodes st1 ++ [mkNode definition' sec parent ileft iright (Some i)].

Definition step_finish (i : nat) (sec : secondary) (current_id : nat) (r : pstate * info) : pstate :=
  let st1 := fst r in
  let ns := pushed_nodes i sec st1 (snd r) in
  let new_last_left :=
    match next_last_left st1 with
    | Some k => Some k
    | None => match ns with [] => None | _ => Some current_id end
    end in
  mkState ns (next_parent st1) new_last_left (check_for_list st1) (Some i)
          None (group_stack st1) (current_group st1) (prev_sec st1) (prev_sig st1) (separated st1) (se_prev st1).

Lemma step_finish_res_eq i sec cid r : step_finish_res i sec cid r = Ok (step_finish i sec cid r).
Proof. destruct r as [st1 [[[d p] l] r]]. reflexivity. Qed.

Definition is_trivia_sec (sec : secondary) : bool :=
  match sec with S_Whitespace | S_Annotation => true | _ => false end.

Definition new_tail (sec : secondary) (st : pstate) : tail4 :=
  let '(new_sig, new_sep, new_se) :=
    if is_trivia_sec sec then (prev_sig st, true, se_prev st)
    else match sec with
         | S_StartSideEffect => (sec, false, prev_sig st :: se_prev st)
         | S_EndSideEffect => match se_prev st with
                              | p :: r => (p, true, r)
                              | [] => (S_None, true, [])
                              end
         | _ => (sec, false, se_prev st)
         end in
  mkTail (match sec with S_EndSideEffect => new_sig | _ => sec end) new_sig new_sep new_se.

(* the state the arms see: [st0] with the adjusted last_left *)
Definition adjusted (st0 : pstate) (ll : option nat) (psec psig : secondary) : pstate :=
  mkState (nodes st0) (next_parent st0) ll (check_for_list st0) (last_token st0)
          (next_last_left st0) (group_stack st0) (current_group st0) psec psig (separated st0) (se_prev st0).

Definition step_main (last : bool) (i : nat) (tok : token_type) (st0 : pstate) (under_group : option nat)
           (adj : option nat * secondary * secondary) : res pstate :=
  let current_id := length (nodes st0) in
  let '(ll, psec, psig) := adj in
  let st := adjusted st0 ll psec psig in
  let assumed_right := if last then None else Some (current_id + 1) in
  let definition := fst (get_definition tok) in
  let sec := snd (get_definition tok) in
  if forbidden (prev_sec st) sec (check_for_list st) then Err E_composition else
  if negb (is_trivia_sec sec) && separated st && forbidden_separated (prev_sig st) sec (check_for_list st) then Err E_composition else
  do r <- step_arm current_id assumed_right tok definition sec st under_group (new_tail sec st);
  step_finish_res i sec current_id r.

Lemma step_decomp ntoks i tok st0 :
  step ntoks i tok st0 =
  do under_group <- under_group_of st0;
  do adj <- adjust3_of st0 under_group;
  step_main (Nat.leb ntoks (i + 1)) i tok st0 under_group adj.
Proof.
  unfold step, step_main, under_group_of, adjust3_of.
  destruct (match current_group st0 with None => Ok None | Some c => _ end) as [ug| | |]; cbn [bind]; try reflexivity.
  match goal with |- bind ?a _ = bind ?a _ => destruct a as [[[ll psec] psig]| | |] end; cbn [bind]; try reflexivity.
  destruct (get_definition tok) as [definition sec]; cbn [fst snd].
  destruct (forbidden _ _ _); [reflexivity|].
  destruct sec; try reflexivity.
  unfold new_tail, adjusted; cbn [se_prev is_trivia_sec]. destruct (se_prev st0); reflexivity.
Qed.
