(* C19 proofs, part 9: the worklist-closure lemma for create_index_stack.
   When the call succeeds, every clone item it queued is followed, later in the list, by a clone
   item for each address the queued cell refers to (so that the reverse-order copy loop finds every
   child already copied).  [kids_of] is the list of addresses the match of create_index_stack queues
   for a cell. *)
From Coq Require Import NArith List Bool Arith Lia.
From GV Require Import Base.Result Model.Optimize Spec.HeapIso Proofs.C19.Base Proofs.C19.StoreLemmas
  Proofs.C19.CloneStack Proofs.C19.CreateStack.
Import ListNotations.

Fixpoint list_items (h : list cell) (a n : nat) : option (list nat) :=
  match n with
  | O => Some []
  | S n' => match nth_error h a with
            | Some (CListItem x) => option_map (cons x) (list_items h (S a) n')
            | _ => None
            end
  end.

Fixpoint uninit_items (h : list cell) (a n : nat) : option (list nat) :=
  match n with
  | O => Some []
  | S n' => match nth_error h a with
            | Some (CListItem x) => option_map (cons x) (uninit_items h (S a) n')
            | Some CEmpty => uninit_items h (S a) n'
            | _ => None
            end
  end.

Definition kids_of (h : list cell) (index : nat) (c : cell) : option (list nat) :=
  match c with
  | CPair l r | CRange l r | CSlice l r | CPartial l r | CConcat l r => Some [r; l]
  | CList len _ => list_items h (index + 1) len
  | CUninitList _ count => uninit_items h (index + 1) count
  | CValue p v | CRegister p v | CFrame p v => Some [p; v]
  | CValueRoot v | CRegisterRoot v | CFrameIndex v | CFrameRegister v => Some [v]
  | CInstrData _ d => Some [d]
  | _ => Some []
  end.

Lemma nth_base_of_non_ci : forall base acc i c,
  nth_error (base ++ map CCloneItem acc) i = Some c -> not_clone_item c -> nth_error base i = Some c.
Proof.
  intros base acc i c H Hn. destruct (Nat.lt_ge_cases i (length base)) as [Hl|Hg].
  - rewrite nth_error_app1 in H by exact Hl. exact H.
  - rewrite nth_error_app2 in H by exact Hg. apply nth_error_In in H. apply in_map_iff in H.
    destruct H as [x [<- _]]. exfalso. apply (Hn x). reflexivity.
Qed.

Lemma push_items_cells : forall l s s1, push_items s l = Ok s1 ->
  cells s1 = cells s ++ map CCloneItem l /\ same_meta s s1.
Proof.
  induction l as [|a l IH]; intros s s1 H; cbn in H.
  - inversion H. rewrite app_nil_r. split; [reflexivity|apply same_meta_refl].
  - bind_as H s2. apply push__ok in E. destruct E as [Ec Em]. apply IH in H. destruct H as [Hc Hm].
    split; [|eapply same_meta_trans; eauto]. rewrite Hc, Ec, <- app_assoc. reflexivity.
Qed.

Lemma list_loop : forall base n a acc s s1, cells s = base ++ map CCloneItem acc ->
  for_range n a (fun i s => do c <- get s i;
                            match c with CListItem x => push_ s (CCloneItem x) | _ => Err E_NotBasic end) s = Ok s1 ->
  exists xs, list_items base a n = Some xs /\ cells s1 = base ++ map CCloneItem (acc ++ xs) /\ same_meta s s1.
Proof.
  intros base. induction n as [|n IH]; intros a acc s s1 Hc H; cbn [for_range] in H.
  - inversion H; subst. exists []. rewrite app_nil_r. repeat split; auto; try apply same_meta_refl.
  - bind_as H s2. bind_as E c. apply get_ok in E0. destruct c; try discriminate E.
    rewrite Hc in E0. apply nth_base_of_non_ci in E0; [|intros x Hx; discriminate].
    apply push__ok in E. destruct E as [Ec Em].
    destruct (IH (S a) (acc ++ [a0]) s2 s1) as [xs [Hl [Hcs Hm]]]; auto.
    { rewrite Ec, Hc, map_app, <- app_assoc. reflexivity. }
    exists (a0 :: xs). cbn [list_items]. rewrite E0, Hl. cbn. split; [reflexivity|].
    split; [|eapply same_meta_trans; eauto]. rewrite Hcs, <- app_assoc. reflexivity.
Qed.

Lemma uninit_loop : forall base n a acc s s1, cells s = base ++ map CCloneItem acc ->
  for_range n a (fun i s => do c <- get s i;
                            match c with
                            | CListItem x => push_ s (CCloneItem x)
                            | CEmpty => Ok s
                            | _ => Err E_UninitNonItem
                            end) s = Ok s1 ->
  exists xs, uninit_items base a n = Some xs /\ cells s1 = base ++ map CCloneItem (acc ++ xs) /\ same_meta s s1.
Proof.
  intros base. induction n as [|n IH]; intros a acc s s1 Hc H; cbn [for_range] in H.
  - inversion H; subst. exists []. rewrite app_nil_r. repeat split; auto; try apply same_meta_refl.
  - bind_as H s2. bind_as E c. apply get_ok in E0. destruct c; try discriminate E.
    + inversion E; subst s2. rewrite Hc in E0. apply nth_base_of_non_ci in E0; [|intros x Hx; discriminate].
      destruct (IH (S a) acc s s1 Hc H) as [xs [Hl [Hcs Hm]]].
      exists xs. cbn [uninit_items]. rewrite E0. auto.
    + rewrite Hc in E0. apply nth_base_of_non_ci in E0; [|intros x Hx; discriminate].
      apply push__ok in E. destruct E as [Ec Em].
      destruct (IH (S a) (acc ++ [a0]) s2 s1) as [xs [Hl [Hcs Hm]]]; auto.
      { rewrite Ec, Hc, map_app, <- app_assoc. reflexivity. }
      exists (a0 :: xs). cbn [uninit_items]. rewrite E0, Hl. cbn. split; [reflexivity|].
      split; [|eapply same_meta_trans; eauto]. rewrite Hcs, <- app_assoc. reflexivity.
Qed.

(* expand appends exactly the clone items of [kids_of] *)
Lemma expand_cells : forall s index c s1, expand s index c = Ok s1 ->
  exists ks, kids_of (cells s) index c = Some ks /\ cells s1 = cells s ++ map CCloneItem ks /\ same_meta s s1.
Proof.
  intros s index c s1 H.
  destruct c; cbn [expand kids_of] in *;
    try solve [inversion H; subst; exists []; rewrite app_nil_r; repeat split; auto; try apply same_meta_refl];
    try solve [apply push_items_cells in H; destruct H as [Hc Hm]; eexists; split; [reflexivity|split; auto]].
  - match type of H with for_range ?n _ _ _ = _ => apply (list_loop (cells s) n (index + 1) []) in H; [|rewrite app_nil_r; reflexivity] end.
    destruct H as [xs [Hl [Hc Hm]]]. exists xs. auto.
  - match type of H with for_range ?n _ _ _ = _ => apply (uninit_loop (cells s) n (index + 1) []) in H; [|rewrite app_nil_r; reflexivity] end.
    destruct H as [xs [Hl [Hc Hm]]]. exists xs. auto.
Qed.

(* appending cells does not change the kids of a cell that has them *)
Lemma list_items_app : forall h w n a xs, list_items h a n = Some xs -> list_items (h ++ w) a n = Some xs.
Proof.
  intros h w. induction n as [|n IH]; intros a xs H; cbn in *; auto.
  destruct (nth_error h a) as [c|] eqn:E; try discriminate H.
  rewrite (nth_error_app_l _ _ w _ _ E). destruct c; try discriminate H.
  destruct (list_items h (S a) n) as [r|] eqn:E2; try discriminate H.
  rewrite (IH _ _ E2). exact H.
Qed.

Lemma uninit_items_app : forall h w n a xs, uninit_items h a n = Some xs -> uninit_items (h ++ w) a n = Some xs.
Proof.
  intros h w. induction n as [|n IH]; intros a xs H; cbn in *; auto.
  destruct (nth_error h a) as [c|] eqn:E; try discriminate H.
  rewrite (nth_error_app_l _ _ w _ _ E). destruct c; try discriminate H.
  - apply IH. exact H.
  - destruct (uninit_items h (S a) n) as [r|] eqn:E2; try discriminate H.
    rewrite (IH _ _ E2). exact H.
Qed.

Lemma kids_of_app : forall h w index c ks, kids_of h index c = Some ks -> kids_of (h ++ w) index c = Some ks.
Proof.
  intros h w index c ks H. destruct c; cbn [kids_of] in *; auto.
  - apply list_items_app. exact H.
  - apply uninit_items_app. exact H.
Qed.

(* positions [start, upto) of the block are closed: each queued address has its kids queued later *)
Definition closed_upto (h : list cell) (start upto : nat) : Prop :=
  upto <= length h /\
  forall p x, start <= p -> p < upto -> nth_error h p = Some (CCloneItem x) ->
    exists c ks, nth_error h x = Some c /\ kids_of h x c = Some ks /\
                 forall k, In k ks -> exists q, p < q /\ nth_error h q = Some (CCloneItem k).

Lemma closed_upto_app : forall h w start upto, closed_upto h start upto -> closed_upto (h ++ w) start upto.
Proof.
  intros h w start upto [Hlen H]. split; [rewrite app_length; lia|].
  intros p x Hs Hp Hn. rewrite nth_error_app1 in Hn by lia.
  destruct (H p x Hs Hp Hn) as [c [ks [Hc [Hk Hq]]]].
  exists c, ks. split; [apply nth_error_app_l; exact Hc|]. split; [apply kids_of_app; exact Hk|].
  intros k Hin. destruct (Hq k Hin) as [q [Hpq Hnq]]. exists q. split; auto. apply nth_error_app_l. exact Hnq.
Qed.

Lemma cis_loop_closed : forall fuel maxit start current iterations s s1,
  start <= current -> closed_upto (cells s) start current ->
  cis_loop fuel maxit current iterations s = Ok s1 ->
  closed_upto (cells s1) start (length (cells s1)).
Proof.
  induction fuel as [|f IH]; intros maxit start current iterations s s1 Hsc Hcl H; cbn [cis_loop] in H; try discriminate.
  unfold cursor in H. destruct (current <? length (cells s)) eqn:Elt.
  - apply Nat.ltb_lt in Elt. bind_as H c. apply get_ok in E. destruct c; try discriminate H. rename a into index.
    bind_as H tgt. apply get_ok in E0. bind_as H s2.
    destruct (maxit <? S iterations); try discriminate H.
    apply expand_cells in E1. destruct E1 as [ks [Hk [Hc Hm]]].
    apply (IH maxit start (S current) (S iterations) s2 s1 ltac:(lia)); [|exact H].
    rewrite Hc. destruct (closed_upto_app _ (map CCloneItem ks) _ _ Hcl) as [Hlen Hcl'].
    split; [rewrite app_length; lia|].
    intros p x Hs Hp Hn. destruct (Nat.eq_dec p current) as [->|Hne].
    + rewrite nth_error_app1 in Hn by lia. rewrite E in Hn. inversion Hn; subst x.
      exists tgt, ks. split; [apply nth_error_app_l; exact E0|]. split; [apply kids_of_app; exact Hk|].
      intros k Hin. apply In_nth_error in Hin. destruct Hin as [j Hj].
      exists (length (cells s) + j). split; [lia|].
      rewrite nth_error_app2 by lia. replace (length (cells s) + j - length (cells s)) with j by lia.
      rewrite nth_error_map, Hj. reflexivity.
    + apply Hcl'; auto. lia.
  - apply Nat.ltb_ge in Elt. inversion H; subst s1. destruct Hcl as [Hlen Hcl]. split; [lia|].
    intros p x Hs Hp Hn. apply Hcl; auto. lia.
Qed.

(* the worklist-closure lemma *)
Theorem create_index_stack_closed : forall s from s1 start, create_index_stack s from = Ok (s1, start) ->
  start = length (cells s) /\
  nth_error (cells s1) start = Some (CCloneItem from) /\
  closed_upto (cells s1) start (length (cells s1)).
Proof.
  intros s from s1 start H. pose proof (create_index_stack_spec _ _ _ _ H) as [Hst [_ Hn]].
  split; [exact Hst|]. split; [exact Hn|].
  unfold create_index_stack in H. bind_as H pr. destruct pr as [sa st]. bind_as H sb. inversion H; subst sb st. clear H.
  apply push_ok in E. destruct E as [-> [Ec _]].
  eapply cis_loop_closed in E0; eauto.
  split; [rewrite Ec, app_length; cbn; lia|]. intros p x Hs Hp _. lia.
Qed.

(* ---------------------------------------------------------------- children first *)
Lemma find_map_complete : forall idx l k v, nth_error l k = Some (CCloneMap idx v) -> exists v', find_map idx l = Some v'.
Proof.
  induction l as [|c l IH]; intros [|k] v H; cbn in H; try discriminate.
  - inversion H; subst. cbn. rewrite Nat.eqb_refl. eauto.
  - cbn. destruct c; try (eapply IH; eauto).
    destruct (orig =? idx); eauto.
Qed.

(* In the copy loop, when position [i] of the index list is being rewritten, an address that is queued
   at a later position of the list has already been given a CloneMap cell, so looking it up succeeds:
   together with the closure lemma (the kids of the cell queued at [i] are queued later) this is
   "copies are made children-first, so every lookup succeeds". *)
Theorem lookup_of_later_item_succeeds : forall h0 c0 o ret ds sI i s k q,
  Inv h0 c0 o ret ds sI (S i) s -> i < q -> q < c0 -> c0 <= dsize s ->
  nth_error h0 q = Some (CCloneItem k) ->
  exists k', lookup s (ds + S i) (ds + c0) k = Ok k'.
Proof.
  intros h0 c0 o ret ds sI i s k q (HB & _ & _ & Hmp) Hiq Hq Hsz Hn.
  destruct HB as (Hr & Hd & Hlen & _ & _).
  destruct (Hmp q k ltac:(lia) Hq Hn) as [new Hnew].
  unfold lookup, lookup_opt. rewrite Hr, Hd.
  destruct (k <? ret); [eexists; reflexivity|].
  replace (ds + c0 <? ds + S i) with false by (symmetry; apply Nat.ltb_ge; lia).
  replace (ds + dsize s <? ds + c0) with false by (symmetry; apply Nat.ltb_ge; lia).
  replace (ds + S i - ds) with (S i) by lia. replace (ds + c0 - ds) with c0 by lia.
  assert (Hin : nth_error (firstn (c0 - S i) (skipn (S i) (cells s))) (q - S i) = Some (CCloneMap k new)).
  { rewrite nth_error_firstn_lt by lia. rewrite nth_error_skipn'. replace (S i + (q - S i)) with q by lia. exact Hnew. }
  destruct (find_map_complete _ _ _ _ Hin) as [v' Hv]. rewrite Hv. eexists. reflexivity.
Qed.
