(* multi driver (C20): reads the multi harness lines
     <case>\tS=<report> B=<same|report>\ttoks=<toks 0>/<toks 1>/...
   and, for every build step  b<i>:<build>@<il>,<jl>,<last>...  of the shared part of the
   SimpleGarnishData report, runs the worklist model with exactly that initial state.
   Prints  <case>\t<step>|<step>|...\t-   with one  b<i>:<model build>:C=<..>:R=<..>:O=<..>:W=<bits>:D=<..>  per build step
     model build  the harness' listing format (ERRn / PANIC / HANG / OK:entry:I[..]:J[..]:M[..])
     C  tree compiler vs worklist model for this initial state (same / its text)
     R  ok: the build equals the build into an empty object relocated by (il, jl);
        elide: it does not, and the first body is empty while the previous last instruction is its terminator;
        no: it does not, for another reason
     O  own_code (frame): 1 / 0        W  wf_report bits        D  ok / untypable (infer_depths) *)
let nat_of_int (i : int) : nat = let rec go k acc = if k <= 0 then acc else go (k - 1) (S acc) in go i O
let int_of_nat (n : nat) : int = let rec go n acc = match n with O -> acc | S m -> go m (acc + 1) in go n 0

let tt_table : token_type array = Array.of_list all_token_type
let instr_table : instruction array = Array.of_list all_instruction

let opt_nat (o : nat option) : string = match o with None -> "-" | Some n -> string_of_int (int_of_nat n)
let show_operand (o : operand) : string =
  match o with
  | ONone -> "-"
  | ONum k -> "n" ^ string_of_int (int_of_nat k)
  | OData _ -> "d"
  | OExpr j -> "x" ^ string_of_int (int_of_nat j)
let show_err (c : n) : string = "ERR" ^ string_of_int (int_of_n c)
let show_code (entry : nat) (ins : (instruction * operand) list) (js : nat list) (ms : nat option list) : string =
  Printf.sprintf "OK:%d:I[%s]:J[%s]:M[%s]" (int_of_nat entry)
    (String.concat "," (List.map (fun (i, o) ->
        string_of_int (int_of_n (instruction_index i)) ^ show_operand o) ins))
    (String.concat "," (List.map (fun j -> string_of_int (int_of_nat j)) js))
    (String.concat "," (List.map opt_nat ms))

let parse_instr (s : string) : instruction * operand =
  let n = String.length s in
  let k = ref 0 in
  while !k < n && s.[!k] >= '0' && s.[!k] <= '9' do incr k done;
  let idx = int_of_string (String.sub s 0 !k) in
  let rest = String.sub s !k (n - !k) in
  let o =
    if rest = "-" then ONone
    else if rest.[0] = 'd' then OData (nat_of_int 100000)
    else if rest.[0] = 'n' then ONum (nat_of_int (int_of_string (String.sub rest 1 (String.length rest - 1))))
    else if rest.[0] = 'x' then OExpr (nat_of_int (int_of_string (String.sub rest 1 (String.length rest - 1))))
    else failwith ("bad operand " ^ s) in
  (instr_table.(idx), o)

let parse_init (s : string) : binit =
  match split_on ',' s with
  | [il; jl; last] ->
    { i_instr_len = nat_of_int (int_of_string il); i_jump_len = nat_of_int (int_of_string jl);
      i_last_instr = (if last = "none" then None else Some (parse_instr last)) }
  | _ -> failwith ("bad init " ^ s)

let find_sub (s : string) (sub : string) : int option =
  let n = String.length s and m = String.length sub in
  let rec go i = if i + m > n then None else if String.sub s i m = sub then Some i else go (i + 1) in
  go 0

let () =
  iter_lines (fun line ->
    match split_on '\t' line with
    | case :: impl :: oracle :: _ ->
      let toks_all =
        if String.length oracle >= 5 && String.sub oracle 0 5 = "toks=" then
          split_on '/' (String.sub oracle 5 (String.length oracle - 5))
        else [] in
      let s_field = List.hd (split_on ' ' impl) in
      (match find_sub s_field "#shared[" with
       | None -> Printf.printf "%s\t-\t-\n" case
       | Some k ->
         let shared = String.sub s_field (k + 8) (String.length s_field - k - 9) in
         let steps = split_on '|' shared in
         let outs = List.filter_map (fun st ->
             if String.length st > 1 && st.[0] = 'b' then begin
               let c1 = String.index st ':' in
               let i = int_of_string (String.sub st 1 (c1 - 1)) in
               let rest = String.sub st (c1 + 1) (String.length st - c1 - 1) in
               match find_sub rest "!K[" with
               | None -> None      (* not built: nothing to say *)
               | Some kk ->
                 let build_txt = String.sub rest 0 kk in
                 let at = String.rindex build_txt '@' in
                 let init = parse_init (String.sub build_txt (at + 1) (String.length build_txt - at - 1)) in
                 let tk = (try List.nth toks_all i with _ -> "!") in
                 if tk = "!" then None else
                 let idx = if tk = "" then [] else List.map int_of_string (split_on ',' tk) in
                 let toks = List.map (fun i -> tt_table.(i)) idx in
                 (match parse toks with
                  | Ok (root, nodes) ->
                    let lit _ = true in
                    let b = build nodes init lit (build_fuel nodes) root in
                    let b0 = build nodes empty_init lit (build_fuel nodes) root in
                    let c = compile_nodes nodes init lit root in
                    let cs =
                      (match c, b with
                       | Ok cr, Ok br when same_code cr br -> "same"
                       | Ok (s, entry), _ -> show_code entry s.ci s.cj s.cm
                       | Err cc, Err bc when cc = bc -> "same"
                       | Err cc, _ -> show_err cc
                       | Panic _, _ -> "PANIC"
                       | OutOfFuel, _ -> "HANG") in
                    (match b with
                     | Ok (s, entry) ->
                       let code = code_of_build (s, entry) in
                       let r =
                         (match b0 with
                          | Ok r0 ->
                            let alone = code_of_build r0 in
                            if relocated init alone code then "ok"
                            else if elides_across init alone code then "elide" else "no"
                          | _ -> "no") in
                       let o = if own_code init code then "1" else "0" in
                       let w = String.concat "" (List.map (fun x -> if x then "1" else "0") (wf_report nodes init code)) in
                       let d = (match infer_depths (prog_of_build init (s, entry)) with Some _ -> "ok" | None -> "untypable") in
                       Some (Printf.sprintf "b%d:%s:C=%s:R=%s:O=%s:W=%s:D=%s" i (show_code entry s.instrs s.jumps s.meta) cs r o w d)
                     | Err e -> Some (Printf.sprintf "b%d:%s:C=%s:R=-:O=-:W=-:D=-" i (show_err e) cs)
                     | Panic _ -> Some (Printf.sprintf "b%d:PANIC:C=%s:R=-:O=-:W=-:D=-" i cs)
                     | OutOfFuel -> Some (Printf.sprintf "b%d:HANG:C=%s:R=-:O=-:W=-:D=-" i cs))
                  | _ -> None)
             end else None) steps in
         Printf.printf "%s\t%s\t-\n" case (String.concat "|" outs))
    | _ -> failwith ("bad line " ^ line))
