(* Executable model of SimpleGarnishData (data/src/simple.rs, data/src/runtime.rs):
   Rust collections as lists (Vec::push appends at the end), the HashMap
   intern table [cache] as an association list keyed by an oracle hash
   [h : sdata -> N] (DefaultHasher over the value and its type tag).
   No proofs in this file. *)
From Coq Require Import NArith ZArith List Bool Arith.
From GV Require Import Base.Result Gen.Instr Model.StoreBase.
Import ListNotations.

(* enum SimpleData<NoCustom> *)
Inductive sdata : Type :=
| SUnit | STrue | SFalse
| SType (t : data_type)
| SNumber (n : snum)
| SChar (c : N)
| SByte (b : N)
| SSymbol (s : N)
| SSymbolList (l : list N)
| SExpression (n : nat)
| SExternal (n : nat)
| SCharList (l : list N)
| SByteList (l : list N)
| SPair (a b : nat)
| SRange (a b : nat)
| SSlice (a b : nat)
| SPartial (a b : nat)
| SList (items assoc : list nat)
| SConcatenation (a b : nat)
| SStackFrame (ret : nat)
| SCustom.

Definition sdata_type (d : sdata) : data_type :=
  match d with
  | SUnit => T_Unit | STrue => T_True | SFalse => T_False
  | SType _ => T_Type | SNumber _ => T_Number | SChar _ => T_Char | SByte _ => T_Byte
  | SSymbol _ => T_Symbol | SSymbolList _ => T_SymbolList | SExpression _ => T_Expression
  | SExternal _ => T_External | SCharList _ => T_CharList | SByteList _ => T_ByteList
  | SPair _ _ => T_Pair | SRange _ _ => T_Range | SSlice _ _ => T_Slice | SPartial _ _ => T_Partial
  | SList _ _ => T_List | SConcatenation _ _ => T_Concatenation
  | SStackFrame _ | SCustom => T_Custom
  end.

Record simple : Type := mkSimple {
  s_data : list sdata;
  s_symbols : list (N * list N);            (* SimpleDataList::symbol_to_name *)
  s_register : list nat;
  s_values : list nat;
  s_instructions : list (instruction * option nat);
  s_cursor : nat;
  s_jumps : list nat;                        (* expression_table *)
  s_current_list : option (list nat * list nat);
  s_current_chars : option (list N);
  s_current_bytes : option (list N);
  s_cache : list (N * nat) }.

(* SimpleDataList::default(): Unit, False, True at 0, 1, 2 *)
Definition simple_new : simple :=
  mkSimple [SUnit; SFalse; STrue] [] [] [] [] 0 [] None None None [].

Definition with_data (s : simple) (d : list sdata) : simple :=
  mkSimple d (s_symbols s) (s_register s) (s_values s) (s_instructions s) (s_cursor s) (s_jumps s) (s_current_list s) (s_current_chars s) (s_current_bytes s) (s_cache s).
Definition with_symbols (s : simple) (x : list (N * list N)) : simple :=
  mkSimple (s_data s) x (s_register s) (s_values s) (s_instructions s) (s_cursor s) (s_jumps s) (s_current_list s) (s_current_chars s) (s_current_bytes s) (s_cache s).
Definition with_register (s : simple) (x : list nat) : simple :=
  mkSimple (s_data s) (s_symbols s) x (s_values s) (s_instructions s) (s_cursor s) (s_jumps s) (s_current_list s) (s_current_chars s) (s_current_bytes s) (s_cache s).
Definition with_values (s : simple) (x : list nat) : simple :=
  mkSimple (s_data s) (s_symbols s) (s_register s) x (s_instructions s) (s_cursor s) (s_jumps s) (s_current_list s) (s_current_chars s) (s_current_bytes s) (s_cache s).
Definition with_instructions (s : simple) (x : list (instruction * option nat)) : simple :=
  mkSimple (s_data s) (s_symbols s) (s_register s) (s_values s) x (s_cursor s) (s_jumps s) (s_current_list s) (s_current_chars s) (s_current_bytes s) (s_cache s).
Definition with_cursor (s : simple) (x : nat) : simple :=
  mkSimple (s_data s) (s_symbols s) (s_register s) (s_values s) (s_instructions s) x (s_jumps s) (s_current_list s) (s_current_chars s) (s_current_bytes s) (s_cache s).
Definition with_jumps (s : simple) (x : list nat) : simple :=
  mkSimple (s_data s) (s_symbols s) (s_register s) (s_values s) (s_instructions s) (s_cursor s) x (s_current_list s) (s_current_chars s) (s_current_bytes s) (s_cache s).
Definition with_current_list (s : simple) (x : option (list nat * list nat)) : simple :=
  mkSimple (s_data s) (s_symbols s) (s_register s) (s_values s) (s_instructions s) (s_cursor s) (s_jumps s) x (s_current_chars s) (s_current_bytes s) (s_cache s).
Definition with_current_chars (s : simple) (x : option (list N)) : simple :=
  mkSimple (s_data s) (s_symbols s) (s_register s) (s_values s) (s_instructions s) (s_cursor s) (s_jumps s) (s_current_list s) x (s_current_bytes s) (s_cache s).
Definition with_current_bytes (s : simple) (x : option (list N)) : simple :=
  mkSimple (s_data s) (s_symbols s) (s_register s) (s_values s) (s_instructions s) (s_cursor s) (s_jumps s) (s_current_list s) (s_current_chars s) x (s_cache s).
Definition with_cache (s : simple) (x : list (N * nat)) : simple :=
  mkSimple (s_data s) (s_symbols s) (s_register s) (s_values s) (s_instructions s) (s_cursor s) (s_jumps s) (s_current_list s) (s_current_chars s) (s_current_bytes s) x.

Definition PM (A : Type) : Type := SM simple A.

(* HashMap::get on an association list whose newest binding comes first *)
Fixpoint map_get {V} (m : list (N * V)) (k : N) : option V :=
  match m with
  | [] => None
  | (k', v) :: r => if N.eqb k' k then Some v else map_get r k
  end.
(* HashMap::insert (replaces an existing binding) *)
Definition map_insert {V} (m : list (N * V)) (k : N) (v : V) : list (N * V) :=
  (k, v) :: filter (fun p => negb (N.eqb (fst p) k)) m.

(* Vec::pop *)
Definition vec_pop {A} (l : list A) : option (A * list A) :=
  match rev l with
  | [] => None
  | x :: r => Some (x, rev r)
  end.

(* self.get(index): data.get(index) or Err("No data at addr") *)
Definition sget_data (index : nat) (s : simple) : res sdata :=
  match nth_error (s_data s) index with
  | None => Err E_simple
  | Some d => Ok d
  end.

(* self.data.push(x); Ok(self.data.len() - 1) *)
Definition push_data (d : sdata) : PM nat :=
  fun s => Ok (with_data s (s_data s ++ [d]), Done (length (s_data s))).

Section WithHash.
(* hash of (value, value.get_data_type()) with DefaultHasher *)
Variable h : sdata -> N.

Definition cache_add (v : sdata) : PM nat :=
  fun s =>
    let hv := h v in
    match map_get (s_cache s) hv with
    | Some addr => Ok (s, Done addr)
    | None =>
        let addr := length (s_data s) in
        Ok (with_cache (with_data s (s_data s ++ [v])) (map_insert (s_cache s) hv addr), Done addr)
    end.

(* ---- runtime.rs: impl GarnishData for SimpleGarnishData ---- *)
Definition s_get_data_len (s : simple) : nat := length (s_data s).

Definition s_push_value_stack (addr : nat) : PM unit :=
  fun s => Ok (with_values s (s_values s ++ [addr]), Done tt).
Definition s_pop_value_stack : PM (option nat) :=
  fun s => match vec_pop (s_values s) with
           | None => Ok (s, Done None)
           | Some (x, r) => Ok (with_values s r, Done (Some x))
           end.
Definition s_get_current_value (s : simple) : option nat := option_map fst (vec_pop (s_values s)).
Definition s_set_current_value (v : nat) : PM bool :=
  fun s => match vec_pop (s_values s) with
           | None => Ok (s, Done false)
           | Some (_, r) => Ok (with_values s (r ++ [v]), Done true)
           end.

Definition s_get_data_type (index : nat) (s : simple) : res data_type :=
  do d <- sget_data index s ; Ok (sdata_type d).
Definition s_get_number (index : nat) (s : simple) : res snum :=
  do d <- sget_data index s ; match d with SNumber n => Ok n | _ => Err E_simple end.
Definition s_get_type (index : nat) (s : simple) : res data_type :=
  do d <- sget_data index s ; match d with SType t => Ok t | _ => Err E_simple end.
Definition s_get_char (index : nat) (s : simple) : res N :=
  do d <- sget_data index s ; match d with SChar c => Ok c | _ => Err E_simple end.
Definition s_get_byte (index : nat) (s : simple) : res N :=
  do d <- sget_data index s ; match d with SByte c => Ok c | _ => Err E_simple end.
Definition s_get_symbol (index : nat) (s : simple) : res N :=
  do d <- sget_data index s ; match d with SSymbol c => Ok c | _ => Err E_simple end.
Definition s_get_expression (index : nat) (s : simple) : res nat :=
  do d <- sget_data index s ; match d with SExpression c => Ok c | _ => Err E_simple end.
Definition s_get_external (index : nat) (s : simple) : res nat :=
  do d <- sget_data index s ; match d with SExternal c => Ok c | _ => Err E_simple end.
Definition s_get_pair (index : nat) (s : simple) : res (nat * nat) :=
  do d <- sget_data index s ; match d with SPair a b => Ok (a, b) | _ => Err E_simple end.
Definition s_get_concatenation (index : nat) (s : simple) : res (nat * nat) :=
  do d <- sget_data index s ; match d with SConcatenation a b => Ok (a, b) | _ => Err E_simple end.
Definition s_get_range (index : nat) (s : simple) : res (nat * nat) :=
  do d <- sget_data index s ; match d with SRange a b => Ok (a, b) | _ => Err E_simple end.
Definition s_get_slice (index : nat) (s : simple) : res (nat * nat) :=
  do d <- sget_data index s ; match d with SSlice a b => Ok (a, b) | _ => Err E_simple end.
Definition s_get_partial (index : nat) (s : simple) : res (nat * nat) :=
  do d <- sget_data index s ; match d with SPartial a b => Ok (a, b) | _ => Err E_simple end.

Definition s_as_list (d : sdata) : res (list nat * list nat) :=
  match d with SList items assoc => Ok (items, assoc) | _ => Err E_simple end.

Definition s_get_list_len (index : nat) (s : simple) : res nat :=
  do d <- sget_data index s ; do l <- s_as_list d ; Ok (length (fst l)).

(* item_index = SimpleNumber::Integer(z): `.0.get(z as usize)`; a negative z
   becomes a huge usize, hence None *)
Definition s_get_list_item (list_index : nat) (z : Z) (s : simple) : res (option nat) :=
  do d <- sget_data list_index s ;
  do l <- s_as_list d ;
  if (z <? 0)%Z then Ok None else Ok (nth_error (fst l) (Z.to_nat z)).

Definition s_get_list_associations_len (index : nat) (s : simple) : res nat :=
  do d <- sget_data index s ; do l <- s_as_list d ; Ok (length (snd l)).

(* get_list_association(list, i.into()) for a usize i *)
Definition s_get_list_association (list_index i : nat) (s : simple) : res (option nat) :=
  do d <- sget_data list_index s ;
  do l <- s_as_list d ;
  match nth_error (snd l) i with
  | None => Err E_simple
  | Some v => Ok (Some v)
  end.

(* the `loop` of get_list_item_with_symbol *)
Fixpoint probe_loop (fuel : nat) (list_addr : nat) (sym : N) (len i count : nat) (s : simple) : res (option nat) :=
  match fuel with
  | O => OutOfFuel
  | S fuel' =>
      do a <- s_get_list_association list_addr i s ;
      do found <-
        (match a with
         | None => Ok None
         | Some association_ref =>
             do t <- s_get_data_type association_ref s ;
             match t with
             | T_Pair =>
                 do lr <- s_get_pair association_ref s ;
                 do lt <- s_get_data_type (fst lr) s ;
                 match lt with
                 | T_Symbol =>
                     do v <- s_get_symbol (fst lr) s ;
                     if N.eqb v sym then Ok (Some (snd lr)) else Ok None
                 | _ => Ok None           (* a pair keyed by something else is not an association *)
                 end
             | _ => Ok None               (* unkeyed items sit in the table too; skipped *)
             end
         end) ;
      match found with
      | Some r => Ok (Some r)
      | None =>
          let i' := if len <=? S i then 0 else S i in
          let count' := S count in
          if len <? count' then Ok None
          else probe_loop fuel' list_addr sym len i' count' s
      end
  end.

Definition s_get_list_item_with_symbol (list_addr : nat) (sym : N) (s : simple) : res (option nat) :=
  do len <- s_get_list_associations_len list_addr s ;
  if len =? 0 then Ok None
  else probe_loop (len + 2) list_addr sym len (N.to_nat (N.modulo sym (N.of_nat len))) 0 s.

Definition s_get_char_list_len (index : nat) (s : simple) : res nat :=
  do d <- sget_data index s ; match d with SCharList l => Ok (length l) | _ => Err E_simple end.
(* chars().nth(z as usize): None is an Err on this store *)
Definition s_get_char_list_item (index : nat) (z : Z) (s : simple) : res (option N) :=
  do d <- sget_data index s ;
  match d with
  | SCharList l =>
      if (z <? 0)%Z then Err E_simple
      else match nth_error l (Z.to_nat z) with Some c => Ok (Some c) | None => Err E_simple end
  | _ => Err E_simple
  end.
Definition s_get_byte_list_len (index : nat) (s : simple) : res nat :=
  do d <- sget_data index s ; match d with SByteList l => Ok (length l) | _ => Err E_simple end.
Definition s_get_byte_list_item (index : nat) (z : Z) (s : simple) : res (option N) :=
  do d <- sget_data index s ;
  match d with
  | SByteList l =>
      if (z <? 0)%Z then Err E_simple
      else match nth_error l (Z.to_nat z) with Some c => Ok (Some c) | None => Err E_simple end
  | _ => Err E_simple
  end.
Definition s_get_symbol_list_len (index : nat) (s : simple) : res nat :=
  do d <- sget_data index s ; match d with SSymbolList l => Ok (length l) | _ => Err E_simple end.
Definition s_get_symbol_list_item (index : nat) (z : Z) (s : simple) : res (option N) :=
  do d <- sget_data index s ;
  match d with
  | SSymbolList l =>
      if (z <? 0)%Z then Err E_simple
      else match nth_error l (Z.to_nat z) with Some c => Ok (Some c) | None => Err E_simple end
  | _ => Err E_simple
  end.

(* get_list_item_iter: the item vector, or empty when the address is not a list *)
Definition s_get_list_item_iter (list_addr : nat) (s : simple) : list nat :=
  match nth_error (s_data s) list_addr with
  | Some (SList items _) => items
  | _ => []
  end.

Definition s_add_unit : PM nat := sret 0.
Definition s_add_true : PM nat := sret 2.
Definition s_add_false : PM nat := sret 1.
Definition s_add_number (n : snum) : PM nat := cache_add (SNumber n).
Definition s_add_type (t : data_type) : PM nat := cache_add (SType t).
Definition s_add_char (c : N) : PM nat := cache_add (SChar c).
Definition s_add_byte (b : N) : PM nat := cache_add (SByte b).
Definition s_add_symbol (x : N) : PM nat := cache_add (SSymbol x).
Definition s_add_expression (x : nat) : PM nat := cache_add (SExpression x).
Definition s_add_external (x : nat) : PM nat := cache_add (SExternal x).
Definition s_add_pair (a b : nat) : PM nat := push_data (SPair a b).
Definition s_add_concatenation (a b : nat) : PM nat := push_data (SConcatenation a b).
Definition s_add_range (a b : nat) : PM nat := push_data (SRange a b).
Definition s_add_slice (a b : nat) : PM nat := push_data (SSlice a b).
Definition s_add_partial (a b : nat) : PM nat := push_data (SPartial a b).
Definition s_add_custom : PM nat := push_data SCustom.

Definition s_start_list (_ : nat) : PM nat :=
  fun s => Ok (with_current_list s (Some ([], [])), Done 0).

Definition s_add_to_list (list_index item_index : nat) : PM nat :=
  fun s =>
    match s_current_list s with
    | None => Ok (s, Fail E_simple)
    | Some (items, associations) =>
        Ok (with_current_list s (Some (items ++ [item_index], associations ++ [item_index])), Done list_index)
    end.

(* while ordered[i] != 0 { i += 1; wrap; count += 1; if count > n { Err } } *)
Fixpoint place_loop (fuel : nat) (ordered : list nat) (n i count : nat) : res (outcome nat) :=
  match fuel with
  | O => OutOfFuel
  | S fuel' =>
      match nth_error ordered i with
      | None => Panic P_get_index
      | Some v =>
          if v =? 0 then Ok (Done i)
          else
            let i' := if n <=? S i then 0 else S i in
            let count' := S count in
            if n <? count' then Ok (Fail E_simple)
            else place_loop fuel' ordered n i' count'
      end
  end.

(* for index in 0..associations.len() *)
Fixpoint place_all (todo : list nat) (n : nat) (ordered : list nat) : res (outcome (list nat)) :=
  match todo with
  | [] => Ok (Done ordered)
  | item :: rest =>
      do r <- place_loop (n + 2) ordered n (item mod n) 0 ;
      match r with
      | Fail e => Ok (Fail e)
      | Done i =>
          match set_ix ordered i item with
          | None => Panic P_get_index
          | Some ordered' => place_all rest n ordered'
          end
      end
  end.

Definition s_end_list (_ : nat) : PM nat :=
  fun s =>
    match s_current_list s with
    | None => Ok (s, Fail E_simple)
    | Some (items, associations) =>
        let n := length associations in
        match place_all associations n (repeat 0 n) with
        | Ok (Done ordered) => push_data (SList items ordered) s
        | Ok (Fail e) => Ok (s, Fail e)
        | Err e => Err e
        | Panic p => Panic p
        | OutOfFuel => OutOfFuel
        end
    end.

Definition s_get_register_len (s : simple) : nat := length (s_register s).
Definition s_push_register (addr : nat) : PM unit :=
  fun s => Ok (with_register s (s_register s ++ [addr]), Done tt).
Definition s_get_register (i : nat) (s : simple) : option nat := nth_error (s_register s) i.

(* the pop happens before the StackFrame test *)
Definition s_pop_register : PM (option nat) :=
  fun s =>
    match vec_pop (s_register s) with
    | None => Ok (s, Done None)
    | Some (value, r) =>
        let s' := with_register s r in
        match nth_error (s_data s) value with
        | None => Ok (s', Fail E_simple)
        | Some (SStackFrame _) => Ok (s', Fail E_simple)
        | Some _ => Ok (s', Done (Some value))
        end
    end.

Definition s_get_instruction_len (s : simple) : nat := length (s_instructions s).
Definition s_push_instruction (i : instruction) (d : option nat) : PM nat :=
  fun s => Ok (with_instructions s (s_instructions s ++ [(i, d)]), Done (length (s_instructions s))).
Definition s_get_instruction (i : nat) (s : simple) : option (instruction * option nat) :=
  nth_error (s_instructions s) i.
Definition s_set_instruction_cursor (i : nat) : PM unit := fun s => Ok (with_cursor s i, Done tt).

Definition s_get_jump_table_len (s : simple) : nat := length (s_jumps s).
Definition s_push_to_jump_table (x : nat) : PM unit :=
  fun s => Ok (with_jumps s (s_jumps s ++ [x]), Done tt).
Definition s_get_from_jump_table (i : nat) (s : simple) : option nat := nth_error (s_jumps s) i.
Definition s_set_jump_table (i v : nat) : PM bool :=
  fun s => match set_ix (s_jumps s) i v with
           | Some j => Ok (with_jumps s j, Done true)
           | None => Ok (s, Done false)
           end.

Definition s_push_frame (index : nat) : PM unit :=
  sdo r <- push_data (SStackFrame index) ; s_push_register r.

(* while let Some(item) = self.register.pop(): newest first *)
Fixpoint pop_frame_loop (rev_regs : list nat) (data : list sdata) : list nat * outcome (option nat) :=
  match rev_regs with
  | [] => ([], Done None)
  | item :: rest =>
      match nth_error data item with
      | None => (rest, Fail E_simple)
      | Some (SStackFrame ret) => (rest, Done (Some ret))
      | Some _ => pop_frame_loop rest data
      end
  end.
Definition s_pop_frame : PM (option nat) :=
  fun s =>
    let '(rest, out) := pop_frame_loop (rev (s_register s)) (s_data s) in
    Ok (with_register s (rev rest), out).

Definition s_start_char_list : PM unit := fun s => Ok (with_current_chars s (Some []), Done tt).
Definition s_add_to_char_list (c : N) : PM unit :=
  fun s => match s_current_chars s with
           | None => Ok (s, Fail E_simple)
           | Some l => Ok (with_current_chars s (Some (l ++ [c])), Done tt)
           end.
Definition s_end_char_list : PM nat :=
  fun s => match s_current_chars s with
           | None => Ok (s, Fail E_simple)
           | Some l =>
               (sdo addr <- cache_add (SCharList l) ;
                fun s' => Ok (with_current_chars s' None, Done addr)) s
           end.
Definition s_start_byte_list : PM unit := fun s => Ok (with_current_bytes s (Some []), Done tt).
Definition s_add_to_byte_list (c : N) : PM unit :=
  fun s => match s_current_bytes s with
           | None => Ok (s, Fail E_simple)
           | Some l => Ok (with_current_bytes s (Some (l ++ [c])), Done tt)
           end.
Definition s_end_byte_list : PM nat :=
  fun s => match s_current_bytes s with
           | None => Ok (s, Fail E_simple)
           | Some l =>
               (sdo addr <- cache_add (SByteList l) ;
                fun s' => Ok (with_current_bytes s' None, Done addr)) s
           end.

(* parse_add_symbol: [sym] = symbol_value(name) (oracle) *)
Definition s_parse_add_symbol (sym : N) (name : list N) : PM nat :=
  sdo _ <- (fun s => Ok (with_symbols s (map_insert (s_symbols s) sym name), Done tt)) ;
  s_add_symbol sym.

Definition s_get_symbol_name (sym : N) (s : simple) : option (list N) := map_get (s_symbols s) sym.

End WithHash.
