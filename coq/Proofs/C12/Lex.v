(* C12, char lists and byte lists: cmp_list is the lexicographic order with the
   shorter prefix first. *)
From Coq Require Import ZArith NArith List Bool Lia.
From GV Require Import Base.Result Model.Num Model.Value Model.Compare Spec.NatOrder Proofs.C09.IntArith.
Import ListNotations.
Local Open Scope Z_scope.

Lemma increment_index i : 0 <= i -> i + 1 <= i32_max -> num_increment (Int i) = Some (Int (i + 1)).
Proof.
  intros H0 H1. unfold num_increment, overflowing_add.
  assert (Hr : in_i32 (i + 1) = true) by (apply in_i32_iff; unfold i32_max in H1; lia).
  rewrite Hr. simpl. rewrite wrap32_id by exact Hr. reflexivity.
Qed.

Lemma cmp_list_loop_correct l : forall r i,
  0 <= i -> i + Z.of_nat (length l) <= i32_max ->
  cmp_list_loop l r i (i + Z.of_nat (length l)) (i + Z.of_nat (length r)) = Ok (Some (lex_compare l r)).
Proof.
  induction l as [|x l IH]; intros r i H0 Hlen.
  - destruct r as [|y r]; cbn [cmp_list_loop lex_compare length num_partial_cmp].
    + rewrite Z.compare_refl. reflexivity.
    + replace (i + Z.of_nat 0 ?= i + Z.of_nat (S (length r))) with Lt; [reflexivity|].
      symmetry. apply Z.compare_lt_iff. lia.
  - destruct r as [|y r]; cbn [cmp_list_loop lex_compare length num_partial_cmp].
    + replace (i + Z.of_nat (S (length l)) ?= i + Z.of_nat 0) with Gt; [reflexivity|].
      symmetry. apply Z.compare_gt_iff. lia.
    + unfold cmp_item. destruct (x ?= y)%N eqn:E; try reflexivity.
      cbn [length] in Hlen.
      rewrite increment_index by lia.
      replace (i + Z.of_nat (S (length l))) with ((i + 1) + Z.of_nat (length l)) by lia.
      replace (i + Z.of_nat (S (length r))) with ((i + 1) + Z.of_nat (length r)) by lia.
      apply IH; lia.
Qed.

Theorem cmp_list_correct l r : Z.of_nat (length l) <= i32_max ->
  cmp_list l r = Ok (Some (lex_compare l r)).
Proof.
  intros H. unfold cmp_list.
  apply (cmp_list_loop_correct l r 0); lia.
Qed.

Lemma lex_compare_antisym l : forall r, lex_compare r l = CompOpp (lex_compare l r).
Proof.
  induction l as [|x l IH]; intros [|y r]; cbn [lex_compare]; try reflexivity.
  rewrite (N.compare_antisym x y). destruct (x ?= y)%N; cbn [CompOpp]; try reflexivity. apply IH.
Qed.

Lemma lex_compare_refl l : lex_compare l l = Eq.
Proof. induction l as [|x l IH]; cbn [lex_compare]; [reflexivity|]. rewrite N.compare_refl. exact IH. Qed.

Lemma lex_compare_eq l : forall r, lex_compare l r = Eq <-> l = r.
Proof.
  induction l as [|x l IH]; intros [|y r]; cbn [lex_compare]; try (split; (discriminate || reflexivity)).
  destruct (x ?= y)%N eqn:E.
  - apply N.compare_eq_iff in E. subst y. rewrite IH. split; [intros ->; reflexivity | intros H; injection H as ->; reflexivity].
  - split; [discriminate|]. intros H. injection H as -> ->. rewrite N.compare_refl in E. discriminate.
  - split; [discriminate|]. intros H. injection H as -> ->. rewrite N.compare_refl in E. discriminate.
Qed.

Lemma items_equal_lex l : forall r, items_equal l r = match lex_compare l r with Eq => true | _ => false end.
Proof.
  induction l as [|x l IH]; intros [|y r]; cbn [items_equal lex_compare]; try reflexivity.
  destruct (N.compare_spec x y) as [H|H|H].
  - subst. rewrite N.eqb_refl. apply IH.
  - replace (x =? y)%N with false; [reflexivity|]. symmetry. apply N.eqb_neq. lia.
  - replace (x =? y)%N with false; [reflexivity|]. symmetry. apply N.eqb_neq. lia.
Qed.

(* the relational reading of "lexicographic, shorter prefix first" *)
Theorem lex_compare_lt_iff l : forall r, lex_compare l r = Lt <-> lex_lt l r.
Proof.
  induction l as [|x l IH]; intros r.
  - destruct r as [|y r]; cbn [lex_compare].
    + split; [discriminate|]. intros [(s & Hs & E)|(p & a & b & l' & r' & E1 & E2 & _)].
      * destruct s; [congruence|discriminate].
      * destruct p; discriminate.
    + split; [|reflexivity]. intros _. left. exists (y :: r). split; [discriminate|reflexivity].
  - destruct r as [|y r]; cbn [lex_compare].
    + split; [discriminate|]. intros [(s & Hs & E)|(p & a & b & l' & r' & E1 & E2 & _)].
      * discriminate.
      * destruct p; discriminate.
    + destruct (N.compare_spec x y) as [H|H|H].
      * subst y. rewrite IH. split.
        -- intros [(s & Hs & E)|(p & a & b & l' & r' & E1 & E2 & Hab)].
           ++ left. exists s. split; [exact Hs|]. cbn. congruence.
           ++ right. exists (x :: p), a, b, l', r'. cbn. repeat split; congruence.
        -- intros [(s & Hs & E)|(p & a & b & l' & r' & E1 & E2 & Hab)].
           ++ left. exists s. split; [exact Hs|]. cbn in E. congruence.
           ++ destruct p as [|q p]; cbn in E1, E2.
              ** inversion E1; inversion E2; subst. lia.
              ** inversion E1; inversion E2; subst. right. exists p, a, b, l', r'. repeat split. exact Hab.
      * split; [|reflexivity]. intros _. right. exists [], x, y, l, r. repeat split. exact H.
      * split; [discriminate|]. intros [(s & Hs & E)|(p & a & b & l' & r' & E1 & E2 & Hab)].
        -- cbn in E. inversion E; subst. lia.
        -- destruct p as [|q p]; cbn in E1, E2; inversion E1; inversion E2; subst; lia.
Qed.

Lemma lex_compare_lt_trans a : forall b c, lex_compare a b = Lt -> lex_compare b c = Lt -> lex_compare a c = Lt.
Proof.
  induction a as [|x a IH]; intros [|y b] [|z c]; cbn [lex_compare]; try discriminate; try reflexivity.
  destruct (N.compare_spec x y) as [H1|H1|H1]; try discriminate;
  (destruct (N.compare_spec y z) as [H2|H2|H2]; try discriminate); intros Ha Hb.
  - subst. rewrite N.compare_refl. eapply IH; eassumption.
  - assert (E : (x ?= z)%N = Lt) by (apply N.compare_lt_iff; lia). rewrite E. reflexivity.
  - assert (E : (x ?= z)%N = Lt) by (apply N.compare_lt_iff; lia). rewrite E. reflexivity.
  - assert (E : (x ?= z)%N = Lt) by (apply N.compare_lt_iff; lia). rewrite E. reflexivity.
Qed.
