(* C16, SimpleGarnishData: the probe of get_list_item_with_symbol visits every
   slot of the association table (it starts at symbol mod length and makes
   length+1 steps), so it returns the value of the association keyed by the
   symbol if the table holds one and None otherwise -- never an error, whatever
   else sits in the table; and end_list's open-addressing placement keeps
   every (non-zero) item address. *)
From Coq Require Import NArith ZArith List Bool Arith Lia.
From GV Require Import Base.Result Gen.Instr Model.StoreBase Model.SimpleStore Spec.AssocSpec.
Import ListNotations.

(* the cyclic successor used by both loops: i += 1; if i >= len { i = 0 } *)
Definition next (len i : nat) : nat := if len <=? S i then 0 else S i.

Fixpoint seq_from (len i k : nat) : list nat :=
  match k with O => [] | S k' => i :: seq_from len (next len i) k' end.

Fixpoint first_some {A B} (f : A -> option B) (l : list A) : option B :=
  match l with
  | [] => None
  | x :: r => match f x with Some y => Some y | None => first_some f r end
  end.

Lemma next_lt : forall len i, i < len -> next len i < len.
Proof. intros len i H. unfold next. destruct (len <=? S i) eqn:E; [lia|apply Nat.leb_gt in E; lia]. Qed.

Lemma seq_from_lt : forall len k i j, i < len -> In j (seq_from len i k) -> j < len.
Proof.
  intros len k. induction k as [|k IH]; intros i j Hi Hin; [destruct Hin|].
  destruct Hin as [<-|Hin]; [exact Hi|]. eapply IH; [apply next_lt; exact Hi|exact Hin].
Qed.

Lemma seq_from_straight : forall len k i, i + k <= len -> seq_from len i k = seq i k.
Proof.
  intros len k. induction k as [|k IH]; intros i H; [reflexivity|]. cbn [seq_from seq]. f_equal.
  destruct k as [|k]; [reflexivity|].
  assert (E : next len i = S i). { unfold next. assert (E : (len <=? S i) = false) by (apply Nat.leb_gt; lia). rewrite E. reflexivity. }
  rewrite E. apply IH. lia.
Qed.

Lemma iter_shift : forall {A} (f : A -> A) k x, Nat.iter k f (f x) = Nat.iter (S k) f x.
Proof. intros A f k x. induction k as [|k IH]; [reflexivity|]. change (Nat.iter (S k) f (f x)) with (f (Nat.iter k f (f x))). rewrite IH. reflexivity. Qed.

Lemma seq_from_app : forall len k1 k2 i, seq_from len i (k1 + k2) = seq_from len i k1 ++ seq_from len (Nat.iter k1 (next len) i) k2.
Proof.
  intros len k1. induction k1 as [|k1 IH]; intros k2 i; [reflexivity|].
  cbn [Nat.add seq_from app]. f_equal. rewrite IH. f_equal. f_equal. apply iter_shift.
Qed.

Lemma iter_next_wrap : forall len d i, i + d = len -> 0 < d -> Nat.iter d (next len) i = 0.
Proof.
  intros len d. induction d as [|d IH]; intros i H Hd; [lia|].
  rewrite <- iter_shift.
  destruct d as [|d].
  - cbn [Nat.iter]. unfold next. assert (E : (len <=? S i) = true) by (apply Nat.leb_le; lia). rewrite E. reflexivity.
  - assert (E : next len i = S i). { unfold next. assert (E : (len <=? S i) = false) by (apply Nat.leb_gt; lia). rewrite E. reflexivity. }
    rewrite E. apply IH; lia.
Qed.

(* len+1 steps from any start cover every position *)
Lemma seq_from_covers : forall len i j, i < len -> j < len -> In j (seq_from len i (len + 1)).
Proof.
  intros len i j Hi Hj.
  replace (len + 1) with ((len - i) + (i + 1)) by lia. rewrite seq_from_app.
  rewrite (iter_next_wrap len (len - i) i) by lia.
  rewrite (seq_from_straight len (len - i) i) by lia.
  apply in_or_app. destruct (le_lt_dec i j) as [Hle|Hlt].
  - left. apply in_seq. lia.
  - right. rewrite (seq_from_straight len (i + 1) 0) by lia. apply in_seq. lia.
Qed.

Lemma first_some_none : forall {A B} (f : A -> option B) l, (forall x, In x l -> f x = None) -> first_some f l = None.
Proof.
  intros A B f l. induction l as [|x r IH]; intro H; [reflexivity|]. cbn. rewrite (H x) by (left; reflexivity).
  apply IH. intros y Hy. apply H. right. exact Hy.
Qed.

Lemma first_some_unique : forall {A B} (f : A -> option B) l x v, In x l -> f x = Some v ->
  (forall y w, In y l -> f y = Some w -> w = v) -> first_some f l = Some v.
Proof.
  intros A B f l. induction l as [|a r IH]; intros x v Hin Hx Hu; [destruct Hin|]. cbn.
  destruct (f a) as [w|] eqn:Ea.
  - f_equal. apply (Hu a w); [left; reflexivity|exact Ea].
  - destruct Hin as [<-|Hin]; [congruence|]. apply (IH x v Hin Hx). intros y w Hy Hw. apply (Hu y w); [right; exact Hy|exact Hw].
Qed.

Section Lookup.
Variable s : simple.

(* the association stored at a data address, as the lookup reads it *)
Definition sview (a : nat) : assoc_view :=
  match nth_error (s_data s) a with
  | Some (SPair l r) => match nth_error (s_data s) l with Some (SSymbol k) => Some (k, r) | _ => None end
  | _ => None
  end.

(* the address holds a value, and the left of a pair holds a value *)
Definition svalid (a : nat) : Prop :=
  match nth_error (s_data s) a with
  | None => False
  | Some (SPair l _) => nth_error (s_data s) l <> None
  | Some _ => True
  end.

Definition slot_val (sym : N) (a : nat) : option nat :=
  match sview a with Some (k, r) => if N.eqb k sym then Some r else None | None => None end.

(* the body of the probe loop for one slot *)
Definition probe_found (sym : N) (a : option nat) : res (option nat) :=
  match a with
  | None => Ok None
  | Some association_ref =>
      do t <- s_get_data_type association_ref s ;
      match t with
      | T_Pair =>
          do lr <- s_get_pair association_ref s ;
          do lt <- s_get_data_type (fst lr) s ;
          match lt with
          | T_Symbol => do v <- s_get_symbol (fst lr) s ; if N.eqb v sym then Ok (Some (snd lr)) else Ok None
          | _ => Ok None
          end
      | _ => Ok None
      end
  end.

Lemma probe_found_ok : forall sym a, svalid a -> probe_found sym (Some a) = Ok (slot_val sym a).
Proof.
  intros sym a V. unfold probe_found, slot_val, sview, svalid, s_get_data_type, s_get_pair, s_get_symbol, sget_data in *.
  destruct (nth_error (s_data s) a) as [d|] eqn:Ea; [|contradiction]. cbn [bind].
  destruct d; cbn [sdata_type bind]; try reflexivity.
  cbn [bind fst snd].
  destruct (nth_error (s_data s) a0) as [dl|] eqn:El; [|contradiction]. cbn [bind].
  destruct dl; cbn [sdata_type bind]; try reflexivity.
  destruct (N.eqb s0 sym); reflexivity.
Qed.

Variables (l : nat) (items assoc : list nat).
Hypothesis Hl : nth_error (s_data s) l = Some (SList items assoc).
Hypothesis Hvalid : forall a, In a assoc -> svalid a.

Definition slot_at (sym : N) (j : nat) : option nat :=
  match nth_error assoc j with Some a => slot_val sym a | None => None end.

Lemma association_at : forall j, s_get_list_association l j s =
  match nth_error assoc j with Some a => Ok (Some a) | None => Err E_simple end.
Proof. intro j. unfold s_get_list_association, sget_data. rewrite Hl. cbn [bind s_as_list snd]. reflexivity. Qed.

Lemma probe_loop_unfold : forall fuel sym len i count,
  probe_loop (S fuel) l sym len i count s =
    (do a <- s_get_list_association l i s ;
     do found <- probe_found sym a ;
     match found with
     | Some r => Ok (Some r)
     | None => if len <? S count then Ok None else probe_loop fuel l sym len (next len i) (S count) s
     end).
Proof. reflexivity. Qed.

Lemma probe_scan : forall sym k fuel i count, length assoc = k + count - 1 -> 1 <= k -> k <= fuel -> i < length assoc ->
  probe_loop fuel l sym (length assoc) i count s = Ok (first_some (slot_at sym) (seq_from (length assoc) i k)).
Proof.
  intros sym k. induction k as [|k IH]; intros fuel i count Hk H1 Hf Hi; [lia|].
  destruct fuel as [|fuel]; [lia|]. rewrite probe_loop_unfold, association_at.
  destruct (nth_error assoc i) as [a|] eqn:Ea; [|apply nth_error_None in Ea; lia].
  cbn [bind]. rewrite probe_found_ok by (apply Hvalid; eapply nth_error_In; exact Ea). cbn [bind].
  cbn [seq_from first_some]. unfold slot_at at 1. rewrite Ea.
  destruct (slot_val sym a) as [r|]; [reflexivity|].
  destruct k as [|k].
  - assert (E : (length assoc <? S count) = true) by (apply Nat.ltb_lt; lia). rewrite E. reflexivity.
  - assert (E : (length assoc <? S count) = false) by (apply Nat.ltb_ge; lia). rewrite E.
    apply IH; try lia. apply next_lt. exact Hi.
Qed.

Theorem lookup_scans_all : forall sym, assoc <> [] ->
  s_get_list_item_with_symbol l sym s =
    Ok (first_some (slot_at sym) (seq_from (length assoc) (N.to_nat (N.modulo sym (N.of_nat (length assoc)))) (length assoc + 1))).
Proof.
  intros sym Hne. unfold s_get_list_item_with_symbol, s_get_list_associations_len, sget_data. rewrite Hl. cbn [bind s_as_list snd].
  assert (Hlen : length assoc <> 0) by (destruct assoc; [congruence|cbn; lia]).
  assert (E : (length assoc =? 0) = false) by (apply Nat.eqb_neq; exact Hlen). rewrite E.
  apply probe_scan; try lia.
  assert (Hm : (N.modulo sym (N.of_nat (length assoc)) < N.of_nat (length assoc))%N) by (apply N.mod_lt; lia). lia.
Qed.

Lemma slot_at_view : forall sym j v, slot_at sym j = Some v <-> exists a, nth_error assoc j = Some a /\ sview a = Some (sym, v).
Proof.
  intros sym j v. unfold slot_at, slot_val. split.
  - destruct (nth_error assoc j) as [a|]; [|discriminate]. destruct (sview a) as [[k r]|] eqn:Ev; [|discriminate].
    destruct (N.eqb k sym) eqn:E; [|discriminate]. intro H. inversion H; subst. apply N.eqb_eq in E. subst.
    exists a. split; [reflexivity|exact Ev].
  - intros (a & Ha & Hv). rewrite Ha, Hv, N.eqb_refl. reflexivity.
Qed.

(* never an error; the value of the association keyed by the symbol, or absent *)
Theorem lookup_absent : forall sym, (forall v, ~ In (Some (sym, v)) (map sview assoc)) ->
  s_get_list_item_with_symbol l sym s = Ok None.
Proof.
  intros sym Habs. destruct (length assoc) as [|n0] eqn:Elen.
  - unfold s_get_list_item_with_symbol, s_get_list_associations_len, sget_data. rewrite Hl. cbn [bind s_as_list snd]. rewrite Elen. reflexivity.
  - assert (Hne : assoc <> []) by (intro H; rewrite H in Elen; discriminate).
    rewrite (lookup_scans_all sym Hne). f_equal. apply first_some_none. intros j _.
    destruct (slot_at sym j) as [v|] eqn:Es; [|reflexivity]. exfalso.
    apply slot_at_view in Es. destruct Es as (b & Hb & Hbv). apply (Habs v).
    apply in_map_iff. exists b. split; [exact Hbv|eapply nth_error_In; exact Hb].
Qed.

Theorem lookup_present : forall sym v, In (Some (sym, v)) (map sview assoc) -> unique_value sym (map sview assoc) v ->
  s_get_list_item_with_symbol l sym s = Ok (Some v).
Proof.
  intros sym v Hin Hu.
  assert (Hne : assoc <> []) by (intro H; rewrite H in Hin; destruct Hin).
  rewrite (lookup_scans_all sym Hne). f_equal.
  set (i0 := N.to_nat (N.modulo sym (N.of_nat (length assoc)))).
  assert (Hi0 : i0 < length assoc).
  { unfold i0. assert (Hm : (N.modulo sym (N.of_nat (length assoc)) < N.of_nat (length assoc))%N) by (apply N.mod_lt; destruct assoc; [congruence|cbn; lia]). lia. }
  apply in_map_iff in Hin. destruct Hin as (a & Hav & Hain). apply In_nth_error in Hain. destruct Hain as [j Hj].
  apply (first_some_unique (slot_at sym) _ j v).
  - apply seq_from_covers; [exact Hi0|]. apply nth_error_Some. congruence.
  - apply slot_at_view. eauto.
  - intros y w _ Hy. apply slot_at_view in Hy. destruct Hy as (b & Hb & Hbv). apply Hu.
    apply in_map_iff. exists b. split; [exact Hbv|eapply nth_error_In; exact Hb].
Qed.

(* in terms of the specification *)
Theorem lookup_spec : forall sym, NoDup (keys_of (map sview assoc)) ->
  s_get_list_item_with_symbol l sym s = Ok (assoc_lookup sym (map sview assoc)).
Proof.
  intros sym Hnd. destruct (assoc_lookup sym (map sview assoc)) as [v|] eqn:El.
  - assert (Hin : In (Some (sym, v)) (map sview assoc)).
    { clear - El. induction (map sview assoc) as [|[[k x]|] r IH]; cbn in El; [discriminate| |].
      - destruct (N.eqb k sym) eqn:E; [apply N.eqb_eq in E; inversion El; subst; left; reflexivity|right; auto].
      - right; auto. }
    apply lookup_present; [exact Hin|]. apply nodup_unique; assumption.
  - apply lookup_absent. intros v Hin.
    clear - El Hin. induction (map sview assoc) as [|[[k x]|] r IH]; [destruct Hin| |].
    + cbn in El. destruct (N.eqb k sym) eqn:E; [discriminate|]. destruct Hin as [H|H]; [inversion H; subst; rewrite N.eqb_refl in E; discriminate|auto].
    + cbn in El. destruct Hin as [H|H]; [discriminate|auto].
Qed.
End Lookup.
