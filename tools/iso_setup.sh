#!/bin/sh
# Build an isolated copy of /verif (-> /tmp/verif_iso) that checks a scratch worktree of /repo
# (-> /tmp/iso_repo) instead of /repo itself, so seeded changes can be tried without touching
# the tree other people are building from.  Usage: iso_setup.sh   (re-run to refresh)
set -e
ISO=/tmp/verif_iso${ISO_TAG}
WT=/tmp/iso_repo${ISO_TAG}
mkdir -p $ISO
rsync -a --delete --exclude .git --exclude replays --exclude build/priv --exclude build/sweeps --exclude build/scratch --exclude build/cargo /verif/ $ISO/ || [ $? -eq 24 ]
if [ -d $WT ]; then git -C /repo worktree remove --force $WT; fi
git -C /repo worktree add -f --detach $WT HEAD -q
grep -rlI -e "/verif" -e "/repo" $ISO/tools $ISO/harness/Cargo.toml $ISO/harness/.cargo/config.toml 2>/dev/null | while read f; do
  sed -i "s#/verif#$ISO#g; s#/repo#$WT#g" "$f"
done
echo "iso ready: $ISO checks $WT at $(git -C $WT rev-parse --short HEAD)"
