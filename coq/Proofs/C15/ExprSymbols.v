(* C15, BasicGarnishData: expression symbols read back.  [get_symbol_expression]
   binary-searches the expression-symbol block (re-sorted, stably, after every
   [push_to_expression_symbol_block]).  Here: on a table of associative items
   sorted in nondecreasing key order the search lands on the LAST entry
   carrying the key (so, the sort being stable, on the most recent push for
   that symbol); no operation of the history vocabulary other than the
   expression-symbol push changes the block; the push makes it the stable
   sort of the old table plus the new entry; hence after every history
   [get_symbol_expression sym] is the value of the last push for [sym], and
   [None] when there was none. *)
From Coq Require Import NArith ZArith List Bool Arith Lia Sorted Permutation.
From GV Require Import Base.Result Gen.Instr Model.StoreBase Model.BasicStore Model.StoreOps Spec.AbsTables
  Proofs.C15.ListFacts Proofs.C15.Layout Proofs.C15.Stable Proofs.C15.Steps Proofs.C15.History
  Proofs.C16.BasicSearch Proofs.C15.SymbolNames.
Import ListNotations.

(* the values stored under a key, in table order *)
Definition vof (sym : N) (c : cell) : list nat :=
  match c with CAssociativeItem k v => if N.eqb k sym then [v] else [] | _ => [] end.
Definition vals (sym : N) (l : list cell) : list nat := flat_map (vof sym) l.
Definition last_opt {A} (l : list A) : option A := hd_error (rev l).

Lemma last_opt_snoc : forall A (l : list A) x, last_opt (l ++ [x]) = Some x.
Proof. intros. unfold last_opt. rewrite rev_app_distr. reflexivity. Qed.

Lemma vals_app : forall sym a b, vals sym (a ++ b) = vals sym a ++ vals sym b.
Proof. intros. unfold vals. apply flat_map_app. Qed.

Lemma vals_none : forall sym l, (forall c, In c l -> ckey c <> sym \/ ~ is_assoc c) -> vals sym l = [].
Proof.
  induction l as [|c r IH]; intro Hk; [reflexivity|]. unfold vals in *. cbn [flat_map].
  rewrite IH by (intros; apply Hk; right; assumption). rewrite app_nil_r.
  destruct c; try reflexivity. cbn [vof]. destruct (N.eqb _ sym) eqn:E; [|reflexivity].
  apply N.eqb_eq in E. exfalso. destruct (Hk _ (or_introl eq_refl)) as [Hn|Hn]; [apply Hn; exact E|].
  apply Hn. eexists. eexists. reflexivity.
Qed.

(* the stable sort does not reorder the entries of one key *)
Lemma vals_insert : forall sym x l, vals sym (insert_sorted assoc_le x l) = vals sym (x :: l).
Proof.
  induction l as [|y r IH]; [reflexivity|]. cbn [insert_sorted]. destruct (assoc_le x y) eqn:E; [reflexivity|].
  unfold vals in *. cbn [flat_map] in *. rewrite IH.
  destruct (vof sym x) eqn:Ex; [reflexivity|]. destruct (vof sym y) eqn:Ey; [cbn; reflexivity|].
  exfalso. destruct x; cbn in Ex; try discriminate Ex. destruct y; cbn in Ey; try discriminate Ey.
  cbn in E.
  repeat match goal with H : context [N.eqb ?a ?b] |- _ => destruct (N.eqb_spec a b); try discriminate H end.
  subst. rewrite N.leb_refl in E. discriminate E.
Qed.

Lemma vals_sort : forall sym l, vals sym (stable_sort assoc_le l) = vals sym l.
Proof.
  induction l as [|x r IH]; [reflexivity|]. unfold stable_sort in *. cbn [fold_right]. rewrite vals_insert.
  unfold vals in *. cbn [flat_map]. rewrite IH. reflexivity.
Qed.

(* ---- the binary search lands on the last entry with the key ---- *)
Section SearchLast.
Variable items : list cell.
Hypothesis Hassoc : forall c, In c items -> is_assoc c.
Hypothesis Hsorted : StronglySorted le_cell items.
Variable sym : N.

Lemma search_loop_last : forall fuel base size, size <= fuel -> 1 <= size -> base + size <= length items ->
  (forall j cj, base + size <= j -> nth_error items j = Some cj -> (sym < ckey cj)%N) ->
  exists b, search_loop fuel items sym base size = Ok b /\ base <= b < base + size /\
    (forall j cj, b < j -> nth_error items j = Some cj -> (sym < ckey cj)%N) /\
    (b = base \/ exists cb, nth_error items b = Some cb /\ (ckey cb <= sym)%N).
Proof.
  induction fuel as [|fuel IH]; intros base size Hf H1 Hb Hup; [lia|].
  cbn [search_loop]. destruct (size <=? 1) eqn:E1.
  - apply Nat.leb_le in E1. exists base. split; [reflexivity|]. split; [lia|]. split; [|left; reflexivity].
    intros j cj Hj. apply Hup. lia.
  - apply Nat.leb_gt in E1.
    pose proof (Nat.mul_div_le size 2 ltac:(lia)) as Hd1.
    assert (Hd2 : 0 < size / 2) by (apply Nat.div_str_pos; lia).
    set (half := size / 2) in *.
    destruct (nth_error items (base + half)) as [cm|] eqn:Em; [|apply nth_error_None in Em; lia].
    destruct (Hassoc cm (nth_error_In _ _ Em)) as (km & vm & Ecm). subst cm.
    cbn [as_associative_item bind fst snd].
    destruct (sym <? km)%N eqn:Ec.
    + apply N.ltb_lt in Ec.
      destruct (IH base (size - half)) as (b & Hr & Hrange & Habove & Hat); try lia.
      { intros j cj Hj Hnj. destruct (Nat.eq_dec j (base + half)) as [->|Hne].
        - rewrite Em in Hnj. inversion Hnj; subst cj. exact Ec.
        - pose proof (keys_mono items Hassoc Hsorted (base + half) j _ _ ltac:(lia) Em Hnj) as Hm. cbn in Hm. lia. }
      exists b. split; [exact Hr|]. split; [lia|]. split; [exact Habove|exact Hat].
    + apply N.ltb_ge in Ec.
      destruct (IH (base + half) (size - half)) as (b & Hr & Hrange & Habove & Hat); try lia.
      { intros j cj Hj Hnj. apply (Hup j cj); [lia|exact Hnj]. }
      exists b. split; [exact Hr|]. split; [lia|]. split; [exact Habove|].
      right. destruct Hat as [->|Hat]; [|exact Hat]. eexists. split; [exact Em|exact Ec].
Qed.

Theorem search_last :
  search_for_associative_item items sym = Ok (option_map (CAssociativeItem sym) (last_opt (vals sym items))).
Proof.
  unfold search_for_associative_item, search_for_associative_item_index.
  destruct (length items) as [|n] eqn:El.
  - destruct items; [reflexivity|discriminate].
  - cbn [Nat.eqb].
    destruct (search_loop_last (S (S n)) 0 (S n)) as (b & Hr & Hrange & Habove & Hat); try lia.
    { intros j cj Hj Hnj. assert (j < length items) by (apply nth_error_Some; congruence). lia. }
    rewrite Hr. cbn [bind].
    destruct (nth_error items b) as [cb|] eqn:Eb; [|apply nth_error_None in Eb; lia].
    destruct (Hassoc cb (nth_error_In _ _ Eb)) as (kb & vb & Ecb). subst cb.
    cbn [as_associative_item bind fst snd].
    destruct (nth_error_split items b Eb) as (l1 & l2 & Eit & Ll1).
    assert (Htail : vals sym l2 = []).
    { apply vals_none. intros c Hc. left. apply In_nth_error in Hc. destruct Hc as [i Hi].
      assert (Hn : nth_error items (S b + i) = Some c).
      { rewrite Eit. rewrite nth_error_app2 by lia. replace (S b + i - length l1) with (S i) by lia. exact Hi. }
      pose proof (Habove (S b + i) c ltac:(lia) Hn). lia. }
    assert (Hvals : vals sym items = vals sym l1 ++ vof sym (CAssociativeItem kb vb)).
    { rewrite Eit at 1. rewrite vals_app. unfold vals at 2. cbn [flat_map]. fold (vals sym l2). rewrite Htail, app_nil_r. reflexivity. }
    rewrite Hvals. cbn [vof]. destruct (N.eqb kb sym) eqn:E.
    + apply N.eqb_eq in E. subst kb. cbn [bind]. rewrite Eb. rewrite last_opt_snoc. reflexivity.
    + apply N.eqb_neq in E. rewrite app_nil_r.
      assert (Hhead : vals sym l1 = []).
      { destruct Hat as [->|(cb & Hcb & Hle)]; [destruct l1; [reflexivity|discriminate]|].
        try rewrite Eb in Hcb. inversion Hcb; subst cb. cbn in Hle.
        apply vals_none. intros c Hc. left. apply In_nth_error in Hc. destruct Hc as [i Hi].
        assert (i < length l1) by (apply nth_error_Some; congruence).
        assert (Hn : nth_error items i = Some c) by (rewrite Eit, nth_error_app1 by lia; exact Hi).
        pose proof (keys_mono items Hassoc Hsorted i b _ _ ltac:(lia) Hn Eb) as Hm. cbn in Hm. lia. }
      rewrite Hhead. reflexivity.
Qed.
End SearchLast.

(* per state: the lookup of the runtime returns the value of the last entry for the key *)
Theorem expr_lookup : forall s sym, Inv s -> (forall c, In c (window s BExpr) -> is_assoc c) ->
  StronglySorted le_cell (window s BExpr) ->
  get_symbol_expression sym s = Ok (last_opt (vals sym (window s BExpr))).
Proof.
  intros s sym I Ha Hs. unfold get_symbol_expression. rewrite (block_slice_window s BExpr I). cbn [bind].
  rewrite (search_last (window s BExpr) Ha Hs sym).
  destruct (last_opt (vals sym (window s BExpr))); reflexivity.
Qed.

(* ---- the exact effect of push_to_expression_symbol_block ---- *)
Lemma push_expr_effect : forall sym v s, G s ->
  exists s2, push_to_expression_symbol_block sym v s = Ok (s2, Done tt) /\
    window s2 BExpr = stable_sort assoc_le (window s BExpr ++ [CAssociativeItem sym v]).
Proof.
  intros sym v s Gs. unfold push_to_expression_symbol_block, push_assoc.
  destruct (push_other_ok s BExpr (CAssociativeItem sym v) Gs) as (s1 & H1 & G1 & _ & Hw1 & _); [congruence|].
  pose proof (good_inv s1 (g_good s1 G1)) as I1.
  destruct (sort_range_ok s1 BExpr 0 (cur s1 BExpr) I1) as (s2 & H2 & _ & Hw2 & _); [lia|lia|].
  unfold st, cur in H2. rewrite Nat.add_0_r in H2.
  exists s2. split; [erewrite sbind_done by exact H1; exact H2|].
  rewrite Hw2. rewrite Nat.sub_0_r. cbn [skipn]. rewrite <- (window_len s1 BExpr I1), firstn_all.
  unfold splice_ix. cbn [firstn app]. rewrite skipn_all, app_nil_r. rewrite Hw1. reflexivity.
Qed.

(* ---- every other operation leaves the expression-symbol block alone ---- *)
Definition ekeepsAt {A} (m : BM A) (s : basic) : Prop :=
  forall s' r, Good s -> m s = Ok (s', r) -> Good s' /\ window s' BExpr = window s BExpr.
Definition ekeeps {A} (m : BM A) : Prop := forall s, ekeepsAt m s.

Lemma ekeepsAt_bind : forall A B (m : BM A) (f : A -> BM B) s, ekeepsAt m s ->
  (forall a s1, m s = Ok (s1, Done a) -> ekeepsAt (f a) s1) -> ekeepsAt (sbind m f) s.
Proof.
  intros A B m f s Hm Hf s' r Gs H. unfold sbind in H.
  destruct (m s) as [[s1 [a|e]]|e|p|] eqn:E; try discriminate H.
  - destruct (Hm s1 _ Gs E) as [G1 W1]. destruct (Hf a s1 eq_refl s' r G1 H) as [G2 W2].
    split; [exact G2|congruence].
  - inversion H; subst s' r. exact (Hm s1 _ Gs E).
Qed.

Lemma ekeeps_bind : forall A B (m : BM A) (f : A -> BM B), ekeeps m -> (forall a, ekeeps (f a)) -> ekeeps (sbind m f).
Proof. intros A B m f Hm Hf s. apply ekeepsAt_bind; [apply Hm|intros a s1 _; apply Hf]. Qed.

Lemma ekeeps_ret : forall A (a : A), ekeeps (sret a).
Proof. intros A a s s' r Gs H. inversion H; subst. auto. Qed.
Lemma ekeeps_fail : forall A e, ekeeps (@sfail basic A e).
Proof. intros A e s s' r Gs H. inversion H; subst. auto. Qed.
Lemma ekeeps_sget : ekeeps (@sget basic).
Proof. intros s s' r Gs H. inversion H; subst. auto. Qed.
Lemma ekeeps_sread : forall A (f : basic -> res A), ekeeps (sread f).
Proof. intros A f s s' r Gs H. unfold sread in H. destruct (f s); inversion H; subst; auto. Qed.
Lemma ekeeps_get_data : forall i, ekeeps (get_data i).
Proof. intro i. apply ekeeps_sread. Qed.

Lemma same_store_ekeeps : forall s s', Good s -> same_store s s' -> Good s' /\ window s' BExpr = window s BExpr.
Proof. intros s s' Gs H. split; [eapply same_store_good; eassumption|apply same_store_window; exact H]. Qed.

Ltac same_store_tac := split; [reflexivity|let b0 := fresh "b" in intro b0; destruct b0; reflexivity].

Lemma ekeeps_heads : forall A (f : basic -> basic) (a : outcome A), (forall x, same_store x (f x)) ->
  ekeeps (fun x => Ok (f x, a)).
Proof. intros A f a Hf s s' r Gs H. inversion H; subst. apply same_store_ekeeps; auto. Qed.

Lemma ekeeps_push_data : forall c, ekeeps (push_to_data_block c).
Proof.
  intros c s s' r Gs H. destruct (push_data_raw s c Gs) as (s1 & Hp & (G1 & _ & W & _)).
  rewrite Hp in H. inversion H; subst. split; [exact G1|apply W; congruence].
Qed.

Lemma ekeeps_set_in_block : forall b i c, b <> BExpr -> ekeeps (set_in_block b i c).
Proof.
  intros b i c Hb s s' r Gs H. destruct (le_lt_dec (cur s b) i) as [Hle|Hlt].
  - rewrite (set_in_block_fail s b i c Hle) in H. inversion H; subst. auto.
  - destruct (set_in_block_ok s b i c (good_inv s Gs) Hlt) as (s1 & l' & Hr & I1 & _ & _ & Ho & Hg & _).
    rewrite Hr in H. inversion H; subst s1 r. split; [|apply Ho; congruence].
    destruct Gs as [I P M]. constructor; [exact I1| |]; intro x; [rewrite Hg; apply P|unfold sett; rewrite Hg; apply M].
Qed.

Lemma ekeeps_set_data : forall i c, ekeeps (set_data i c).
Proof. intros. apply ekeeps_set_in_block. congruence. Qed.

Lemma ekeeps_srepeat : forall n (m : BM unit), ekeeps m -> ekeeps (srepeat n m).
Proof.
  induction n as [|n IH]; intros m Hm; cbn [srepeat]; [apply ekeeps_ret|].
  apply ekeeps_bind; [exact Hm|intros _; apply IH; exact Hm].
Qed.

(* sorting a range that starts in the data block (or later) *)
Lemma ekeepsAt_sort_range : forall a b s, st s BData <= a -> ekeepsAt (sort_range a b) s.
Proof.
  intros a b s Ha s' r Gs H. unfold sort_range in H.
  destruct (slice_ix (heap s) a b) as [sl|] eqn:E; [|discriminate H].
  unfold slice_ix in E. destruct ((a <=? b) && (b <=? length (heap s))) eqn:Eb; [|discriminate E].
  apply andb_true_iff in Eb. destruct Eb as [E1 E2]. apply Nat.leb_le in E1. apply Nat.leb_le in E2.
  inversion E; subst sl. clear E. inversion H; subst s' r. clear H.
  set (sl := firstn (b - a) (skipn a (heap s))).
  assert (Lsl : length sl = b - a) by (unfold sl; rewrite firstn_length, skipn_length; lia).
  set (h' := splice_ix (heap s) a b (stable_sort assoc_le sl)).
  assert (Lh : length h' = length (heap s)).
  { unfold h'. apply splice_ix_length; [lia|lia|]. rewrite stable_sort_length. lia. }
  assert (Hg : forall b2, get_block (set_heap s h') b2 = get_block s b2) by (intro; apply get_block_set_heap).
  destruct Gs as [I P M]. split.
  - constructor; [constructor| |].
    + intro b2. unfold st, sz. rewrite Hg. pose proof (inv_start s I b2) as Hs. unfold st in Hs. rewrite Hs.
      destruct b2; cbn [offset]; unfold sz; rewrite ?Hg; reflexivity.
    + intro b2. unfold cur, sz. rewrite Hg. apply (inv_cursor s I).
    + cbn [heap set_heap]. rewrite Lh, (inv_len s I). unfold total_size, sz. rewrite !Hg. reflexivity.
    + intro x. rewrite Hg. apply P.
    + intro x. unfold sett. rewrite Hg. apply M.
  - apply window_ext.
    + unfold cur. rewrite Hg. reflexivity.
    + intros j Hj. unfold st at 1. rewrite Hg. fold (st s BExpr). cbn [heap set_heap].
      assert (Hlt : st s BExpr + j < a).
      { pose proof (inv_start s I BExpr) as S1. pose proof (inv_start s I BData) as S2.
        pose proof (inv_cursor s I BExpr) as C1. cbn [offset] in S1, S2. lia. }
      unfold h', splice_ix. rewrite nth_error_app1 by (rewrite firstn_length; lia).
      apply nth_error_firstn_lt. exact Hlt.
Qed.

Ltac kp := repeat first
  [ apply ekeeps_ret | apply ekeeps_fail | apply ekeeps_get_data | apply ekeeps_set_data | apply ekeeps_push_data
  | apply ekeeps_sget
  | (apply ekeeps_heads; intro; same_store_tac)
  | (apply ekeeps_bind; [|intro])
  | match goal with |- ekeeps (match ?x with _ => _ end) => destruct x end ].

Lemma ekeeps_push_value_stack : forall a, ekeeps (push_value_stack a).
Proof. intro a. unfold push_value_stack. kp. Qed.
Lemma ekeeps_push_register : forall a, ekeeps (push_register a).
Proof. intro a. unfold push_register. kp. Qed.
Lemma ekeeps_push_frame : forall n, ekeeps (push_frame n).
Proof. intro n. unfold push_frame. kp. Qed.
Lemma ekeeps_start_list : forall n, ekeeps (start_list n).
Proof. intro n. unfold start_list. kp. apply ekeeps_srepeat. kp. Qed.
Lemma ekeeps_add_to_list : forall l i, ekeeps (add_to_list l i).
Proof. intros l i. unfold add_to_list. kp. Qed.

Ltac crush H := repeat match type of H with
  | context [match ?x with _ => _ end] => destruct x eqn:?; try discriminate H
  end.
Ltac fin H := inversion H; subst; apply same_store_ekeeps; [assumption|same_store_tac].

Lemma ekeeps_pop_value_stack : ekeeps pop_value_stack.
Proof. intros s s' r Gs H. unfold pop_value_stack in H. crush H; fin H. Qed.
Lemma ekeeps_pop_register : ekeeps pop_register.
Proof. intros s s' r Gs H. unfold pop_register in H. crush H; fin H. Qed.
Lemma ekeeps_pop_frame : ekeeps pop_frame.
Proof. intros s s' r Gs H. unfold pop_frame in H. crush H; fin H. Qed.

Ltac fin2 H := first [ fin H | (inversion H; subst; eapply ekeeps_set_in_block; [|eassumption|eassumption]; congruence) ].

Lemma ekeeps_set_current_value : forall v, ekeeps (set_current_value v).
Proof. intros v s s' r Gs H. unfold set_current_value, set_data in H. crush H; fin2 H. Qed.
Lemma ekeeps_set_jump_table : forall i v, ekeeps (set_jump_table i v).
Proof. intros i v s s' r Gs H. unfold set_jump_table in H. crush H; fin2 H. Qed.

Lemma ekeeps_spanic : forall A p, ekeeps (@spanic basic A p).
Proof. intros A p s s' r Gs H. discriminate H. Qed.

Lemma ekeeps_end_list : forall l, ekeeps (end_list l).
Proof.
  intros l s. unfold end_list. apply ekeepsAt_bind; [apply ekeeps_get_data|]. intros a s1 _.
  destruct a; try apply ekeeps_fail. destruct (count <? len); [apply ekeeps_fail|].
  apply ekeepsAt_bind; [apply ekeeps_sget|]. intros s2 s3 E2. inversion E2; subst s2 s3. cbv zeta.
  destruct (slice_ix (heap s1) _ _); [|apply ekeeps_spanic].
  apply ekeepsAt_bind; [apply ekeepsAt_sort_range; unfold st; cbn [get_block]; lia|]. intros _ s4 _.
  apply ekeeps_bind; [apply ekeeps_set_data|]. intros _. apply ekeeps_ret.
Qed.

Lemma lift_ekeeps : forall A (f : A -> result) (m : BM A) s s' r, ekeeps m -> Good s -> lift f m s = Ok (s', r) ->
  window s' BExpr = window s BExpr.
Proof.
  intros A f m s s' r Hm Gs H. unfold lift in H.
  destruct (m s) as [[s1 [a|e]]|e|p|] eqn:E; try discriminate H; inversion H; subst; exact (proj2 (Hm s _ _ Gs E)).
Qed.


Lemma ekeeps_push_to : forall b c, b <> BExpr -> ekeeps (push_to b c).
Proof.
  intros b c Hb s s' r Gs H. destruct (push_to_ok s b c Gs) as (s1 & Hp & G1 & _ & Ho & _).
  rewrite Hp in H. inversion H; subst. split; [exact G1|apply Ho; congruence].
Qed.

Lemma ekeeps_push_all : forall cells, ekeeps (push_all cells).
Proof.
  intros cells s s' r Gs H. destruct (push_all_raw cells s Gs) as (s1 & Hp & (G1 & _ & W & _)).
  rewrite Hp in H. inversion H; subst. split; [exact G1|apply W; congruence].
Qed.

Lemma parse_add_symbol_keeps_expr : forall (f : nat -> result) sym bl name s s' r, G s ->
  lift f (parse_add_symbol sym bl name) s = Ok (s', r) -> window s' BExpr = window s BExpr.
Proof.
  intros f sym bl name s s' r Gs H.
  destruct (parse_add_symbol_effect sym bl name s Gs) as (s4 & H4 & _).
  rewrite (lift_inv _ _ _ _ _ _ _ _ H4 H). clear H s' r.
  unfold parse_add_symbol in H4.
  destruct (push_data_ok s (CSymbol sym) Gs) as (s1 & H1 & G1 & _ & (_ & _ & W1 & _)); [plain_tac|].
  destruct (push_data_ok s1 (CCharList bl) G1) as (s2 & H2 & G2 & _ & (_ & _ & W2 & _)); [plain_tac|].
  destruct (push_all_ok (map CChar name) s2 G2 (plain_chars name)) as (s3 & H3 & G3 & _ & (_ & _ & W3 & _)).
  erewrite sbind_done in H4 by exact H1. erewrite sbind_done in H4 by exact H2. erewrite sbind_done in H4 by exact H3.
  unfold push_to_symbol_table_block, push_assoc in H4.
  destruct (push_other_ok s3 BSym (CAssociativeItem sym (length (data s1))) G3) as (s3' & H5 & G5 & _ & _ & Ho5 & _); [congruence|].
  pose proof (good_inv s3' (g_good s3' G5)) as I5.
  destruct (sort_range_ok s3' BSym 0 (cur s3' BSym) I5) as (s6 & H6 & _ & _ & Ho6 & _); [lia|lia|].
  unfold st, cur in H6. rewrite Nat.add_0_r in H6.
  erewrite sbind_done in H4 by (erewrite sbind_done by exact H5; exact H6).
  inversion H4; subst s4. rewrite Ho6, Ho5, W3, W2, W1 by congruence. reflexivity.
Qed.

Definition is_expr_op (o : op) : bool := match o with OExprSym _ _ => true | _ => false end.

Ltac kp2 := repeat first
  [ apply ekeeps_ret | apply ekeeps_push_data | apply ekeeps_push_all
  | (apply ekeeps_bind; [|intro]) ].

Theorem other_ops_keep_exprs : forall o s s' r, G s -> is_expr_op o = false -> bstep o s = Ok (s', r) ->
  window s' BExpr = window s BExpr.
Proof.
  intros o s s' r Gs Hn H. pose proof (g_good s Gs) as Gd.
  destruct o; try discriminate Hn; cbn [bstep] in H;
    try (eapply lift_ekeeps; [|exact Gd|exact H]; first
      [ apply ekeeps_push_data | apply ekeeps_set_jump_table | apply ekeeps_start_list | apply ekeeps_add_to_list
      | apply ekeeps_end_list | apply ekeeps_push_register | apply ekeeps_pop_register | apply ekeeps_push_value_stack
      | apply ekeeps_pop_value_stack | apply ekeeps_set_current_value | apply ekeeps_push_frame | apply ekeeps_pop_frame
      | (unfold push_to_instruction_block, push_to_jump_table_block, push_to_custom_data_block; apply ekeeps_push_to; congruence)
      | (unfold add_string, add_byte_slice; kp2) ]; fail).
  - eapply parse_add_symbol_keeps_expr; eassumption.
  - inversion H. reflexivity.
Qed.

(* the push, as a step of the history vocabulary *)
Theorem expr_push_step : forall sym v s s' r, G s -> bstep (OExprSym sym v) s = Ok (s', r) ->
  window s' BExpr = stable_sort assoc_le (window s BExpr ++ [CAssociativeItem sym v]).
Proof.
  intros sym v s s' r Gs H. cbn [bstep] in H. destruct (push_expr_effect sym v s Gs) as (s2 & H2 & Hw).
  rewrite (lift_inv _ _ _ _ _ _ _ _ H2 H). exact Hw.
Qed.

(* ---- lifted to histories ---- *)
Definition pof (sym : N) (o : op) : list nat :=
  match o with OExprSym k v => if N.eqb k sym then [v] else [] | _ => [] end.
(* the values pushed for a symbol, in the order of the history *)
Definition expr_pushes (sym : N) (ops : list op) : list nat := flat_map (pof sym) ops.

Record ExprOk (s : basic) (pre : list op) : Prop := {
  eo_assoc : forall c, In c (window s BExpr) -> is_assoc c;
  eo_sorted : StronglySorted le_cell (window s BExpr);
  eo_vals : forall k, vals k (window s BExpr) = expr_pushes k pre }.

Lemma expr_pushes_app : forall sym a b, expr_pushes sym (a ++ b) = expr_pushes sym a ++ expr_pushes sym b.
Proof. intros. unfold expr_pushes. apply flat_map_app. Qed.

Lemma step_expr : forall o s s' r pre, G s -> ExprOk s pre -> bstep o s = Ok (s', r) -> G s' /\ ExprOk s' (pre ++ [o]).
Proof.
  intros o s s' r pre Gs [Ha Hs Hv] H.
  destruct (bstep_ok o s Gs) as (s2 & r2 & H2 & G2 & _). rewrite H in H2. inversion H2; subst s2 r2. clear H2.
  split; [exact G2|]. destruct (is_expr_op o) eqn:E.
  - destruct o; try discriminate E. pose proof (expr_push_step sym v s s' r Gs H) as Hw. constructor; rewrite Hw.
    + intros c Hc. eapply Permutation_in in Hc; [|apply Permutation_sym, stable_sort_perm].
      apply in_app_or in Hc. destruct Hc as [Hc|[<-|[]]]; [apply Ha; exact Hc|]. eexists. eexists. reflexivity.
    + apply stable_sort_sorted.
    + intro k. rewrite vals_sort, vals_app, expr_pushes_app, Hv. unfold vals, expr_pushes. cbn. reflexivity.
  - pose proof (other_ops_keep_exprs o s s' r Gs E H) as Hw. constructor; rewrite Hw; [exact Ha|exact Hs|].
    intro k. rewrite expr_pushes_app, Hv. unfold expr_pushes at 2. cbn [flat_map].
    destruct o; try discriminate E; cbn; rewrite app_nil_r; reflexivity.
Qed.

Lemma run_expr : forall ops s s' rs pre, G s -> ExprOk s pre -> run bstep ops s = Ok (s', rs) -> G s' /\ ExprOk s' (pre ++ ops).
Proof.
  induction ops as [|o rest IH]; intros s s' rs pre Gs Hs H.
  - cbn in H. inversion H; subst s' rs. rewrite app_nil_r. auto.
  - destruct (bstep_ok o s Gs) as (s1 & r & H1 & _ & _).
    cbn [run] in H. rewrite H1 in H. cbn [bind fst snd] in H.
    destruct (step_expr o s s1 r pre Gs Hs H1) as (G1 & Hs1).
    destruct (run_ok rest s1 G1) as (s2 & rs2 & H2 & _). rewrite H2 in H. cbn [bind fst snd] in H.
    inversion H; subst s' rs. clear H.
    replace (pre ++ o :: rest) with ((pre ++ [o]) ++ rest) by (rewrite <- app_assoc; reflexivity).
    exact (IH s1 s2 rs2 (pre ++ [o]) G1 Hs1 H2).
Qed.

Lemma expr_lookup_ok : forall s pre sym, G s -> ExprOk s pre ->
  get_symbol_expression sym s = Ok (last_opt (expr_pushes sym pre)).
Proof.
  intros s pre sym Gs [Ha Hs Hv]. rewrite (expr_lookup s sym (good_inv s (g_good s Gs)) Ha Hs), Hv. reflexivity.
Qed.

(* the headline over every history *)
Theorem expression_symbol_readback : forall si sj ss se sd sc ops1 ops2,
  progressing si -> progressing sj -> progressing ss -> progressing se -> progressing sd -> progressing sc ->
  exists s0 s1 s2 r1 r2,
    new_with_settings si sj ss se sd sc = Ok (s0, Done tt) /\
    run bstep ops1 s0 = Ok (s1, r1) /\ run bstep ops2 s1 = Ok (s2, r2) /\
    (forall sym, get_symbol_expression sym s1 = Ok (last_opt (expr_pushes sym ops1)) /\
                 get_symbol_expression sym s2 = Ok (last_opt (expr_pushes sym (ops1 ++ ops2)))).
Proof.
  intros si sj ss se sd sc ops1 ops2 P1 P2 P3 P4 P5 P6.
  destruct (fresh_store_ok si sj ss se sd sc P1 P2 P3 P4 P5 P6) as (s0 & H0 & G0 & Hempty).
  destruct (run_ok ops1 s0 G0) as (s1 & r1 & H1 & _).
  assert (Hs0 : ExprOk s0 []).
  { constructor; rewrite (Hempty BExpr); [intros c []|constructor|reflexivity]. }
  destruct (run_expr ops1 s0 s1 r1 [] G0 Hs0 H1) as (G1 & Hs1). cbn [app] in Hs1.
  destruct (run_ok ops2 s1 G1) as (s2 & r2 & H2 & _).
  destruct (run_expr ops2 s1 s2 r2 ops1 G1 Hs1 H2) as (G2 & Hs2).
  exists s0, s1, s2, r1, r2. split; [exact H0|]. split; [exact H1|]. split; [exact H2|].
  intro sym. split; [exact (expr_lookup_ok s1 ops1 sym G1 Hs1)|exact (expr_lookup_ok s2 (ops1 ++ ops2) sym G2 Hs2)].
Qed.

(* reading [last_opt (expr_pushes sym ops)]: the value of the last push for the symbol; None without one *)
Lemma last_push_is : forall sym v a b, (forall v', ~ In (OExprSym sym v') b) ->
  last_opt (expr_pushes sym (a ++ OExprSym sym v :: b)) = Some v.
Proof.
  intros sym v a b Hb. rewrite expr_pushes_app. unfold expr_pushes at 2. cbn [flat_map pof]. rewrite N.eqb_refl.
  assert (E : flat_map (pof sym) b = []).
  { induction b as [|o r IH]; [reflexivity|]. cbn [flat_map]. rewrite IH by (intros v' Hi; apply (Hb v'); right; exact Hi).
    rewrite app_nil_r. destruct o; try reflexivity. cbn [pof]. destruct (N.eqb_spec sym0 sym); [|reflexivity].
    subst. exfalso. apply (Hb v0). left. reflexivity. }
  rewrite E. cbn [app]. apply last_opt_snoc.
Qed.

Lemma no_push_none : forall sym ops, (forall v, ~ In (OExprSym sym v) ops) -> last_opt (expr_pushes sym ops) = None.
Proof.
  intros sym ops Hb.
  assert (E : expr_pushes sym ops = []).
  { unfold expr_pushes. induction ops as [|o r IH]; [reflexivity|]. cbn [flat_map]. rewrite IH by (intros v' Hi; apply (Hb v'); right; exact Hi).
    rewrite app_nil_r. destruct o; try reflexivity. cbn [pof]. destruct (N.eqb_spec sym0 sym); [|reflexivity].
    subst. exfalso. apply (Hb v). left. reflexivity. }
  rewrite E. reflexivity.
Qed.

Theorem expression_symbol_readback_cases : forall si sj ss se sd sc ops,
  progressing si -> progressing sj -> progressing ss -> progressing se -> progressing sd -> progressing sc ->
  exists s0 s1 r1,
    new_with_settings si sj ss se sd sc = Ok (s0, Done tt) /\ run bstep ops s0 = Ok (s1, r1) /\
    (forall sym v a b, ops = a ++ OExprSym sym v :: b -> (forall v', ~ In (OExprSym sym v') b) ->
       get_symbol_expression sym s1 = Ok (Some v)) /\
    (forall sym, (forall v, ~ In (OExprSym sym v) ops) -> get_symbol_expression sym s1 = Ok None).
Proof.
  intros si sj ss se sd sc ops P1 P2 P3 P4 P5 P6.
  destruct (expression_symbol_readback si sj ss se sd sc ops [] P1 P2 P3 P4 P5 P6) as (s0 & s1 & s2 & r1 & r2 & H0 & H1 & _ & Hl).
  exists s0, s1, r1. split; [exact H0|]. split; [exact H1|]. split.
  - intros sym v a b -> Hb. rewrite (proj1 (Hl sym)). f_equal. apply last_push_is; exact Hb.
  - intros sym Hn. rewrite (proj1 (Hl sym)). f_equal. apply no_push_none; exact Hn.
Qed.
