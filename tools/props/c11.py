"""C11 Equality is structural and an equivalence relation."""
import math, os, struct
from fractions import Fraction
import vplib
from vplib import Verdict, log

PID = "C11"
MANIFEST_ENTRY = {
 "level_claimed": {
  "category": "proof",
  "text": "Theorems in coq/Properties/C11.v about the executable model coq/Model/Equality.v of perform_equality_check / data_equal / push_iterator_values (the type-pair arms of data_equal, each recognised by its body, are regenerated from equality.rs into Gen/EqTable.v on every run; the operand stack is a list used as the worklist): for all value trees over unit, booleans, numbers, chars, bytes, symbols, symbol lists, char lists, byte lists, pairs, lists and concatenations, Equal pushes True iff the operands have the same canonical form (Spec/StructEq.v: numbers numerically, a char/byte as the one-element list, lists and concatenations as the flat sequence of their items), NotEqual pushes the negation, and on every exit - including an early mismatch deep inside nested data - the registers below the two operands are exactly what they were, with explicit fuel bounded by the tree sizes; struct_eq is reflexive on NaN-free values, symmetric and transitive. The model is run against both data implementations on small-exhaustive and random value trees, near-miss mutants, shared sub-values and equal values at different addresses on every check; an independent Python structural-equality oracle checks the implementation and the relational laws over pairs and triples directly.",
  "design_ref": "DESIGN.md section 8 C11"
 },
 "level_note": "Trusted: Coq kernel; Flocq's four standard-library axioms (number equality goes through the reals); extraction (ExtrOcamlBasic only); harness/valtree.rs, ocaml/eq_driver.ml and this Python oracle. Modelled, not proved about the Rust: the getters and item iterators of the two data implementations (abstracted to value trees: a list yields its items, a concatenation the left-to-right flattening in which nested concatenations and lists are spliced; tied by the correspondence run on both implementations). Ranges, slices, partials and custom values are outside the property's domain; the model gives a distinguished error for range/slice pairs.",
 "technique": "Coq proof (well-founded induction on the pending-pairs measure, induction on canonical trees, Flocq for numeric equality) over an executable model + generated arm table + differential correspondence with both data implementations"
}
I32_MIN, I32_MAX = -2**31, 2**31 - 1


# ------------------------------------------------------------------ value trees
def hx(v):
    return ("-%x" % -v) if v < 0 else ("%x" % v)


def enc_f(x):
    return "f%016x" % struct.unpack("<Q", struct.pack("<d", x))[0]


class P:
    """parser of the textual value format (harness/src/valtree.rs) into Python tuples"""

    def __init__(self, s, env=None):
        self.s, self.i, self.env = s, 0, env if env is not None else {}

    def peek(self):
        return self.s[self.i] if self.i < len(self.s) else "\0"

    def skip(self):
        while self.peek() == " ":
            self.i += 1

    def word(self):
        st = self.i
        while self.i < len(self.s) and self.s[self.i] not in " )(,][=":
            self.i += 1
        return self.s[st:self.i]

    def hexlist(self):
        assert self.peek() == "["
        self.i += 1
        out = []
        while True:
            if self.peek() == "]":
                self.i += 1
                return out
            if self.peek() == ",":
                self.i += 1
                continue
            out.append(int(self.word(), 16))

    def value(self):
        c = self.peek()
        self.i += 1
        if c in "UTF": return (c,)
        if c == "i": return ("num", int(self.word(), 16))
        if c == "f": return ("num", struct.unpack("<d", struct.pack("<Q", int(self.word(), 16)))[0])
        if c == "c": return ("char", int(self.word(), 16))
        if c == "b": return ("byte", int(self.word(), 16))
        if c == "s": return ("sym", int(self.word(), 16))
        if c == "Y": return ("type", int(self.word()))
        if c == "E": return ("expr", int(self.word(), 16))
        if c == "X": return ("ext", int(self.word(), 16))
        if c == "C": return ("chars", tuple(self.hexlist()))
        if c == "B": return ("bytes", tuple(self.hexlist()))
        if c == "S": return ("symlist", tuple(self.hexlist()))
        if c == "!": return self.value()
        if c == "#":
            name = self.word()
            assert self.peek() == "="
            self.i += 1
            v = self.value()
            self.env[name] = v
            return v
        if c == "$": return self.env[self.word()]
        if c == "(":
            k = self.peek()
            self.i += 1
            if k == "L":
                items = []
                while True:
                    self.skip()
                    if self.peek() == ")":
                        self.i += 1
                        return ("list", tuple(items))
                    items.append(self.value())
            self.skip(); a = self.value(); self.skip(); b = self.value(); self.skip()
            assert self.peek() == ")"
            self.i += 1
            return ({"P": "pair", "K": "concat", "R": "range", "Z": "slice", "A": "partial"}[k], a, b)
        raise ValueError("bad value syntax in %r at %d" % (self.s, self.i))


def parse_case(case):
    p = P(case)
    p.skip(); a = p.value(); p.skip(); b = p.value()
    return a, b


# ------------------------------------------------ independent property oracle
def flat(v):
    if v[0] == "concat": return flat(v[1]) + flat(v[2])
    if v[0] == "list": return list(v[1])
    return [v]


def canon(v):
    k = v[0]
    if k == "char": return ("chars", (v[1],))
    if k == "byte": return ("bytes", (v[1],))
    if k == "pair": return ("pair", canon(v[1]), canon(v[2]))
    if k == "list": return ("seq", tuple(canon(x) for x in v[1]))
    if k == "concat": return ("seq", tuple(canon(x) for x in flat(v)))
    return v


def num_eq(a, b):
    for x in (a, b):
        if isinstance(x, float) and x != x:
            return False
    if isinstance(a, float) and math.isinf(a) or isinstance(b, float) and math.isinf(b):
        return isinstance(a, float) and isinstance(b, float) and a == b
    return Fraction(a) == Fraction(b)


def ceq(a, b):
    if a[0] != b[0]: return False
    k = a[0]
    if k == "num": return num_eq(a[1], b[1])
    if k == "pair": return ceq(a[1], b[1]) and ceq(a[2], b[2])
    if k == "seq": return len(a[1]) == len(b[1]) and all(ceq(x, y) for x, y in zip(a[1], b[1]))
    if k in ("range", "slice", "partial"): return None
    return a == b


def struct_eq(a, b):
    return ceq(canon(a), canon(b))


def has_nan(v):
    if v[0] == "num": return isinstance(v[1], float) and v[1] != v[1]
    if v[0] in ("pair", "concat"): return has_nan(v[1]) or has_nan(v[2])
    if v[0] == "list": return any(has_nan(x) for x in v[1])
    return False


def size(v):
    if v[0] in ("pair", "concat"): return 1 + size(v[1]) + size(v[2])
    if v[0] == "list": return 1 + sum(size(x) for x in v[1])
    return 1


def classify(case, field, exp):
    """known-findings classifier: no listed findings for C11."""
    return None


# ---------------------------------------------------------------- generators
SMALL_LEAVES = ["U", "i1", "f3ff0000000000000", "c61", "C[61]", "C[]", "(L)"]
LEAVES = ["U", "T", "F", "i0", "i1", "i-1", "i7fffffff", "i-80000000", "f3ff0000000000000", "f3fe0000000000000",
          "f8000000000000000", "f0000000000000000", "f41dfffffffc00000", "fc1e0000000000000", "f7ff0000000000000",
          # whole floats just outside the i32 range (a saturating or wrapping cast makes them equal to MAX / MIN)
          "f41e0000000000000", "f41e65a0bc0000000", "fc1e0000000200000", "f7e37e43c8800759c", "f41f0000000000000",
          "c61", "c62", "ce9", "c1f600", "b61", "b62", "bff", "s1", "s2", "S[1,2]", "S[1,3]", "S[1,2,3]", "S[2,1]",
          "C[]", "C[61]", "C[62]", "C[61,62]", "C[e9]", "C[61,e9,62]", "C[1f600]",
          "B[]", "B[61]", "B[62]", "B[61,62]", "B[ff]", "(L)"]
NAN = "f7ff8000000000000"
# same-value neighbours of some leaves (must stay equal) ...
EQUAL_ALTERNATIVES = {
    "i0": ["f0000000000000000", "f8000000000000000"], "i1": ["f3ff0000000000000"], "f3ff0000000000000": ["i1"],
    "i7fffffff": ["f41dfffffffc00000"], "i-80000000": ["fc1e0000000000000"],
    "c61": ["C[61]"], "C[61]": ["c61", "!C[61]"], "ce9": ["C[e9]"], "C[e9]": ["ce9", "!C[e9]"], "c1f600": ["C[1f600]"],
    "b61": ["B[61]"], "B[61]": ["b61", "!B[61]"], "bff": ["B[ff]"], "B[ff]": ["bff"],
    "C[61,62]": ["!C[61,62]"], "B[61,62]": ["!B[61,62]"], "C[]": ["!C[]"], "B[]": ["!B[]"],
    "(L)": ["(K (L) (L))"],
}
# ... and near misses (must become different)
def near_miss_leaf(rng, leaf):
    choices = [x for x in LEAVES if x != leaf]
    cand = rng.choice(choices)
    return cand


def gen_tree(rng, depth, width):
    """random tree as nested Python lists: ['leaf', text] | ['P', a, b] | ['K', a, b] | ['L', items...]"""
    if depth == 0 or rng.random() < 0.3:
        return ["leaf", rng.choice(LEAVES)]
    k = rng.random()
    if k < 0.3:
        return ["P", gen_tree(rng, depth - 1, width), gen_tree(rng, depth - 1, width)]
    if k < 0.55:
        return ["K", gen_tree(rng, depth - 1, width), gen_tree(rng, depth - 1, width)]
    n = rng.randint(0, width)
    return ["L"] + [gen_tree(rng, depth - 1, width) for _ in range(n)]


def show(t):
    if t[0] == "leaf": return t[1]
    if t[0] == "L": return "(L" + "".join(" " + show(x) for x in t[1:]) + ")"
    return "(%s %s %s)" % (t[0], show(t[1]), show(t[2]))


def copy(t):
    return [t[0]] + [copy(x) if isinstance(x, list) else x for x in t[1:]]


def positions(t, path=()):
    out = [path]
    if t[0] != "leaf":
        for i, x in enumerate(t[1:], 1):
            out += positions(x, path + (i,))
    return out


def get_at(t, path):
    for i in path:
        t = t[i]
    return t


def set_at(t, path, new):
    if not path:
        return new
    t = copy(t)
    cur = t
    for i in path[:-1]:
        cur = cur[i]
    cur[path[-1]] = new
    return t


def equal_variant(rng, t):
    """a differently built tree that must compare equal (oracle decides anyway)"""
    t = copy(t)
    for _ in range(rng.randint(1, 3)):
        path = rng.choice(positions(t))
        node = get_at(t, path)
        if node[0] == "leaf":
            alts = EQUAL_ALTERNATIVES.get(node[1])
            if alts:
                t = set_at(t, path, ["leaf", rng.choice(alts)])
        elif node[0] == "K":
            a, b = node[1], node[2]
            r = rng.random()
            if r < 0.4 and b[0] == "K":        # (K a (K b c)) -> (K (K a b) c)
                t = set_at(t, path, ["K", ["K", a, b[1]], b[2]])
            elif r < 0.8 and a[0] == "K":      # (K (K a b) c) -> (K a (K b c))
                t = set_at(t, path, ["K", a[1], ["K", a[2], b]])
            elif a[0] not in ("K", "L") and b[0] not in ("K", "L"):
                t = set_at(t, path, ["L", a, b])
        elif node[0] == "L":
            items = node[1:]
            if len(items) == 2 and all(x[0] not in ("K", "L") for x in items) and rng.random() < 0.5:
                t = set_at(t, path, ["K", items[0], items[1]])
            elif len(items) >= 2 and rng.random() < 0.5:   # (L a b c) -> (K (L a) (L b c))
                k = rng.randint(1, len(items) - 1)
                t = set_at(t, path, ["K", ["L"] + items[:k], ["L"] + items[k:]])
    return t


def near_miss(rng, t):
    """a small mutation that usually changes the value"""
    t = copy(t)
    path = rng.choice(positions(t))
    node = get_at(t, path)
    r = rng.random()
    if node[0] == "leaf":
        return set_at(t, path, ["leaf", near_miss_leaf(rng, node[1])])
    if node[0] == "L":
        items = node[1:]
        if r < 0.3 and items:
            k = rng.randrange(len(items))
            return set_at(t, path, ["L"] + items[:k] + items[k + 1:])
        if r < 0.6:
            k = rng.randint(0, len(items))
            return set_at(t, path, ["L"] + items[:k] + [["leaf", rng.choice(LEAVES)]] + items[k:])
        if r < 0.8 and len(items) >= 2:
            i, j = rng.sample(range(len(items)), 2)
            items = list(items)
            items[i], items[j] = items[j], items[i]
            return set_at(t, path, ["L"] + items)
        return set_at(t, path, ["L", node])
    if r < 0.4:
        return set_at(t, path, [node[0], node[2], node[1]])
    if r < 0.7:
        return set_at(t, path, ["P" if node[0] == "K" else "K", node[1], node[2]])
    return set_at(t, path, node[1])


def deep_chain(n):
    """two long nested structures whose only difference is the innermost leaf, `n` levels down:
    many pairs are pending on the operand stack when the mismatch is found"""
    def build(k, poison):
        if k == 0:
            return ["leaf", "i2" if poison else "i1"]
        inner = build(k - 1, poison)
        filler = [["leaf", "C[61,62]"], ["P", ["leaf", "i1"], ["leaf", "U"]]]
        if k % 3 == 0:
            return ["L", filler[0], inner, filler[1], ["leaf", "i%x" % k]]
        if k % 3 == 1:
            return ["P", inner, ["L", filler[1], ["leaf", "b61"]]]
        return ["K", ["L", ["leaf", "s1"], inner], ["L", filler[0]]]
    return build(n, False), build(n, True)


# ---- one stored compound value used several times inside ONE operand ----
SHARED_SUBS = ["(K i1 i2)", "(K (K i1 i2) i3)", "(K (L i1) i2)", "(K i1 (L))", "(K C[61] c62)", "(L i1 i2)", "(L)", "(L (K i1 i2))",
               "(P i1 i2)", "(P (K i1 i2) U)"]
# containers: %(d)s is the defining occurrence `#c=<sub>`, %(r)s every later occurrence `$c`
SHARED_CONTAINERS = ["(K %(d)s %(r)s)", "(K (K %(d)s %(r)s) %(r)s)", "(K %(d)s (K i3 %(r)s))", "(K (K %(d)s i3) %(r)s)",
                     "(K (L %(d)s) %(r)s)", "(K %(d)s (L %(r)s))", "(L %(d)s %(r)s)", "(L %(d)s i3 %(r)s)", "(P %(d)s %(r)s)",
                     "(K (P %(d)s %(r)s) %(r)s)", "(L (K %(d)s %(r)s) %(r)s)", "(P (K %(d)s %(r)s) (K %(r)s %(r)s))"]


def text_of(v):
    """a parsed value (Python tuples) back to case text, nothing shared"""
    k = v[0]
    if k in "UTF" and len(v) == 1: return k
    if k == "num":
        return ("i" + hx(v[1])) if isinstance(v[1], int) else enc_f(v[1])
    if k == "char": return "c%x" % v[1]
    if k == "byte": return "b%x" % v[1]
    if k == "sym": return "s%x" % v[1]
    if k == "chars": return "C[" + ",".join("%x" % c for c in v[1]) + "]"
    if k == "bytes": return "B[" + ",".join("%x" % c for c in v[1]) + "]"
    if k == "symlist": return "S[" + ",".join("%x" % c for c in v[1]) + "]"
    if k == "list": return "(L" + "".join(" " + text_of(x) for x in v[1]) + ")"
    return "(%s %s %s)" % ({"pair": "P", "concat": "K"}[k], text_of(v[1]), text_of(v[2]))


def sharing_cases(container, sub):
    """cases for one operand that uses the stored value `sub` several times: against the same tree with
    every occurrence built separately, against its flat item list, against the tree in which the
    repeated occurrences are missing (must differ), and against itself"""
    shared = container % {"d": "#c=" + sub, "r": "$c"}
    unshared = container % {"d": sub, "r": sub}
    alt = container % {"d": sub, "r": "!" + sub}
    out = [(shared, unshared), (unshared, shared), (shared, alt), (shared, shared.replace("#c=", "#c2=").replace("$c", "$c2")),
           ("#w=" + shared, "$w")]
    v = P(unshared).value()
    if v[0] == "concat":
        items = flat(v)
        out.append((shared, "(L" + "".join(" " + text_of(x) for x in items) + ")"))
        out.append(("(L" + "".join(" " + text_of(x) for x in items) + ")", shared))
        n_sub = len(flat(P(sub).value()))
        for cut in {n_sub, len(items) - n_sub}:      # what a walk that visits `sub` only once would see
            if 0 < cut < len(items) or (cut == 0 and items):
                once = "(L" + "".join(" " + text_of(x) for x in items[:cut]) + ")"
                out.append((shared, once))
                out.append((once, shared))
        out.append((shared, sub))
        out.append((sub, shared))
    return out


def share_in_tree(rng, t):
    """pick a compound sub-tree of t and use it a second time elsewhere in t; returns (shared text, unshared text) or None"""
    allp = positions(t)
    cands = [(a, b) for a in allp if a and get_at(t, a)[0] in ("K", "L", "P")
             for b in allp if b and b > a and b[:len(a)] != a and a[:len(b)] != b]
    if not cands:
        return None
    src, dst = rng.choice(cands)
    sub = get_at(t, src)
    sub_text = show(sub)
    shared = show(set_at(set_at(t, dst, ["leaf", "$c"]), src, ["leaf", "#c=" + sub_text]))
    unshared = show(set_at(t, dst, sub))
    return shared, unshared


def small_trees():
    A = SMALL_LEAVES
    out = list(A)
    for x in A:
        out.append("(L %s)" % x)
        for y in A:
            out.append("(P %s %s)" % (x, y))
            out.append("(L %s %s)" % (x, y))
            out.append("(K %s %s)" % (x, y))
    return out


def gen_cases(tier, seed):
    rng = vplib.rng_for(seed, "C11")
    cases, triples = [], []
    # 1. small-exhaustive: all ordered pairs of trees of depth <= 1 over a 7-leaf alphabet
    st = small_trees()
    if tier != "thorough":
        # quick: all pairs over the 60 trees built from 4 leaves, plus a sample of the rest
        keep = [t for t in st if all(l not in t for l in ["f3ff", "C[]", "c61"])]
        rest = [t for t in st if t not in keep]
        st = keep + rng.sample(rest, 25)
    for a in st:
        for b in st:
            cases.append("%s %s" % (a, b))
    exhaustive_set = list(st)
    # 2. all pairs of leaves (numbers numerically, char ~ one-element list, NaN)
    lv = LEAVES + [NAN]
    for a in lv:
        for b in lv:
            cases.append("%s %s" % (a, b))
    # 3. random trees with equal variants, near misses, shared sub-values, other addresses
    n_rand = 6000 if tier == "thorough" else 700
    for _ in range(n_rand):
        t = gen_tree(rng, rng.randint(1, 4), rng.randint(1, 4))
        ts = show(t)
        e1, e2 = show(equal_variant(rng, t)), show(equal_variant(rng, t))
        m = show(near_miss(rng, t))
        for x, y in ((ts, ts), (ts, "!" + ts), ("#x=" + ts, "$x"), (ts, e1), (e1, ts), (e1, e2), (ts, e2),
                     (ts, m), (m, ts), (e1, m)):
            cases.append("%s %s" % (x, y))
        triples.append((ts, e1, e2))
        # a sub-value shared between the operands and inside one operand
        sub = show(gen_tree(rng, 2, 3))
        cases.append("(L #s=%s %s $s) (L $s %s %s)" % (sub, ts, ts, sub))
        cases.append("(P #s=%s $s) (P %s !%s)" % (sub, sub, sub))
        u = show(gen_tree(rng, rng.randint(1, 3), 3))
        cases.append("%s %s" % (ts, u))
        cases.append("%s %s" % (u, ts))
        triples.append((ts, u, m))
    # 3b. one stored concatenation / list / pair used several times inside one operand (all templates x all subs),
    #     and the same inside random trees
    for cont in SHARED_CONTAINERS:
        for sub in SHARED_SUBS:
            for x, y in sharing_cases(cont, sub):
                cases.append("%s %s" % (x, y))
    for _ in range(3000 if tier == "thorough" else 400):
        t = gen_tree(rng, rng.randint(2, 4), rng.randint(2, 4))
        r = share_in_tree(rng, t)
        if r:
            shared, unshared = r
            cases += ["%s %s" % (shared, unshared), "%s %s" % (unshared, shared), "%s %s" % (shared, show(near_miss(rng, t)))]
    # 4. mismatch deep inside nested data, long tails pending on the stack
    for n in (range(1, 40) if tier == "thorough" else (1, 2, 3, 5, 8, 13, 21)):
        good, bad = deep_chain(n)
        g, b = show(good), show(bad)
        cases += ["%s %s" % (g, b), "%s %s" % (b, g), "%s %s" % (g, g), "%s !%s" % (g, g)]
        wide_a = "(L" + "".join(" i%x" % k for k in range(n * 3)) + ")"
        wide_b = "(L" + "".join(" i%x" % (k if k != 1 else 99) for k in range(n * 3)) + ")"
        wide_c = "(L" + "".join(" i%x" % k for k in range(n * 3 + 1)) + ")"
        cases += ["%s %s" % (wide_a, wide_b), "%s %s" % (wide_a, wide_c), "%s %s" % (wide_c, wide_a), "%s %s" % (wide_a, wide_a)]
    seen, out = set(), []
    for c in cases:
        if c not in seen:
            seen.add(c)
            out.append(c)
    return out, exhaustive_set, triples


# ----------------------------------------------------------------- the check
TRUSTED = vplib.BASE_TRUSTED + [
    "axioms (Print Assumptions): the four standard-library axioms Flocq's real-number development depends on (numeric equality)",
    "tools/sync/eqtable.py extracts the arms of data_equal and recognises each body (exercised by the correspondence run)",
    "getters and item iterators of the data implementations are abstracted to value trees; tied by correspondence on both implementations",
    "tools/props/c11.py: independent structural-equality oracle (canonical forms, exact rationals for numbers)",
]


def run_pair(cases):
    text = "\n".join(cases) + "\n"
    exe = vplib.private_copy(vplib.harness_bin("eq"))   # a concurrent rebuild cannot replace it mid-run
    try:
        rc, impl = vplib.run_lines([exe], text, timeout=1200)
    finally:
        os.unlink(exe)
    if rc != 0 or len(impl) != len(cases):
        return None, None, "eq harness rc=%s lines=%d/%d" % (rc, len(impl), len(cases))
    if not os.path.exists(vplib.OCAML_BUILD + "/eq_driver"):
        return impl, None, "eq_driver missing"
    rc, model = vplib.run_lines([vplib.OCAML_BUILD + "/eq_driver"], "\n".join(impl) + "\n", timeout=1800)
    if rc != 0 or len(model) != len(cases):
        return impl, None, "eq_driver rc=%s lines=%d/%d %s" % (rc, len(model), len(cases), model[-1:] if model else "")
    return impl, model, None


def impl_fields(field):
    """'S=TF d5:4,5:4 B=TF d5:4,5:4' -> {'S': ('T','F','d5:4,5:4'), ...}"""
    out = {}
    parts = field.split(" ")
    for i in range(0, len(parts) - 1, 2):
        name, _, letters = parts[i].partition("=")
        toks = []
        for ch in letters:
            if ch == "*" and toks:
                toks[-1] += "*"
            else:
                toks.append(ch)
        out[name] = (toks[0] if toks else "?", toks[1] if len(toks) > 1 else "?", parts[i + 1])
    return out


def judge(field, exp):
    bad = []
    if field == "BADCASE":
        return ["harness could not parse the case"]
    want_eq = "T" if exp else "F"
    want_ne = "F" if exp else "T"
    for name, (e, n, depths) in impl_fields(field).items():
        if e != want_eq:
            bad.append("%s: == gives %s, structural equality is %s" % (name, e, want_eq))
        if n != want_ne:
            bad.append("%s: != gives %s, expected %s" % (name, n, want_ne))
        if e in ("T", "F") and n in ("T", "F") and e == n:
            bad.append("%s: != is not the negation of ==" % name)
        if "*" in e or "*" in n:
            bad.append("%s: operand stack not restored (%s)" % (name, depths))
    return bad


def run(tier, seed):
    v = Verdict(PID, tier, seed)
    v.assumptions = ["values range over C11's domain: unit, booleans, numbers, chars, bytes, symbols, symbol lists (two or more "
                     "symbols), char lists, byte lists, pairs, lists, concatenations; ranges and slices are not compared",
                     "reflexivity is claimed for NaN-free values"]
    sy = vplib.sync(["instr", "eqtable", "cmptable"])
    for name, err in sy.get("errors", {}).items():
        v.tie_failure("sync %s: %s" % (name, err))
    pr = vplib.prove(PID, ["Proofs/C11"], extra_targets=["Extract/EqExtract.vo"])
    for f in pr["failures"]:
        v.tie_failure("prove: " + f)
    if not pr["ok"]:
        vplib.coq_make(["Extract/EqExtract.vo"], timeout=600)
    v.coverage.update(vplib.proof_coverage(
        pr, "make -C coq Properties/C11.vo && coqc Properties/C11.v (Print Assumptions) && tools/props/c11.py correspondence", TRUSTED))
    v.coverage["tables_regenerated"] = sy.get("changed", [])
    ok, out = vplib.cargo_build("debug", bins=["eq"])
    if not ok:
        v.tie_failure("harness build failed: " + out[-400:])
    okm, outm = vplib.ocaml_build("eq") if os.path.exists(vplib.OCAML_BUILD + "/eq_model.ml") else (False, "no extracted model")
    if not okm:
        v.tie_failure("model driver build failed: " + outm[-300:])
    cases, exhaustive_set, triples = gen_cases(tier, seed)
    hist = {"cases": len(cases), "model_disagreements": 0, "property_failures": 0, "expected_equal": 0, "expected_different": 0,
            "symmetry_pairs_checked": 0, "transitivity_triples_checked": 0, "reflexive_cases": 0, "with_shared_subvalues": 0, "shared_compound_used_twice_in_one_operand": 0,
            "built_by_alternate_route": 0}
    depth_hist, size_hist = {}, {}
    distinct, samples = set(), []
    if ok:
        impl, model, err = run_pair(cases)
        if err:
            v.tie_failure("correspondence run: " + err)
        results = {}
        listed = {f["id"] for f in vplib.findings_for(PID)}
        if impl is not None:
            for i, line in enumerate(impl):
                case, field, _ = line.split("\t")
                results[case] = field
                try:
                    a, b = parse_case(case)
                except Exception as ex:   # generator bug, not a property matter
                    v.tie_failure("oracle could not parse %r: %s" % (case, ex))
                    continue
                exp = struct_eq(a, b)
                hist["expected_equal" if exp else "expected_different"] += 1
                if "$" in case: hist["with_shared_subvalues"] += 1
                if "#c=(" in case and "$c" in case: hist["shared_compound_used_twice_in_one_operand"] += 1
                if "!" in case: hist["built_by_alternate_route"] += 1
                sz = min(size(a) + size(b), 60) // 10 * 10
                size_hist[str(sz)] = size_hist.get(str(sz), 0) + 1
                if size(a) + size(b) > 2:
                    distinct.add(case)
                mres = cspec = None
                if model is not None:
                    _, mres, cspec = model[i].split("\t")
                bad = judge(field, exp)
                if cspec in ("T", "F") and (cspec == "T") != exp:
                    bad.append("Coq struct_eq says %s, Python oracle says %s" % (cspec, exp))
                # reflexivity on the implementation's own answers
                if ceq(canon(a), canon(b)) and not has_nan(a):
                    hist["reflexive_cases"] += 1
                if len(samples) < 8 and i % max(1, len(impl) // 8) == 0:
                    samples.append({"case": case[:200], "impl": field, "model": mres, "oracle": exp, "coq_struct_eq": cspec})
                if bad:
                    fid = classify(case, field, exp)
                    if fid and fid in listed:
                        v.known_hit(fid, "%s -> %s (expected %s)" % (case, field, exp))
                    else:
                        hist["property_failures"] += 1
                        v.violation(component="eq", input=case, impl=field, expected="T" if exp else "F", model=mres,
                                    coq_struct_eq=cspec, what="; ".join(bad[:4]))
                elif mres is not None:
                    for name, (e, n, depths) in impl_fields(field).items():
                        if e + n != mres:
                            hist["model_disagreements"] += 1
                            if hist["model_disagreements"] <= 5:
                                v.tie_failure("correspondence eq: %s impl=%s model=%s" % (case, field, mres))
                            break
            # relational laws on the implementation's own answers (independent of the oracle)
            def ans(x, y, name):
                f = results.get("%s %s" % (x, y))
                if not f or f == "BADCASE":
                    return None
                return impl_fields(f).get(name, ("?",))[0]
            for name in ("S", "B"):
                eqs = {}
                for a in exhaustive_set:
                    for b in exhaustive_set:
                        r1, r2 = ans(a, b, name), ans(b, a, name)
                        hist["symmetry_pairs_checked"] += 1
                        if r1 is not None and r2 is not None and r1 != r2 and hist["property_failures"] < 20:
                            hist["property_failures"] += 1
                            v.violation(component="eq", input="%s %s" % (a, b), impl="%s: a==b %s, b==a %s" % (name, r1, r2),
                                        what="== is not symmetric")
                        if r1 == "T":
                            eqs.setdefault(a, []).append(b)
                for a, bs in eqs.items():
                    for b in bs:
                        for c in eqs.get(b, []):
                            hist["transitivity_triples_checked"] += 1
                            if ans(a, c, name) != "T" and hist["property_failures"] < 20:
                                hist["property_failures"] += 1
                                v.violation(component="eq", input="%s %s" % (a, c), impl="%s: a==b, b==c but a==c is %s" % (name, ans(a, c, name)),
                                            triple=[a, b, c], what="== is not transitive")
                for (a, b, c) in triples:
                    ab, bc, ac = ans(a, b, name), ans(b, c, name), ans(a, c, name)
                    if None in (ab, bc, ac):
                        continue
                    hist["transitivity_triples_checked"] += 1
                    if ab == "T" and bc == "T" and ac != "T" and hist["property_failures"] < 20:
                        hist["property_failures"] += 1
                        v.violation(component="eq", input="%s %s" % (a, c), impl="%s: a==b, b==c but a==c is %s" % (name, ac),
                                    triple=[a, b, c], what="== is not transitive")
    v.coverage.update({
        "evaluations": len(cases) * 4,
        "distinct_nontrivial": len(distinct),
        "rule": "all ordered pairs of value trees of depth <= 1 and width <= 2 over a small leaf alphabet (unit, 1, 1.0, 'a', \"a\", \"\", "
                "empty list; quick tier: a seeded subset of the trees, still all pairs); all ordered pairs of 41 leaves covering every "
                "kind incl. NaN, signed zeros, i32 bounds as floats, multi-byte text; seeded random trees (depth <= 4, width <= 4) each "
                "against itself, a copy built by another route, itself through a shared address, two equal variants (re-associated "
                "concatenations, list <-> concatenation, int <-> float, char <-> one-element list), a near-miss mutant and an "
                "unrelated tree, in both orders; shared sub-values; one stored concatenation / list / pair used two or three times inside one operand (12 container shapes x 10 sub-values, and inside random trees) against the same tree with every occurrence built separately, its flat item list and the once-only sequences; deep chains and wide lists whose only difference is far inside, "
                "so many pairs are pending on the operand stack at the early exit. Each case runs Equal and NotEqual on both data "
                "implementations; non-trivial = at least one operand is not a leaf",
        "samples": samples,
        "histogram": hist,
        "size_histogram": size_hist,
        "implementations": ["SimpleGarnishData", "BasicGarnishData"],
    })
    return v.finish("proof")


def replay(obj):
    cases = [x["input"] for x in obj.get("violations", []) if "input" in x]
    if not cases:
        print("replay names a broken tie, not an input:", obj.get("no_longer_checks"))
        return run("quick", obj.get("seed", 0))
    vplib.cargo_build("debug", bins=["eq"])
    impl, model, err = run_pair(cases)
    rc = 0
    for line in impl or []:
        case, field, _ = line.split("\t")
        a, b = parse_case(case)
        exp = struct_eq(a, b)
        bad = judge(field, exp)
        if bad:
            rc = 1
        print("%s: %s impl=%s expected=%s %s" % ("FAILS" if bad else "ok", case, field, "T" if exp else "F", "; ".join(bad[:3])))
    return rc
