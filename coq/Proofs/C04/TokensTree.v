(* C04: the two unbounded halves combined - every token that must have a node has exactly
   one, in token order, and that node is part of the validated tree. *)
From Coq Require Import List Arith Bool NArith Lia.
From GV Require Import Base.Result Gen.TokenTypes Gen.Defs Model.Parser Spec.TreeShape Spec.TokenAccount
  Proofs.C04.Validated Proofs.C04.Tokens.
Import ListNotations.

Lemma separator_tokens_are_maybe_dropped t :
  maybe_dropped t = false ->
  definition_eqb (fst (get_definition t)) D_Subexpression || definition_eqb (fst (get_definition t)) D_ExpressionSeparator = false.
Proof. destruct t; vm_compute; intros H; try reflexivity; discriminate. Qed.

Lemma in_labels ns l : In l (labels ns) -> exists j n, nth_error ns j = Some n /\ label_of n = l.
Proof.
  unfold labels. intros H. apply in_map_iff in H. destruct H as [n [Hl Hin]].
  apply In_nth_error in Hin. destruct Hin as [j Hj]. exists j, n. split; assumption.
Qed.

Theorem parse_tokens_in_tree toks root ns :
  parse toks = Ok (root, ns) -> ns <> [] ->
  exists v : list bool,
    marked v root /\ (forall i, marked v i -> children_ok ns v i) /\
    forall k t, nth_error (snd (trim_tokens toks)) k = Some t ->
      never_a_node t = false -> maybe_dropped t = false ->
      exists j n, nth_error ns j = Some n /\ marked v j /\ label_matches t k (label_of n).
Proof.
  intros Hp Hne.
  destruct (parse_accepts_only_trees toks root ns Hp Hne) as [v [Hroot [_ [Hch Hall]]]].
  exists v. split; [exact Hroot|]. split; [exact Hch|].
  intros k t Hk Hn Hm.
  pose proof (parse_tokens_accounted toks root ns Hp) as Hacc.
  destruct (accounted_complete _ _ _ _ Hacc k t Hk Hn Hm) as [l [Hl Hlm]].
  destruct (in_labels ns l Hl) as [j [n [Hj Hlab]]].
  exists j, n. split; [exact Hj|]. split; [|rewrite Hlab; exact Hlm].
  destruct (Hall j n Hj) as [Hmk|Hsep]; [exact Hmk|]. exfalso.
  pose proof (separator_tokens_are_maybe_dropped t Hm) as Hns.
  unfold is_separator_node in Hsep. subst l.
  destruct Hlm as [_ [_ [Hd|[Hd _]]]]; cbn [label_of fst snd] in Hd.
  - rewrite Hd in Hsep. rewrite Hns in Hsep. discriminate.
  - rewrite Hd in Hsep. discriminate.
Qed.
