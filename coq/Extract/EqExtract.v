(* Extraction of the equality model for the correspondence check (C11).
   ExtrOcamlBasic only; positive/N/Z/nat stay Coq datatypes. No Extract Constant. *)
Require Import ExtrOcamlBasic.
From Coq Require Import ZArith NArith.
From Flocq Require Import IEEE754.Binary IEEE754.Bits.
From GV Require Import Gen.Instr Gen.EqTable Model.Num Model.Value Model.Equality Spec.StructEq.
Cd "../build/ocaml".
Extraction "eq_model.ml" equal not_equal equal_fuel struct_eq all_data_type b64_of_bits bits_of_b64.
Cd "../../coq".
