(* Where `^~` cannot surface: an expression body catches it (run_body, hence
   apply), and an expression without a `^~` outside nested bodies never
   produces it. *)
From Coq Require Import ZArith NArith List Bool Arith Lia.
From GV Require Import Base.Result Base.Host Gen.Instr Model.Num Model.Value Spec.Ast Spec.Eval
  Proofs.C01.Fragment.
Import ListNotations.

Section NoRestart.
Variable sym_hash : list N -> N.
Variable hstate : Type.
Variable host : hstate -> host_call -> hstate * option val.
Variable pbodies : list (N * expr).
Notation est := (st hstate).
Notation eval := (eval sym_hash hstate host pbodies).
Notation eval_items := (eval_items sym_hash hstate host pbodies).
Notation eval_chain := (eval_chain sym_hash hstate host pbodies).
Notation apply_val := (apply_val sym_hash hstate host pbodies).
Notation run_body := (run_body sym_hash hstate host pbodies).

Lemma obind_restart' : forall (A B : Type) (o : out est A) (k : A -> est -> out est B) v s',
  obind o k = ORestart v s' ->
  o = ORestart v s' \/ exists a s1, o = ODone a s1 /\ k a s1 = ORestart v s'.
Proof.
  intros A B o k v s' H. destruct o; cbn in H; try discriminate;
    [right; eauto | left; injection H as -> ->; reflexivity].
Qed.

Lemma run_body_S' : forall n b vin (s : est),
  run_body (S n) b vin s =
  match eval n b vin s with
  | ORestart v s' => run_body n b v s'
  | o => o
  end.
Proof. reflexivity. Qed.

Lemma run_body_no_restart : forall n b vin (s : est) v s', run_body n b vin s <> ORestart v s'.
Proof.
  induction n; intros b vin s v s' H; [discriminate|].
  rewrite run_body_S' in H. destruct (eval n b vin s) eqn:E; try discriminate.
  eapply IHn; eauto.
Qed.

Lemma apply_no_restart : forall n f x (s : est) v s', apply_val n f x s <> ORestart v s'.
Proof.
  intros n f x s v s' H. destruct n; [discriminate|].
  destruct f; cbn [Eval.apply_val] in H;
    try (unfold lift in H; destruct (prim_apply_data _ _) as [[r|] w]; discriminate).
  - destruct (find_body pbodies body); [|discriminate]. eapply run_body_no_restart; eauto.
  - destruct (call_host hstate host (HApply n0 x) s). discriminate.
Qed.

Definition NoRestart (n : nat) : Prop :=
  (forall e vin (s : est) v s', has_reapply e = false -> eval n e vin s <> ORestart v s') /\
  (forall k e vin (s : est) v s', has_reapply e = false -> eval_items n k e vin s <> ORestart v s') /\
  (forall e vin (s : est) v s', has_reapply e = false -> eval_chain n e vin s <> ORestart v s').

Ltac nr IH1 IH2 IH3 :=
  repeat match goal with
  | H : obind ?o ?k = ORestart _ _ |- _ =>
      apply obind_restart' in H; destruct H as [H | (? & ? & ? & H)];
      [ solve [ eapply IH1; [|exact H]; assumption | eapply IH2; [|exact H]; assumption | eapply IH3; [|exact H]; assumption ] | ]
  | H : (if ?c then _ else _) = ORestart _ _ |- _ => destruct c
  | H : ODone _ _ = ORestart _ _ |- _ => discriminate
  | H : OUnspec _ = ORestart _ _ |- _ => discriminate
  | H : lift _ _ _ = ORestart _ _ |- _ => unfold lift in H
  | H : _ = ORestart _ _ |- _ => solve [exfalso; eapply apply_no_restart; exact H]
  | H : match ?x with _ => _ end = ORestart _ _ |- _ => destruct x eqn:?
  end.

Lemma or_false : forall a b, a || b = false -> a = false /\ b = false.
Proof. intros. apply orb_false_elim; auto. Qed.

Lemma no_restart : forall n, NoRestart n.
Proof.
  induction n.
  - repeat split; unfold not; intros; match goal with H : _ = ORestart _ _ |- _ => cbn in H; discriminate end.
  - destruct IHn as (IH1 & IH2 & IH3). repeat split.
    + intros e vin s v s' Hf H. destruct e; cbn [has_reapply] in Hf; try discriminate;
        try (apply or_false in Hf; destruct Hf as [Hf1 Hf2]).
      * cbn [Eval.eval] in H. unfold resolve_ident in H.
        destruct (by_symbol vin (sym_hash name)); try discriminate.
        destruct (call_host hstate host (HResolve (sym_hash name)) s). discriminate.
      * destruct o; cbn [Eval.eval] in H; nr IH1 IH2 IH3.
      * destruct o; cbn [Eval.eval] in H; nr IH1 IH2 IH3.
      * cbn [Eval.eval] in H; nr IH1 IH2 IH3.
      * cbn [Eval.eval] in H; nr IH1 IH2 IH3.
      * cbn [Eval.eval] in H. apply obind_restart' in H. destruct H as [H | (? & ? & ? & H)]; [|discriminate].
        eapply IH2; [|exact H]. cbn [has_reapply]. rewrite Hf1, Hf2. reflexivity.
      * cbn [Eval.eval] in H. eapply IH1; eauto.
      * cbn [Eval.eval] in H; nr IH1 IH2 IH3; eapply IH1; eauto.
      * cbn [Eval.eval] in H. apply obind_restart' in H. destruct H as [H | (? & ? & ? & H)].
        -- eapply IH3; [|exact H]. cbn [has_reapply]. rewrite Hf1, Hf2. reflexivity.
        -- destruct x; discriminate.
      * cbn [Eval.eval] in H; nr IH1 IH2 IH3; eapply IH1; eauto.
      * cbn [Eval.eval] in H; nr IH1 IH2 IH3.
    + intros k e vin s v s' Hf H.
      assert (Hgen : forall (o : out est val), o = eval n e vin s ->
                obind o (fun v0 s1 => ODone [v0] s1) = ORestart v s' -> False).
      { intros o -> H2. apply obind_restart' in H2. destruct H2 as [H2 | (? & ? & ? & H2)]; [|discriminate].
        eapply IH1; eauto. }
      destruct e; cbn [Eval.eval_items] in H; try (eapply Hgen; [reflexivity | exact H]).
      cbn [has_reapply] in Hf. apply or_false in Hf. destruct Hf as [Hf1 Hf2].
      destruct (match k with Space => match k0 with Space => true | Comma => false end
                | Comma => match k0 with Space => false | Comma => true end end).
      * apply obind_restart' in H. destruct H as [H | (? & ? & ? & H)].
        -- destruct (is_list_of k e1).
           ++ eapply IH2; [|exact H]; assumption.
           ++ nr IH1 IH2 IH3.
        -- nr IH1 IH2 IH3.
      * eapply Hgen; [reflexivity | exact H].
    + intros e vin s v s' Hf H.
      assert (Hgen : forall (o : out est val), o = eval n e vin s ->
                obind o (fun v0 s1 => ODone (Some v0) s1) = ORestart v s' -> False).
      { intros o -> H2. apply obind_restart' in H2. destruct H2 as [H2 | (? & ? & ? & H2)]; [|discriminate].
        eapply IH1; eauto. }
      destruct e; cbn [Eval.eval_chain] in H; try (eapply Hgen; [reflexivity | exact H]);
        cbn [has_reapply] in Hf; apply or_false in Hf; destruct Hf as [Hf1 Hf2].
      * nr IH1 IH2 IH3.
      * nr IH1 IH2 IH3. eapply IH3; eauto.
Qed.

End NoRestart.
