(* Proof terms of the theorems stated in Properties/C05.v (the property file only
   states them and checks their assumptions). *)
From Coq Require Import List Arith Bool NArith.
From GV Require Import Base.Result Gen.TokenTypes Gen.Defs Gen.Instr Model.Parser Model.BuilderWL Model.Compile
  Spec.WfCode Proofs.C05.Known Proofs.C05.WfSound Proofs.C05.Bounded Proofs.C05.Refuted Proofs.C05.Operands Proofs.C05.Jumps Proofs.C05.Bodies Proofs.C05.Bounded7.
Import ListNotations.

Lemma C05_triples_bounded_3_proof : forall a b c init, In init inits ->
  build_wf_or_known [a; b; c] init.
Proof. intros a b c init Hi. exact (proj1 (check_b_meaning _ init (triples_check a b c) Hi)). Qed.

Lemma C05_reduced_bounded_5_proof : forall toks init,
  length toks <= 5 -> (forall x, In x toks -> In x reduced_alphabet) -> In init inits ->
  build_wf_or_known toks init.
Proof. intros toks init Hl Ha Hi. exact (proj1 (check_b_meaning _ init (reduced_check toks Hl Ha) Hi)). Qed.

Lemma C05_compile_agrees_bounded_3_proof : forall a b c init, In init inits -> compile_agrees [a; b; c] init.
Proof. intros a b c init Hi. exact (proj2 (check_b_meaning _ init (triples_check a b c) Hi)). Qed.

Lemma C05_compile_agrees_bounded_5_proof : forall toks init,
  length toks <= 5 -> (forall x, In x toks -> In x reduced_alphabet) -> In init inits ->
  compile_agrees toks init.
Proof. intros toks init Hl Ha Hi. exact (proj2 (check_b_meaning _ init (reduced_check toks Hl Ha) Hi)). Qed.

Lemma C05_small_bounded_7_proof : forall toks init,
  length toks = 7 -> (forall x, In x toks -> In x small_alphabet) -> In init inits ->
  build_wf_or_known toks init /\ compile_agrees toks init.
Proof. intros toks init Hl Ha Hi. exact (check_b_meaning _ init (small_check_b toks Hl Ha) Hi). Qed.

Lemma C05_operands_meta_all_trees_proof : forall nodes root t init lit r,
  tree_of nodes root = Some t ->
  compile init lit t = Ok r ->
  operands_wf nodes init (code_of_compile r) /\ meta_wf nodes (code_of_compile r).
Proof.
  intros nodes root t init lit r Ht Hc.
  exact (compile_operands_meta nodes init lit t r (tree_of_in nodes root t Ht) Hc).
Qed.

Lemma C05_full_proof :
  forall nodes root t init lit r,
    tree_of nodes root = Some t ->
    ~ Known_C05_K2 t ->
    compile init lit t = Ok r ->
    wf_code nodes init (code_of_compile r).
Proof.
  intros nodes root t init lit r Ht Hk2 Hc.
  apply (compile_wf init lit nodes t r (tree_of_in nodes root t Ht)); [| exact Hc].
  unfold tree_good. destruct (drops_arms t) eqn:E; [exfalso; apply Hk2; exact E | reflexivity].
Qed.
